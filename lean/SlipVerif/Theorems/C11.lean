import SlipVerif.Lemmas.Flavors
import SlipVerif.Lemmas.FlavorsSend
/-
  C11 — flavor inheritance and daemon order follow component order, whatever the history.

  Property theorems about SlipVerif.Model.Flavors, the model the correspondence harness
  (harness/cmd/vh/c11.go) runs against the implementation. `run` evaluates the forms one after the
  other the way slip does (copy at defflavor time, splice at defmethod time); `flatten`, `daemon`,
  `specCombos`, `specSlot`, `specTrace` are functions of the forms alone.
  Histories are in chronological order. `valid h`: flavor names are fresh, components are defined
  before their users, methods are defined on defined flavors (before or after the flavors that
  inherit them — that is the point), vanilla-flavor is not touched.
-/
namespace SlipVerif.Flavors

/-- a history used by the `example`s: flavor 3 = (1 2); the methods of the components 1 and 2 are
    defined AFTER flavor 3, the one of the second component first -/
def exampleHistory : List Form :=
  [ .defflavor 1 [] [(1, some 5)],
    .defflavor 2 [] [(1, some 7), (2, none)],
    .defflavor 3 [1, 2] [],
    .defmethod 2 .before 1 10,
    .defmethod 1 .before 1 11,
    .defmethod 3 .primary 1 12,
    .defmethod 1 .whopper 1 13,
    .defmethod 2 .after 1 14,
    .defmethod 1 .primary 9 15 ]

/-- the same forms in textual order (every method right after its flavor) -/
def exampleHistory' : List Form :=
  [ .defflavor 1 [] [(1, some 5)],
    .defmethod 1 .before 1 11,
    .defmethod 1 .whopper 1 13,
    .defmethod 1 .primary 9 15,
    .defflavor 2 [] [(1, some 7), (2, none)],
    .defmethod 2 .before 1 10,
    .defmethod 2 .after 1 14,
    .defflavor 3 [1, 2] [],
    .defmethod 3 .primary 1 12 ]

example : valid exampleHistory = true := by decide
example : valid exampleHistory' = true := by decide
example : (methodKeys exampleHistory).Nodup := by decide
example : 3 ∈ defined exampleHistory := by decide
example : flatten exampleHistory 3 = [3, 1, 2, 0] := by decide

/-! ## the incremental tables are the specification -/

/-- Every valid history is accepted, and afterwards every flavor's inherit list, every method
    table and every slot table is what the specification computes from the forms. -/
theorem run_eq_spec (vm : List Msg) (h : List Form) (hv : valid h = true) :
    ∃ st, run vm h = .ok st ∧ ∀ fl, fl ∈ defined h →
      fl :: st.inh fl = flatten h fl ∧ (∀ m, st.tab fl m = specCombos vm h fl m)
        ∧ (∀ s, st.slots fl s = specSlot h fl s) := by
  obtain ⟨st, hrun, hI⟩ := run_inv vm h.reverse hv
  rw [List.reverse_reverse] at hrun
  exact ⟨st, hrun, fun fl hfl =>
    ⟨flattenR_eq_cons_inh hI hfl, hI.tab fl hfl, hI.slots fl hfl⟩⟩

/-- `tables_eq_spec`: for every valid history — components defined before users, fresh names,
    methods defined before OR after the flavors that inherit them — the table built
    incrementally equals `specCombos = (flatten fl).filterMap (combination of that flavor)`. -/
theorem tables_eq_spec (vm : List Msg) (h : List Form) (hv : valid h = true) :
    ∃ st, run vm h = .ok st ∧ ∀ fl, fl ∈ defined h → ∀ m, st.tab fl m = specCombos vm h fl m := by
  obtain ⟨st, hrun, hs⟩ := run_eq_spec vm h hv
  exact ⟨st, hrun, fun fl hfl => (hs fl hfl).2.1⟩

/-- the flattened inherit list slip keeps (`Flavor.inherit`, `Flavor.Precedence`) is `flatten` -/
theorem inherit_eq_flatten (vm : List Msg) (h : List Form) (hv : valid h = true) :
    ∃ st, run vm h = .ok st ∧ ∀ fl, fl ∈ defined h → fl :: st.inh fl = flatten h fl := by
  obtain ⟨st, hrun, hs⟩ := run_eq_spec vm h hv
  exact ⟨st, hrun, fun fl hfl => (hs fl hfl).1⟩

/-! ## what `flatten` is: depth-first, as written, first occurrence wins — independent of the
    order of the forms -/

/-- `flatten` is the precedence without vanilla-flavor followed by vanilla-flavor -/
theorem flatten_eq (h : List Form) (fl : Name) : flatten h fl = prec h fl ++ [vanilla] := rfl

/-- the defining equation: a flavor, then the precedence lists of its components in the order
    written, duplicates removed keeping the first occurrence -/
theorem prec_equation (h : List Form) (hv : valid h = true) {n : Name} {cs : List Name}
    {sl : List (Slot × Option Int)} (hm : Form.defflavor n cs sl ∈ h) :
    prec h n = n :: dedup (cs.flatMap (prec h)) :=
  precR_equation hv (List.mem_reverse.mpr hm)

/-- the equation determines the precedence list of every defined flavor -/
theorem prec_unique (h : List Form) (hv : valid h = true) (G : Name → List Name)
    (hG : ∀ n cs sl, Form.defflavor n cs sl ∈ h → G n = n :: dedup (cs.flatMap G)) :
    ∀ n, n ∈ defined h → G n = prec h n :=
  precR_unique hv G (fun n cs sl hm => hG n cs sl (List.mem_reverse.mp hm))

/-- `:included-flavors` of a non-abstract flavor (the driver hands them to `defflavor` behind the
    written components, as slip's `addIncludes` does): they follow all written components and
    everything those bring along, in the order listed -/
theorem included_flavors_after_components (h : List Form) (hv : valid h = true) {n : Name}
    {cs inc : List Name} {sl : List (Slot × Option Int)} (hm : Form.defflavor n (cs ++ inc) sl ∈ h) :
    prec h n = n :: dedup (cs.flatMap (prec h) ++ inc.flatMap (prec h)) := by
  rw [prec_equation h hv hm, List.flatMap_append]

example : prec [Form.defflavor 1 [] [], .defflavor 2 [] [], .defflavor 3 ([1] ++ [2]) []] 3 = [3, 1, 2] := by decide

/-- `dedup` keeps exactly the members, each once; by definition
    `dedup (x :: xs) = x :: (dedup xs).filter (· ≠ x)`: the first occurrence stays -/
theorem dedup_spec (l : List Name) : (dedup l).Nodup ∧ ∀ x, x ∈ dedup l ↔ x ∈ l :=
  ⟨nodup_dedup l, fun x => mem_dedup x l⟩

/-- the precedence list has no duplicates, starts with the flavor, contains only defined
    flavors (never vanilla-flavor, which `flatten` puts last) and contains the precedence list of
    each of its members -/
theorem prec_wellformed (h : List Form) (hv : valid h = true) {fl : Name} (hfl : fl ∈ defined h) :
    (prec h fl).Nodup ∧ (prec h fl).head? = some fl ∧ (∀ x, x ∈ prec h fl → x ∈ defined h ∧ x ≠ vanilla)
      ∧ ∀ x, x ∈ prec h fl → ∀ y, y ∈ prec h x → y ∈ prec h fl := by
  refine ⟨nodup_precR hv fl, ?_, fun x hx => ⟨mem_precR_defined hv hx, precR_ne_vanilla hv hx⟩,
    fun x hx y hy => precR_closed hv hx hy⟩
  obtain ⟨t, ht⟩ := precR_head hfl
  unfold prec
  rw [ht]
  rfl

/-- `history_independent`: two valid histories made of the same forms (one form per flavor,
    daemon kind and message) build the same inherit lists, method tables and slot tables. -/
theorem history_independent (vm : List Msg) (h1 h2 : List Form) (hv1 : valid h1 = true)
    (hv2 : valid h2 = true) (hp : h1.Perm h2) (hu : (methodKeys h1).Nodup) :
    ∃ st1 st2, run vm h1 = .ok st1 ∧ run vm h2 = .ok st2 ∧ ∀ fl, fl ∈ defined h1 →
      st1.inh fl = st2.inh fl ∧ (∀ m, st1.tab fl m = st2.tab fl m)
        ∧ (∀ s, st1.slots fl s = st2.slots fl s) := by
  obtain ⟨st1, hrun1, hI1⟩ := run_inv vm h1.reverse hv1
  obtain ⟨st2, hrun2, hI2⟩ := run_inv vm h2.reverse hv2
  rw [List.reverse_reverse] at hrun1 hrun2
  have hpr : h1.reverse.Perm h2.reverse := (List.reverse_perm h1).trans (hp.trans (List.reverse_perm h2).symm)
  refine ⟨st1, st2, hrun1, hrun2, fun fl hfl => ?_⟩
  have hfl2 : fl ∈ definedR h2.reverse := (definedR_perm hpr fl).mp hfl
  refine ⟨?_, ?_, ?_⟩
  · rw [hI1.inh fl hfl, hI2.inh fl hfl2, precR_perm hv1 hv2 hpr hfl]
  · intro m
    rw [hI1.tab fl hfl m, hI2.tab fl hfl2 m]
    exact specCombosR_perm hv1 hv2 hpr hu vm hfl m
  · intro s
    rw [hI1.slots fl hfl s, hI2.slots fl hfl2 s]
    exact specSlotR_perm hv1 hv2 hpr hfl s

example : exampleHistory.Perm exampleHistory' := by decide

/-! ## the order of a send -/

/-- `send_order`: an instance of `fl` receiving `m` runs the whoppers outermost first (in
    precedence order), then every :before daemon in precedence order, the first primary in that
    order, every :after daemon in reverse precedence order, and the whoppers return innermost
    first; `(continue-whopper)` proceeds to the next whopper and from the last one to the inner
    call. The value is the value of that first primary. Precedence is `flatten`: the flavor,
    its components depth-first as written, vanilla-flavor last — whatever the order in which the
    methods and flavors were defined. -/
theorem send_order (vm : List Msg) (h : List Form) (hv : valid h = true) :
    ∃ st, run vm h = .ok st ∧ ∀ fl, fl ∈ defined h → ∀ m, specCombos vm h fl m ≠ [] →
      send st fl m = .ok (specTrace vm h fl m, (daemons vm h fl m .primary).head?) := by
  obtain ⟨st, hrun, hI⟩ := run_inv vm h.reverse hv
  rw [List.reverse_reverse] at hrun
  refine ⟨st, hrun, fun fl hfl m hne => ?_⟩
  have hd : st.defd fl = true := (hI.defd fl).mpr (Or.inr hfl)
  have ht : st.tab fl m = specCombosR vm h.reverse fl m := hI.tab fl hfl m
  unfold send
  simp only [hd, Bool.true_eq_false, if_false]
  rw [ht]
  unfold specCombos at hne
  cases hc : specCombosR vm h.reverse fl m with
  | nil => exact absurd hc hne
  | cons c cs =>
    simp only
    rw [← hc, sendTrace_spec, sendResult_spec]
    rfl

/-- a message no flavor in the precedence list has a method for is rejected -/
theorem send_no_method (vm : List Msg) (h : List Form) (hv : valid h = true) :
    ∃ st, run vm h = .ok st ∧ ∀ fl, fl ∈ defined h → ∀ m, specCombos vm h fl m = [] →
      send st fl m = .error .noMethod := by
  obtain ⟨st, hrun, hI⟩ := run_inv vm h.reverse hv
  rw [List.reverse_reverse] at hrun
  refine ⟨st, hrun, fun fl hfl m he => ?_⟩
  have hd : st.defd fl = true := (hI.defd fl).mpr (Or.inr hfl)
  unfold send
  simp only [hd, Bool.true_eq_false, if_false]
  rw [hI.tab fl hfl m]
  unfold specCombos at he
  rw [he]

example : specTrace [9] exampleHistory 3 1
    = [.whopIn 13, .before 11, .before 10, .primary 12, .after 14, .whopOut 13] := by decide
example : specTrace [9] exampleHistory 3 9 = [.primary 15] := by decide
example : specCombos [9] exampleHistory 3 1 ≠ [] := by decide

/-! ## sends with an argument; whoppers that continue zero, one or several times and pass a
    changed argument on; the default handler (extension round) -/

/-- `send_order_args`: `(send inst m a)` with arbitrary whopper bodies (`wb w` lists the
    `(continue-whopper …)` calls body `w` makes and the change of the argument in each). The
    trace is `wrapA` over the whoppers in precedence order, outermost first: a whopper's entry,
    then for every continue of its body the remaining whoppers and finally every :before in
    precedence order, the first primary, every :after in reverse order — each called with the
    argument the innermost enclosing continue passed —, then the whopper's exit. The value is the
    value of the last continue of the outermost whopper (its own value when it never continues).
    Independent of the order in which flavors, methods and whoppers were defined. -/
theorem send_order_args (wb : WhopBody) (vm : List Msg) (h : List Form) (hv : valid h = true) :
    ∃ st, run vm h = .ok st ∧ ∀ fl, fl ∈ defined h → ∀ m a, specCombos vm h fl m ≠ [] →
      sendA wb st fl m a = .ran (specTraceA wb vm h fl m a) (specResA wb vm h fl m a) := by
  obtain ⟨st, hrun, hI⟩ := run_inv vm h.reverse hv
  rw [List.reverse_reverse] at hrun
  refine ⟨st, hrun, fun fl hfl m a hne => ?_⟩
  have hd : st.defd fl = true := (hI.defd fl).mpr (Or.inr hfl)
  have ht : st.tab fl m = specCombosR vm h.reverse fl m := hI.tab fl hfl m
  unfold sendA
  simp only [hd, Bool.true_eq_false, if_false]
  rw [ht]
  unfold specCombos at hne
  cases hc : specCombosR vm h.reverse fl m with
  | nil => exact absurd hc hne
  | cons c cs =>
    simp only
    rw [← hc, sendTraceA_spec, sendResA_spec]
    rfl

/-- with bodies that continue exactly once and pass their argument on unchanged, the trace of
    `send_order_args` is the flat trace of `send_order` -/
theorem specTraceA_once (vm : List Msg) (h : List Form) (fl : Name) (m : Msg) (a : Int) :
    (specTraceA once vm h fl m a).map EvA.erase = specTrace vm h fl m := by
  unfold specTraceA specTraceAR specTrace specTraceR specInnerAR
  rw [wrapA_once]
  cases (daemonsR vm h.reverse fl m Kind.primary).head? <;>
    simp [List.map_append, List.map_map, Function.comp_def, EvA.erase]

/-- the driver's `sendA` and the `send` of `send_order` agree on what they share -/
theorem sendA_once_eq_send (st : State) (fl : Name) (m : Msg) (a : Int) (c : Combo) (cs : List Combo)
    (hd : st.defd fl = true) (ht : st.tab fl m = c :: cs) :
    ∃ tr r, sendA once st fl m a = .ran tr r ∧
      send st fl m = .ok (tr.map EvA.erase, sendResult (c :: cs)) := by
  refine ⟨callFromA once (c :: cs) (c :: cs) a, resFromA once (c :: cs) (c :: cs) a, ?_, ?_⟩
  · simp [sendA, hd, ht]
  · simp only [send, hd, ht, Bool.true_eq_false, if_false, sendTrace]
    rw [callFromA_once]

/-- a whopper body that never continues hides every other daemon: only its entry and exit -/
theorem whopper_without_continue (wb : WhopBody) (vm : List Msg) (h : List Form) (fl : Name) (m : Msg)
    (a : Int) (w : Mid) (ws : List Mid) (hw : daemons vm h fl m .whopper = w :: ws) (h0 : wb w = []) :
    specTraceA wb vm h fl m a = [.whopIn w a, .whopOut w a] ∧ specResA wb vm h fl m a = .whopper w := by
  unfold daemons at hw
  unfold specTraceA specTraceAR specResA specResAR
  rw [hw]
  exact ⟨wrapA_stop wb _ w ws a h0, by simp [wrapRes, h0]⟩

/-- a whopper body that continues twice runs everything inside it twice, each time with the
    argument that continue passed -/
theorem whopper_continues_twice (wb : WhopBody) (vm : List Msg) (h : List Form) (fl : Name) (m : Msg)
    (a d1 d2 : Int) (w : Mid) (ws : List Mid) (hw : daemons vm h fl m .whopper = w :: ws)
    (h2 : wb w = [d1, d2]) :
    specTraceA wb vm h fl m a
      = .whopIn w a :: (wrapA wb (specInnerAR vm h.reverse fl m) ws (a + d1)
          ++ wrapA wb (specInnerAR vm h.reverse fl m) ws (a + d2) ++ [.whopOut w a]) := by
  unfold daemons at hw
  unfold specTraceA specTraceAR
  rw [hw]
  exact wrapA_twice wb _ w ws a d1 d2 h2

/-- whopper bodies of the `example`s: 13 continues twice (argument +1, then +2) -/
def exampleBodies : WhopBody := fun w => if w = 13 then [1, 2] else [0]

example : specTraceA exampleBodies [9] exampleHistory 3 1 5
    = [.whopIn 13 5, .before 11 6, .before 10 6, .primary 12 6, .after 14 6,
       .before 11 7, .before 10 7, .primary 12 7, .after 14 7, .whopOut 13 5] := by decide
example : specResA exampleBodies [9] exampleHistory 3 1 5 = .primary 12 7 := by decide
example : daemons [9] exampleHistory 3 1 .whopper = [13] := by decide
example : specResA (fun _ => []) [9] exampleHistory 3 1 5 = .whopper 13 := by decide

/-! ## instance variable defaults, init keywords, accessors -/

/-- `vars_inherited_by_precedence`: the default value of an instance variable / the init
    keyword (a slot) of a flavor comes from the first flavor in its precedence list that
    declares it. (Accessors are primary methods named after the variable, so `send_order`
    covers them: the accessor that runs is the first primary in precedence order.) -/
theorem vars_inherited_by_precedence (vm : List Msg) (h : List Form) (hv : valid h = true) :
    ∃ st, run vm h = .ok st ∧ ∀ fl, fl ∈ defined h → ∀ s,
      st.slots fl s = (flatten h fl).findSome? (fun g => ownSlot h g s) := by
  obtain ⟨st, hrun, hI⟩ := run_inv vm h.reverse hv
  rw [List.reverse_reverse] at hrun
  refine ⟨st, hrun, fun fl hfl s => ?_⟩
  rw [hI.slots fl hfl s]
  unfold specSlotR flatten flattenR ownSlot
  rw [List.findSome?_append]
  have hvan : ownSlotR h.reverse vanilla s = none := by
    have : vanilla ∉ definedR h.reverse := vanilla_not_defined hv
    generalize h.reverse = hr at this
    induction hr with
    | nil => rfl
    | cons f hr ih =>
      cases f with
      | defflavor n cs sl =>
        simp only [definedR, List.mem_cons, not_or] at this
        simp [ownSlotR, this.1, ih this.2]
      | defmethod fl k m id =>
        simp only [definedR] at this
        simp [ownSlotR, ih this]
  simp [hvan]

example : specSlot exampleHistory 3 1 = some (some 5) := by decide
example : specSlot exampleHistory 3 2 = some none := by decide
example : specSlot exampleHistory 3 3 = none := by decide

/-- `default_handler_by_precedence`: a message no flavor of the precedence list has a method for
    goes to the default handler of the first flavor in precedence order that declares one
    (`:default-handler`); without any it is rejected. -/
theorem default_handler_by_precedence (wb : WhopBody) (vm : List Msg) (h : List Form)
    (hv : valid h = true) :
    ∃ st, run vm h = .ok st ∧ ∀ fl, fl ∈ defined h → ∀ m a, specCombos vm h fl m = [] →
      sendA wb st fl m a =
        (match (flatten h fl).findSome? (fun g => ownSlot h g handlerSlot) with
         | some (some hd) => Outcome.handled hd
         | _ => Outcome.noMethod) := by
  obtain ⟨st, hrun, hs⟩ := run_eq_spec vm h hv
  obtain ⟨st', hrun', hsl⟩ := vars_inherited_by_precedence vm h hv
  have hst : st' = st := by
    rw [hrun] at hrun'
    exact (Except.ok.inj hrun').symm
  subst hst
  obtain ⟨st2, hrun2, hI⟩ := run_inv vm h.reverse hv
  rw [List.reverse_reverse] at hrun2
  have hst2 : st2 = st' := by
    rw [hrun] at hrun2
    exact (Except.ok.inj hrun2).symm
  subst hst2
  refine ⟨st2, hrun, fun fl hfl m a he => ?_⟩
  have hd : st2.defd fl = true := (hI.defd fl).mpr (Or.inr hfl)
  unfold sendA
  simp only [hd, Bool.true_eq_false, if_false]
  rw [(hs fl hfl).2.1 m, he, hsl fl hfl handlerSlot]
  rfl

example : (flatten [Form.defflavor 1 [] [], .defflavor 2 [] [(20, some 7)], .defflavor 3 [1, 2] []] 3).findSome?
    (fun g => ownSlot [Form.defflavor 1 [] [], .defflavor 2 [] [(20, some 7)], .defflavor 3 [1, 2] []] g handlerSlot)
      = some (some 7) := by decide

/-- `send_history_independent`: the last sentence of the property. Two valid histories made of the
    same forms (one form per flavor, daemon kind and message) — e.g. the methods defined before
    the flavors that inherit them in one, after them in the other — give the same outcome for
    every send: same daemons in the same order with the same arguments, same value, same default
    handler. -/
theorem send_history_independent (wb : WhopBody) (vm : List Msg) (h1 h2 : List Form)
    (hv1 : valid h1 = true) (hv2 : valid h2 = true) (hp : h1.Perm h2) (hu : (methodKeys h1).Nodup) :
    ∃ st1 st2, run vm h1 = .ok st1 ∧ run vm h2 = .ok st2 ∧ ∀ fl, fl ∈ defined h1 → ∀ m a,
      sendA wb st1 fl m a = sendA wb st2 fl m a := by
  obtain ⟨st1, hrun1, hI1⟩ := run_inv vm h1.reverse hv1
  obtain ⟨st2, hrun2, hI2⟩ := run_inv vm h2.reverse hv2
  rw [List.reverse_reverse] at hrun1 hrun2
  have hpr : h1.reverse.Perm h2.reverse := (List.reverse_perm h1).trans (hp.trans (List.reverse_perm h2).symm)
  refine ⟨st1, st2, hrun1, hrun2, fun fl hfl m a => ?_⟩
  have hfl2 : fl ∈ definedR h2.reverse := (definedR_perm hpr fl).mp hfl
  have hd1 : st1.defd fl = true := (hI1.defd fl).mpr (Or.inr hfl)
  have hd2 : st2.defd fl = true := (hI2.defd fl).mpr (Or.inr hfl2)
  have ht : st1.tab fl m = st2.tab fl m := by
    rw [hI1.tab fl hfl m, hI2.tab fl hfl2 m]
    exact specCombosR_perm hv1 hv2 hpr hu vm hfl m
  have hs : st1.slots fl handlerSlot = st2.slots fl handlerSlot := by
    rw [hI1.slots fl hfl handlerSlot, hI2.slots fl hfl2 handlerSlot]
    exact specSlotR_perm hv1 hv2 hpr hfl handlerSlot
  unfold sendA
  simp only [hd1, hd2, ht, hs]

example : (specTraceA exampleBodies [9] exampleHistory 3 1 5 = specTraceA exampleBodies [9] exampleHistory' 3 1 5) := by
  decide

/-! ## rejected forms -/

theorem step_redefinition (st : State) (n : Name) (cs : List Name) (sl : List (Slot × Option Int))
    (hd : st.defd n = true) : step st (.defflavor n cs sl) = .error .alreadyDefined := by
  simp [step, hd]

theorem step_undefined_component (st : State) (n : Name) (cs : List Name) (sl : List (Slot × Option Int))
    (hn : st.defd n = false) {c : Name} (hc : c ∈ cs) (hcd : st.defd c = false) :
    step st (.defflavor n cs sl) = .error .undefinedFlavor := by
  have : cs.all st.defd = false := by
    rw [List.all_eq_false]
    exact ⟨c, hc, by simp [hcd]⟩
  simp [step, hn, this]

theorem step_undefined_flavor (st : State) (fl : Name) (k : Kind) (m : Msg) (id : Mid)
    (hd : st.defd fl = false) : step st (.defmethod fl k m id) = .error .undefinedFlavor := by
  simp [step, hd]

end SlipVerif.Flavors
