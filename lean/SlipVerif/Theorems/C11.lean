import SlipVerif.Model.Flavors
namespace SlipVerif.Flavors

theorem mem_dedup (x : Name) (l : List Name) : x ∈ dedup l ↔ x ∈ l := by
  induction l with
  | nil => simp [dedup]
  | cons y ys ih =>
    simp only [dedup, List.mem_cons, List.mem_filter, ih]
    by_cases h : x = y <;> simp [h]

end SlipVerif.Flavors
