import SlipVerif.Lemmas.Flavors
namespace SlipVerif.Flavors
end SlipVerif.Flavors
