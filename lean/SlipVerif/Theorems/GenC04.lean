import SlipVerif.Model.Lambda
import SlipVerif.Model.LambdaCode
import SlipVerif.Gen.Builtins
import SlipVerif.Gen.LambdaCall
import SlipVerif.Gen.BuiltinKeys
import SlipVerif.Gen.LambdaSites
/- C04 — obligations over the regenerated tables (Gen/Builtins.lean, Gen/LambdaCall.lean, rewritten
   by /verif/extract from the repository sources on every run). -/
namespace SlipVerif.Theorems.GenC04
open SlipVerif.Lambda SlipVerif.LambdaCode SlipVerif.Gen.Builtins
open SlipVerif.Gen

/-- **builtin_arity_consistent** — for every built-in whose documented lambda list could be paired
    with the literal `CheckArgCount(min, max)` of its `Call`: the checked bounds are the bounds of
    the documented lambda list (`arity`, or `arityNoDup` for `&key` lists), or the built-in is
    named by a known finding (findings/C04.json). Changing one `CheckArgCount` literal or one
    documented argument list breaks this proof. -/
theorem builtin_arity_consistent :
    entries.all (fun e => docConsistent e.doc e.min e.max || exceptions.contains e.name) = true := by
  decide +kernel

/-- the table is not vacuous: the extractor still pairs at least half of the `slip.Define` calls
    with a literal argument count check (a renamed `CheckArgCount` or a reshaped `Define` would
    silently empty the obligation above) -/
theorem table_not_vacuous : defineCount ≤ 2 * entries.length ∧ 0 < defineCount := by
  decide +kernel

/-! ### lambda.go / argcounterror.go / funcdoc.go as extracted (Gen/LambdaCall.lean)

    What the code-level machine and the refinement theorems (Theorems/C04Impl.lean) consume is
    re-checked by those proofs; the facts below are the remaining ones, which the machine takes
    for granted or the harness relies on. -/

/-- the marker constants of funcdoc.go are the markers of the model's parser, the mode constants
    are the ones the tables are written in -/
theorem markers_and_modes :
    (∀ s ∈ [LambdaCall.ampOptional, LambdaCall.ampRest, LambdaCall.ampBody, LambdaCall.ampKey, LambdaCall.ampAux,
            LambdaCall.ampAllowOtherKeys], isMarker s = true) ∧
    [LambdaCall.ampOptional, LambdaCall.ampRest, LambdaCall.ampBody, LambdaCall.ampKey, LambdaCall.ampAux,
      LambdaCall.ampAllowOtherKeys] = ["&optional", "&rest", "&body", "&key", "&aux", "&allow-other-keys"] ∧
    [LambdaCall.reqMode, LambdaCall.optMode, LambdaCall.restMode, LambdaCall.keyMode, LambdaCall.auxMode] = [0, 1, 2, 3, 4] := by
  decide

/-- what is compared in the guards of Lambda.Call (the operators are consumed by the machine):
    the argument count with the translated `requiredCount`, with the argument index; the length
    of the collected &rest list with 0; the length of an &aux list form with 1 -/
theorem guard_operands :
    (LambdaCall.tooFew.lhs, LambdaCall.tooFew.rhs, LambdaCall.tooFewVia) = ("len(args)", "req", "lam.requiredCount()") ∧
    (LambdaCall.loopExit.lhs, LambdaCall.loopExit.rhs) = ("len(args)", "ai") ∧
    (LambdaCall.tooMany.lhs, LambdaCall.tooMany.rhs) = ("len(args)", "ai") ∧
    (LambdaCall.restLet.lhs, LambdaCall.restLet.rhs) = ("len(rest)", "0") ∧
    (LambdaCall.restLoop.cond.lhs, LambdaCall.restLoop.cond.rhs) = ("len(args)", "ai") ∧
    (LambdaCall.keyLoop.cond.lhs, LambdaCall.keyLoop.cond.rhs) = ("len(args)", "ai") ∧
    (LambdaCall.keyLoop.missingValue.lhs, LambdaCall.keyLoop.missingValue.rhs) = ("len(args)", "ai") ∧
    (LambdaCall.auxEvalGuard.lhs, LambdaCall.auxEvalGuard.rhs) = ("len(list)", "1") := by
  decide

/-- a keyword is a symbol that starts with `:`; a non-keyword in key position raises; a repeated
    keyword and an explicit nil are told from "absent" by presence in the new scope
    (`boundHere` = presence in `s.Vars`, not the value, not the enclosing scopes) -/
theorem keyword_and_presence :
    LambdaCall.restLoop.kwChar = ':' ∧ LambdaCall.keyLoop.kwChar = ':' ∧
    LambdaCall.keyLoop.nonKeywordRaises = true ∧ LambdaCall.boundHereIsPresence = true := by
  decide

/-- the conditions the harness recognises as "too few" / "too many" are the ones the code raises:
    Lambda.Call and minMaxPanic (CheckArgCount, CheckSendArgCount) start their messages with these words -/
theorem count_condition_prefixes :
    LambdaCall.tooFewPrefix = "Too few arguments" ∧ LambdaCall.tooManyPrefix = "Too many arguments" ∧
    LambdaCall.countMessagePrefixes = ["Too few arguments", "Too many arguments"] := by
  decide

/-- **checkArgCount_is_inArity** — the translated range test of `CheckArgCount` (and of
    `CheckSendArgCount`) rejects an argument count exactly when it is outside `(min, max)` in the
    sense of the model (`inArity`; a negative max = no upper bound): the numbers of the built-in
    table mean in the code what `docConsistent` takes them to mean. -/
theorem checkArgCount_is_inArity (n mn : Nat) (mx : Int) :
    LambdaCall.checkArgCountFails n mn mx = !inArity (mn, if mx < 0 then none else some mx.toNat) n ∧
    LambdaCall.checkSendArgCountFails n mn mx = LambdaCall.checkArgCountFails n mn mx := by
  refine ⟨?_, rfl⟩
  unfold LambdaCall.checkArgCountFails inArity
  by_cases hneg : mx < 0
  · have h0 : ¬ (0 : Int) ≤ mx := by omega
    simp only [hneg, if_true, h0, decide_false, Bool.false_and, Bool.or_false, Bool.and_true]
    by_cases h : n < mn
    · have : (n : Int) < mn := by omega
      have h2 : ¬ mn ≤ n := by omega
      simp [this, h2]
    · have : ¬ (n : Int) < mn := by omega
      have h2 : mn ≤ n := by omega
      simp [this, h2]
  · have h0 : (0 : Int) ≤ mx := by omega
    simp only [hneg, if_false, h0, decide_true, Bool.true_and]
    by_cases h : n < mn <;> by_cases h2 : mx < (n : Int)
    all_goals
      have e1 : ((n : Int) < mn) = (n < mn) := by simp
      have e2 : (n ≤ mx.toNat) = ¬ (mx < (n : Int)) := by
        apply propext; constructor <;> intro h <;> omega
      simp [e1, e2, h, h2]
      try omega

example : LambdaCall.checkArgCountFails 3 1 2 = true ∧ LambdaCall.checkArgCountFails 3 1 (-1) = false ∧
    LambdaCall.checkArgCountFails 0 1 (-1) = true := by decide

/-- DefLambda's element grammar: a symbol is a name, a list of exactly two elements with a symbol
    first is a name with the default stored as written (`(name nil)` like `name`), anything else is
    a type error — what `LambdaImpl.docArgOf` implements -/
theorem defLambda_grammar :
    LambdaCall.defLambdaElems = [("Symbol", "name"), ("List", "name-default"), ("default", "type-error")] ∧
    LambdaCall.defLambdaListLen = ⟨"len(ta)", .ne, "2"⟩ ∧ LambdaCall.defLambdaDefaultStored = true := by
  decide

/-- **marker_fold_facts** — every marker comparison of `Lambda.Call` (both passes, every mode that
    looks at markers) folds case: `&OPTIONAL`, `&Rest`, `&Key`, `&AUX` written by the user open their
    section like the lower-case spelling. The tables `pass1`/`pass2` the machine and the refinement
    theorems consume are written with the lower-case markers; this fact is what makes them the
    tables for every spelling. -/
theorem marker_fold_facts :
    LambdaCall.markerFold.map (fun e => (e.1, e.2.1)) = [(1, 0), (1, 1), (2, 0), (2, 1), (2, 2), (2, 3)] ∧
    LambdaCall.markerFold.all (fun e => e.2.2) = true := by
  decide

/-! ### every site that builds or reads a documented lambda list (Gen/LambdaSites.lean) -/

/-- readers whose marker comparison does not take part in binding arguments: `function-keywords`
    (reports the keys of a method) and the bag path compiler (decides whether a path script is
    handed one argument or several) -/
def notBinding : List String := ["bag.SetCompileScript", "generic.(*FunctionKeywords).Call"]

/-- **markers_case_insensitive_sites** — as long as one constructor of a documented lambda list
    (DefLambda: defun, lambda, defmacro, flavors methods, whoppers; defGenericMethod / newGfAux /
    defgeneric: CLOS methods) stores the parameter names as the user wrote them, no function of the
    repository (root and pkg/**) outside `notBinding` compares the name of a documented argument with
    a lambda-list marker exactly: all such comparisons fold case or look at the first byte only.
    Lower-casing the markers in ONE constructor and comparing exactly in `Lambda.Call` (fine for
    defun, wrong for CLOS methods) breaks this. -/
theorem markers_case_insensitive_sites :
    (!(LambdaSites.builders.any (fun b => decide (0 < b.written + b.other))) ||
      LambdaSites.readers.all (fun r => notBinding.contains r.fn || r.exact == 0)) = true := by
  decide +kernel

/-- the site table is not vacuous: the constructors (at least DefLambda and the CLOS ones) and the
    readers (Lambda.Call with its ≥ 20 folded comparisons, isKeyParam, requiredCount, NewAux …) are found -/
theorem sites_not_vacuous :
    3 ≤ LambdaSites.builders.length ∧ 5 ≤ (LambdaSites.readers.filter (fun r => r.exact == 0)).length ∧
    20 ≤ (LambdaSites.readers.map (·.folds)).sum := by
  decide +kernel

/-! ### keyword arguments of built-ins (Gen/BuiltinKeys.lean) -/

/-- built-ins whose keyword literals cannot be told from their documented keys by reading the
    source (keyword *values* such as `:supersede` for `:if-exists`, key parsing shared through a
    helper that serves several functions, keys read through a table): not judged. A fixed list —
    a built-in that leaves the judged set by a code change breaks `builtin_keys_documented`. -/
def keysNotJudged : List String := ["cl:adjust-array", "cl:close", "cl:count", "cl:count-if", "cl:delete",
  "cl:delete-duplicates", "cl:find", "cl:find-if", "cl:make-array", "cl:make-hash-table", "cl:make-sequence", "cl:open",
  "cl:pathname-directory", "cl:pathname-name", "cl:pathname-type", "cl:position", "cl:position-if", "cl:remove",
  "cl:remove-duplicates", "cl:search", "cl:write", "cl:write-to-string", "clos:change-class", "csv:csv-read", "gi:decrypt",
  "gi:decrypt-file", "gi:defsystem", "gi:encrypt", "gi:encrypt-file", "gi:make-app", "net:graphql-query", "net:make-socket",
  "net:socket-receive", "net:socket-send", "net:socket-shutdown", "swank:create-server", "test:defsuite", "xml:xml-read",
  "xml:xml-write"]

def sameKeys (a b : List String) : Bool := a.all (b.contains ·) && b.all (a.contains ·)

/-- **builtin_keys_documented** — for every built-in with a documented `&key` section (outside the
    fixed not-judged list): the keywords its `Call` (and the package functions it calls) looks at
    are exactly its documented keys — every documented key is looked up, no undocumented key is. -/
theorem builtin_keys_documented :
    BuiltinKeys.entries.all (fun e => keysNotJudged.contains e.name || sameKeys e.doc e.body) = true := by
  decide +kernel

/-- the key table is not vacuous: at least 100 built-ins with a `&key` section are found and at
    least two thirds of them are judged -/
theorem builtin_keys_not_vacuous :
    100 ≤ BuiltinKeys.entries.length ∧
    2 * BuiltinKeys.entries.length ≤ 3 * (BuiltinKeys.entries.filter (fun e => !keysNotJudged.contains e.name)).length := by
  decide +kernel

end SlipVerif.Theorems.GenC04
