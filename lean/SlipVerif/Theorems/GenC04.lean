import SlipVerif.Model.Lambda
import SlipVerif.Gen.Builtins
/- C04 — obligations over the regenerated built-in table (Gen/Builtins.lean, rewritten by
   /verif/extract from the repository sources on every run). -/
namespace SlipVerif.Theorems.GenC04
open SlipVerif.Lambda SlipVerif.Gen.Builtins

/-- **builtin_arity_consistent** — for every built-in whose documented lambda list could be paired
    with the literal `CheckArgCount(min, max)` of its `Call`: the checked bounds are the bounds of
    the documented lambda list (`arity`, or `arityNoDup` for `&key` lists), or the built-in is
    named by a known finding (findings/C04.json). Changing one `CheckArgCount` literal or one
    documented argument list breaks this proof. -/
theorem builtin_arity_consistent :
    entries.all (fun e => docConsistent e.doc e.min e.max || exceptions.contains e.name) = true := by
  decide +kernel

/-- the table is not vacuous: the extractor still pairs at least half of the `slip.Define` calls
    with a literal argument count check (a renamed `CheckArgCount` or a reshaped `Define` would
    silently empty the obligation above) -/
theorem table_not_vacuous : defineCount ≤ 2 * entries.length ∧ 0 < defineCount := by
  decide +kernel

end SlipVerif.Theorems.GenC04
