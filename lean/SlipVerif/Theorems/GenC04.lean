import SlipVerif.Model.Lambda
import SlipVerif.Gen.Builtins
namespace SlipVerif.Theorems.GenC04
open SlipVerif.Lambda SlipVerif.Gen.Builtins

/-- every extracted built-in checks exactly the argument counts its documented lambda list
    allows, or is named by a known finding -/
theorem builtin_arity_consistent :
    entries.all (fun e => docConsistent e.doc e.min e.max || exceptions.contains e.name) = true := by
  decide +kernel
end SlipVerif.Theorems.GenC04
