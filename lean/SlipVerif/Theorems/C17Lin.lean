import SlipVerif.Model.Lin
/-
  C17 — the linearizability checker is sound (the `conc lin` entry of the driver runs `opsOf` and
  `linCheck` of Model/Lin.lean on the histories recorded from real runs).

  * `linCheck_sound`            accepted ⇒ a sequential witness exists (permutation of the recorded
                                operations, legal for fetch-and-increment counters, real-time order kept)
  * `legal_final_value`         a legal sequential history ends with counter = start + number of
                                operations on it
  * `legal_reads_consecutive`   … and its operations on one counter read start, start+1, …
  * `linearizable_reads_perm`   linearizable ⇒ the values read on a counter are a permutation of
                                0 … n-1 (whatever the order of recording)
  * `linearizable_no_lost_update` linearizable ⇒ no two operations on one counter read the same value
  * `linearizable_perm`         linearizability does not depend on the order in which the operations
                                are listed
  * `lost_update_not_linearizable` two operations that read the same value of one counter: no witness
-/
namespace SlipVerif.Lin

theorem ptSorted_pairwise : ∀ (l : List Opn), ptSorted l = true → l.Pairwise (fun a b => a.pt < b.pt)
  | [], _ => List.Pairwise.nil
  | [a], _ => by simp
  | a :: b :: rest, h => by
      simp only [ptSorted, Bool.and_eq_true, decide_eq_true_eq] at h
      have ih0 := ptSorted_pairwise (b :: rest) h.2
      have ih := List.pairwise_cons.mp ih0
      refine List.pairwise_cons.mpr ⟨?_, ih0⟩
      intro c hc
      rcases List.mem_cons.mp hc with rfl | hc
      · exact h.1
      · exact Nat.lt_trans h.1 (ih.1 c hc)

theorem timesOk_inv_lt {o : Opn} (h : timesOk o = true) : o.inv < o.pt := by
  simp only [timesOk, Bool.and_eq_true, decide_eq_true_eq] at h
  exact h.1

theorem timesOk_pt_lt {o : Opn} {r : Nat} (h : timesOk o = true) (hr : o.res = some r) : o.pt < r := by
  simp only [timesOk, Bool.and_eq_true, decide_eq_true_eq, hr] at h
  exact h.2

/-- **Soundness of the checker.** A recorded history that `linCheck` accepts is linearizable: the
    operations in the order of their points are a sequential witness. -/
theorem linCheck_sound {ops : List Opn} (h : linCheck ops = true) : Linearizable ops := by
  simp only [linCheck, Bool.and_eq_true] at h
  obtain ⟨⟨ht, hs⟩, hl⟩ := h
  refine ⟨ops, List.Perm.refl _, hl, ?_⟩
  have hp := ptSorted_pairwise ops hs
  have ht' : ∀ o ∈ ops, timesOk o = true := List.all_eq_true.mp ht
  refine List.Pairwise.imp_of_mem ?_ hp
  intro a b ha hb hab hprec
  have ta := timesOk_inv_lt (ht' a ha)
  unfold precedes at hprec
  cases hr : b.res with
  | none => simp [hr] at hprec
  | some r =>
    have tb := timesOk_pt_lt (ht' b hb) hr
    simp only [hr] at hprec
    omega

example : linCheck [⟨0, 0, 0, 0, 2, some 5⟩, ⟨1, 0, 1, 1, 3, some 4⟩, ⟨0, 1, 0, 6, 7, none⟩] = true := by decide
/-- a lost update (both operations read 0) is rejected -/
example : linCheck [⟨0, 0, 0, 0, 2, some 5⟩, ⟨1, 0, 0, 1, 3, some 4⟩] = false := by decide
/-- a stale read after a completed operation is rejected -/
example : linCheck [⟨0, 0, 1, 0, 1, some 2⟩, ⟨1, 0, 0, 3, 4, some 5⟩] = false := by decide

theorem upd_same (f : Nat → Nat) (k v : Nat) : upd f k v k = v := by simp [upd]
theorem upd_other (f : Nat → Nat) {k x : Nat} (v : Nat) (h : x ≠ k) : upd f k v x = f x := by simp [upd, h]

/-- a legal sequential history ends with every counter at its start value plus the number of
    operations on it: no increment is lost -/
theorem legal_final_value : ∀ (S : List Opn) (st st' : Nat → Nat), seqRun st S = some st' →
    ∀ k, st' k = st k + (S.filter (fun o => o.k == k)).length
  | [], st, st', h, k => by
      simp only [seqRun, Option.some.injEq] at h
      subst h; simp
  | o :: rest, st, st', h, k => by
      simp only [seqRun] at h
      split at h
      · rename_i hv
        have ih := legal_final_value rest _ st' h k
        rw [ih]
        by_cases e : o.k = k
        · subst e
          simp [upd_same, List.filter, hv]
          omega
        · have e' : (o.k == k) = false := by simp [e]
          have e'' : k ≠ o.k := fun h => e h.symm
          simp [upd_other _ _ e'', List.filter, e']
      · simp at h

/-- the operations of a legal sequential history on one counter read start, start+1, … in order -/
theorem legal_reads_consecutive : ∀ (S : List Opn) (st st' : Nat → Nat), seqRun st S = some st' →
    ∀ k, (S.filter (fun o => o.k == k)).map (·.v) =
      List.range' (st k) ((S.filter (fun o => o.k == k)).length)
  | [], _, _, _, k => by simp
  | o :: rest, st, st', h, k => by
      simp only [seqRun] at h
      split at h
      · rename_i hv
        have ih := legal_reads_consecutive rest _ st' h k
        by_cases e : o.k = k
        · subst e
          have : (o.k == o.k) = true := by simp
          simp only [List.filter, this, List.map_cons, List.length_cons, List.range'_succ]
          rw [ih, upd_same, hv]
        · have e' : (o.k == k) = false := by simp [e]
          have e'' : k ≠ o.k := fun h => e h.symm
          simp only [List.filter, e']
          rw [ih, upd_other _ _ e'']
      · simp at h

/-- linearizable ⇒ the values read on counter `k` are exactly 0, 1, …, n-1 (n = number of
    operations on `k`), each once — in whatever order they were recorded -/
theorem linearizable_reads_perm {ops : List Opn} (h : Linearizable ops) (k : Nat) :
    ((ops.filter (fun o => o.k == k)).map (·.v)).Perm
      (List.range (ops.filter (fun o => o.k == k)).length) := by
  obtain ⟨S, hperm, hl, _⟩ := h
  unfold legalSeq at hl
  cases hrun : seqRun (fun _ => 0) S with
  | none => simp [hrun] at hl
  | some st' =>
    have hv := legal_reads_consecutive S _ st' hrun k
    have hf : (S.filter (fun o => o.k == k)).Perm (ops.filter (fun o => o.k == k)) := hperm.filter _
    have hlen := hf.length_eq
    have hm := hf.map (·.v)
    rw [hv, hlen, ← List.range_eq_range'] at hm
    exact hm.symm

/-- linearizable ⇒ no update is lost: two different operations on one counter never read the same
    value -/
theorem linearizable_no_lost_update {ops : List Opn} (h : Linearizable ops) (k : Nat) :
    ((ops.filter (fun o => o.k == k)).map (·.v)).Nodup :=
  (linearizable_reads_perm h k).nodup_iff.mpr List.nodup_range

/-- the verdict does not depend on the order in which the operations are listed -/
theorem linearizable_perm {a b : List Opn} (hp : a.Perm b) (h : Linearizable a) : Linearizable b := by
  obtain ⟨S, hs, hl, hr⟩ := h
  exact ⟨S, hs.trans hp, hl, hr⟩

/-- two operations that read the same value of the same counter: there is no sequential witness,
    whatever their times -/
theorem lost_update_not_linearizable (a b : Opn) (hk : a.k = b.k) (hv : a.v = b.v) :
    ¬ Linearizable [a, b] := by
  intro h
  have hn := linearizable_no_lost_update h a.k
  have e : (b.k == a.k) = true := by simp [hk]
  simp [List.filter, e, hv] at hn

/-- at the end of a linearizable history the counter equals the number of operations on it (the
    final value the harness reads after all routines have finished) -/
theorem linearizable_final_value {ops : List Opn} (h : Linearizable ops) :
    ∃ S st', S.Perm ops ∧ seqRun (fun _ => 0) S = some st' ∧
      ∀ k, st' k = (ops.filter (fun o => o.k == k)).length := by
  obtain ⟨S, hperm, hl, _⟩ := h
  unfold legalSeq at hl
  cases hrun : seqRun (fun _ => 0) S with
  | none => simp [hrun] at hl
  | some st' =>
    refine ⟨S, st', hperm, hrun, ?_⟩
    intro k
    have := legal_final_value S _ st' hrun k
    rw [this, (hperm.filter _).length_eq]
    simp

end SlipVerif.Lin
