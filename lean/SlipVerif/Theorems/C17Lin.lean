import SlipVerif.Model.Lin
import SlipVerif.Theorems.C17
/-
  C17 — the linearizability checker is sound (the `conc lin` entry of the driver runs `opsOf` and
  `linCheck` of Model/Lin.lean on the histories recorded from real runs).

  * `linCheck_sound`            accepted ⇒ a sequential witness exists (permutation of the recorded
                                operations, legal for fetch-and-increment counters, real-time order kept)
  * `legal_final_value`         a legal sequential history ends with counter = start + number of
                                operations on it
  * `legal_reads_consecutive`   … and its operations on one counter read start, start+1, …
  * `linearizable_reads_perm`   linearizable ⇒ the values read on a counter are a permutation of
                                0 … n-1 (whatever the order of recording)
  * `linearizable_no_lost_update` linearizable ⇒ no two operations on one counter read the same value
  * `linearizable_perm`         linearizability does not depend on the order in which the operations
                                are listed
  * `lost_update_not_linearizable` two operations that read the same value of one counter: no witness
  * `legal_of_consecutive`      converse of `legal_reads_consecutive`: per-counter consecutive reads
                                make the interleaved sequence legal
  * `model_histories_accepted`, `model_histories_linearizable`  every history of the interleaving
                                model (Model/Conc.lean: any schedule of a guarded system), with each
                                increment taken as atomic at its read, is accepted by `linCheck`,
                                hence linearizable: a correct implementation is never rejected
-/
namespace SlipVerif.Lin

theorem ptSorted_pairwise : ∀ (l : List Opn), ptSorted l = true → l.Pairwise (fun a b => a.pt < b.pt)
  | [], _ => List.Pairwise.nil
  | [a], _ => by simp
  | a :: b :: rest, h => by
      simp only [ptSorted, Bool.and_eq_true, decide_eq_true_eq] at h
      have ih0 := ptSorted_pairwise (b :: rest) h.2
      have ih := List.pairwise_cons.mp ih0
      refine List.pairwise_cons.mpr ⟨?_, ih0⟩
      intro c hc
      rcases List.mem_cons.mp hc with rfl | hc
      · exact h.1
      · exact Nat.lt_trans h.1 (ih.1 c hc)

theorem timesOk_inv_lt {o : Opn} (h : timesOk o = true) : o.inv < o.pt := by
  simp only [timesOk, Bool.and_eq_true, decide_eq_true_eq] at h
  exact h.1

theorem timesOk_pt_lt {o : Opn} {r : Nat} (h : timesOk o = true) (hr : o.res = some r) : o.pt < r := by
  simp only [timesOk, Bool.and_eq_true, decide_eq_true_eq, hr] at h
  exact h.2

/-- **Soundness of the checker.** A recorded history that `linCheck` accepts is linearizable: the
    operations in the order of their points are a sequential witness. -/
theorem linCheck_sound {ops : List Opn} (h : linCheck ops = true) : Linearizable ops := by
  simp only [linCheck, Bool.and_eq_true] at h
  obtain ⟨⟨ht, hs⟩, hl⟩ := h
  refine ⟨ops, List.Perm.refl _, hl, ?_⟩
  have hp := ptSorted_pairwise ops hs
  have ht' : ∀ o ∈ ops, timesOk o = true := List.all_eq_true.mp ht
  refine List.Pairwise.imp_of_mem ?_ hp
  intro a b ha hb hab hprec
  have ta := timesOk_inv_lt (ht' a ha)
  unfold precedes at hprec
  cases hr : b.res with
  | none => simp [hr] at hprec
  | some r =>
    have tb := timesOk_pt_lt (ht' b hb) hr
    simp only [hr] at hprec
    omega

example : linCheck [⟨0, 0, 0, 0, 2, some 5⟩, ⟨1, 0, 1, 1, 3, some 4⟩, ⟨0, 1, 0, 6, 7, none⟩] = true := by decide
/-- a lost update (both operations read 0) is rejected -/
example : linCheck [⟨0, 0, 0, 0, 2, some 5⟩, ⟨1, 0, 0, 1, 3, some 4⟩] = false := by decide
/-- a stale read after a completed operation is rejected -/
example : linCheck [⟨0, 0, 1, 0, 1, some 2⟩, ⟨1, 0, 0, 3, 4, some 5⟩] = false := by decide

theorem upd_same (f : Nat → Nat) (k v : Nat) : upd f k v k = v := by simp [upd]
theorem upd_other (f : Nat → Nat) {k x : Nat} (v : Nat) (h : x ≠ k) : upd f k v x = f x := by simp [upd, h]

/-- a legal sequential history ends with every counter at its start value plus the number of
    operations on it: no increment is lost -/
theorem legal_final_value : ∀ (S : List Opn) (st st' : Nat → Nat), seqRun st S = some st' →
    ∀ k, st' k = st k + (S.filter (fun o => o.k == k)).length
  | [], st, st', h, k => by
      simp only [seqRun, Option.some.injEq] at h
      subst h; simp
  | o :: rest, st, st', h, k => by
      simp only [seqRun] at h
      split at h
      · rename_i hv
        have ih := legal_final_value rest _ st' h k
        rw [ih]
        by_cases e : o.k = k
        · subst e
          simp [upd_same, List.filter, hv]
          omega
        · have e' : (o.k == k) = false := by simp [e]
          have e'' : k ≠ o.k := fun h => e h.symm
          simp [upd_other _ _ e'', List.filter, e']
      · simp at h

/-- the operations of a legal sequential history on one counter read start, start+1, … in order -/
theorem legal_reads_consecutive : ∀ (S : List Opn) (st st' : Nat → Nat), seqRun st S = some st' →
    ∀ k, (S.filter (fun o => o.k == k)).map (·.v) =
      List.range' (st k) ((S.filter (fun o => o.k == k)).length)
  | [], _, _, _, k => by simp
  | o :: rest, st, st', h, k => by
      simp only [seqRun] at h
      split at h
      · rename_i hv
        have ih := legal_reads_consecutive rest _ st' h k
        by_cases e : o.k = k
        · subst e
          have : (o.k == o.k) = true := by simp
          simp only [List.filter, this, List.map_cons, List.length_cons, List.range'_succ]
          rw [ih, upd_same, hv]
        · have e' : (o.k == k) = false := by simp [e]
          have e'' : k ≠ o.k := fun h => e h.symm
          simp only [List.filter, e']
          rw [ih, upd_other _ _ e'']
      · simp at h

/-- linearizable ⇒ the values read on counter `k` are exactly 0, 1, …, n-1 (n = number of
    operations on `k`), each once — in whatever order they were recorded -/
theorem linearizable_reads_perm {ops : List Opn} (h : Linearizable ops) (k : Nat) :
    ((ops.filter (fun o => o.k == k)).map (·.v)).Perm
      (List.range (ops.filter (fun o => o.k == k)).length) := by
  obtain ⟨S, hperm, hl, _⟩ := h
  unfold legalSeq at hl
  cases hrun : seqRun (fun _ => 0) S with
  | none => simp [hrun] at hl
  | some st' =>
    have hv := legal_reads_consecutive S _ st' hrun k
    have hf : (S.filter (fun o => o.k == k)).Perm (ops.filter (fun o => o.k == k)) := hperm.filter _
    have hlen := hf.length_eq
    have hm := hf.map (·.v)
    rw [hv, hlen, ← List.range_eq_range'] at hm
    exact hm.symm

/-- linearizable ⇒ no update is lost: two different operations on one counter never read the same
    value -/
theorem linearizable_no_lost_update {ops : List Opn} (h : Linearizable ops) (k : Nat) :
    ((ops.filter (fun o => o.k == k)).map (·.v)).Nodup :=
  (linearizable_reads_perm h k).nodup_iff.mpr List.nodup_range

/-- the verdict does not depend on the order in which the operations are listed -/
theorem linearizable_perm {a b : List Opn} (hp : a.Perm b) (h : Linearizable a) : Linearizable b := by
  obtain ⟨S, hs, hl, hr⟩ := h
  exact ⟨S, hs.trans hp, hl, hr⟩

/-- two operations that read the same value of the same counter: there is no sequential witness,
    whatever their times -/
theorem lost_update_not_linearizable (a b : Opn) (hk : a.k = b.k) (hv : a.v = b.v) :
    ¬ Linearizable [a, b] := by
  intro h
  have hn := linearizable_no_lost_update h a.k
  have e : (b.k == a.k) = true := by simp [hk]
  simp [List.filter, e, hv] at hn

/-- at the end of a linearizable history the counter equals the number of operations on it (the
    final value the harness reads after all routines have finished) -/
theorem linearizable_final_value {ops : List Opn} (h : Linearizable ops) :
    ∃ S st', S.Perm ops ∧ seqRun (fun _ => 0) S = some st' ∧
      ∀ k, st' k = (ops.filter (fun o => o.k == k)).length := by
  obtain ⟨S, hperm, hl, _⟩ := h
  unfold legalSeq at hl
  cases hrun : seqRun (fun _ => 0) S with
  | none => simp [hrun] at hl
  | some st' =>
    refine ⟨S, st', hperm, hrun, ?_⟩
    intro k
    have := legal_final_value S _ st' hrun k
    rw [this, (hperm.filter _).length_eq]
    simp

/-! ### the histories of the interleaving model are accepted -/

/-- the increment operations of a trace of Model/Conc.lean: the `i`-th event, if it is the read of
    an increment, is an operation that is invoked, takes effect and responds at that event (the
    tightest intervals = the most real-time constraints) -/
def modelOps (i : Nat) : List Conc.Event → List Opn
  | [] => []
  | .loaded t k v :: rest => ⟨t, k, v, 3 * i, 3 * i + 1, some (3 * i + 2)⟩ :: modelOps (i + 1) rest
  | .pushed _ _ _ :: rest => modelOps (i + 1) rest
  | .popped _ _ _ :: rest => modelOps (i + 1) rest
  | .locked _ _ :: rest => modelOps (i + 1) rest
  | .unlocked _ _ :: rest => modelOps (i + 1) rest
  | .stored _ _ _ :: rest => modelOps (i + 1) rest

theorem modelOps_facts : ∀ (tr : List Conc.Event) (i : Nat), ∀ o ∈ modelOps i tr,
    3 * i + 1 ≤ o.pt ∧ timesOk o = true
  | [], _, o, h => by simp [modelOps] at h
  | e :: rest, i, o, h => by
      have ih := modelOps_facts rest (i + 1) o
      cases e <;> simp only [modelOps, List.mem_cons] at h
      case loaded t k v =>
        rcases h with rfl | h
        · simp [timesOk]
        · have := ih h; exact ⟨by omega, this.2⟩
      all_goals
        have := ih h; exact ⟨by omega, this.2⟩

theorem ptSorted_cons {a : Opn} {l : List Opn} (h1 : ∀ o ∈ l, a.pt < o.pt) (h2 : ptSorted l = true) :
    ptSorted (a :: l) = true := by
  cases l with
  | nil => rfl
  | cons b rest =>
    simp only [ptSorted, Bool.and_eq_true, decide_eq_true_eq]
    exact ⟨h1 b (List.mem_cons_self ..), h2⟩

theorem modelOps_ptSorted : ∀ (tr : List Conc.Event) (i : Nat), ptSorted (modelOps i tr) = true
  | [], _ => rfl
  | e :: rest, i => by
      have ih := modelOps_ptSorted rest (i + 1)
      cases e <;> simp only [modelOps] <;> try exact ih
      apply ptSorted_cons _ ih
      intro o ho
      have := (modelOps_facts rest (i + 1) o ho).1
      simp only
      omega

theorem modelOps_reads (k : Nat) : ∀ (tr : List Conc.Event) (i : Nat),
    ((modelOps i tr).filter (fun o => o.k == k)).map (·.v) = Conc.loadLog k tr
  | [], _ => by simp [modelOps, Conc.loadLog]
  | e :: rest, i => by
      have ih := modelOps_reads k rest (i + 1)
      unfold Conc.loadLog at ih ⊢
      cases e <;> simp only [modelOps, List.filterMap_cons] <;> try exact ih
      rename_i t k' v
      by_cases e : k' = k
      · subst e
        simp [List.filter, ih]
      · have e' : (k' == k) = false := by simp [e]
        simp [List.filter, e', e, ih]

/-- per-counter consecutive reads make the whole (interleaved) sequence a legal sequential history -/
theorem legal_of_consecutive : ∀ (S : List Opn) (st : Nat → Nat),
    (∀ k, (S.filter (fun o => o.k == k)).map (·.v) =
      List.range' (st k) ((S.filter (fun o => o.k == k)).length)) → (seqRun st S).isSome = true
  | [], _, _ => rfl
  | o :: rest, st, H => by
      have hk := H o.k
      have e0 : (o.k == o.k) = true := by simp
      simp only [List.filter, e0, List.map_cons, List.length_cons, List.range'_succ, List.cons.injEq] at hk
      simp only [seqRun, hk.1, if_true]
      apply legal_of_consecutive rest
      intro k
      by_cases e : o.k = k
      · subst e
        rw [upd_same, hk.2]
      · have e' : (o.k == k) = false := by simp [e]
        have e'' : k ≠ o.k := fun h => e h.symm
        have := H k
        simp only [List.filter, e'] at this
        rw [upd_other _ _ e'']
        exact this

/-- **Every history the interleaving model can produce is accepted**: for any schedule of a guarded
    system, the increments of the trace (each atomic at its read) pass `linCheck`. -/
theorem model_histories_accepted (S : Conc.Sys) (g : Nat → Nat) (hg : S.guarded g = true)
    (sched : List (Nat × Nat)) : linCheck (modelOps 0 (Conc.exec S Conc.init sched).trace) = true := by
  simp only [linCheck, Bool.and_eq_true]
  refine ⟨⟨?_, modelOps_ptSorted _ 0⟩, ?_⟩
  · exact List.all_eq_true.mpr (fun o ho => (modelOps_facts _ 0 o ho).2)
  · unfold legalSeq
    apply legal_of_consecutive
    intro k
    have hr := modelOps_reads k (Conc.exec S Conc.init sched).trace 0
    have hs := Conc.increments_read_sequentially S g hg sched k
    have hl : ((modelOps 0 (Conc.exec S Conc.init sched).trace).filter (fun o => o.k == k)).length =
        (Conc.loadLog k (Conc.exec S Conc.init sched).trace).length := by
      rw [← hr, List.length_map]
    rw [hr, hl, ← List.range_eq_range']
    exact hs

/-- … hence linearizable -/
theorem model_histories_linearizable (S : Conc.Sys) (g : Nat → Nat) (hg : S.guarded g = true)
    (sched : List (Nat × Nat)) : Linearizable (modelOps 0 (Conc.exec S Conc.init sched).trace) :=
  linCheck_sound (model_histories_accepted S g hg sched)

example : Conc.exSys.guarded (fun _ => 0) = true := by decide
example : linCheck (modelOps 0 (Conc.exec Conc.exSys Conc.init Conc.exSched).trace) = true := by decide

end SlipVerif.Lin
