import SlipVerif.Model.LambdaCase
import SlipVerif.Lemmas.LambdaParse
/- C04 — the spelling of lambda-list keywords (`&OPTIONAL`, `&Rest`, `&kEy`, `&AUX`) does not matter:
   theorems about `parseLLci`, the parser the driver runs. -/
namespace SlipVerif.Theorems.C04Case
open SlipVerif.Lambda SlipVerif.Lemmas.LambdaParse

deriving instance DecidableEq for Except

/-- `es'` is the written list `es` with some lambda-list keywords spelled in another case: element
    by element the same, except that a marker `m` may stand as any symbol `s` that starts with `&`
    and lower-cases to `m` -/
inductive Respelled : List Obj → List Obj → Prop
  | nil : Respelled [] []
  | same (e : Obj) {es es' : List Obj} : Respelled es es' → Respelled (e :: es) (e :: es')
  | marker (m s : String) {es es' : List Obj} : isMarker m = true → startsAmp s = true → lowerStr s = m →
      Respelled es es' → Respelled (.sym m :: es) (.sym s :: es')

/-- the six markers in lower case are fixed points of `foldMarker` -/
theorem foldMarker_marker (m : String) (h : isMarker m = true) : foldMarker (.sym m) = .sym m := by
  have h6 : ∀ x ∈ ["&optional", "&rest", "&body", "&key", "&aux", "&allow-other-keys"],
      foldMarker (.sym x) = .sym x := by decide
  simp only [isMarker, Bool.or_eq_true, decide_eq_true_eq] at h
  rcases h with ((((h | h) | h) | h) | h) | h <;> subst h <;> exact h6 _ (by simp)

/-- a symbol that does not start with `&`, and everything that is not a symbol, is left alone -/
theorem foldMarker_other (n : String) (h : startsAmp n = false) : foldMarker (.sym n) = .sym n := by
  simp [foldMarker, h]

theorem respelled_fold (es es' : List Obj) (hr : Respelled es es') (hfix : ∀ e ∈ es, foldMarker e = e) :
    es'.map foldMarker = es := by
  induction hr with
  | nil => rfl
  | same e _ ih =>
    simp only [List.map_cons]
    rw [hfix e (by simp), ih (fun x hx => hfix x (by simp [hx]))]
  | marker m s hm hs hl _ ih =>
    simp only [List.map_cons]
    rw [ih (fun x hx => hfix x (by simp [hx]))]
    simp [foldMarker, hs, hl]

/-- **parseLLci_respelled** — re-spelling lambda-list keywords changes nothing: if the written list
    `es` is in normal spelling (every element is left alone by `foldMarker`: lower-case markers,
    parameter names that do not start with `&`, specifier lists), then every re-spelling `es'` of
    its markers is parsed by `parseLLci` exactly as `parseLL` parses `es` — the same sections, the
    same parameters, the same errors. -/
theorem parseLLci_respelled (es es' : List Obj) (hr : Respelled es es') (hfix : ∀ e ∈ es, foldMarker e = e) :
    parseLLci (Obj.ofList es') = parseLL (Obj.ofList es) := by
  simp only [parseLLci, parseLL, toList?_ofList, respelled_fold es es' hr hfix]

/-- on the normal spelling itself `parseLLci` is `parseLL` -/
theorem parseLLci_normal (es : List Obj) (hfix : ∀ e ∈ es, foldMarker e = e) :
    parseLLci (Obj.ofList es) = parseLL (Obj.ofList es) := by
  have hr : Respelled es es := by
    induction es with
    | nil => exact .nil
    | cons e es ih => exact .same e (ih (fun x hx => hfix x (by simp [hx])))
  exact parseLLci_respelled es es hr hfix

/-- `(a &optional (b 5) &rest r &key k &aux x)` -/
def exNormal : List Obj := [.sym "a", .sym "&optional", .cons (.sym "b") (.cons (.int 5) .nil), .sym "&rest", .sym "r",
  .sym "&key", .sym "k", .sym "&aux", .sym "x"]
/-- `(a &OPTIONAL (b 5) &Rest r &KEY k &aUx x)` -/
def exSpelled : List Obj := [.sym "a", .sym "&OPTIONAL", .cons (.sym "b") (.cons (.int 5) .nil), .sym "&Rest", .sym "r",
  .sym "&KEY", .sym "k", .sym "&aUx", .sym "x"]

-- the hypotheses are satisfiable and the statement is not vacuous (`parseLL` alone reads the
-- re-spelled markers as parameter names)
example :
    (∀ e ∈ exNormal, foldMarker e = e) ∧
    parseLLci (Obj.ofList exSpelled) = .ok { req := ["a"], opt := [{ name := "b", default := .int 5 }], rest := some "r",
                                             hasKey := true, keys := [{ name := "k" }], aux := [{ name := "x" }] } ∧
    parseLL (Obj.ofList exSpelled) ≠ parseLLci (Obj.ofList exSpelled) := by
  decide

example : Respelled exNormal exSpelled :=
  .same _ (.marker "&optional" "&OPTIONAL" (by decide) (by decide) (by decide) (.same _ (.marker "&rest" "&Rest" (by decide)
    (by decide) (by decide) (.same _ (.marker "&key" "&KEY" (by decide) (by decide) (by decide) (.same _
    (.marker "&aux" "&aUx" (by decide) (by decide) (by decide) (.same _ .nil))))))))

/-- every element of a written-out lambda list is left alone by `foldMarker` when no parameter
    name starts with `&` -/
structure NoAmp (ll : LL) : Prop where
  req : ∀ n ∈ ll.req, startsAmp n = false
  opt : ∀ p ∈ ll.opt, startsAmp p.name = false
  rest : ∀ r, ll.rest = some r → startsAmp r = false
  keys : ∀ p ∈ ll.keys, startsAmp p.name = false
  aux : ∀ p ∈ ll.aux, startsAmp p.name = false

theorem foldMarker_renderParam (p : Param) (h : startsAmp p.name = false) :
    foldMarker (renderParam p) = renderParam p := by
  unfold renderParam
  split
  · exact foldMarker_other _ h
  · rfl

theorem render_fixed (ll : LL) (h : NoAmp ll) : ∀ e ∈ render ll, foldMarker e = e := by
  intro e he
  simp only [render, rRest, rKey, rAux, List.mem_append, List.mem_map] at he
  rcases he with (⟨n, hn, rfl⟩ | he) | (he | (he | he))
  · exact foldMarker_other _ (h.req n hn)
  · split at he
    · simp at he
    · simp only [List.mem_cons, List.mem_map] at he
      rcases he with rfl | ⟨p, hp, rfl⟩
      · exact foldMarker_marker _ (by decide)
      · exact foldMarker_renderParam p (h.opt p hp)
  · split at he
    · rename_i r hr
      simp only [List.mem_cons, List.not_mem_nil, or_false] at he
      rcases he with rfl | rfl
      · exact foldMarker_marker _ (by decide)
      · exact foldMarker_other _ (h.rest r hr)
    · simp at he
  · split at he
    · simp only [List.mem_cons, List.mem_append, List.mem_map] at he
      rcases he with (rfl | ⟨p, hp, rfl⟩) | he
      · exact foldMarker_marker _ (by decide)
      · exact foldMarker_renderParam p (h.keys p hp)
      · split at he
        · simp only [List.mem_cons, List.not_mem_nil, or_false] at he
          subst he
          exact foldMarker_marker _ (by decide)
        · simp at he
    · simp at he
  · split at he
    · simp at he
    · simp only [List.mem_cons, List.mem_map] at he
      rcases he with rfl | ⟨p, hp, rfl⟩
      · exact foldMarker_marker _ (by decide)
      · exact foldMarker_renderParam p (h.aux p hp)

/-- **parseLLci_render_respelled** — every well-formed lambda list (all sections, with and without
    defaults) is recovered exactly from its written form with the markers in ANY spelling. -/
theorem parseLLci_render_respelled (ll : LL) (h : WF ll) (hn : NoAmp ll) (es' : List Obj)
    (hr : Respelled (render ll) es') : parseLLci (Obj.ofList es') = .ok ll := by
  rw [parseLLci_respelled (render ll) es' hr (render_fixed ll hn)]
  simp only [parseLL, toList?_ofList, parseElems_render ll h]

example : NoAmp { req := ["a"], opt := [{ name := "b", default := .int 5 }], rest := some "r", hasKey := true,
                  keys := [{ name := "k" }], aok := true, aux := [{ name := "x" }] } := by
  constructor <;> decide

end SlipVerif.Theorems.C04Case
