import SlipVerif.Gen.DispatchFacts
/-
  C10 — obligations over facts regenerated from pkg/generic/*.go on every run (extract/dispatch.go).
  The model's `step` clears the cache and recomputes the fast path on every defmethod and
  remove-method, and files a built effective method under the probed key; `cache_coherent`
  (Theorems/C10.lean) rests on exactly that.  These facts say the code still has that shape.  A
  failure here is an early warning: the correspondence run then looks for a failing history.
-/
namespace SlipVerif.Gen.DispatchFacts

theorem defmethod_clears_cache : defmethodClearsCache = true := by decide
theorem addMethod_clears_cache : addMethodClearsCache = true := by decide
theorem removeMethod_clears_cache : removeMethodClearsCache = true := by decide
theorem defmethod_recomputes_default : defmethodRecomputesDefault = true := by decide
theorem addMethod_recomputes_default : addMethodRecomputesDefault = true := by decide
theorem removeMethod_recomputes_default : removeMethodRecomputesDefault = true := by decide
theorem call_stores_under_probed_key : callStoresUnderProbedKey = true := by decide

/-! The model's `step` is atomic: a call probes, builds and stores in one step, and a defmethod /
    remove-method changes the table and clears the cache in one step (`cache_coherent` is about
    those steps). In the code that is one critical section of `Aux.moo` each: a probe and the store
    with no unlock in between, the store under the write lock; table writes and the cache reset with
    no unlock in between. (`post_quiescence_outcome` is the judgement of the race rounds.) -/
theorem cache_filled_under_one_write_lock : cacheFilledUnderOneWriteLock = true := by decide
theorem defmethod_mutates_in_one_section : defmethodMutatesInOneSection = true := by decide
theorem addMethod_mutates_in_one_section : addMethodMutatesInOneSection = true := by decide
theorem removeMethod_mutates_in_one_section : removeMethodMutatesInOneSection = true := by decide

/-- Every operation of the model that changes `Aux.methods` (`defmethod`, `remove`, `redefine`) leaves
    an empty cache (`cache_coherent`); in the code every function that writes the method table —
    whichever entry point it serves, a re-evaluated `defgeneric` that keeps the `Aux` included —
    must reset the cache too (`redefine_forgets_history`). -/
theorem every_table_writer_resets_cache : everyTableWriterResetsCache = true := by decide

/-- The model's cache key is the list of class precedence lists of the required arguments
    (`Op.call precs`, `class_redefinition_coherent`): the code's key must be made of the whole
    `Hierarchy()` of each required argument, not of its first element (the class name). -/
theorem spec_key_is_whole_hierarchy : specKeyIsWholeHierarchy = true := by decide

end SlipVerif.Gen.DispatchFacts
