import SlipVerif.Gen.DispatchFacts
/-
  C10 — obligations over facts regenerated from pkg/generic/*.go on every run (extract/dispatch.go).
  The model's `step` clears the cache and recomputes the fast path on every defmethod and
  remove-method, and files a built effective method under the probed key; `cache_coherent`
  (Theorems/C10.lean) rests on exactly that.  These facts say the code still has that shape.  A
  failure here is an early warning: the correspondence run then looks for a failing history.
-/
namespace SlipVerif.Gen.DispatchFacts

theorem defmethod_clears_cache : defmethodClearsCache = true := by decide
theorem addMethod_clears_cache : addMethodClearsCache = true := by decide
theorem removeMethod_clears_cache : removeMethodClearsCache = true := by decide
theorem defmethod_recomputes_default : defmethodRecomputesDefault = true := by decide
theorem addMethod_recomputes_default : addMethodRecomputesDefault = true := by decide
theorem removeMethod_recomputes_default : removeMethodRecomputesDefault = true := by decide
theorem call_stores_under_probed_key : callStoresUnderProbedKey = true := by decide

end SlipVerif.Gen.DispatchFacts
