import SlipVerif.Model.ClassReg
/-
  C16 — typep / type-of / subtypep over a registry of user defined classes that changes with time
  (Model/ClassReg.lean, executed by the driver entry `type classhist`). For EVERY registry (hence
  after every history of definitions and redefinitions the driver accepts):
  an instance is typep its type-of and every supertype of it, subtypep is reflexive and transitive
  and agrees with typep. The answers are functions of the current registry and the class of the
  object alone.
-/
namespace SlipVerif.ClassReg

theorem mem_appendNew (l m : List Nat) (x : Nat) : x ∈ appendNew l m ↔ x ∈ l ∨ x ∈ m := by
  induction m generalizing l with
  | nil => simp [appendNew]
  | cons y m ih =>
    unfold appendNew
    split
    · rename_i h
      have hy : y ∈ l := by simpa using h
      rw [ih]
      constructor
      · rintro (h | h)
        · exact Or.inl h
        · exact Or.inr (List.mem_cons_of_mem _ h)
      · rintro (h | h)
        · exact Or.inl h
        · rcases List.mem_cons.mp h with h | h
          · exact Or.inl (h ▸ hy)
          · exact Or.inr h
    · rw [ih]
      simp only [List.mem_append, List.mem_cons, List.not_mem_nil, or_false]
      constructor
      · rintro ((h | h) | h)
        · exact Or.inl h
        · exact Or.inr (Or.inl h)
        · exact Or.inr (Or.inr h)
      · rintro (h | h | h)
        · exact Or.inl (Or.inl h)
        · exact Or.inl (Or.inr h)
        · exact Or.inr h

theorem mem_foldl_appendNew (f : Nat → List Nat) (ds init : List Nat) (x : Nat) :
    x ∈ ds.foldl (fun acc d => appendNew acc (f d)) init ↔ x ∈ init ∨ ∃ d ∈ ds, x ∈ f d := by
  induction ds generalizing init with
  | nil => simp
  | cons d ds ih =>
    simp only [List.foldl_cons]
    rw [ih, mem_appendNew]
    constructor
    · rintro ((h | h) | ⟨e, he, hx⟩)
      · exact Or.inl h
      · exact Or.inr ⟨d, List.mem_cons_self, h⟩
      · exact Or.inr ⟨e, List.mem_cons_of_mem _ he, hx⟩
    · rintro (h | ⟨e, he, hx⟩)
      · exact Or.inl (Or.inl h)
      · rcases List.mem_cons.mp he with he | he
        · exact Or.inl (Or.inr (he ▸ hx))
        · exact Or.inr ⟨e, he, hx⟩

theorem inherit_succ (reg : Reg) (n c : Nat) :
    inherit reg (n + 1) c =
      (match reg.lookup c with
       | none => []
       | some ds => (appendNew [] ds).foldl (fun acc d => appendNew acc (inherit reg n d)) (appendNew [] ds)) := rfl

/-- membership in the inherit list: a direct superclass, or inherited by one -/
theorem mem_inherit_succ (reg : Reg) (n c x : Nat) :
    x ∈ inherit reg (n + 1) c ↔
      ∃ ds, reg.lookup c = some ds ∧ (x ∈ ds ∨ ∃ d ∈ ds, x ∈ inherit reg n d) := by
  rw [inherit_succ]
  cases h : reg.lookup c with
  | none => simp
  | some ds =>
    simp only [mem_foldl_appendNew, mem_appendNew, List.not_mem_nil, false_or, Option.some.injEq,
      exists_eq_left']

theorem inherit_zero (reg : Reg) (c : Nat) : inherit reg 0 c = [] := by
  unfold inherit; rfl

/-- more fuel never loses a superclass -/
theorem inherit_mono (reg : Reg) (n c x : Nat) (h : x ∈ inherit reg n c) : x ∈ inherit reg (n + 1) c := by
  induction n generalizing c x with
  | zero => rw [inherit_zero] at h; cases h
  | succ n ih =>
    rw [mem_inherit_succ] at h ⊢
    obtain ⟨ds, hl, h⟩ := h
    refine ⟨ds, hl, ?_⟩
    rcases h with h | ⟨d, hd, hx⟩
    · exact Or.inl h
    · exact Or.inr ⟨d, hd, ih d x hx⟩

theorem inherit_mono_add (reg : Reg) (n k c x : Nat) (h : x ∈ inherit reg n c) : x ∈ inherit reg (n + k) c := by
  induction k with
  | zero => exact h
  | succ k ih => exact inherit_mono reg (n + k) c x ih

/-- the inherit relation composes (fuel adds up) -/
theorem inherit_trans_add (reg : Reg) (m k a b c : Nat)
    (hab : b ∈ inherit reg m a) (hbc : c ∈ inherit reg k b) : c ∈ inherit reg (m + k) a := by
  induction m generalizing a with
  | zero => rw [inherit_zero] at hab; cases hab
  | succ m ih =>
    rw [mem_inherit_succ] at hab
    obtain ⟨ds, hl, h⟩ := hab
    have e : m + 1 + k = (m + k) + 1 := by omega
    rw [e, mem_inherit_succ]
    refine ⟨ds, hl, Or.inr ?_⟩
    rcases h with h | ⟨d, hd, hx⟩
    · refine ⟨b, h, ?_⟩
      have := inherit_mono_add reg k m b c hbc
      rwa [Nat.add_comm] at this
    · exact ⟨d, hd, ih d hx⟩

/-- the fuel `f` exhausts every superclass chain -/
def Stable (reg : Reg) (f : Nat) : Prop := ∀ c x, x ∈ inherit reg (f + 1) c → x ∈ inherit reg f c

theorem lookup_some_mem_keys (reg : Reg) (c : Nat) (ds : List Nat) (h : reg.lookup c = some ds) :
    c ∈ reg.map (·.1) := by
  induction reg with
  | nil => simp at h
  | cons e reg ih =>
    obtain ⟨k, v⟩ := e
    simp only [List.lookup_cons] at h
    by_cases hk : c = k
    · simp [hk]
    · have : (c == k) = false := by simpa using hk
      rw [this] at h
      simp only [List.map_cons, List.mem_cons]
      exact Or.inr (ih h)

/-- what the driver checks after every definition implies `Stable` -/
theorem stable_of_check (reg : Reg) (f : Nat) (h : stableCheck reg f = true) : Stable reg f := by
  intro c x hx
  have hx' := hx
  rw [mem_inherit_succ] at hx'
  obtain ⟨ds, hl, _⟩ := hx'
  have hc := lookup_some_mem_keys reg c ds hl
  unfold stableCheck at h
  rw [List.all_eq_true] at h
  have h2 := h c hc
  rw [List.all_eq_true] at h2
  have h3 := h2 x hx
  simpa using h3

theorem stable_add (reg : Reg) (f : Nat) (hs : Stable reg f) (k c x : Nat)
    (h : x ∈ inherit reg (f + k) c) : x ∈ inherit reg f c := by
  induction k generalizing c x with
  | zero => exact h
  | succ k ih =>
    have e : f + (k + 1) = (f + k) + 1 := by omega
    rw [e, mem_inherit_succ] at h
    obtain ⟨ds, hl, h⟩ := h
    apply hs
    rw [mem_inherit_succ]
    refine ⟨ds, hl, ?_⟩
    rcases h with h | ⟨d, hd, hx⟩
    · exact Or.inl h
    · exact Or.inr ⟨d, hd, ih d x hx⟩

/-- in a registry whose chains the fuel exhausts, "inherits" is transitive -/
theorem inherit_trans (reg : Reg) (f : Nat) (hs : Stable reg f) (a b c : Nat)
    (hab : b ∈ inherit reg f a) (hbc : c ∈ inherit reg f b) : c ∈ inherit reg f a :=
  stable_add reg f hs f a c (inherit_trans_add reg f f a b c hab hbc)

/-! ### the property -/

/-- every instance satisfies typep of its own type-of -/
theorem typep_of_typeOf (reg : Reg) (c : Nat) : typep reg c (typeOf c) = true := by
  simp [typep, precedence, typeOf]

theorem mem_precedence (reg : Reg) (c : Nat) (σ : Ty) :
    typep reg c σ = true ↔
      σ = .user c ∨ (∃ d, σ = .user d ∧ d ∈ inherit reg (fuelOf reg) c) ∨ σ = .base ∨ σ = .top := by
  unfold typep precedence
  simp only [List.contains_eq_mem, decide_eq_true_eq, List.mem_cons, List.mem_append, List.mem_map,
    List.not_mem_nil, or_false]
  constructor
  · rintro ((h | ⟨d, hd, rfl⟩) | h | h)
    · exact Or.inl h
    · exact Or.inr (Or.inl ⟨d, rfl, hd⟩)
    · exact Or.inr (Or.inr (Or.inl h))
    · exact Or.inr (Or.inr (Or.inr h))
  · rintro (h | ⟨d, rfl, hd⟩ | h | h)
    · exact Or.inl (Or.inl h)
    · exact Or.inl (Or.inr ⟨d, hd, rfl⟩)
    · exact Or.inr (Or.inl h)
    · exact Or.inr (Or.inr h)

/-- typep (a walk over `Hierarchy()`) and subtypep (`Class.Inherits`) agree: an instance of a
    defined class is typep exactly the defined types its type-of is a subtype of. Both directions:
    "typep of every supertype of the type-of" and "typep implies subtypep". -/
theorem typep_iff_subtypep (reg : Reg) (c : Nat) (σ : Ty) (hc : defined reg c = true)
    (hσ : tyDefined reg σ = true) : typep reg c σ = true ↔ subtypep reg (typeOf c) σ = true := by
  rw [mem_precedence]
  cases σ with
  | user d =>
    have hd : defined reg d = true := hσ
    have e1 : (∃ e, Ty.user d = Ty.user e ∧ e ∈ inherit reg (fuelOf reg) c) ↔ d ∈ inherit reg (fuelOf reg) c := by
      constructor
      · rintro ⟨e, he, h⟩; cases he; exact h
      · intro h; exact ⟨d, rfl, h⟩
    rw [e1]
    simp only [subtypep, typeOf, tyDefined, hc, hd, inherits, Bool.true_and, Bool.or_eq_true, beq_iff_eq,
      List.contains_eq_mem, decide_eq_true_eq, Ty.user.injEq, reduceCtorEq, or_false]
    exact ⟨fun h => h.elim (fun h => Or.inl h.symm) Or.inr, fun h => h.elim (fun h => Or.inl h.symm) Or.inr⟩
  | base => simp [tyDefined] at hσ
  | top => simp [tyDefined] at hσ
  | alien => simp [subtypep, typeOf, tyDefined, hc, inherits]

/-- every instance satisfies typep of every supertype of its type-of -/
theorem typep_of_supertype (reg : Reg) (c : Nat) (σ : Ty) (hc : defined reg c = true)
    (h : subtypep reg (typeOf c) σ = true) : typep reg c σ = true := by
  have hσ : tyDefined reg σ = true := by
    unfold subtypep at h
    simp only [Bool.and_eq_true] at h
    exact h.1.2
  exact (typep_iff_subtypep reg c σ hc hσ).mpr h

/-- subtypep is reflexive on the defined types -/
theorem subtypep_refl (reg : Reg) (a : Ty) (h : tyDefined reg a = true) : subtypep reg a a = true := by
  simp [subtypep, h]

/-- subtypep is transitive (in every registry the driver accepts: `Stable`) -/
theorem subtypep_trans (reg : Reg) (hs : Stable reg (fuelOf reg)) (a b c : Ty)
    (hab : subtypep reg a b = true) (hbc : subtypep reg b c = true) : subtypep reg a c = true := by
  unfold subtypep at hab hbc ⊢
  simp only [Bool.and_eq_true, Bool.or_eq_true, beq_iff_eq] at hab hbc ⊢
  obtain ⟨⟨ha, _⟩, hab⟩ := hab
  obtain ⟨⟨_, hc⟩, hbc⟩ := hbc
  refine ⟨⟨ha, hc⟩, ?_⟩
  rcases hab with rfl | hab
  · exact hbc
  rcases hbc with rfl | hbc
  · exact Or.inr hab
  right
  cases a with
  | top => simp [tyDefined] at ha
  | base => simp [tyDefined] at ha
  | alien => simp at hab
  | user x =>
    cases b with
    | top => simp [inherits] at hab
    | alien => simp [inherits] at hab
    | base => simp [inherits] at hab
    | user y =>
      cases c with
      | top => simp [tyDefined] at hc
      | base => simp [tyDefined] at hc
      | alien => simp [inherits] at hbc
      | user z =>
        simp only [inherits, List.contains_eq_mem, decide_eq_true_eq] at hab hbc ⊢
        exact inherit_trans reg _ hs x y z hab hbc

/-- the registry after a redefinition holds the new direct superclasses of the class and nothing
    of its former definition: answers never depend on a superseded definition -/
theorem lookup_define (reg : Reg) (c : Nat) (supers : List Nat) :
    (define reg c supers).lookup c = some supers := by
  simp [define]

theorem lookup_define_other (reg : Reg) (c d : Nat) (supers : List Nat) (h : d ≠ c) :
    (define reg c supers).lookup d = reg.lookup d := by
  unfold define
  have hdc : (d == c) = false := by simpa using h
  simp only [List.lookup_cons, hdc]
  induction reg with
  | nil => simp
  | cons e reg ih =>
    obtain ⟨k, v⟩ := e
    by_cases hk : k = c
    · subst hk
      have : (d == k) = false := hdc
      simp [List.lookup_cons, this, ih]
    · have hkc : (k != c) = true := by simpa using hk
      simp only [List.filter_cons, hkc, if_true, List.lookup_cons]
      rw [ih]

/-- a history step changes the registry only through an accepted definition, and an accepted
    definition leaves a registry whose chains are exhausted (so the laws above hold after it) -/
theorem step_defc_stable (s : State) (c : Nat) (supers : List Nat) (s' : State)
    (h : step s (.defc c supers) = (s', .done)) :
    s'.reg = define s.reg c supers ∧ Stable s'.reg (fuelOf s'.reg) := by
  unfold step at h
  simp only at h
  split at h
  · simp at h
  · split at h
    · simp at h
    · rename_i h1 h2
      simp only [Prod.mk.injEq, and_true] at h
      subst h
      refine ⟨rfl, stable_of_check _ _ ?_⟩
      simp only [Bool.or_eq_true, Bool.not_eq_true', not_or, Bool.not_eq_true, Bool.not_eq_false] at h2
      simpa using h2.2

/-- non-vacuity: the history of seeded mutant C16-9 (thing < shape, then thing < solid) is accepted
    and answers by the current definition -/
example : (run {} [.defc 0 [], .defc 1 [], .defc 2 [0], .inst 0 2, .typ 0 (.user 0), .typ 0 (.user 1),
      .defc 2 [1], .inst 1 2, .typ 1 (.user 1), .typ 1 (.user 0), .sub (.user 2) (.user 1), .sub (.user 2) (.user 0)]).map
      (fun o => match o with | .bool b => some b | _ => none)
    = [none, none, none, none, some true, some false, none, none, some true, some false, some true, some false] := by
  decide

end SlipVerif.ClassReg
