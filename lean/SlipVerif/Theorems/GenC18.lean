import SlipVerif.Gen.BagBridge
import SlipVerif.Gen.BagCode
import SlipVerif.Model.JsonLisp
import SlipVerif.Model.JsonConfig
import SlipVerif.Model.JsonWrite
import SlipVerif.Lemmas.JsonText
/-
  C18 — obligations over what the extractor regenerates from the source on every run
  (extract/c18_bridge.go → Gen/BagBridge.lean: slip.SimpleObject and its helpers, the Simplify
  methods, bag.ObjectToBag, translated to Lean code / recorded case by case).

  The theorems say: the regenerated definitions compute, for ALL values, what the hand model
  (Model/JsonLisp.lean: `simpleObject`, `simplify`, `ofLisp`) computes.  Go's integer conversions
  are translated as two's-complement wrapping (`Fixnum(tv)` of a uint64 is `wrap64`), so a case that
  converts a value of a wider range than int64 without a guard breaks `gen_simpleObject_uint`
  (this is the defect repo-patches/C18/0001 repaired), a changed bound in `uintObject`, a dropped
  `IsInt64` test in `Bignum.Simplify` / `ObjectToBag` break the corresponding theorem here.
-/
namespace SlipVerif.Json.GenTie
open SlipVerif.Json
open SlipVerif.Gen

/-! ## slip.SimpleObject: the integer cases -/

/-- the Go type of a signed integer of the model (`bits = 0`: the platform `int`, 64 bits) -/
def sname (bits : Nat) : String :=
  if bits = 0 then "int" else if bits = 8 then "int8" else if bits = 16 then "int16"
  else if bits = 32 then "int32" else if bits = 64 then "int64" else "?"

def uname (bits : Nat) : String :=
  if bits = 0 then "uint" else if bits = 8 then "uint8" else if bits = 16 then "uint16"
  else if bits = 32 then "uint32" else if bits = 64 then "uint64" else "?"

/-- the value is one the Go type can hold -/
def SignedOk (bits : Nat) (v : Int) : Prop :=
  (bits = 0 ∧ -9223372036854775808 ≤ v ∧ v ≤ 9223372036854775807) ∨
  (bits = 8 ∧ -128 ≤ v ∧ v ≤ 127) ∨ (bits = 16 ∧ -32768 ≤ v ∧ v ≤ 32767) ∨
  (bits = 32 ∧ -2147483648 ≤ v ∧ v ≤ 2147483647) ∨
  (bits = 64 ∧ -9223372036854775808 ≤ v ∧ v ≤ 9223372036854775807)

def UnsignedOk (bits : Nat) (v : Nat) : Prop :=
  (bits = 0 ∧ v ≤ 18446744073709551615) ∨ (bits = 8 ∧ v ≤ 255) ∨ (bits = 16 ∧ v ≤ 65535) ∨
  (bits = 32 ∧ v ≤ 4294967295) ∨ (bits = 64 ∧ v ≤ 18446744073709551615)

/-- the Lisp object of the model an extracted object stands for -/
def objToL : BagBridge.Obj → Option L
  | .fixnum i => some (.int i)
  | .bignum i => some (.int i)
  | .octet i => some (.oct i.toNat)
  | _ => none

/-- `SimpleObject` as the source states it now gives every signed Go integer the Lisp integer with
    the same value. -/
theorem gen_simpleObject_int (bits : Nat) (v : Int) (h : SignedOk bits v) :
    (BagBridge.simpleObjectInt (sname bits) v).bind objToL = some (simpleObject (.int bits v)) := by
  rcases h with ⟨rfl, h1, h2⟩ | ⟨rfl, h1, h2⟩ | ⟨rfl, h1, h2⟩ | ⟨rfl, h1, h2⟩ | ⟨rfl, h1, h2⟩ <;>
    simp [BagBridge.simpleObjectInt, sname, objToL, simpleObject, BagBridge.wrap64] <;> omega

example : SignedOk 8 (-128) := by unfold SignedOk; omega
example : SignedOk 64 9223372036854775807 := by unfold SignedOk; omega

theorem wrapU64_id (v : Nat) (h : v ≤ 18446744073709551615) : BagBridge.wrapU64 (v : Int) = v := by
  unfold BagBridge.wrapU64; omega

/-- the helper `uintObject` as the source states it now keeps the value of every uint64 -/
theorem gen_uintObject_value (v : Nat) (h : v ≤ 18446744073709551615) :
    objToL (BagBridge.uintObject (v : Int)) = some (.int v) := by
  unfold BagBridge.uintObject
  split
  · rename_i hc
    have hc' := of_decide_eq_true hc
    try simp only [BagBridge.wrapU64, BagBridge.wrap64] at hc'
    simp only [objToL, BagBridge.wrap64, BagBridge.wrapU64, Option.some.injEq, L.int.injEq]
    omega
  · rename_i hc
    have hc' := fun hh => hc (decide_eq_true hh)
    try simp only [BagBridge.wrapU64, BagBridge.wrap64] at hc'
    simp only [objToL, BagBridge.wrap64, BagBridge.wrapU64, Option.some.injEq, L.int.injEq]
    omega

/-- the `uint` and `uint64` cases of the type switch go through the helper (and only through it) -/
theorem so_uint (x : Int) : BagBridge.simpleObjectInt "uint" x = some (BagBridge.uintObject (BagBridge.wrapU64 x)) := by
  simp [BagBridge.simpleObjectInt]

theorem so_uint64 (x : Int) : BagBridge.simpleObjectInt "uint64" x = some (BagBridge.uintObject x) := by
  simp [BagBridge.simpleObjectInt]

/-- … and every unsigned Go integer — a uint64 above the int64 maximum included — the Lisp integer
    (octet for a uint8) with the same value: never a negative one. -/
theorem gen_simpleObject_uint (bits : Nat) (v : Nat) (h : UnsignedOk bits v) :
    (BagBridge.simpleObjectInt (uname bits) (v : Int)).bind objToL = some (simpleObject (.uint bits v)) := by
  rcases h with ⟨rfl, h1⟩ | ⟨rfl, h1⟩ | ⟨rfl, h1⟩ | ⟨rfl, h1⟩ | ⟨rfl, h1⟩
  · have hu : uname 0 = "uint" := by decide
    rw [hu, so_uint, wrapU64_id v h1, Option.bind_some, gen_uintObject_value v h1]
    simp [simpleObject]
  · simp [BagBridge.simpleObjectInt, uname, objToL, simpleObject, BagBridge.wrapU]
    omega
  · simp [BagBridge.simpleObjectInt, uname, objToL, simpleObject, BagBridge.wrap64]
    omega
  · simp [BagBridge.simpleObjectInt, uname, objToL, simpleObject, BagBridge.wrap64]
    omega
  · have hu : uname 64 = "uint64" := by decide
    rw [hu, so_uint64, Option.bind_some, gen_uintObject_value v h1]
    simp [simpleObject]

example : UnsignedOk 64 18446744073709551615 := by unfold UnsignedOk; omega
example : (BagBridge.simpleObjectInt "uint64" 18446744073709551615).bind objToL = some (.int 18446744073709551615) :=
  gen_simpleObject_uint 64 18446744073709551615 (by unfold UnsignedOk; omega)

/-! ## the Simplify methods -/

/-- the plain Go value of the model an extracted value stands for (integer payloads) -/
def valToG : BagBridge.Val → Option G
  | .int64 i => some (.int 64 i)
  | .text i => some (.str (String.ofList (intChars i)))
  | _ => none

/-- `Fixnum.Simplify` / `Bignum.Simplify` as the source states them now: an integer inside int64
    comes back as that int64, one outside as its decimal text (never a wrapped value). A Lisp
    integer is a Fixnum exactly when it fits. -/
theorem gen_simplify_int (i : Int) :
    (BagBridge.simplifyScalar (if fitsInt64 i then "Fixnum" else "Bignum") i).bind valToG = some (simplify (.int i)) := by
  by_cases h : fitsInt64 i = true
  · have h' := h
    simp only [fitsInt64, Bool.and_eq_true, decide_eq_true_eq] at h'
    simp [BagBridge.simplifyScalar, simplify, h, valToG, BagBridge.wrap64]
    omega
  · have hb : BagBridge.isInt64 i = false := by
      simp only [fitsInt64] at h
      simpa [BagBridge.isInt64] using h
    simp [BagBridge.simplifyScalar, simplify, h, valToG, hb]

/-- a Bignum object that holds a small value (arithmetic can produce one) simplifies like the Fixnum -/
theorem gen_simplify_bignum_any (i : Int) :
    (BagBridge.simplifyScalar "Bignum" i).bind valToG = some (simplify (.int i)) := by
  by_cases h : fitsInt64 i = true
  · have h' := h
    simp only [fitsInt64, Bool.and_eq_true, decide_eq_true_eq] at h'
    have hb : BagBridge.isInt64 i = true := by simpa [BagBridge.isInt64, fitsInt64] using h
    simp [BagBridge.simplifyScalar, simplify, h, valToG, hb, BagBridge.wrap64]
    omega
  · have hb : BagBridge.isInt64 i = false := by
      simp only [fitsInt64] at h
      simpa [BagBridge.isInt64] using h
    simp [BagBridge.simplifyScalar, simplify, h, valToG, hb]

theorem gen_simplify_octet (n : Nat) (h : n ≤ 255) :
    (BagBridge.simplifyScalar "Octet" (n : Int)).bind valToG = some (simplify (.oct n)) := by
  simp [BagBridge.simplifyScalar, simplify, valToG, BagBridge.wrap64]
  omega

/-- the other scalar types: the conversion each Simplify method applies is the one the model's
    `simplify` stands for (single- and double-float → float64, string and symbol → string, time →
    time.Time, t → true) -/
theorem gen_simplify_conversions :
    BagBridge.simplifyScalar "SingleFloat" 0 = some (.conv "float64") ∧
    BagBridge.simplifyScalar "DoubleFloat" 0 = some (.conv "float64") ∧
    BagBridge.simplifyScalar "String" 0 = some (.conv "string") ∧
    BagBridge.simplifyScalar "Symbol" 0 = some (.conv "string") ∧
    BagBridge.simplifyScalar "Time" 0 = some (.conv "time.Time") ∧
    BagBridge.simplifyScalar "boolean" 0 = some (.lit "true") := by decide

/-- `List.Simplify`: a slice of the same length, element by element, a nil element stays nil
    (model: `simplifyL`); `Tail.Simplify`: the value's Simplify, nil for a nil value (model:
    `simplify (.tail v) = simplify v`). -/
theorem gen_simplify_containers :
    BagBridge.listSimplify = ["l1 := make([]any, len(obj))", "range obj", "if rv == nil", "l1[rk] = nil", "else",
      "l1[rk] = rv.Simplify()", "end", "end", "return l1"] ∧
    BagBridge.tailSimplify = ["if t.Value != nil", "a = t.Value.Simplify()", "end", "return"] := by decide

/-! ## the round trip over the extracted code: Simplify(SimpleObject(v)) for every Go integer -/

/-- Composition of the two extracted halves: a Go integer of any type whose value fits int64 comes
    back from `Simplify(SimpleObject(v))` as the int64 with the same value. -/
theorem gen_roundtrip_signed (bits : Nat) (v : Int) (h : SignedOk bits v) :
    ∃ o l, BagBridge.simpleObjectInt (sname bits) v = some o ∧ objToL o = some l ∧ l = .int v ∧
      (BagBridge.simplifyScalar "Fixnum" v).bind valToG = some (.int 64 v) := by
  have hs := gen_simpleObject_int bits v h
  have hf : fitsInt64 v = true := by
    simp only [fitsInt64, Bool.and_eq_true, decide_eq_true_eq]
    rcases h with ⟨_, h1, h2⟩ | ⟨_, h1, h2⟩ | ⟨_, h1, h2⟩ | ⟨_, h1, h2⟩ | ⟨_, h1, h2⟩ <;> omega
  have hg := gen_simplify_int v
  simp only [hf, if_true, simplify] at hg
  cases ho : BagBridge.simpleObjectInt (sname bits) v with
  | none => simp [ho] at hs
  | some o =>
    simp only [ho, Option.bind_some, simpleObject] at hs
    exact ⟨o, .int v, rfl, hs, rfl, hg⟩

/-! ## bag.ObjectToBag -/

/-- the bag value an extracted Go value stands for: a json.Number is read the way the parsers read
    a number token (`classify`) -/
def valToJ : BagBridge.Val → Option J
  | .int64 i => some (.int i)
  | .number i => (classify (intChars i)).toOption
  | _ => none

/-- the `*slip.Bignum` case of `ObjectToBag` as the source states it now: every integer reaches the
    bag with its own value — an int64 when it fits, a json.Number of its decimal text otherwise
    (which reads back as the same integer, `int_text_roundtrip`). Model: `ofLisp (.int i) = int i`. -/
theorem gen_objectToBag_bignum (i : Int) :
    valToJ (BagBridge.objectToBagBignum i) = (ofLisp (.int i)).toOption := by
  unfold BagBridge.objectToBagBignum
  split
  · rename_i h
    have h' : -9223372036854775808 ≤ i ∧ i ≤ 9223372036854775807 := by
      simpa [BagBridge.isInt64] using h
    simp [valToJ, ofLisp, Except.toOption, BagBridge.wrap64]
    omega
  · simp [valToJ, ofLisp, classify_intChars, Except.toOption]

/-- the cases of its type switch (nil, symbol, list, bignum, bag instance; everything else goes to
    the value's own Simplify) are the clauses of the model's `ofLisp` -/
theorem gen_objectToBag_cases :
    BagBridge.objectToBagCases = ["*flavors.Instance", "*slip.Bignum", "nil", "slip.List", "slip.Symbol"] ∧
    BagBridge.objectToBagDefault = "v = val.Simplify()" := by decide

/-- the symbol case: `:false` in any letter case is the boolean false, every other symbol its name
    (model: `lower s = ":false"`) -/
theorem gen_objectToBag_symbol :
    BagBridge.objectToBagSymbol = ["if strings.EqualFold(\":false\", string(val))", "v = false", "else", "v = string(val)", "end"] := by
  decide

/-- the list case: the empty list is nil; a list whose first element is a two element list ending
    in a tail is an assoc list (every element then has to be a two element list with a symbol or
    string first, a tail second element stands for its value); every other list an array, element
    by element (model: `ofLisp (.list …)`, `isPair`, `ofLispA`, `ofLispL`) -/
theorem gen_objectToBag_list :
    BagBridge.objectToBagList = ["if len(val) == 0", "v = nil", "break", "end",
      "if l1, l2 := val[0].(slip.List); l2 && len(l1) == 2", "if _, l2 = l1[1].(slip.Tail); l2", "l3 := map[string]any{}",
      "range val", "if l1, l2 = rv.(slip.List); !l2 || len(l1) != 2", "raise", "end",
      "switch l5 := l1[0].(type)", "case slip.Symbol", "l4 = string(l5)", "case slip.String", "l4 = string(l5)", "default", "raise", "end",
      "l6 := l1[1]", "if l7, l2 = l6.(slip.Tail); l2", "l6 = l7.Value", "end", "l3[l4] = ObjectToBag(s, l6, depth)", "end",
      "v = l3", "break", "end", "end",
      "l8 := make([]any, len(val))", "range val", "if rv == nil", "l8[rk] = nil", "else", "l8[rk] = ObjectToBag(s, rv, depth)", "end", "end",
      "v = l8"] := by decide

/-! ## slip.SimpleObject: the remaining cases -/

/-- the non-integer cases of `SimpleObject`: the constructor each applies (model: `simpleObject`),
    the loops of the two container cases (a slice element by element; a map as a list of
    `(key . value)` pairs, the value under a Tail), no default clause -/
theorem gen_simpleObject_other :
    BagBridge.simpleObjectOther.lookup "bool" = some "if tv; obj = True; end" ∧
    BagBridge.simpleObjectOther.lookup "float32" = some "obj = SingleFloat(tv)" ∧
    BagBridge.simpleObjectOther.lookup "float64" = some "obj = DoubleFloat(tv)" ∧
    BagBridge.simpleObjectOther.lookup "string" = some "obj = String(tv)" ∧
    BagBridge.simpleObjectOther.lookup "time.Time" = some "obj = Time(tv)" ∧
    BagBridge.simpleObjectOther.lookup "json.Number" = some "obj = numberObject(tv)" ∧
    BagBridge.simpleObjectOther.lookup "[]any" =
      some "l1 := make(List, 0, len(tv)); range tv; l1 = append(l1, SimpleObject(rv)); end; obj = l1" ∧
    BagBridge.simpleObjectOther.lookup "map[string]any" =
      some "l1 := make(List, 0, len(tv)); range tv; l1 = append(l1, List{String(rk), Tail{Value: SimpleObject(rv)}}); end; obj = l1" ∧
    BagBridge.simpleObjectHasDefault = false := by decide

/-! ## pkg/bag/pkg.go: the converter the two variables call for -/

/-- the model's converter an extracted selection stands for, under the current values -/
def convOfSel (format wrap : String) : BagCode.ConvSel → Option Conv
  | .off => some .off
  | .named "ojg.TimeNanoConverter" => some .nano
  | .named "ojg.TimeRFC3339Converter" => some .rfc3339
  | .built "ojg.Converter" ["Float"] => some .second
  | .built "ojg.Converter" ["String"] => some (.layout format)
  | .built "alt.Converter" ["Map"] => some (.wrap wrap format)
  | _ => none

/-- `updateConverter` as the source states it now stores, for ALL values of *bag-time-format* and
    *bag-time-wrap*, the converter the model's `derive` names: in particular `off` whenever the
    format is nil — on every path something is stored, so no earlier converter survives
    (`conv_is_derived`, `reset_restores_default` are theorems about this very function). -/
theorem gen_derive (format wrap : String) :
    convOfSel format wrap (BagCode.derive format wrap) = some (derive format wrap) := by
  unfold BagCode.derive derive
  by_cases h1 : format = ""
  · simp [h1, convOfSel]
  · by_cases h2 : wrap = ""
    · by_cases h3 : format = "nano"
      · simp [h3, h2, convOfSel]
      · by_cases h4 : format = "2006-01-02T15:04:05.999999999Z07:00"
        · simp [h4, h2, convOfSel, rfc3339nano]
        · by_cases h5 : format = "rfc3339"
          · simp [h5, h2, convOfSel, rfc3339nano]
          · by_cases h6 : format = "second"
            · simp [h6, h2, convOfSel, rfc3339nano]
            · simp [h1, h2, h3, h4, h5, h6, convOfSel, rfc3339nano]
    · simp [h1, h2, convOfSel]

example : convOfSel "second" "" (BagCode.derive "second" "") = some .second := gen_derive "second" ""
example : convOfSel "" "t" (BagCode.derive "" "t") = some .off := gen_derive "" "t"

/-- the range test of the `second` converter: both ends included, the model's bounds -/
theorem gen_second_range (x : Int) :
    BagCode.secondRange x = (decide ((secondLo : Int) ≤ x) && decide (x ≤ (secondHi : Int))) := by
  simp [BagCode.secondRange, secondLo, secondHi]
  rfl

/-- the length test of a layout converter -/
theorem gen_layout_min_len (n : Int) : BagCode.layoutMinLen n = decide ((layoutMin : Int) ≤ n) := by
  simp [BagCode.layoutMinLen, layoutMin]
  rfl

/-- the wrap converter: exactly one member (`wrapFires` matches `[(k, v)]`), the layouts tried on a
    string member (RFC 3339 with and without fraction, the plain date, then the format itself),
    nanoseconds for an int64 member -/
theorem gen_wrap_converter (format : String) :
    (∀ n : Int, BagCode.wrapMembers n = decide (n = 1)) ∧
    BagCode.wrapLayouts format = [rfc3339nano, "2006-01-02T15:04:05Z07:00", "2006-01-02", format] ∧
    BagCode.wrapValueTypes = ["int64", "string"] := by
  refine ⟨fun n => rfl, rfl, by decide⟩

/-- both setters accept nil, a symbol or a string and end by rebuilding the converter
    (model: `setFormat` / `setWrap` = `updateConverter` after the assignment) -/
theorem gen_setters_rebuild :
    BagCode.setTimeFormat = ["switch l1 := value.(type)", "case nil", "options.TimeFormat = \"\"",
      "case slip.Symbol", "options.TimeFormat = string(l1)", "case slip.String", "options.TimeFormat = string(l1)",
      "default", "raise", "end", "updateConverter()"] ∧
    BagCode.setTimeWrap = ["switch l1 := value.(type)", "case nil", "options.TimeWrap = \"\"",
      "case slip.Symbol", "options.TimeWrap = string(l1)", "case slip.String", "options.TimeWrap = string(l1)",
      "default", "raise", "end", "updateConverter()"] := by decide

/-! ## pkg/bag/write.go: the options of bag-write -/

def writerGoName : Writer → String
  | .pretty => "pw.Encode"
  | .sen => "sen.Bytes"
  | .json => "oj.JSON"

/-- which writer produces the text, for ALL settings: the pretty writer exactly when the pretty
    flag is on and the depth exceeds 1, otherwise the SEN or the JSON writer by the SEN flag -/
theorem gen_writer_branch (w : WOpts) :
    BagCode.writerBranch w.prty w.maxDepth w.sen = writerGoName (writerOf w) := by
  unfold BagCode.writerBranch writerOf
  by_cases h1 : (w.prty && decide (1 < w.maxDepth)) = true
  · simp only [h1, if_true, writerGoName]
  · by_cases h2 : w.sen = true <;> simp [h1, h2, writerGoName]

/-- the settings before any keyword is read (model: `WOpts.init`) -/
theorem gen_write_defaults :
    BagCode.writeDefaults = [("prty", "dp.Pretty"), ("pw.Indent", "2"), ("pw.MaxDepth", "4"), ("pw.Options", "options"),
      ("pw.SEN", "true"), ("pw.Width", "int(dp.RightMargin)")] := by decide

example : (WOpts.init true 80).maxDepth = 4 ∧ (WOpts.init true 80).indent = 2 ∧ (WOpts.init true 80).sen = true := ⟨rfl, rfl, rfl⟩

/-- the keywords and what each does (model: `applyKw`): `:pretty` sets the flag from "non-nil" and
    switches key sorting on; `:depth` wants a fixnum, sets the depth and drops the indentation at
    depth ≤ 0; `:right-margin` wants a fixnum; `:time-format` / `:time-wrap` want nil or a string
    and touch the writer's copy only; `:json` clears the SEN flag when non-nil; `:color` sets the
    colour flag from "non-nil"; anything else raises -/
theorem gen_write_keywords :
    BagCode.writeKeywords = [
      (":color", ["pw.Color = args[pos+1] != nil"]),
      (":depth", ["l1, l2 := args[pos+1].(slip.Fixnum)", "if !l2", "raise", "end", "pw.MaxDepth = int(l1)",
        "if pw.MaxDepth <= 0", "pw.Indent = 0", "end"]),
      (":json", ["pw.SEN = args[pos+1] == nil"]),
      (":pretty", ["prty = args[pos+1] != nil", "pw.Options.Sort = true"]),
      (":right-margin", ["l1, l2 := args[pos+1].(slip.Fixnum)", "if !l2", "raise", "end", "pw.Width = int(l1)"]),
      (":time-format", ["switch l1 := args[pos+1].(type)", "case nil", "pw.TimeFormat = \"\"", "case slip.String",
        "pw.TimeFormat = string(l1)", "default", "raise", "end"]),
      (":time-wrap", ["switch l1 := args[pos+1].(type)", "case nil", "pw.TimeWrap = \"\"", "case slip.String",
        "pw.TimeWrap = string(l1)", "default", "raise", "end"])] ∧
    BagCode.writeUnknownKeywordRaises = true := by decide

/-- every keyword the source accepts is one the model's `applyKw` accepts (with a value of the
    right kind), and no other is -/
theorem gen_write_keywords_model (w : WOpts) :
    (∀ kw ∈ BagCode.writeKeywords.map (·.1),
      (applyKw kw (.fix 3) w).isSome = true ∨ (applyKw kw (.str "x") w).isSome = true) ∧
    applyKw ":unknown" .nil w = none := by
  constructor
  · intro kw hkw
    have hk : kw = ":color" ∨ kw = ":depth" ∨ kw = ":json" ∨ kw = ":pretty" ∨ kw = ":right-margin" ∨
        kw = ":time-format" ∨ kw = ":time-wrap" := by
      have h := gen_write_keywords.1
      rw [h] at hkw
      simpa using hkw
    rcases hk with rfl | rfl | rfl | rfl | rfl | rfl | rfl <;> simp [applyKw]
  · simp [applyKw]

/-- the destination (nil = a string is returned, a stream or t = written there and nil returned) -/
theorem gen_write_destination :
    BagCode.writeStreamArg = ["switch l1 := args[0].(type)", "case nil", "pos++", "case io.Writer", "out = l1", "pos++",
      "case slip.Symbol", "default", "if l1 == slip.True", "out = slip.StandardOutput.(io.Writer)", "else", "raise", "end",
      "pos++", "end"] ∧
    BagCode.writeOutput = ["if out == nil", "return slip.String(b)", "end", "if _, l1 := out.Write(b); l1 != nil", "raise",
      "end", "return nil"] := by decide

/-! ## which ojg operation each path function applies to the bag's tree -/

/-- get = `First`, get-all and walk = `Get`, has = `Has`, set / parse / read with a path = `MustSet`,
    remove = `MustRemove` **with the returned root stored back**, modify = `MustModify` with the
    returned root stored back, scan = `jp.Walk`, native = `SimpleObject`, compare = `alt.Compare`;
    without a path the tree itself is read / replaced. (Model: `get`, `getAll`, `walk`, `has`, `set`,
    `remove`, `modifyAt`, `scan`, `toLisp`, `compare`.) -/
theorem gen_tree_uses :
    BagCode.treeUses.lookup "get.go:getBag" = some ["obj.Any = value", "x.First(obj.Any)"] ∧
    BagCode.treeUses.lookup "get-all.go:getAllBag" = some ["obj.Any = got", "ov.Any = v", "x.Get(obj.Any)"] ∧
    BagCode.treeUses.lookup "has.go:hasBag" = some ["x.Has(obj.Any)"] ∧
    BagCode.treeUses.lookup "set.go:setBag" = some ["obj.Any = v", "x.MustSet(obj.Any, v)"] ∧
    BagCode.treeUses.lookup "parse.go:parseBag" = some ["obj.Any = v", "x.MustSet(obj.Any, v)"] ∧
    BagCode.treeUses.lookup "read.go:readBag" = some ["obj.Any = v", "x.MustSet(obj.Any, v)"] ∧
    BagCode.treeUses.lookup "remove.go:removeBag" = some ["obj.Any = nil", "obj.Any = x.MustRemove(obj.Any)"] ∧
    BagCode.treeUses.lookup "walk.go:walkBag" = some ["arg.Any = v", "path.Get(obj.Any)"] ∧
    BagCode.treeUses.lookup "scan.go:scanBag" = some ["jp.Walk(obj.Any, func, leavesOnly)"] ∧
    BagCode.treeUses.lookup "native.go:Native.Call" = some ["slip.SimpleObject(obj.Any)"] ∧
    BagCode.treeUses.lookup "compare.go:compareBag" = some ["alt.Compare(obj.Any, other.Any, ignores)"] ∧
    (BagCode.treeUses.lookup "modify.go:modifyBag").map (·.length) = some 2 := by decide

/-- The functions that touch a bag's tree (and the package functions they call) reach no package-level
    variable but the flavor (assigned once when the package is loaded) and the converter options
    (the state Model/JsonConfig.lean models): what `bag-get`, `bag-has`, … answer is a function of the
    bag's tree and the arguments — no memo, cache or pooled object outlives a call, which is what the
    heap model of Model/JsonAlias.lean assumes when several bags look at one tree (seeded C18-10: a
    remembered lookup in get.go). Functions may be added, renamed or split; only a new variable breaks it. -/
theorem gen_tree_funcs_stateless :
    BagCode.treeFuncGlobals.all (fun e => e.2.all (fun v => v == "flavor" || v == "options")) = true ∧
    BagCode.treeFuncGlobals.length ≥ 12 := by decide

end SlipVerif.Json.GenTie
