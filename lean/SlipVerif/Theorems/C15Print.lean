import SlipVerif.Theorems.C15Runs
/-! C15, extension round 4 — characters and printer variables.

* UTF-8: `utf8Enc` (what ~C ~:C ~@C ~A ~S write for a character) has the documented length classes, is
  inverted by the independent strict decoder `utf8Dec` on every scalar value (so its output is well-formed,
  shortest-form UTF-8 and distinct characters have distinct encodings), also on whole strings of characters;
* `~C` and its three variants write the character / its name / `#\` + name and consume one argument;
* integers under `*print-base*` / `*print-radix*`: shape of `printInt` (prefix, sign after the prefix, digits
  that read back in the base, trailing dot for decimal);
* the printer variables are the context of the WHOLE call: whatever directives ran before in the same call
  (from whatever state, with whatever arguments), a later ~A / ~S prints an integer as `printInt T` gives it;
  the non-integer fallback of ~D ~B ~O ~X ~nR does not depend on the printer variables at all. -/
namespace SlipVerif.Theorems.C15Print
open SlipVerif.Format SlipVerif.Theorems.C15 SlipVerif.Theorems.C15Runs

/-! ## UTF-8 -/

/-- the length classes: 1 byte below U+0080, 2 below U+0800, 3 below U+10000, else 4 -/
theorem utf8_length_classes (c : Nat) :
    (utf8Enc c).length = (if c < 0x80 then 1 else if c < 0x800 then 2 else if c < 0x10000 then 3 else 4) := by
  unfold utf8Enc
  split
  · rfl
  · split
    · rfl
    · split <;> rfl

/-- every byte of the encoding of a scalar value is a byte, the first is no continuation byte and the others are -/
theorem utf8_bytes (c : Nat) (hc : isScalar c = true) :
    (∀ b ∈ utf8Enc c, b < 256) ∧ (∃ b0 rest, utf8Enc c = b0 :: rest ∧ isCont b0 = false ∧ ∀ b ∈ rest, isCont b = true) := by
  simp only [isScalar, Bool.and_eq_true, decide_eq_true_eq, Bool.not_eq_true', Bool.and_eq_false_iff, decide_eq_false_iff_not] at hc
  unfold utf8Enc
  by_cases h1 : c < 0x80
  · simp only [h1, if_true]
    refine ⟨by intro b hb; simp at hb; omega, c, [], rfl, ?_, by simp⟩
    simp [isCont] <;> omega
  · by_cases h2 : c < 0x800
    · simp only [h1, h2, if_true, if_false]
      refine ⟨by intro b hb; simp at hb; omega, _, _, rfl, ?_, ?_⟩
      · simp [isCont] <;> omega
      · intro b hb; simp at hb; subst hb; simp [isCont] <;> omega
    · by_cases h3 : c < 0x10000
      · simp only [h1, h2, h3, if_true, if_false]
        refine ⟨by intro b hb; simp at hb; omega, _, _, rfl, ?_, ?_⟩
        · simp [isCont] <;> omega
        · intro b hb; simp at hb; rcases hb with hb | hb <;> subst hb <;> simp [isCont] <;> omega
      · simp only [h1, h2, h3, if_false]
        refine ⟨by intro b hb; simp at hb; omega, _, _, rfl, ?_, ?_⟩
        · simp [isCont] <;> omega
        · intro b hb; simp at hb; rcases hb with hb | hb | hb <;> subst hb <;> simp [isCont] <;> omega

/-- the independent strict decoder reads the encoding of every scalar value back, whatever follows -/
theorem utf8_decode_encode (c : Nat) (hc : isScalar c = true) (rest : Txt) :
    utf8Dec (utf8Enc c ++ rest) = some (c, rest) := by
  have hs := hc
  simp only [isScalar, Bool.and_eq_true, decide_eq_true_eq, Bool.not_eq_true', Bool.and_eq_false_iff, decide_eq_false_iff_not] at hc
  unfold utf8Enc
  by_cases h1 : c < 0x80
  · simp [h1, utf8Dec]
  · by_cases h2 : c < 0x800
    · simp only [h1, h2, if_true, if_false, List.cons_append, List.nil_append, utf8Dec]
      have e : (0xC0 + c / 64 - 0xC0) * 64 + (0x80 + c % 64 - 0x80) = c := by omega
      have a1 : ¬ (0xC0 + c / 64 < 0x80) := by omega
      have a2 : ¬ (0xC0 + c / 64 < 0xC0) := by omega
      have a3 : 0xC0 + c / 64 < 0xE0 := by omega
      have k1 : isCont (0x80 + c % 64) = true := by simp [isCont] <;> omega
      simp only [a1, a2, a3, if_true, if_false, e, k1, true_and]
      have : 0x80 ≤ c := by omega
      simp [this]
    · by_cases h3 : c < 0x10000
      · simp only [h1, h2, h3, if_true, if_false, List.cons_append, List.nil_append, utf8Dec]
        have e : (0xE0 + c / 4096 - 0xE0) * 4096 + (0x80 + c / 64 % 64 - 0x80) * 64 + (0x80 + c % 64 - 0x80) = c := by omega
        have a1 : ¬ (0xE0 + c / 4096 < 0x80) := by omega
        have a2 : ¬ (0xE0 + c / 4096 < 0xC0) := by omega
        have a3 : ¬ (0xE0 + c / 4096 < 0xE0) := by omega
        have a4 : 0xE0 + c / 4096 < 0xF0 := by omega
        have k1 : isCont (0x80 + c / 64 % 64) = true := by simp [isCont] <;> omega
        have k2 : isCont (0x80 + c % 64) = true := by simp [isCont] <;> omega
        simp only [a1, a2, a3, a4, if_true, if_false, e, k1, k2, hs, true_and, and_true]
        have : 0x800 ≤ c := by omega
        simp [this]
      · simp only [h1, h2, h3, if_false, List.cons_append, List.nil_append, utf8Dec]
        have e : (0xF0 + c / 262144 - 0xF0) * 262144 + (0x80 + c / 4096 % 64 - 0x80) * 4096 + (0x80 + c / 64 % 64 - 0x80) * 64
            + (0x80 + c % 64 - 0x80) = c := by omega
        have a1 : ¬ (0xF0 + c / 262144 < 0x80) := by omega
        have a2 : ¬ (0xF0 + c / 262144 < 0xC0) := by omega
        have a3 : ¬ (0xF0 + c / 262144 < 0xE0) := by omega
        have a4 : ¬ (0xF0 + c / 262144 < 0xF0) := by omega
        have a5 : 0xF0 + c / 262144 < 0xF8 := by omega
        have k1 : isCont (0x80 + c / 4096 % 64) = true := by simp [isCont] <;> omega
        have k2 : isCont (0x80 + c / 64 % 64) = true := by simp [isCont] <;> omega
        have k3 : isCont (0x80 + c % 64) = true := by simp [isCont] <;> omega
        simp only [a1, a2, a3, a4, a5, if_true, if_false, e, k1, k2, k3, hs, true_and, and_true]
        have : 0x10000 ≤ c := by omega
        simp [this]

/-- the decoder is hit by a concrete character of each length class -/
example : utf8Enc 0xE9 = [0xC3, 0xA9] ∧ utf8Enc 0x65E5 = [0xE6, 0x97, 0xA5] ∧ utf8Enc 0x1F600 = [0xF0, 0x9F, 0x98, 0x80]
    ∧ utf8Dec [0xC3, 0xA9, 65] = some (0xE9, [65]) ∧ utf8Dec [0xE9] = none ∧ utf8Dec [0xC0, 0x80] = none := by decide

/-- distinct characters have distinct encodings -/
theorem utf8_injective (a b : Nat) (ha : isScalar a = true) (hb : isScalar b = true) (h : utf8Enc a = utf8Enc b) : a = b := by
  have h1 := utf8_decode_encode a ha []
  have h2 := utf8_decode_encode b hb []
  rw [h] at h1
  rw [h1] at h2
  injection h2 with h2
  injection h2

/-- a whole string of characters: the concatenated encodings decode to exactly those characters -/
theorem utf8_decode_all (cs : List Nat) (hcs : ∀ c ∈ cs, isScalar c = true) (f : Nat) (hf : cs.length ≤ f) :
    utf8DecAll f (cs.flatMap utf8Enc) = some cs := by
  induction cs generalizing f with
  | nil => cases f <;> simp [utf8DecAll]
  | cons c cs ih =>
    cases f with
    | zero => simp at hf
    | succ f =>
      have hc := hcs c (by simp)
      obtain ⟨_, b0, rest, he, _, _⟩ := utf8_bytes c hc
      have hd := utf8_decode_encode c hc (cs.flatMap utf8Enc)
      simp only [List.flatMap_cons]
      rw [he] at hd ⊢
      simp only [List.cons_append] at hd ⊢
      simp only [utf8DecAll, hd]
      simp [ih (fun c hc' => hcs c (by simp [hc'])) f (by simpa using hf)]

/-! ## ~C -/

/-- ~C writes the character (UTF-8), ~:C and ~:@C its name (or the character when it has none), ~@C the reader
    syntax `#\` + that; each consumes exactly the character argument -/
theorem char_directive_spec (T : EnglishTables) (st st1 : St) (c : Nat) (hc : isScalar c = true)
    (h : st.next = .ok (.chr c, st1)) :
    runSimple T .c [] false false st = .ok (st1.emit (utf8Enc c))
    ∧ (∀ t, charSpelled c = .ok t →
        runSimple T .c [] true false st = .ok (st1.emit t)
        ∧ runSimple T .c [] true true st = .ok (st1.emit t)
        ∧ runSimple T .c [] false true st = .ok (st1.emit (35 :: 92 :: t))) := by
  refine ⟨?_, ?_⟩
  · simp [runSimple, h, charText, hc, bind, Except.bind, pure, Except.pure]
  · intro t ht
    simp [runSimple, h, ht, bind, Except.bind, pure, Except.pure, Except.map]

/-- every scalar value has a spelled form: a name for the seven named characters, `u00hh` for the other C0
    controls, the character itself otherwise -/
theorem char_spelled_total (c : Nat) (hc : isScalar c = true) :
    ∃ t, charSpelled c = .ok t ∧ t ≠ []
      ∧ (charName? c = none → 32 ≤ c → t = utf8Enc c)
      ∧ (charName? c = none → c < 32 → t = [117, 48, 48, digitChar (c / 16), digitChar (c % 16)]) := by
  unfold charSpelled
  cases hn : charName? c with
  | some n =>
    refine ⟨n, rfl, ?_, by simp, by simp⟩
    unfold charName? at hn
    repeat' split at hn
    all_goals first | (injection hn with hn; subst hn; simp) | (simp at hn)
  | none =>
    by_cases h32 : c < 32
    · simp only [h32, if_true]
      exact ⟨_, rfl, by simp, by intro _ h; exact absurd h (by omega), by intro _ _; rfl⟩
    · simp only [h32, if_false, hc, if_true]
      refine ⟨_, rfl, ?_, by intro _ _; rfl, by intro _ h; first | exact absurd h (by omega) | exact h.elim | omega⟩
      obtain ⟨_, b0, rest, he, _, _⟩ := utf8_bytes c hc
      rw [he]; simp

/-! ## integers under *print-base* / *print-radix* -/

/-- what ~A ~S princ prin1 print for an integer: without `*print-radix*` the digits in the base (sign first);
    with it the marker, then sign and digits, and a dot after a decimal number. The digits read back. -/
theorem print_integer_spec (base : Nat) (hb : 2 ≤ base ∧ base ≤ 36) (n : Int) :
    showIntEnv base false n = signOf false n ++ intBody base {} n
    ∧ showIntEnv base true n = radixPrefix base ++ (signOf false n ++ intBody base {} n) ++ (if base = 10 then [46] else [])
    ∧ parseDigits base (intBody base {} n) = some n.natAbs
    ∧ (signOf false n = [45] ↔ n < 0) ∧ (signOf false n = [] ↔ 0 ≤ n)
    ∧ showIntEnv 10 false n = showInt n := by
  have hc : ∀ d, d < base → digitChar d ≠ ({} : IntFmt).comma := by
    intro d hd
    unfold digitChar
    show (if d < 10 then 48 + d else 87 + d) ≠ 44
    split <;> omega
  have spec := int_directive_spec base hb {} (by decide) hc n
  refine ⟨?_, ?_, ?_, spec.2.2.1, ?_, rfl⟩
  · simp [showIntEnv, renderInt, padLeft]
  · simp [showIntEnv, renderInt, padLeft, radixSuffix]
  · have := spec.2.2.2.2.2.1
    have hno := spec.2.2.2.2.2.2.1 rfl
    rwa [List.filter_eq_self.mpr (by intro c hcm; simpa using hno c hcm)] at this
  · have := spec.2.2.2.2.1
    simpa using this

/-- the radix marker names the base: `#b` `#o` `#x`, nothing for decimal, else `#` + the base in decimal + `r` -/
theorem radix_prefix_spec (base : Nat) (hb : 2 ≤ base ∧ base ≤ 36) :
    (base = 2 → radixPrefix base = [35, 98]) ∧ (base = 8 → radixPrefix base = [35, 111])
    ∧ (base = 16 → radixPrefix base = [35, 120]) ∧ (base = 10 → radixPrefix base = [])
    ∧ (base ≠ 2 → base ≠ 8 → base ≠ 16 → base ≠ 10 →
        ∃ ds, radixPrefix base = 35 :: ds ++ [114] ∧ parseDigits 10 ds = some base) := by
  refine ⟨by intro h; subst h; rfl, by intro h; subst h; rfl, by intro h; subst h; rfl, by intro h; subst h; rfl, ?_⟩
  intro h2 h8 h16 h10
  refine ⟨((digitsLE 10 base).map digitChar).reverse, by simp [radixPrefix, h2, h8, h16, h10], ?_⟩
  have := (print_integer_spec 10 (by decide) (base : Int)).2.2.1
  simpa [intBody] using this

example : showIntEnv 16 true (-255) = [35, 120, 45, 102, 102] ∧ showIntEnv 10 true 255 = [50, 53, 53, 46]
    ∧ showIntEnv 3 true 8 = [35, 51, 114, 50, 50] ∧ showIntEnv 16 false 255 = [102, 102] := by
  simp [showIntEnv, radixPrefix, radixSuffix, renderInt, padLeft, signOf, intBody, digitsLE, digitChar]

/-! ## the printer variables are the context of the whole call -/

/-- STATE ACROSS DIRECTIVES: whatever items `xs` ran before in the same call — from any state, consuming any
    arguments of any class, with any fuel — a following bare ~A (and ~S) prints the integer it gets as
    `printInt T` gives it: in the base and with the radix marker of the CALL. No directive can change the
    printer variables for a later one (the model has no such state; the theorem exhibits it on runs). -/
theorem later_a_s_print_in_the_base_of_the_call (T : EnglishTables) (xs : List Item) (st st1 st2 : St) (n : Int)
    (hx : Runs T xs st (st1, .cont)) (hnext : st1.next = .ok (.int n, st2)) :
    Runs T (xs ++ [.simple .a [] false false]) st (st2.emit (printInt T n), .cont)
    ∧ Runs T (xs ++ [.simple .s [] false false]) st (st2.emit (printInt T n), .cont) := by
  have hp : princ T (.int n) = .ok (printInt T n) := by simp [princ, printArg, printAtom]
  have hq : prin1 T (.int n) = .ok (printInt T n) := by simp [prin1, printArg, printAtom]
  have has := a_s_agree_with_princ_prin1 T st1 st2 (.int n) _ _ hnext hp hq
  constructor
  · refine (runs_append T xs _ st _).mpr ⟨st1, .cont, hx, Or.inr ⟨rfl, ?_⟩⟩
    refine (runs_cons T _ [] st1 _).mpr ⟨st2.emit (printInt T n), .cont, ?_, Or.inr ⟨rfl, (runs_nil T _ _).mpr rfl⟩⟩
    exact (runsItem_simple T .a (by decide) [] false false st1 _).mpr ⟨[], st1, _, rfl, has.1, rfl⟩
  · refine (runs_append T xs _ st _).mpr ⟨st1, .cont, hx, Or.inr ⟨rfl, ?_⟩⟩
    refine (runs_cons T _ [] st1 _).mpr ⟨st2.emit (printInt T n), .cont, ?_, Or.inr ⟨rfl, (runs_nil T _ _).mpr rfl⟩⟩
    exact (runsItem_simple T .s (by decide) [] false false st1 _).mpr ⟨[], st1, _, rfl, has.2, rfl⟩

/-- the hypotheses are satisfiable: after `~D` of a string (the non-integer fallback), `~A` of 255 -/
example (T : EnglishTables) :
    Runs T [.simple .d [] false false] ⟨[.str [110], .int 255], 0, []⟩ (⟨[.str [110], .int 255], 1, [110]⟩, .cont) :=
  ⟨2, by simp [runItems, runItem, resolveParams, runSimple, runIntDir, intFmtOf, natParam, chrParam, St.next, St.emit,
    princDecimal, princ, printArg, printAtom, padLeft, bind, Except.bind, pure, Except.pure]⟩

/-- the non-integer fallback of ~D ~B ~O ~X ~nR (and their integer rendering) does not depend on the printer
    variables: decimal, no radix marker, whatever `*print-base*` / `*print-radix*` are -/
theorem int_directives_ignore_the_printer_variables (T : EnglishTables) (b : Nat) (r : Bool) (base : Nat) (vs : List PVal)
    (off : Nat) (colon atm : Bool) (st : St) :
    runIntDir { T with printBase := b, printRadix := r } base vs off colon atm st = runIntDir T base vs off colon atm st := by
  rfl

/-- the default environment is the one `formatText` uses -/
theorem formatTextEnv_default (ctrl : Txt) (args : List Arg) : formatTextEnv 10 false ctrl args = formatText ctrl args := by
  have : ({ genTables with printBase := 10, printRadix := false } : EnglishTables) = genTables := rfl
  simp [formatTextEnv, formatText, this]

end SlipVerif.Theorems.C15Print
