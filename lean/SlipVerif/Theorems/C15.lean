import SlipVerif.Model.Format
/-! C15 — property theorems (placeholder; filled in below) -/
namespace SlipVerif.Theorems.C15
open SlipVerif.Format

theorem dest_independent (ctrl : Txt) (args : List Arg) (pre : Txt) (t : Txt)
    (h : format .nil ctrl args = .ok { value := some t, stream := none }) :
    format (.stream pre) ctrl args = .ok { value := none, stream := some (pre ++ t) } := by
  unfold format at *
  cases hf : formatText ctrl args with
  | error e => simp [hf, bind, Except.bind] at h
  | ok u =>
    simp [hf, bind, Except.bind, pure, Except.pure] at h ⊢
    exact h

end SlipVerif.Theorems.C15
