import SlipVerif.Model.Format
import SlipVerif.Lemmas.FormatNum
import SlipVerif.Lemmas.FormatEnglish
import SlipVerif.Lemmas.FormatRun
/-! C15 — format renders every directive as documented: property theorems about the model
    (`SlipVerif.Model.FormatNum`, `SlipVerif.Model.Format`), the very definitions the driver runs.
    Theorems that are parametric in a table take the table fact as a hypothesis; the regenerated
    tables discharge it in `Theorems/GenC15.lean`. -/
namespace SlipVerif.Theorems.C15
open SlipVerif.Format

/-! ## ~D ~B ~O ~X ~radix R -/

/-- For every base 2..36, integer, mincol, padchar, commachar (not a digit of the base), interval ≥ 1
    and flags: the output is padding ++ sign ++ body of width max(mincol, …); the sign is `-` iff
    n < 0 and `+` iff `@` and n ≥ 0; stripping the commas from the body and reading it in the base
    with an independent reader gives |n| back; with `:` the commas sit exactly at the positions
    p ≡ interval (mod interval+1) counted from the right, never in front; without `:` there are none. -/
theorem int_directive_spec (base : Nat) (hb : 2 ≤ base ∧ base ≤ 36) (f : IntFmt) (hk : 1 ≤ f.interval)
    (hc : ∀ d, d < base → digitChar d ≠ f.comma) (n : Int) :
    -- shape and width
    renderInt base f n
        = List.replicate (f.mincol - (signOf f.atm n ++ intBody base f n).length) f.pad ++ (signOf f.atm n ++ intBody base f n)
    ∧ (renderInt base f n).length = max f.mincol ((signOf f.atm n).length + (intBody base f n).length)
    -- sign
    ∧ (signOf f.atm n = [45] ↔ n < 0)
    ∧ (signOf f.atm n = [43] ↔ (0 ≤ n ∧ f.atm = true))
    ∧ (signOf f.atm n = [] ↔ (0 ≤ n ∧ f.atm = false))
    -- value: strip the commas, read in the base
    ∧ parseDigits base ((intBody base f n).filter (fun c => c != f.comma)) = some n.natAbs
    -- grouping
    ∧ (f.colon = false → ∀ c ∈ intBody base f n, c ≠ f.comma)
    ∧ (f.colon = true → ∀ p, (intBody base f n).reverse[p]? = some f.comma
          ↔ (p < (intBody base f n).length ∧ p % (f.interval + 1) = f.interval))
    ∧ (intBody base f n).head? ≠ some f.comma := by
  have hdig : ∀ c ∈ (digitsLE base n.natAbs).map digitChar, c ≠ f.comma :=
    digitChars_ne_comma base f.comma hc _ (digitsLE_lt base hb.1 _)
  have hne : (digitsLE base n.natAbs).map digitChar ≠ [] := by simp [digitsLE_ne_nil]
  refine ⟨rfl, ?_, ?_, ?_, ?_, ?_, ?_, ?_, ?_⟩
  · simp only [renderInt, padLeft, List.length_append, List.length_replicate]
    omega
  · unfold signOf
    by_cases h : n < 0
    · simp [h]
    · cases hat : f.atm <;> simp [h]
  · unfold signOf
    by_cases h : n < 0
    · simp [h]; omega
    · cases hat : f.atm <;> simp [h] <;> omega
  · unfold signOf
    by_cases h : n < 0
    · simp [h]; omega
    · cases hat : f.atm <;> simp [h] <;> omega
  · unfold intBody
    cases hcol : f.colon
    · simp only [Bool.false_eq_true, if_false]
      rw [List.filter_eq_self.mpr]
      · exact parseDigits_digits base hb _
      · intro c hcmem
        have := hdig c (by simpa using hcmem)
        simpa using this
    · simp only [if_true]
      rw [List.filter_reverse, groupLE_filter _ _ _ _ hdig]
      exact parseDigits_digits base hb _
  · intro hcol c hcmem
    unfold intBody at hcmem
    simp only [hcol, Bool.false_eq_true, if_false] at hcmem
    exact hdig c (by simpa using hcmem)
  · intro hcol p
    unfold intBody
    simp only [hcol, if_true, List.reverse_reverse, List.length_reverse]
    have := groupLE_comma_pos f.comma f.interval hk _ hdig 0 (Nat.zero_le _) p
    simpa using this
  · unfold intBody
    cases hcol : f.colon
    · simp only [Bool.false_eq_true, if_false]
      rw [List.head?_reverse]
      intro hlast
      have hmem := List.mem_of_getLast? hlast
      exact hdig _ hmem rfl
    · simp only [if_true]
      rw [List.head?_reverse, groupLE_getLast _ _ _ _ hne]
      intro hlast
      have hmem := List.mem_of_getLast? hlast
      exact hdig _ hmem rfl

/-- the hypotheses are satisfiable: base 16, interval 4, `_` as comma; and a concrete rendering -/
example : (2 ≤ 16 ∧ 16 ≤ 36) ∧ (∀ d, d < 16 → digitChar d ≠ 95) := by decide
example : renderInt 10 { mincol := 12, pad := 42, colon := true, atm := true } 1234567
    = [42, 42, 43, 49, 44, 50, 51, 52, 44, 53, 54, 55] := by
  simp [renderInt, padLeft, signOf, intBody, digitsLE, groupLE, digitChar]

/-! ## ~@R ~:@R -/

/-- table check (decided for the regenerated tables in GenC15): every 1..3999 renders to a numeral
    that the independent reader `romanParse` reads back -/
def romanCheck (tbl : List (List Txt)) : Bool :=
  (List.range 3999).all (fun i =>
    match roman tbl ((i : Int) + 1) with
    | .ok t => romanParse t == some (i + 1)
    | .error _ => false)

/-- roman numerals have the right value (both styles: whatever table passes the check) -/
theorem roman_value (tbl : List (List Txt)) (h : romanCheck tbl = true) (n : Int) (h1 : 1 ≤ n) (h2 : n ≤ 3999) :
    ∃ t, roman tbl n = .ok t ∧ romanParse t = some n.toNat := by
  unfold romanCheck at h
  rw [List.all_eq_true] at h
  have := h (n.toNat - 1) (by simp [List.mem_range]; omega)
  have hn : ((n.toNat - 1 : Nat) : Int) + 1 = n := by omega
  rw [hn] at this
  cases hr : roman tbl n with
  | error e => simp [hr] at this
  | ok t =>
    simp only [hr, beq_iff_eq] at this
    refine ⟨t, rfl, ?_⟩
    rw [this]
    congr 1
    omega

/-- …and are injective on 1..3999 (a consequence of `roman_value`) -/
theorem roman_injective (tbl : List (List Txt)) (h : romanCheck tbl = true) (a b : Int)
    (ha : 1 ≤ a ∧ a ≤ 3999) (hb : 1 ≤ b ∧ b ≤ 3999) (hab : roman tbl a = roman tbl b) : a = b := by
  obtain ⟨ta, hta, hpa⟩ := roman_value tbl h a ha.1 ha.2
  obtain ⟨tb, htb, hpb⟩ := roman_value tbl h b hb.1 hb.2
  rw [hta, htb] at hab
  have : ta = tb := by simpa using hab
  rw [this, hpb] at hpa
  have : b.toNat = a.toNat := by simpa using hpa
  omega

/-- outside 1..3999 the directive is a range error, whatever the table -/
theorem roman_range_error (tbl : List (List Txt)) (n : Int) (h : n < 1 ∨ 3999 < n) : roman tbl n = .error .range := by
  unfold roman
  simp [h]

/-! ## ~R ~:R -/

/-- table checks (decided for the regenerated tables in GenC15) -/
def EnglishOK (T : EnglishTables) : Prop := smallOK T = true ∧ periodOK T = true

/-- an independent reader of English number words inverts `cardinal n` for every integer with
    |n| < 1000^(number of period names) — 10^66 for slip's table -/
theorem cardinal_value (T : EnglishTables) (hT : EnglishOK T) (n : Int) (hn : n.natAbs < 1000 ^ T.periods.length) :
    ∃ t, cardinal T n = .ok t ∧ readCardinal T t = some n := by
  by_cases h0 : n = 0
  · subst h0
    refine ⟨wZero, by simp [cardinal, cardinalWords, joinWords, bind, Except.bind, pure, Except.pure], ?_⟩
    have hsplit : splitWords wZero = [wZero] := by decide
    unfold readCardinal
    rw [hsplit]
    simp
  · have hpos : 0 < n.natAbs := by omega
    obtain ⟨ws, hws, hne, hgood, s, hs, hsum⟩ := cardinalWords_read T hT.1 hT.2 n.natAbs hpos hn
    have hgoodw : ∀ w ∈ ws, goodWord w = true := by
      intro w hw; exact (List.all_eq_true.mp hgood) w hw
    have hnb : ∀ w ∈ ws, w.contains 32 = false := fun w hw => goodWord_noblank w (hgoodw w hw)
    by_cases hneg : n < 0
    · refine ⟨joinWords (wNegative :: ws), by simp [cardinal, hws, hneg, bind, Except.bind, pure, Except.pure], ?_⟩
      have hsplit : splitWords (joinWords (wNegative :: ws)) = wNegative :: ws := by
        apply splitWords_joinWords _ (by simp)
        intro w hw
        rcases List.mem_cons.mp hw with rfl | hw
        · decide
        · exact hnb w hw
      unfold readCardinal
      rw [hsplit]
      cases ws with
      | nil => exact absurd rfl hne
      | cons w ws' =>
        simp only [if_true, hs, Option.map_some]
        congr 1
        omega
    · refine ⟨joinWords ws, by simp [cardinal, hws, hneg, bind, Except.bind, pure, Except.pure], ?_⟩
      have hsplit := splitWords_joinWords ws hne hnb
      unfold readCardinal
      rw [hsplit]
      cases ws with
      | nil => exact absurd rfl hne
      | cons w ws' =>
        have hw := hgoodw w (by simp)
        have hwz : w ≠ wZero := by
          intro he; subst he; simp [goodWord] at hw
        have hwn : w ≠ wNegative := by
          intro he; subst he; simp [goodWord] at hw
        cases ws' with
        | nil =>
          simp only [hwz, if_false, hs, Option.map_some]
          congr 1
          omega
        | cons w2 ws2 =>
          simp only [hwn, if_false, hs, Option.map_some]
          congr 1
          omega

/-- beyond the table the directive is a range error -/
theorem cardinal_range_error (T : EnglishTables) (n : Int) (hn : n ≠ 0)
    (h : T.periods.length < (digitsLE 1000 n.natAbs).length) : cardinal T n = .error .range := by
  have : n.natAbs ≠ 0 := by omega
  simp [cardinal, cardinalWords, this, h, bind, Except.bind]

/-- the ordinal differs from the cardinal only in its last word, which is `ordinalWord` of the
    cardinal's last word -/
theorem ordinal_last_word (T : EnglishTables) (n : Nat) (ws : List Txt) (h : ordinalWords T n = .ok ws) :
    ∃ init last o, cardinalWords T n = .ok (init ++ [last]) ∧ ordinalWord T last = .ok o ∧ ws = init ++ [o] := by
  unfold ordinalWords at h
  cases hc : cardinalWords T n with
  | error e => simp [hc, bind, Except.bind] at h
  | ok cw =>
    simp only [hc, bind, Except.bind] at h
    cases hl : cw.getLast? with
    | none => simp [hl] at h
    | some l =>
      simp only [hl] at h
      cases ho : ordinalWord T l with
      | error e => simp [ho] at h
      | ok o =>
        simp only [ho, pure, Except.pure] at h
        refine ⟨cw.dropLast, l, o, ?_, ho, ?_⟩
        · congr 1
          obtain ⟨ys, rfl⟩ := List.getLast?_eq_some_iff.mp hl
          simp
        · injection h with h; exact h.symm

/-! ## ~( ~) : the four case conversions are idempotent -/

/-- converting twice is converting once, in each of the four modes of ~( ~) -/
theorem case_idempotent (m : CaseMode) (s : Txt) : convCase m (convCase m s) = convCase m s := by
  cases m
  · simp [convCase, List.map_map, Function.comp_def, toLower_toLower]
  · simp [convCase, capWords_idem]
  · simp [convCase, capFirst_idem]
  · simp [convCase, List.map_map, Function.comp_def, toUpper_toUpper]

/-- the conversions keep the length (they only change the case of letters) -/
theorem case_length (m : CaseMode) (s : Txt) : (convCase m s).length = s.length := by
  have hw : ∀ (s : Txt) (b : Bool), (capWords b s).length = s.length := by
    intro s; induction s with
    | nil => intro b; simp [capWords]
    | cons c cs ih => intro b; simp only [capWords]; split <;> simp [ih]
  have hf : ∀ (s : Txt) (a b : Bool), (capFirst a b s).length = s.length := by
    intro s; induction s with
    | nil => intro a b; simp [capFirst]
    | cons c cs ih => intro a b; simp only [capFirst]; split <;> (try split) <;> simp [ih]
  cases m <;> simp [convCase, hw, hf]

/-! ## the argument cursor: ~* ~:* ~@* -/

/-- ~n* skips n arguments (an error when fewer remain) -/
theorem star_skip (T : EnglishTables) (n : Nat) (st : St) :
    runSimple T .star [.num n] false false st
      = if st.pos + n ≤ st.args.length then .ok { st with pos := st.pos + n } else .error .args := by
  have hn : ¬ ((n : Int) < 0) := by omega
  simp [runSimple, natParam, hn, bind, Except.bind, pure, Except.pure]

/-- ~n:* backs up n arguments (an error before the first) -/
theorem star_back (T : EnglishTables) (n : Nat) (st : St) :
    runSimple T .star [.num n] true false st
      = if n ≤ st.pos then .ok { st with pos := st.pos - n } else .error .args := by
  have hn : ¬ ((n : Int) < 0) := by omega
  simp [runSimple, natParam, hn, bind, Except.bind, pure, Except.pure]

/-- ~n@* goes to argument n (an error beyond the end) -/
theorem star_goto (T : EnglishTables) (n : Nat) (st : St) :
    runSimple T .star [.num n] false true st
      = if n ≤ st.args.length then .ok { st with pos := n } else .error .args := by
  have hn : ¬ ((n : Int) < 0) := by omega
  simp [runSimple, natParam, hn, bind, Except.bind, pure, Except.pure]

/-- defaults: ~* = ~1*, ~:* = ~1:*, ~@* = ~0@* -/
theorem star_defaults (T : EnglishTables) (st : St) :
    runSimple T .star [] false false st = runSimple T .star [.num 1] false false st
    ∧ runSimple T .star [] true false st = runSimple T .star [.num 1] true false st
    ∧ runSimple T .star [] false true st = runSimple T .star [.num 0] false true st := by
  simp [runSimple, natParam, bind, Except.bind, pure, Except.pure]

/-- skipping n and backing up n is the identity on the state -/
theorem star_skip_back (T : EnglishTables) (n : Nat) (st st1 : St)
    (h : runSimple T .star [.num n] false false st = .ok st1) :
    runSimple T .star [.num n] true false st1 = .ok st := by
  rw [star_skip] at h
  split at h
  · injection h with h
    subst h
    rw [star_back]
    simp
  · simp at h

/-- the cursor directives write nothing and keep the argument list -/
theorem star_frame (T : EnglishTables) (vs : List PVal) (colon atm : Bool) (st st1 : St)
    (h : runSimple T .star vs colon atm st = .ok st1) : st1.out = st.out ∧ st1.args = st.args := by
  simp only [runSimple, bind, Except.bind, pure, Except.pure] at h
  split at h
  · simp at h
  · cases hn : natParam vs 0 (if atm = true then 0 else 1) with
    | error e => simp [hn] at h
    | ok n =>
      simp only [hn] at h
      repeat' split at h
      all_goals first | (injection h with h; subst h; exact ⟨rfl, rfl⟩) | (simp at h)

/-! ## ~A / ~S agree with princ / prin1; ~P; ~% ~~ ~| ~& -/

/-- bare ~A writes exactly what `princ` gives for the next argument, ~S what `prin1` gives -/
theorem a_s_agree_with_princ_prin1 (T : EnglishTables) (st st1 : St) (x : Arg) (t u : Txt)
    (h : st.next = .ok (x, st1)) (hp : princ T x = .ok t) (hq : prin1 T x = .ok u) :
    runSimple T .a [] false false st = .ok (st1.emit t) ∧ runSimple T .s [] false false st = .ok (st1.emit u) := by
  constructor
  · simp [runSimple, natParam, chrParam, h, hp, padAS, bind, Except.bind, pure, Except.pure]
  · simp [runSimple, natParam, chrParam, h, hq, padAS, bind, Except.bind, pure, Except.pure]

/-- ~mincolA pads on the right, ~mincol@A on the left, up to at least mincol columns -/
theorem a_mincol_width (T : EnglishTables) (st st1 st2 : St) (x : Arg) (t : Txt) (mincol : Nat) (atm : Bool)
    (h : st.next = .ok (x, st1)) (hp : princ T x = .ok t)
    (hr : runSimple T .a [.num mincol] false atm st = .ok st2) :
    st2.out = st.out ++ (if atm then List.replicate (mincol - t.length) 32 ++ t else t ++ List.replicate (mincol - t.length) 32) := by
  have hout : st1.out = st.out := by
    unfold St.next at h
    cases ha : st.args[st.pos]? with
    | none => simp [ha] at h
    | some a => simp [ha] at h; rw [← h.2]
  have hn : ¬ ((mincol : Int) < 0) := by omega
  simp [runSimple, natParam, chrParam, h, hp, padAS, hn, bind, Except.bind, pure, Except.pure] at hr
  rw [← hr]
  simp only [St.emit, hout]
  by_cases hlt : t.length < mincol
  · have : (if t.length < mincol then mincol - t.length else 0) = mincol - t.length := by simp [hlt]
    simp [this]
  · have : (if t.length < mincol then mincol - t.length else 0) = 0 := by simp [hlt]
    have h0 : mincol - t.length = 0 := by omega
    simp [this, h0]

/-- ~P : nothing for 1, `s` otherwise; ~@P : `y` / `ies` -/
theorem plural_spec (T : EnglishTables) (st st1 : St) (x : Arg) (atm : Bool) (h : st.next = .ok (x, st1)) :
    runSimple T .p [] false atm st
      = .ok (st1.emit (if atm then (if x = .int 1 then [121] else [105, 101, 115]) else (if x = .int 1 then [] else [115]))) := by
  simp [runSimple, h, bind, Except.bind, pure, Except.pure]

/-- ~:P looks at the previous argument again -/
theorem plural_colon_backs_up (T : EnglishTables) (st : St) (atm : Bool) (hpos : 1 ≤ st.pos) :
    runSimple T .p [] true atm st = runSimple T .p [] false atm { st with pos := st.pos - 1 } := by
  simp [runSimple, hpos, bind, Except.bind, pure, Except.pure]

/-- ~n% ~n~ ~n| write exactly n newlines / tildes / form feeds -/
theorem repeat_spec (T : EnglishTables) (n : Nat) (st : St) :
    runSimple T .pct [.num n] false false st = .ok (st.emit (List.replicate n 10))
    ∧ runSimple T .tilde [.num n] false false st = .ok (st.emit (List.replicate n 126))
    ∧ runSimple T .page [.num n] false false st = .ok (st.emit (List.replicate n 12)) := by
  have hn : ¬ ((n : Int) < 0) := by omega
  simp [runSimple, repeatDir, natParam, hn, bind, Except.bind, pure, Except.pure]

/-- ~& : afterwards the output ends with a newline, and nothing is written when it already did -/
theorem fresh_line_spec (T : EnglishTables) (st st1 : St) (h : runSimple T .amp [] false false st = .ok st1) :
    endsWithNewline st1.out = true ∧ (endsWithNewline st.out = true → st1 = st) := by
  simp only [runSimple, natParam, bind, Except.bind, pure, Except.pure] at h
  by_cases he : endsWithNewline st.out = true
  · simp [he] at h
    subst h
    simp [St.emit, he]
  · simp [he] at h
    subst h
    exact ⟨by simp [St.emit, endsWithNewline], fun h' => absurd h' he⟩

/-! ## ~T : column arithmetic (slip documents colinc as the column width, colnum as a column count) -/

/-- absolute ~colnum,colincT: not beyond the target → exactly to column colnum*colinc; beyond it →
    to the next multiple of colinc (1..colinc blanks) -/
theorem tab_absolute (colnum colinc cur : Nat) :
    (cur ≤ colnum * colinc → cur + tabSpaces false colnum colinc cur = colnum * colinc)
    ∧ (colnum * colinc < cur → 0 < colinc →
        (cur + tabSpaces false colnum colinc cur) % colinc = 0
        ∧ 0 < tabSpaces false colnum colinc cur ∧ tabSpaces false colnum colinc cur ≤ colinc) := by
  constructor
  · intro h
    simp [tabSpaces, h]
  · intro h hc
    have hnle : ¬ cur ≤ colnum * colinc := by omega
    have hc0 : colinc ≠ 0 := by omega
    have hmod : cur % colinc < colinc := Nat.mod_lt _ hc
    simp only [tabSpaces, Bool.false_eq_true, if_false, hnle, hc0]
    refine ⟨?_, by omega, by omega⟩
    have hdm := Nat.div_add_mod cur colinc
    have : cur + (colinc - cur % colinc) = colinc * (cur / colinc + 1) := by
      rw [Nat.mul_add, Nat.mul_one]
      generalize colinc * (cur / colinc) = a at hdm ⊢
      omega
    rw [this]
    exact Nat.mul_mod_right _ _

/-- relative ~colrel,colinc@T: at least colrel blanks, then up to a multiple of colinc -/
theorem tab_relative (colrel colinc cur : Nat) (hc : 0 < colinc) :
    colrel ≤ tabSpaces true colrel colinc cur
    ∧ tabSpaces true colrel colinc cur < colrel + colinc
    ∧ (cur + tabSpaces true colrel colinc cur) % colinc = 0 := by
  have hc0 : colinc ≠ 0 := by omega
  have hm1 : (cur + colrel) % colinc < colinc := Nat.mod_lt _ hc
  have hm2 : (colinc - (cur + colrel) % colinc) % colinc < colinc := Nat.mod_lt _ hc
  simp only [tabSpaces, if_true, hc0, if_false]
  refine ⟨by omega, by omega, ?_⟩
  by_cases hz : (cur + colrel) % colinc = 0
  · have : (colinc - (cur + colrel) % colinc) % colinc = 0 := by rw [hz]; simp
    rw [this]
    simpa [Nat.add_assoc] using hz
  · have hlt : colinc - (cur + colrel) % colinc < colinc := by omega
    rw [Nat.mod_eq_of_lt hlt]
    have hdm := Nat.div_add_mod (cur + colrel) colinc
    have : cur + (colrel + (colinc - (cur + colrel) % colinc)) = colinc * ((cur + colrel) / colinc + 1) := by
      rw [Nat.mul_add, Nat.mul_one]
      generalize colinc * ((cur + colrel) / colinc) = a at hdm ⊢
      omega
    rw [this]
    exact Nat.mul_mod_right _ _

/-! ## ~[ ~; ~] : selection -/

/-- clause n when 0 ≤ n < number of clauses -/
theorem selectClause_in_range (clauses : List (List Item)) (hasD : Bool) (dflt c : List Item) (n : Int)
    (h0 : 0 ≤ n) (h : clauses[n.toNat]? = some c) : selectClause clauses hasD dflt n = c := by
  simp [selectClause, h0, h]

/-- otherwise the ~:; default clause, or nothing -/
theorem selectClause_out_of_range (clauses : List (List Item)) (hasD : Bool) (dflt : List Item) (n : Int)
    (h : n < 0 ∨ clauses.length ≤ n.toNat) : selectClause clauses hasD dflt n = if hasD then dflt else [] := by
  unfold selectClause
  rcases h with h | h
  · have : ¬ (0 ≤ n) := by omega
    simp [this]
  · by_cases h0 : 0 ≤ n
    · have : clauses[n.toNat]? = none := by simp [h]
      simp [h0, this]
    · simp [h0]

/-- ~[…~] consumes one integer argument and continues with the selected clause -/
theorem cond_selects (T : EnglishTables) (f : Nat) (clauses : List (List Item)) (hasD : Bool) (dflt : List Item)
    (st st1 : St) (n : Int) (h : st.next = .ok (.int n, st1)) :
    runItem T (f + 1) (.cond [] false false clauses hasD dflt) st
      = runItems T f (selectClause clauses hasD dflt n) st1 := by
  simp [runItem, resolveParams, h, bind, Except.bind, pure, Except.pure]

/-- ~n[…~] selects by the parameter and consumes no argument -/
theorem cond_selects_by_parameter (T : EnglishTables) (f : Nat) (clauses : List (List Item)) (hasD : Bool)
    (dflt : List Item) (st : St) (n : Int) :
    runItem T (f + 1) (.cond [.num n] false false clauses hasD dflt) st
      = runItems T f (selectClause clauses hasD dflt n) st := by
  simp [runItem, resolveParams, bind, Except.bind, pure, Except.pure]

/-- ~:[alternative~;consequent~] : the alternative for nil, the consequent otherwise; the argument is consumed -/
theorem cond_colon (T : EnglishTables) (f : Nat) (alt con : List Item) (st st1 : St) (a : Arg)
    (h : st.next = .ok (a, st1)) :
    runItem T (f + 1) (.cond [] true false [alt, con] false []) st
      = runItems T f (if a = .nil then alt else con) st1 := by
  simp [runItem, resolveParams, h, bind, Except.bind, pure, Except.pure]

/-- ~@[consequent~] : nil is consumed and nothing happens; anything else is NOT consumed and the
    consequent runs (it sees the argument again) -/
theorem cond_at (T : EnglishTables) (f : Nat) (con : List Item) (st st1 : St) (a : Arg)
    (h : st.next = .ok (a, st1)) :
    runItem T (f + 1) (.cond [] false true [con] false []) st
      = if a = .nil then .ok (st1, .cont) else runItems T f con st := by
  simp [runItem, resolveParams, h, bind, Except.bind, pure, Except.pure]

/-! ## ~^ : stops exactly when no arguments remain -/

theorem hat_stops_iff_no_arguments (T : EnglishTables) (f : Nat) (st : St) :
    runItem T (f + 1) (.simple .hat [] false false) st
      = .ok (st, if st.remaining = 0 then .stop else .cont) := by
  simp [runItem, resolveParams, bind, Except.bind, pure, Except.pure]
  split <;> simp_all

/-- in a sequence: with no arguments left everything after ~^ is skipped (and the stop is passed
    up to the enclosing iteration), otherwise ~^ is a no-op -/
theorem hat_in_sequence (T : EnglishTables) (f : Nat) (rest : List Item) (st : St) :
    runItems T (f + 2) (.simple .hat [] false false :: rest) st
      = if st.remaining = 0 then .ok (st, .stop) else runItems T (f + 1) rest st := by
  simp only [runItems, hat_stops_iff_no_arguments, bind, Except.bind, pure, Except.pure]
  split <;> simp_all

/-- a stop raised by an item ends the sequence at once: nothing after it is run -/
theorem stop_propagates (T : EnglishTables) (f : Nat) (it : Item) (rest : List Item) (st st1 : St)
    (h : runItem T f it st = .ok (st1, .stop)) : runItems T (f + 1) (it :: rest) st = .ok (st1, .stop) := by
  simp [runItems, h, bind, Except.bind, pure, Except.pure]

/-- inside ~( … ~) the stop is passed on (after converting the text produced so far) -/
theorem stop_passes_case_conversion (T : EnglishTables) (f : Nat) (colon atm : Bool) (body : List Item) (st st1 : St)
    (fl : Flow) (h : runItems T f body st = .ok (st1, fl)) :
    ∃ st2, runItem T (f + 1) (.caseConv colon atm body) st = .ok (st2, fl) := by
  simp [runItem, h, bind, Except.bind, pure, Except.pure]

/-! ## ~{ ~} : iteration count -/

/-- ~{~a~} over a list of integers, started at cursor p with enough fuel, runs the body exactly
    k = min(max, remaining) times (remaining when no max is given): it consumes k arguments and
    writes the k numbers -/
theorem iter_count (T : EnglishTables) (xs : List Int) :
    ∀ (k F p : Nat) (o : Txt) (hasMax : Bool) (max : Nat), p ≤ xs.length →
      k = (if hasMax then min max (xs.length - p) else xs.length - p) → k + 3 ≤ F →
      iterLoop T F bodyA hasMax max false ⟨xs.map .int, p, o⟩
        = .ok ⟨xs.map .int, p + k, o ++ ((xs.drop p).take k).flatMap (printInt T)⟩ := by
  intro k
  induction k with
  | zero =>
    intro F p o hasMax max hp hk hF
    obtain ⟨f, rfl⟩ : ∃ f, F = f + 1 := ⟨F - 1, by omega⟩
    rw [iterLoop_succ]
    by_cases hm : hasMax = true ∧ max = 0
    · simp [hm]
    · have hrem : xs.length - p = 0 := by
        cases hh : hasMax
        · simp [hh] at hk; omega
        · simp [hh] at hk hm; omega
      simp [hm, St.remaining, hrem]
  | succ k ih =>
    intro F p o hasMax max hp hk hF
    obtain ⟨f, rfl⟩ : ∃ f, F = f + 1 := ⟨F - 1, by omega⟩
    obtain ⟨f', rfl⟩ : ∃ f', f = f' + 2 := ⟨f - 2, by omega⟩
    have hrem : 0 < xs.length - p := by
      cases hh : hasMax
      · simp [hh] at hk; omega
      · simp [hh] at hk; omega
    have hmax : ¬ (hasMax = true ∧ max = 0) := by
      rintro ⟨h1, h2⟩
      simp [h1, h2] at hk
    have hplt : p < xs.length := by omega
    have hx : (xs.map Arg.int)[p]? = some (.int xs[p]) := by simp [hplt]
    have hne : ¬ ((⟨xs.map .int, p, o⟩ : St).remaining = 0 ∧ ¬ false = true) := by
      simp [St.remaining]; omega
    rw [iterLoop_succ, if_neg hmax, if_neg hne, run_bodyA T f' _ xs[p] hx]
    simp only [Except.bind]
    have hk' : k = (if hasMax then min (max - 1) (xs.length - (p + 1)) else xs.length - (p + 1)) := by
      cases hh : hasMax
      · simp [hh] at hk ⊢; omega
      · simp [hh] at hk ⊢; omega
    rw [ih (f' + 2) (p + 1) (o ++ printInt T xs[p]) hasMax (max - 1) (by omega) hk' (by omega)]
    have hdrop : xs.drop p = xs[p] :: xs.drop (p + 1) := by
      rw [List.drop_eq_getElem_cons hplt]
    rw [hdrop, List.take_succ_cons, List.flatMap_cons, ← List.append_assoc]
    have hpos : p + 1 + k = p + (k + 1) := by omega
    rw [hpos]

/-- for the whole list and no maximum: as many iterations as elements -/
example (T : EnglishTables) :
    iterLoop T 10 bodyA false 0 false ⟨[.int 7, .int (-3), .int 12], 0, []⟩
      = .ok ⟨[.int 7, .int (-3), .int 12], 3, printInt T 7 ++ printInt T (-3) ++ printInt T 12⟩ := by
  have := iter_count T [7, -3, 12] 3 10 0 [] false 0 (by simp) (by simp) (by omega)
  simpa using this

/-- ~:{ : a ~^ (or anything else) that stops a run of the body ends only that run — the next
    sublist is processed whatever flow the body returned -/
theorem sublist_stop_ends_only_the_step (T : EnglishTables) (f : Nat) (body : List Item) (hasMax : Bool) (max : Nat)
    (once : Bool) (s : Arg) (rest : List Arg) (sub : List Arg) (out : Txt) (st1 : St) (fl : Flow)
    (hmax : ¬ (hasMax = true ∧ max = 0)) (hs : s.toList? = some sub)
    (hrun : runItems T f body ⟨sub, 0, out⟩ = .ok (st1, fl)) :
    iterLists T (f + 1) body hasMax max once (s :: rest) out
      = iterLists T f body hasMax (max - 1) false rest st1.out := by
  rw [iterLists]
  simp [hmax, hs, hrun, bind, Except.bind]

/-! ## what ~& and ~T look at is a function of the WHOLE output so far

These two facts are why an implementation must not answer ~& / ~T from the last written piece
(a flushed buffer) alone: the column of `a ++ b` is the column of `b` only when `b` contains a line
break, and whether the output ends in a newline is decided by `b` only when `b` is not empty. -/

theorem column_append (a b : Txt) :
    column (a ++ b) = if b.all (fun c => !isLineBreak c) then column a + b.length else column b := by
  unfold column
  rw [List.reverse_append, takeWhile_append_all]
  simp only [List.all_reverse]
  split
  · simp [Nat.add_comm]
  · rfl

theorem endsWithNewline_append (a b : Txt) :
    endsWithNewline (a ++ b) = if b = [] then endsWithNewline a else endsWithNewline b := by
  unfold endsWithNewline
  by_cases hb : b = []
  · simp [hb]
  · simp only [hb, if_false]
    rw [List.getLast?_append]
    cases h : b.getLast? with
    | none => simp [List.getLast?_eq_none_iff] at h; exact absurd h hb
    | some x => simp

/-- the ~newline directive writes nothing -/
theorem newline_directive_writes_nothing (T : EnglishTables) (f : Nat) (st : St) :
    runItem T (f + 1) .nop st = .ok (st, .cont) := by
  simp [runItem]

/-- destination independence: the text a stream receives is the text `(format nil …)` returns -/
theorem dest_independent (ctrl : Txt) (args : List Arg) (pre : Txt) (t : Txt)
    (h : format .nil ctrl args = .ok { value := some t, stream := none }) :
    format (.stream pre) ctrl args = .ok { value := none, stream := some (pre ++ t) } := by
  unfold format at *
  cases hf : formatText ctrl args with
  | error e => simp [hf, bind, Except.bind] at h
  | ok u =>
    simp [hf, bind, Except.bind, pure, Except.pure] at h ⊢
    exact h

end SlipVerif.Theorems.C15
