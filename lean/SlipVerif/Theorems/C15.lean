import SlipVerif.Model.Format
import SlipVerif.Lemmas.FormatNum
import SlipVerif.Lemmas.FormatEnglish
/-! C15 — format renders every directive as documented: property theorems about the model
    (`SlipVerif.Model.FormatNum`, `SlipVerif.Model.Format`), the very definitions the driver runs.
    Theorems that are parametric in a table take the table fact as a hypothesis; the regenerated
    tables discharge it in `Theorems/GenC15.lean`. -/
namespace SlipVerif.Theorems.C15
open SlipVerif.Format

/-! ## ~D ~B ~O ~X ~radix R -/

/-- For every base 2..36, integer, mincol, padchar, commachar (not a digit of the base), interval ≥ 1
    and flags: the output is padding ++ sign ++ body of width max(mincol, …); the sign is `-` iff
    n < 0 and `+` iff `@` and n ≥ 0; stripping the commas from the body and reading it in the base
    with an independent reader gives |n| back; with `:` the commas sit exactly at the positions
    p ≡ interval (mod interval+1) counted from the right, never in front; without `:` there are none. -/
theorem int_directive_spec (base : Nat) (hb : 2 ≤ base ∧ base ≤ 36) (f : IntFmt) (hk : 1 ≤ f.interval)
    (hc : ∀ d, d < base → digitChar d ≠ f.comma) (n : Int) :
    -- shape and width
    renderInt base f n
        = List.replicate (f.mincol - (signOf f.atm n ++ intBody base f n).length) f.pad ++ (signOf f.atm n ++ intBody base f n)
    ∧ (renderInt base f n).length = max f.mincol ((signOf f.atm n).length + (intBody base f n).length)
    -- sign
    ∧ (signOf f.atm n = [45] ↔ n < 0)
    ∧ (signOf f.atm n = [43] ↔ (0 ≤ n ∧ f.atm = true))
    ∧ (signOf f.atm n = [] ↔ (0 ≤ n ∧ f.atm = false))
    -- value: strip the commas, read in the base
    ∧ parseDigits base ((intBody base f n).filter (fun c => c != f.comma)) = some n.natAbs
    -- grouping
    ∧ (f.colon = false → ∀ c ∈ intBody base f n, c ≠ f.comma)
    ∧ (f.colon = true → ∀ p, (intBody base f n).reverse[p]? = some f.comma
          ↔ (p < (intBody base f n).length ∧ p % (f.interval + 1) = f.interval))
    ∧ (intBody base f n).head? ≠ some f.comma := by
  have hdig : ∀ c ∈ (digitsLE base n.natAbs).map digitChar, c ≠ f.comma :=
    digitChars_ne_comma base f.comma hc _ (digitsLE_lt base hb.1 _)
  have hne : (digitsLE base n.natAbs).map digitChar ≠ [] := by simp [digitsLE_ne_nil]
  refine ⟨rfl, ?_, ?_, ?_, ?_, ?_, ?_, ?_, ?_⟩
  · simp only [renderInt, padLeft, List.length_append, List.length_replicate]
    omega
  · unfold signOf
    by_cases h : n < 0
    · simp [h]
    · cases hat : f.atm <;> simp [h]
  · unfold signOf
    by_cases h : n < 0
    · simp [h]; omega
    · cases hat : f.atm <;> simp [h] <;> omega
  · unfold signOf
    by_cases h : n < 0
    · simp [h]; omega
    · cases hat : f.atm <;> simp [h] <;> omega
  · unfold intBody
    cases hcol : f.colon
    · simp only [Bool.false_eq_true, if_false]
      rw [List.filter_eq_self.mpr]
      · exact parseDigits_digits base hb _
      · intro c hcmem
        have := hdig c (by simpa using hcmem)
        simpa using this
    · simp only [if_true]
      rw [List.filter_reverse, groupLE_filter _ _ _ _ hdig]
      exact parseDigits_digits base hb _
  · intro hcol c hcmem
    unfold intBody at hcmem
    simp only [hcol, Bool.false_eq_true, if_false] at hcmem
    exact hdig c (by simpa using hcmem)
  · intro hcol p
    unfold intBody
    simp only [hcol, if_true, List.reverse_reverse, List.length_reverse]
    have := groupLE_comma_pos f.comma f.interval hk _ hdig 0 (Nat.zero_le _) p
    simpa using this
  · unfold intBody
    cases hcol : f.colon
    · simp only [Bool.false_eq_true, if_false]
      rw [List.head?_reverse]
      intro hlast
      have hmem := List.mem_of_getLast? hlast
      exact hdig _ hmem rfl
    · simp only [if_true]
      rw [List.head?_reverse, groupLE_getLast _ _ _ _ hne]
      intro hlast
      have hmem := List.mem_of_getLast? hlast
      exact hdig _ hmem rfl

/-- the hypotheses are satisfiable: base 16, interval 4, `_` as comma; and a concrete rendering -/
example : (2 ≤ 16 ∧ 16 ≤ 36) ∧ (∀ d, d < 16 → digitChar d ≠ 95) := by decide
example : renderInt 10 { mincol := 12, pad := 42, colon := true, atm := true } 1234567
    = [42, 42, 43, 49, 44, 50, 51, 52, 44, 53, 54, 55] := by
  simp [renderInt, padLeft, signOf, intBody, digitsLE, groupLE, digitChar]

/-! ## ~@R ~:@R -/

/-- table check (decided for the regenerated tables in GenC15): every 1..3999 renders to a numeral
    that the independent reader `romanParse` reads back -/
def romanCheck (tbl : List (List Txt)) : Bool :=
  (List.range 3999).all (fun i =>
    match roman tbl ((i : Int) + 1) with
    | .ok t => romanParse t == some (i + 1)
    | .error _ => false)

/-- roman numerals have the right value (both styles: whatever table passes the check) -/
theorem roman_value (tbl : List (List Txt)) (h : romanCheck tbl = true) (n : Int) (h1 : 1 ≤ n) (h2 : n ≤ 3999) :
    ∃ t, roman tbl n = .ok t ∧ romanParse t = some n.toNat := by
  unfold romanCheck at h
  rw [List.all_eq_true] at h
  have := h (n.toNat - 1) (by simp [List.mem_range]; omega)
  have hn : ((n.toNat - 1 : Nat) : Int) + 1 = n := by omega
  rw [hn] at this
  cases hr : roman tbl n with
  | error e => simp [hr] at this
  | ok t =>
    simp only [hr, beq_iff_eq] at this
    refine ⟨t, rfl, ?_⟩
    rw [this]
    congr 1
    omega

/-- …and are injective on 1..3999 (a consequence of `roman_value`) -/
theorem roman_injective (tbl : List (List Txt)) (h : romanCheck tbl = true) (a b : Int)
    (ha : 1 ≤ a ∧ a ≤ 3999) (hb : 1 ≤ b ∧ b ≤ 3999) (hab : roman tbl a = roman tbl b) : a = b := by
  obtain ⟨ta, hta, hpa⟩ := roman_value tbl h a ha.1 ha.2
  obtain ⟨tb, htb, hpb⟩ := roman_value tbl h b hb.1 hb.2
  rw [hta, htb] at hab
  have : ta = tb := by simpa using hab
  rw [this, hpb] at hpa
  have : b.toNat = a.toNat := by simpa using hpa
  omega

/-- outside 1..3999 the directive is a range error, whatever the table -/
theorem roman_range_error (tbl : List (List Txt)) (n : Int) (h : n < 1 ∨ 3999 < n) : roman tbl n = .error .range := by
  unfold roman
  simp [h]

/-! ## ~R ~:R -/

/-- table checks (decided for the regenerated tables in GenC15) -/
def EnglishOK (T : EnglishTables) : Prop := smallOK T = true ∧ periodOK T = true

/-- an independent reader of English number words inverts `cardinal n` for every integer with
    |n| < 1000^(number of period names) — 10^66 for slip's table -/
theorem cardinal_value (T : EnglishTables) (hT : EnglishOK T) (n : Int) (hn : n.natAbs < 1000 ^ T.periods.length) :
    ∃ t, cardinal T n = .ok t ∧ readCardinal T t = some n := by
  by_cases h0 : n = 0
  · subst h0
    refine ⟨wZero, by simp [cardinal, cardinalWords, joinWords, bind, Except.bind, pure, Except.pure], ?_⟩
    have hsplit : splitWords wZero = [wZero] := by decide
    unfold readCardinal
    rw [hsplit]
    simp
  · have hpos : 0 < n.natAbs := by omega
    obtain ⟨ws, hws, hne, hgood, s, hs, hsum⟩ := cardinalWords_read T hT.1 hT.2 n.natAbs hpos hn
    have hgoodw : ∀ w ∈ ws, goodWord w = true := by
      intro w hw; exact (List.all_eq_true.mp hgood) w hw
    have hnb : ∀ w ∈ ws, w.contains 32 = false := fun w hw => goodWord_noblank w (hgoodw w hw)
    by_cases hneg : n < 0
    · refine ⟨joinWords (wNegative :: ws), by simp [cardinal, hws, hneg, bind, Except.bind, pure, Except.pure], ?_⟩
      have hsplit : splitWords (joinWords (wNegative :: ws)) = wNegative :: ws := by
        apply splitWords_joinWords _ (by simp)
        intro w hw
        rcases List.mem_cons.mp hw with rfl | hw
        · decide
        · exact hnb w hw
      unfold readCardinal
      rw [hsplit]
      cases ws with
      | nil => exact absurd rfl hne
      | cons w ws' =>
        simp only [if_true, hs, Option.map_some]
        congr 1
        omega
    · refine ⟨joinWords ws, by simp [cardinal, hws, hneg, bind, Except.bind, pure, Except.pure], ?_⟩
      have hsplit := splitWords_joinWords ws hne hnb
      unfold readCardinal
      rw [hsplit]
      cases ws with
      | nil => exact absurd rfl hne
      | cons w ws' =>
        have hw := hgoodw w (by simp)
        have hwz : w ≠ wZero := by
          intro he; subst he; simp [goodWord] at hw
        have hwn : w ≠ wNegative := by
          intro he; subst he; simp [goodWord] at hw
        cases ws' with
        | nil =>
          simp only [hwz, if_false, hs, Option.map_some]
          congr 1
          omega
        | cons w2 ws2 =>
          simp only [hwn, if_false, hs, Option.map_some]
          congr 1
          omega

/-- beyond the table the directive is a range error -/
theorem cardinal_range_error (T : EnglishTables) (n : Int) (hn : n ≠ 0)
    (h : T.periods.length < (digitsLE 1000 n.natAbs).length) : cardinal T n = .error .range := by
  have : n.natAbs ≠ 0 := by omega
  simp [cardinal, cardinalWords, this, h, bind, Except.bind]

/-- the ordinal differs from the cardinal only in its last word, which is `ordinalWord` of the
    cardinal's last word -/
theorem ordinal_last_word (T : EnglishTables) (n : Nat) (ws : List Txt) (h : ordinalWords T n = .ok ws) :
    ∃ init last o, cardinalWords T n = .ok (init ++ [last]) ∧ ordinalWord T last = .ok o ∧ ws = init ++ [o] := by
  unfold ordinalWords at h
  cases hc : cardinalWords T n with
  | error e => simp [hc, bind, Except.bind] at h
  | ok cw =>
    simp only [hc, bind, Except.bind] at h
    cases hl : cw.getLast? with
    | none => simp [hl] at h
    | some l =>
      simp only [hl] at h
      cases ho : ordinalWord T l with
      | error e => simp [ho] at h
      | ok o =>
        simp only [ho, pure, Except.pure] at h
        refine ⟨cw.dropLast, l, o, ?_, ho, ?_⟩
        · congr 1
          obtain ⟨ys, rfl⟩ := List.getLast?_eq_some_iff.mp hl
          simp
        · injection h with h; exact h.symm

/-- destination independence: the text a stream receives is the text `(format nil …)` returns -/
theorem dest_independent (ctrl : Txt) (args : List Arg) (pre : Txt) (t : Txt)
    (h : format .nil ctrl args = .ok { value := some t, stream := none }) :
    format (.stream pre) ctrl args = .ok { value := none, stream := some (pre ++ t) } := by
  unfold format at *
  cases hf : formatText ctrl args with
  | error e => simp [hf, bind, Except.bind] at h
  | ok u =>
    simp [hf, bind, Except.bind, pure, Except.pure] at h ⊢
    exact h

end SlipVerif.Theorems.C15
