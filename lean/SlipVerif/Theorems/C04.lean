import SlipVerif.Model.Lambda
import SlipVerif.Lemmas.Lambda
import SlipVerif.Lemmas.LambdaParse
/- C04 — arguments are bound per the lambda list; arity errors match the documentation.
   Theorems about `SlipVerif.Lambda.bind` / `arity` (the definitions the slipmodel driver runs). -/
namespace SlipVerif.Theorems.C04
open SlipVerif.Lambda SlipVerif.Lemmas.Lambda SlipVerif.Lemmas.LambdaParse

deriving instance DecidableEq for Except
deriving instance DecidableEq for CallResult

/-- the key tail of a call is well formed: even length, a keyword at every even index, and —
    unless `&allow-other-keys` — every such keyword names a declared key parameter -/
def KeyTailOK (ll : LL) (tail : List Obj) : Prop :=
  tail.length % 2 = 0 ∧
  ∀ i, 2 * i < tail.length → ∃ k, tail[2 * i]? = some (.kw k) ∧ (ll.aok = true ∨ knownKey ll k = true)

/-- the argument count is one the lambda list accepts -/
def CountOK (ll : LL) (n : Nat) : Prop :=
  (arity ll).1 ≤ n ∧ ∀ m, (arity ll).2 = some m → n ≤ m

theorem countOK_iff_inArity (ll : LL) (n : Nat) : CountOK ll n ↔ inArity (arity ll) n = true := by
  unfold CountOK inArity
  cases h : (arity ll).2 <;> simp [h]

/-- the key tail is accepted exactly when it is well formed -/
theorem bindKeys_ok_iff (ll : LL) (tail : List Obj) :
    (∃ kb, bindKeys ll tail = .ok kb) ↔ KeyTailOK ll tail := by
  unfold bindKeys KeyTailOK
  constructor
  · rintro ⟨kb, h⟩
    cases hp : keyPairs tail with
    | error e => simp [hp] at h
    | ok ps =>
      have ht := keyPairs_ok tail ps hp
      subst ht
      simp only [keyPairs_flat] at h
      refine ⟨by simp [flat_length], fun i hi => ?_⟩
      rw [flat_length] at hi
      have hi' : i < ps.length := by omega
      refine ⟨ps[i].1, by simp [flat_getElem?_even, List.getElem?_eq_getElem hi'], ?_⟩
      by_cases ha : ll.aok = true
      · exact Or.inl ha
      · right
        simp only [ha, Bool.false_or] at h
        split at h
        · rename_i hall
          exact List.all_eq_true.mp hall ps[i] (List.getElem_mem hi')
        · cases h
  · rintro ⟨hlen, hk⟩
    have hflat : ∃ ps, tail = flat ps :=
      (exists_flat_iff tail).mpr ⟨hlen, fun i hi => (hk i hi).imp fun k h => h.1⟩
    obtain ⟨ps, rfl⟩ := hflat
    simp only [keyPairs_flat]
    by_cases ha : ll.aok = true
    · exact ⟨ll.keys.map (bindKey ps), by simp [ha]⟩
    · have hall : ps.all (fun kv => knownKey ll kv.1) = true := by
        rw [List.all_eq_true]
        intro p hp
        obtain ⟨i, hi, rfl⟩ := List.getElem_of_mem hp
        obtain ⟨k, hk1, hk2⟩ := hk i (by rw [flat_length]; omega)
        simp [flat_getElem?_even, List.getElem?_eq_getElem hi] at hk1
        cases hk2 with
        | inl h => exact absurd h ha
        | inr h => rw [hk1]; exact h
      exact ⟨ll.keys.map (bindKey ps), by simp [hall]⟩

/-- **bind_ok_iff** — binding succeeds exactly when the argument count is within the arity of the
    lambda list and (for a `&key` list) the key tail is well formed. -/
theorem bind_ok_iff (ll : LL) (as : List Obj) :
    (∃ b, bind ll as = .ok b) ↔
      CountOK ll as.length ∧ (ll.hasKey = true → KeyTailOK ll (as.drop ll.npos)) := by
  have hn : ll.npos = ll.req.length + ll.opt.length := rfl
  unfold CountOK arity
  by_cases hfew : as.length < ll.req.length
  · simp only [Lambda.bind, hfew, if_true]
    constructor
    · rintro ⟨b, hb⟩; cases hb
    · rintro ⟨⟨h1, _⟩, _⟩
      have h1' : ll.req.length ≤ as.length := h1
      omega
  · cases hr : ll.rest.isSome <;> cases hk : ll.hasKey
    · -- no rest, no key
      by_cases hmany : ll.npos < as.length
      · simp only [Lambda.bind, hfew, hr, hk, hmany, if_false, if_true, Bool.not_false, Bool.and_self,
          decide_true]
        constructor
        · rintro ⟨b, hb⟩; cases hb
        · rintro ⟨⟨_, h2⟩, _⟩
          have := h2 ll.npos (by simp)
          omega
      · simp only [Lambda.bind, hfew, hr, hk, hmany, if_false, Bool.not_false, Bool.and_self,
          decide_false, Bool.and_false, Bool.false_eq_true]
        refine ⟨fun _ => ⟨⟨by show ll.req.length ≤ as.length; omega, ?_⟩, by simp⟩, fun _ => ⟨_, rfl⟩⟩
        intro m hm
        simp only [Bool.or_self, Bool.false_eq_true, if_false, Option.some.injEq] at hm
        omega
    · -- no rest, key
      simp only [Lambda.bind, hfew, hr, hk, if_false, if_true, Bool.not_false, Bool.not_true,
        Bool.and_false, Bool.false_and, Bool.false_eq_true]
      have := bindKeys_ok_iff ll (as.drop ll.npos)
      constructor
      · rintro ⟨b, hb⟩
        cases hkb : bindKeys ll (List.drop ll.npos as) with
        | error e => simp [hkb] at hb
        | ok kb => exact ⟨⟨by show ll.req.length ≤ as.length; omega, by simp⟩, fun _ => this.mp ⟨kb, hkb⟩⟩
      · rintro ⟨_, hkt⟩
        obtain ⟨kb, hkb⟩ := this.mpr (hkt trivial)
        rw [hkb]; exact ⟨_, rfl⟩
    · -- rest, no key
      simp only [Lambda.bind, hfew, hr, hk, if_false, Bool.not_true, Bool.false_and, Bool.false_eq_true]
      exact ⟨fun _ => ⟨⟨by show ll.req.length ≤ as.length; omega, by simp⟩, by simp⟩, fun _ => ⟨_, rfl⟩⟩
    · -- rest and key
      simp only [Lambda.bind, hfew, hr, hk, if_false, if_true, Bool.not_true, Bool.false_and,
        Bool.false_eq_true]
      have := bindKeys_ok_iff ll (as.drop ll.npos)
      constructor
      · rintro ⟨b, hb⟩
        cases hkb : bindKeys ll (List.drop ll.npos as) with
        | error e => simp [hkb] at hb
        | ok kb => exact ⟨⟨by show ll.req.length ≤ as.length; omega, by simp⟩, fun _ => this.mp ⟨kb, hkb⟩⟩
      · rintro ⟨_, hkt⟩
        obtain ⟨kb, hkb⟩ := this.mpr (hkt trivial)
        rw [hkb]; exact ⟨_, rfl⟩

example : CountOK { req := ["a"], opt := [{ name := "b" }] } 2 := by
  refine ⟨by decide, ?_⟩
  intro m h
  have : m = 2 := by simpa [arity, LL.npos] using h.symm
  omega
example : KeyTailOK { hasKey := true, keys := [{ name := "k" }] } [.kw "k", .int 1] := by
  refine ⟨by decide, fun i hi => ?_⟩
  have : i = 0 := by simp at hi; omega
  subst this
  exact ⟨"k", by simp, Or.inr (by decide)⟩

/-- **too_few_rejected** — fewer arguments than required parameters: rejected, never bound. -/
theorem too_few_rejected (ll : LL) (as : List Obj) (h : as.length < (arity ll).1) :
    bind ll as = .error .tooFew := by
  simp only [arity] at h
  simp [Lambda.bind, h]

/-- **too_many_rejected** — more arguments than the positional parameters of a lambda list
    without `&rest`/`&key`: rejected. -/
theorem too_many_rejected (ll : LL) (as : List Obj) (m : Nat) (hm : (arity ll).2 = some m)
    (h : m < as.length) : bind ll as = .error .tooMany := by
  simp only [arity] at hm
  split at hm
  · cases hm
  · rename_i hrk
    simp only [Option.some.injEq] at hm
    subst hm
    have hr : ll.rest.isSome = false := by
      cases h1 : ll.rest.isSome <;> simp [h1] at hrk ⊢
    have hk : ll.hasKey = false := by
      cases h1 : ll.hasKey <;> simp [h1] at hrk ⊢
    have hfew : ¬ as.length < ll.req.length := by simp [LL.npos] at h; omega
    simp [Lambda.bind, hfew, hr, hk, h]

example : (arity { req := ["a", "b"] }).2 = some 2 ∧ 2 < [Obj.int 1, .int 2, .int 3].length := by decide
example : [Obj.int 1].length < (arity { req := ["a", "b"] }).1 := by decide

/-! ### the value of each parameter kind as a function of the argument list

    `b` is the binding list of a successful `bind ll as`; it is laid out in lambda-list order:
    required, optional, rest (one entry when present), keys (when `&key`), aux. -/

/-- number of entries the `&rest` parameter takes in the binding list -/
def restN (ll : LL) : Nat := if ll.rest.isSome then 1 else 0
/-- number of entries of the key parameters in the binding list -/
def keyN (ll : LL) : Nat := if ll.hasKey then ll.keys.length else 0

theorem bindRest_length (ll : LL) (as : List Obj) :
    (bindRest ll.rest (as.drop ll.npos)).length = restN ll := by
  unfold restN bindRest; cases ll.rest <;> simp

/-- **bind_length** — a successful binding has one entry per parameter. -/
theorem bind_length (ll : LL) (as : List Obj) (b) (h : bind ll as = .ok b) :
    b.length = ll.req.length + ll.opt.length + restN ll + keyN ll + ll.aux.length := by
  obtain ⟨hle, kb, hkb, rfl⟩ := bind_ok_eq ll as b h
  have hk : kb.length = keyN ll := by
    unfold keyN
    cases hh : ll.hasKey with
    | false => simp [hh] at hkb; simp [hkb]
    | true => simp [hh] at hkb; simpa using bindKeys_length ll _ kb hkb
  simp only [List.length_append, bindRest_length, bindOpt_length, zip_length_of_le _ _ hle, hk, bindAux,
    List.length_map]

/-- **bind_required** — the i-th required parameter is bound to the i-th argument. -/
theorem bind_required (ll : LL) (as : List Obj) (b) (h : bind ll as = .ok b)
    (i : Nat) (hi : i < ll.req.length) :
    ∃ hi' : i < as.length, b[i]? = some (ll.req[i], as[i]) := by
  obtain ⟨hle, kb, _, rfl⟩ := bind_ok_eq ll as b h
  have hi' : i < as.length := by omega
  refine ⟨hi', ?_⟩
  have hz : i < (ll.req.zip as).length := by rw [zip_length_of_le _ _ hle]; exact hi
  rw [List.append_assoc, List.append_assoc, List.append_assoc, List.getElem?_append_left hz]
  rw [List.getElem?_zip_eq_some]
  simp [List.getElem?_eq_getElem hi, List.getElem?_eq_getElem hi']

/-- **bind_optional** — the j-th optional parameter is bound to the argument at position
    `|req| + j` when the call has one, to its default otherwise. -/
theorem bind_optional (ll : LL) (as : List Obj) (b) (h : bind ll as = .ok b)
    (j : Nat) (hj : j < ll.opt.length) :
    b[ll.req.length + j]? =
      some (ll.opt[j].name, as[ll.req.length + j]?.getD ll.opt[j].default) := by
  obtain ⟨hle, kb, _, rfl⟩ := bind_ok_eq ll as b h
  have hz : (ll.req.zip as).length = ll.req.length := zip_length_of_le _ _ hle
  rw [List.append_assoc, List.append_assoc, List.append_assoc,
    List.getElem?_append_right (by omega), hz, Nat.add_sub_cancel_left,
    List.getElem?_append_left (by rw [bindOpt_length]; exact hj), bindOpt_getElem?]
  simp [List.getElem?_eq_getElem hj, List.getElem?_drop]

/-- **bind_rest** — the `&rest` parameter is bound to the list of all arguments after the
    positional parameters, in order (the empty list when there are none). -/
theorem bind_rest (ll : LL) (as : List Obj) (b) (h : bind ll as = .ok b) (r : String)
    (hr : ll.rest = some r) : b[ll.npos]? = some (r, Obj.ofList (as.drop ll.npos)) := by
  obtain ⟨hle, kb, _, rfl⟩ := bind_ok_eq ll as b h
  have hz : (ll.req.zip as).length = ll.req.length := zip_length_of_le _ _ hle
  have hfront : (ll.req.zip as ++ bindOpt ll.opt (as.drop ll.req.length)).length = ll.npos := by
    simp [hz, bindOpt_length, LL.npos]
  rw [List.append_assoc _ _ (bindAux _), List.append_assoc _ _ (kb ++ _),
    List.getElem?_append_right (by omega), hfront, Nat.sub_self, hr]
  simp [bindRest]

/-- the value the language rule gives a key parameter: the value after the first occurrence of
    its keyword at an even index of the tail, its default when the keyword does not occur -/
def KeyValue (tail : List Obj) (k : String) (dflt v : Obj) : Prop :=
  (∃ i : Nat, tail[2 * i]? = some (.kw k) ∧ tail[2 * i + 1]? = some v ∧
      ∀ j : Nat, j < i → tail[2 * j]? ≠ some (.kw k)) ∨
  ((∀ i : Nat, tail[2 * i]? ≠ some (.kw k)) ∧ v = dflt)

/-- a key parameter gets the value the language rule prescribes -/
theorem bindKey_spec (ps : List (String × Obj)) (p : Param) :
    KeyValue (flat ps) p.name p.default (bindKey ps p).2 ∧ (bindKey ps p).1 = p.name := by
  unfold bindKey
  cases hf : firstVal p.name ps with
  | some v =>
    refine ⟨Or.inl ?_, rfl⟩
    obtain ⟨i, hi, hfirst⟩ := (firstVal_eq_some_iff _ _ _).mp hf
    refine ⟨i, by simp [flat_getElem?_even, hi], by simp [flat_getElem?_odd, hi], ?_⟩
    intro j hj hc
    rw [flat_getElem?_even] at hc
    cases hpj : ps[j]? with
    | none => simp [hpj] at hc
    | some q =>
      simp [hpj] at hc
      exact hfirst j hj q hpj hc
  | none =>
    refine ⟨Or.inr ⟨?_, rfl⟩, rfl⟩
    intro i hc
    rw [flat_getElem?_even] at hc
    cases hpi : ps[i]? with
    | none => simp [hpi] at hc
    | some q =>
      simp [hpi] at hc
      exact (firstVal_eq_none_iff _ _).mp hf q (List.mem_of_getElem? hpi) hc

/-- **bind_key** — the j-th key parameter is bound to the value following the first occurrence of
    its keyword in the tail (whatever the position of the pair), to its default when absent. -/
theorem bind_key (ll : LL) (as : List Obj) (b) (h : bind ll as = .ok b) (hk : ll.hasKey = true)
    (j : Nat) (hj : j < ll.keys.length) :
    ∃ v, b[ll.npos + restN ll + j]? = some (ll.keys[j].name, v) ∧
      KeyValue (as.drop ll.npos) ll.keys[j].name ll.keys[j].default v := by
  obtain ⟨hle, kb, hkb, rfl⟩ := bind_ok_eq ll as b h
  simp only [hk, if_true] at hkb
  have hz : (ll.req.zip as).length = ll.req.length := zip_length_of_le _ _ hle
  have hfront : (ll.req.zip as ++ bindOpt ll.opt (as.drop ll.req.length) ++
      bindRest ll.rest (as.drop ll.npos)).length
      = ll.npos + restN ll := by
    rw [List.length_append, List.length_append, hz, bindOpt_length, bindRest_length]; rfl
  -- the key part
  unfold bindKeys at hkb
  cases hp : keyPairs (List.drop ll.npos as) with
  | error e => simp [hp] at hkb
  | ok ps =>
    simp only [hp] at hkb
    split at hkb
    · cases hkb
      have ht := keyPairs_ok _ ps hp
      refine ⟨(bindKey ps ll.keys[j]).2, ?_, ?_⟩
      · rw [List.append_assoc _ _ (bindAux _), List.getElem?_append_right (by omega), hfront,
          Nat.add_sub_cancel_left, List.getElem?_append_left (by simpa using hj)]
        simp [List.getElem?_eq_getElem hj, (bindKey_spec ps ll.keys[j]).2.symm]
      · rw [ht]; exact (bindKey_spec ps ll.keys[j]).1
    · cases hkb

/-- **bind_aux** — the j-th `&aux` variable is bound to its initial value, after all parameters. -/
theorem bind_aux (ll : LL) (as : List Obj) (b) (h : bind ll as = .ok b)
    (j : Nat) (hj : j < ll.aux.length) :
    b[ll.npos + restN ll + keyN ll + j]? = some (ll.aux[j].name, ll.aux[j].default) := by
  have hlen := bind_length ll as b h
  obtain ⟨hle, kb, hkb, rfl⟩ := bind_ok_eq ll as b h
  have hfront : (ll.req.zip as ++ bindOpt ll.opt (as.drop ll.req.length) ++
      bindRest ll.rest (as.drop ll.npos) ++ kb).length
      = ll.npos + restN ll + keyN ll := by
    have hn : ll.npos = ll.req.length + ll.opt.length := rfl
    simp only [List.length_append, bindAux, List.length_map] at hlen ⊢
    omega
  rw [List.getElem?_append_right (by omega), hfront, Nat.add_sub_cancel_left]
  simp [bindAux, List.getElem?_eq_getElem hj]

example : bind { req := ["a"], opt := [{ name := "b", default := .int 5 }], rest := some "r", hasKey := true,
                 keys := [{ name := "k" }], aux := [{ name := "x", default := .int 9 }] }
            [.int 1, .int 2, .kw "k", .int 3, .kw "k", .int 4]
          = .ok [("a", .int 1), ("b", .int 2),
                 ("r", Obj.ofList [.kw "k", .int 3, .kw "k", .int 4]), ("k", .int 3), ("x", .int 9)] := by
  decide

/-! ### keys by name, in any order; the first duplicate wins -/

/-- **bindKeys_perm** — permuting key/value pairs with distinct keys does not change the key
    bindings (nor whether the tail is accepted). -/
theorem bindKeys_perm (ll : LL) (ps qs : List (String × Obj)) (hp : ps.Perm qs)
    (hnd : (ps.map (·.1)).Nodup) : bindKeys ll (flat qs) = bindKeys ll (flat ps) := by
  simp only [bindKeys, keyPairs_flat, hp.all_eq]
  have : ll.keys.map (bindKey qs) = ll.keys.map (bindKey ps) := by
    apply List.map_congr_left
    intro p _
    simp [bindKey, firstVal_perm p.name hp hnd]
  rw [this]

/-- **bind_key_perm** — for a lambda list without `&rest`: a call whose key/value pairs (distinct
    keys) are permuted produces the same bindings, or the same rejection. -/
theorem bind_key_perm (ll : LL) (pos : List Obj) (ps qs : List (String × Obj))
    (hpos : pos.length = ll.npos) (hp : ps.Perm qs) (hnd : (ps.map (·.1)).Nodup)
    (hrest : ll.rest = none) : bind ll (pos ++ flat qs) = bind ll (pos ++ flat ps) := by
  have hlen : (pos ++ flat qs).length = (pos ++ flat ps).length := by
    simp [flat_length, hp.length_eq]
  have hreq : ll.req.length ≤ pos.length := by simp [hpos, LL.npos]
  have hopt : ll.opt.length ≤ (pos.drop ll.req.length).length := by simp [hpos, LL.npos]
  have hd : ∀ t, (pos ++ t).drop ll.npos = t := by
    intro t; rw [← hpos]; simp
  have hd2 : ∀ t, (pos ++ t).drop ll.req.length = pos.drop ll.req.length ++ t := by
    intro t; rw [List.drop_append_of_le_length hreq]
  unfold Lambda.bind
  simp only [hlen, hd, hd2, hrest, zip_append_of_le _ _ _ hreq, bindOpt_append _ _ _ hopt,
    bindKeys_perm ll ps qs hp hnd, bindRest]

/-- the same with a `&rest` parameter: every binding except the rest list itself (which holds the
    arguments in call order) is unchanged -/
theorem bind_key_perm_rest (ll : LL) (pos : List Obj) (ps qs : List (String × Obj))
    (hpos : pos.length = ll.npos) (hp : ps.Perm qs) (hnd : (ps.map (·.1)).Nodup) :
    (bind ll (pos ++ flat qs)).map (·.eraseIdx ll.npos) = (bind ll (pos ++ flat ps)).map (·.eraseIdx ll.npos) := by
  cases hrest : ll.rest with
  | none => rw [bind_key_perm ll pos ps qs hpos hp hnd hrest]
  | some r =>
    have hlen : (pos ++ flat qs).length = (pos ++ flat ps).length := by
      simp [flat_length, hp.length_eq]
    have hreq : ll.req.length ≤ pos.length := by simp [hpos, LL.npos]
    have hopt : ll.opt.length ≤ (pos.drop ll.req.length).length := by simp [hpos, LL.npos]
    have hd : ∀ t, (pos ++ t).drop ll.npos = t := by
      intro t; rw [← hpos]; simp
    have hd2 : ∀ t, (pos ++ t).drop ll.req.length = pos.drop ll.req.length ++ t := by
      intro t; rw [List.drop_append_of_le_length hreq]
    have hfront : (ll.req.zip pos ++ bindOpt ll.opt (pos.drop ll.req.length)).length = ll.npos := by
      simp [zip_length_of_le _ _ hreq, bindOpt_length, LL.npos]
    have herase : ∀ (x : String × Obj) (tl : List (String × Obj)),
        ((ll.req.zip pos ++ bindOpt ll.opt (pos.drop ll.req.length)) ++ [x] ++ tl).eraseIdx ll.npos
          = (ll.req.zip pos ++ bindOpt ll.opt (pos.drop ll.req.length)) ++ tl := by
      intro x tl
      rw [List.append_assoc, List.eraseIdx_append_of_length_le (by omega), hfront, Nat.sub_self]
      simp
    unfold Lambda.bind
    simp only [hlen, hd, hd2, hrest, zip_append_of_le _ _ _ hreq, bindOpt_append _ _ _ hopt,
      bindKeys_perm ll ps qs hp hnd, bindRest]
    split
    · rfl
    · split
      · rfl
      · cases ll.hasKey with
        | false => simp only [if_false, Except.map, herase, Bool.false_eq_true]
        | true =>
          simp only [if_true]
          cases bindKeys ll (flat ps) with
          | error e => rfl
          | ok kb => simp only [Except.map, List.append_assoc _ kb, herase]

example : ([("k1", Obj.int 1), ("k2", .int 2)] : List (String × Obj)).Perm [("k2", .int 2), ("k1", .int 1)] ∧
    (([("k1", Obj.int 1), ("k2", .int 2)] : List (String × Obj)).map (·.1)).Nodup :=
  ⟨List.Perm.swap _ _ _, by decide⟩

/-- **bind_key_dup_first** — when a keyword is repeated, the first occurrence supplies the value. -/
theorem bind_key_dup_first (ll : LL) (ps qs : List (String × Obj)) (k : String) (v : Obj) (kb)
    (hfirst : ∀ p ∈ ps, p.1 ≠ k) (h : bindKeys ll (flat (ps ++ (k, v) :: qs)) = .ok kb)
    (p : Param) (hp : p ∈ ll.keys) (hk : p.name = k) : (k, v) ∈ kb := by
  simp only [bindKeys, keyPairs_flat] at h
  split at h
  · cases h
    rw [List.mem_map]
    exact ⟨p, hp, by simp [bindKey, hk, firstVal_append_first k v ps qs hfirst]⟩
  · cases h

example : bindKeys { hasKey := true, keys := [{ name := "k" }] } (flat ([] ++ ("k", .int 1) :: [("k", .int 2)]))
    = .ok [("k", .int 1)] := by decide

/-! ### the argument count without duplicate keys (how a documented `&key` list bounds a call) -/

/-- **bind_ok_nodup_le** — a call that binds, passes no keyword twice and is checked against the
    declared keys (no `&allow-other-keys`, no `&rest`) has at most `positional + 2·keys` arguments:
    the finite upper bound a built-in's argument count check can state for a `&key` list. -/
theorem bind_ok_nodup_le (ll : LL) (as : List Obj) (b) (h : bind ll as = .ok b)
    (ps : List (String × Obj)) (htail : as.drop ll.npos = flat ps) (hnd : (ps.map (·.1)).Nodup)
    (m : Nat) (hm : (arityNoDup ll).2 = some m) : as.length ≤ m := by
  simp only [arityNoDup] at hm
  split at hm
  · cases hm
  · rename_i hc
    simp only [Option.some.injEq] at hm
    subst hm
    simp only [Bool.or_eq_true, Bool.and_eq_true, not_or, not_and, Bool.not_eq_true] at hc
    obtain ⟨hr, haok⟩ := hc
    cases hk : ll.hasKey with
    | false =>
      simp only [if_false, Nat.add_zero, Bool.false_eq_true]
      have hr' : ll.rest.isSome = false := by simpa using hr
      have := (bind_ok_iff ll as).mp ⟨b, h⟩
      have := this.1.2 ll.npos (by simp [arity, hr', hk])
      exact this
    | true =>
      simp only [if_true]
      obtain ⟨_, kb, hkb, _⟩ := bind_ok_eq ll as b h
      simp only [hk, if_true, htail, bindKeys, keyPairs_flat, haok hk, Bool.false_or] at hkb
      split at hkb
      · rename_i hall
        have hsub : ∀ a ∈ ps.map (·.1), a ∈ ll.keys.map (·.name) := by
          intro a ha
          obtain ⟨p, hp, rfl⟩ := List.mem_map.mp ha
          have := List.all_eq_true.mp hall p hp
          simp only [knownKey, List.any_eq_true, decide_eq_true_eq] at this
          obtain ⟨q, hq, hqe⟩ := this
          exact List.mem_map.mpr ⟨q, hq, hqe⟩
        have hle := length_le_of_nodup_subset _ _ hnd hsub
        simp only [List.length_map] at hle
        have hlen : as.length ≤ ll.npos + (as.drop ll.npos).length := by simp; omega
        rw [htail, flat_length] at hlen
        omega
      · cases hkb

example : (arityNoDup { req := ["a"], hasKey := true, keys := [{ name := "k1" }, { name := "k2" }] }).2 = some 5 := by
  decide

/-! ### documented lambda lists -/

/-- a documented lambda list that is a plain list of names (no & marker) takes exactly that many
    arguments -/
theorem arity_of_positional (ll : LL) (h1 : ll.opt = []) (h2 : ll.rest = none) (h3 : ll.hasKey = false) :
    arity ll = (ll.req.length, some ll.req.length) := by
  simp [arity, LL.npos, h1, h2, h3]

/-- for a documented list without `&key`, the two bounds coincide: the built-in obligation
    `docConsistent` then says exactly "checked (min, max) = arity" -/
theorem arityNoDup_eq_arity_of_no_key (ll : LL) (h : ll.hasKey = false) : arityNoDup ll = arity ll := by
  simp [arityNoDup, arity, h]

/-- **docConsistent_sound** — a built-in whose checked bounds are consistent with its documented
    lambda list (no `&key`) accepts an argument vector by count exactly when `bind` on the
    documented list succeeds. -/
theorem docConsistent_sound (names : List String) (min : Nat) (max : Option Nat) (ll : LL)
    (hll : docLL names = .ok ll) (hkey : ll.hasKey = false)
    (hc : docConsistent names min max = true) (as : List Obj) :
    inArity (min, max) as.length = true ↔ ∃ b, bind ll as = .ok b := by
  simp only [docConsistent, hll, arityNoDup_eq_arity_of_no_key ll hkey, Bool.or_self,
    decide_eq_true_eq] at hc
  rw [bind_ok_iff, hc, ← countOK_iff_inArity]
  simp [hkey]

/-! ### histories: a call sees the latest definition and nothing else -/

/-- the latest definition of `n` in a history (stated without reference to `runHist`) -/
def lastDef (n : String) : List Op → Option LL
  | [] => none
  | op :: ops =>
    match lastDef n ops with
    | some ll => some ll
    | none =>
      match op with
      | .define m ll => if m = n then some ll else none
      | .call _ _ => none

/-- the definition in force for `n` after `ops`, starting from `env` -/
def inForce (env : Env) (n : String) (ops : List Op) : Option LL :=
  match lastDef n ops with
  | some ll => some ll
  | none => env.find n

/-- **runHist_append_call** — a call at the end of any history (definitions, redefinitions with any
    other lambda list, calls of any function with any keywords) is bound by `bind` on the latest
    definition of the called name — `undefined` when there is none — and the earlier results are
    unchanged. -/
theorem runHist_append_call (env : Env) (ops : List Op) (n : String) (args : List Obj) :
    runHist env (ops ++ [.call n args]) = runHist env ops ++ [callResult (inForce env n ops) args] := by
  induction ops generalizing env with
  | nil => simp [runHist, inForce, lastDef]
  | cons op ops ih =>
    cases op with
    | define m ll =>
      simp only [List.cons_append, runHist, ih]
      congr 2
      unfold inForce
      simp only [lastDef]
      cases lastDef n ops with
      | some l => rfl
      | none =>
        by_cases hm : m = n <;> simp [Env.find, hm]
    | call m as =>
      simp only [List.cons_append, runHist, ih, List.cons.injEq, true_and]
      congr 2
      unfold inForce
      simp only [lastDef]
      cases lastDef n ops <;> rfl

theorem lastDef_append (n : String) (a b : List Op) :
    lastDef n (a ++ b) = match lastDef n b with | some ll => some ll | none => lastDef n a := by
  induction a with
  | nil => simp [lastDef]; cases lastDef n b <;> rfl
  | cons op a ih =>
    simp only [List.cons_append, lastDef, ih]
    cases lastDef n b <;> rfl

/-- **redefinition_replaces** — after `(defun n ll)` a call of `n` is bound by `ll` alone, whatever
    was defined or called before (no key set, default or count of an earlier definition survives). -/
theorem redefinition_replaces (env : Env) (pre : List Op) (n : String) (ll : LL) (calls : List Op)
    (hc : ∀ op ∈ calls, ∃ m as, op = .call m as) (args : List Obj) :
    runHist env (pre ++ .define n ll :: calls ++ [.call n args])
      = runHist env (pre ++ .define n ll :: calls) ++ [.bound (bind ll args)] := by
  rw [runHist_append_call]
  congr 2
  have hcalls : lastDef n calls = none := by
    induction calls with
    | nil => rfl
    | cons op cs ih =>
      obtain ⟨m, as, rfl⟩ := hc op (by simp)
      simp [lastDef, ih (fun op h => hc op (by simp [h]))]
  have : lastDef n (pre ++ .define n ll :: calls) = some ll := by
    rw [lastDef_append]
    simp [lastDef, hcalls]
  simp [inForce, this, callResult]

/-- **calls_leave_no_trace** — removing every call from a history does not change which definition
    a later call sees. -/
theorem calls_leave_no_trace (n : String) (ops : List Op) :
    lastDef n (ops.filter (fun op => match op with | .define _ _ => true | .call _ _ => false)) = lastDef n ops := by
  induction ops with
  | nil => rfl
  | cons op ops ih =>
    cases op with
    | define m ll => simp [List.filter, lastDef, ih]
    | call m as =>
      simp only [List.filter, lastDef, ih]
      cases lastDef n ops <;> rfl

example : runHist [] [.define "f" { req := ["a"], hasKey := true, keys := [{ name := "alpha" }] },
                      .call "f" [.int 1, .kw "alpha", .int 2],
                      .define "f" { req := ["a"], hasKey := true, keys := [{ name := "beta" }], aok := true },
                      .call "f" [.int 1, .kw "beta", .int 2, .kw "alpha", .int 9]]
    = [.bound (.ok [("a", .int 1), ("alpha", .int 2)]), .bound (.ok [("a", .int 1), ("beta", .int 2)])] := by
  decide

/-! ### the parser -/

/-- **parseLL_render** — `parseLL` is the inverse of writing a lambda list out: every well-formed
    lambda list (required, &optional with/without defaults, &rest, &key with/without defaults,
    &allow-other-keys, &aux, in that order) is recovered exactly from its text. -/
theorem parseLL_render (ll : LL) (h : WF ll) : parseLL (Obj.ofList (render ll)) = .ok ll := by
  simp only [parseLL, toList?_ofList, parseElems_render ll h]

example : WF { req := ["a"], opt := [{ name := "b", default := .int 5 }], rest := some "r", hasKey := true,
               keys := [{ name := "k" }], aok := true, aux := [{ name := "x" }] } := by
  constructor <;> simp [isMarker]

/-- binding through the parser: a call of the written-out lambda list is judged by `bind_ok_iff` -/
theorem parse_then_bind_ok_iff (ll : LL) (h : WF ll) (as : List Obj) :
    (∃ ll' b, parseLL (Obj.ofList (render ll)) = .ok ll' ∧ bind ll' as = .ok b) ↔
      CountOK ll as.length ∧ (ll.hasKey = true → KeyTailOK ll (as.drop ll.npos)) := by
  rw [parseLL_render ll h, ← bind_ok_iff]
  constructor
  · rintro ⟨ll', b, hl, hb⟩; cases hl; exact ⟨b, hb⟩
  · rintro ⟨b, hb⟩; exact ⟨ll, b, rfl, hb⟩

example : docLL ["list", "&optional", "n"] = .ok { req := ["list"], opt := [{ name := "n" }] } ∧
    docConsistent ["list", "&optional", "n"] 1 (some 2) = true ∧
    docConsistent ["list", "&optional", "n"] 1 (some 3) = false := by decide

example : ∃ b, bind { req := ["a"], hasKey := true, keys := [{ name := "k1" }, { name := "k2" }] }
      [.int 1, .kw "k2", .int 2, .kw "k1", .int 3] = .ok b ∧
    [Obj.int 1, .kw "k2", .int 2, .kw "k1", .int 3].drop 1 = flat [("k2", .int 2), ("k1", .int 3)] ∧
    (([("k2", Obj.int 2), ("k1", .int 3)] : List (String × Obj)).map (·.1)).Nodup :=
  ⟨[("a", .int 1), ("k1", .int 3), ("k2", .int 2)], by decide, by decide, by decide⟩

end SlipVerif.Theorems.C04
