import SlipVerif.Model.Lambda
namespace SlipVerif.Theorems.C04
open SlipVerif.Lambda
theorem placeholder : arity {} = (0, some 0) := by decide
end SlipVerif.Theorems.C04
