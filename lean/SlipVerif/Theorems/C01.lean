import SlipVerif.Model.Eval
namespace SlipVerif.Theorems.C01
open SlipVerif.Eval

/-- Quoting a datum of any kind yields exactly that datum; the store (hence the trace) is unchanged. -/
theorem quote_datum (n : Nat) (ρ : Env) (d : Obj) (σ : St) :
    evalN (n + 1) (.form ρ (.cons (.sym "quote") (.cons d .nil))) σ = (.val [d], σ) := by
  simp [evalN, step, stepEval, listOf, stepForm, formOf]

end SlipVerif.Theorems.C01
