import SlipVerif.Lemmas.EvalBasic
/-!
C01 — core evaluation follows the language rules for order, binding and control.

Theorems about the reference evaluator `SlipVerif.Eval.evalN` (the very definitions the model driver
`slipmodel` executes). `evalN (n+1) = step (evalN n)`; a result that is not a timeout is stable
under more fuel (`fuel_mono`), so statements about "fuel n / n+1" are statements about evaluation.
-/
namespace SlipVerif.Theorems.C01
open SlipVerif.Eval

/-- `(head a₁ … aₖ)` -/
def form (head : String) (args : List Obj) : Obj := .cons (.sym head) (ofList args)

-- ---------------------------------------------------------------------------------------------
-- fuel

/-- a result that is not a timeout does not change when more fuel is given -/
theorem fuel_mono {n : Nat} {t : Task} {σ : St} {r : Res} (h : evalN n t σ = r) (hr : r.1 ≠ .timeout)
    (k : Nat) : evalN (n + k) t σ = r := evalN_add h hr k

example : evalN 5 (.form {} (form "if" [.t, .int 1, .int 2])) {} = (.val [.int 1], {}) := by decide

/-- evaluation is deterministic: two terminating runs give the same result -/
theorem evals_deterministic {t : Task} {σ : St} {r r' : Res} (h : Evals t σ r) (h' : Evals t σ r') : r = r' :=
  Evals.det h h'

/-- the trace is only ever appended to -/
theorem trace_only_grows (n : Nat) (t : Task) (σ : St) : ∃ δ, (evalN n t σ).2.trace = σ.trace ++ δ := by
  obtain ⟨δ, h⟩ := evalN_ext n t σ
  exact ⟨δ, h.symm⟩

-- ---------------------------------------------------------------------------------------------
-- quote

/-- Quoting a datum of any kind yields exactly that datum; the store (hence the trace) is unchanged. -/
theorem quote_datum (n : Nat) (ρ : Env) (d : Obj) (σ : St) :
    evalN (n + 1) (.form ρ (.cons (.sym "quote") (.cons d .nil))) σ = (.val [d], σ) := by
  simp [evalN, step, stepEval, listOf, stepForm, formOf]

/-- numbers, strings, nil, t, keywords and function objects evaluate to themselves -/
theorem self_evaluating (n : Nat) (ρ : Env) (σ : St) (i : Int) (s : String) :
    evalN (n + 1) (.form ρ (.int i)) σ = (.val [.int i], σ) ∧
    evalN (n + 1) (.form ρ (.str s)) σ = (.val [.str s], σ) ∧
    evalN (n + 1) (.form ρ .nil) σ = (.val [.nil], σ) ∧
    evalN (n + 1) (.form ρ .t) σ = (.val [.t], σ) := by
  simp [evalN, step, stepEval]

-- ---------------------------------------------------------------------------------------------
-- arguments: exactly once, left to right, before the call

theorem args_nil (n : Nat) (ρ : Env) (σ : St) : evalN (n + 1) (.args ρ []) σ = (.val [], σ) := by
  simp [evalN, step, stepArgs]

/-- the first argument is evaluated first, the remaining ones in the store it left behind; each
argument contributes its primary value only -/
theorem args_cons_val {n : Nat} {ρ : Env} {e : Obj} {es : List Obj} {σ σ1 σ2 : St} {v vs : List Obj}
    (h1 : evalN n (.form ρ e) σ = (.val v, σ1)) (h2 : evalN n (.args ρ es) σ1 = (.val vs, σ2)) :
    evalN (n + 1) (.args ρ (e :: es)) σ = (.val (prim v :: vs), σ2) := by
  simp [evalN, step, stepArgs, h1, h2, bindV]

/-- an argument that does not return normally ends the argument evaluation: the arguments to its
right are not evaluated at all -/
theorem args_cons_exit {n : Nat} {ρ : Env} {e : Obj} {es : List Obj} {σ σ1 : St} {o : Out}
    (h1 : evalN n (.form ρ e) σ = (o, σ1)) (ho : NotVal o) :
    evalN (n + 1) (.args ρ (e :: es)) σ = (o, σ1) := by
  simp [evalN, step, stepArgs, h1, bindV_exit _ ho]

/-- big-step reading of "left to right, exactly once": the chain of stores threaded through the
argument forms -/
inductive ArgsChain (ρ : Env) : List Obj → St → List Obj → St → Prop
  | nil (σ : St) : ArgsChain ρ [] σ [] σ
  | cons {e : Obj} {es : List Obj} {σ σ1 σ2 : St} {v vs : List Obj} :
      Evals (.form ρ e) σ (.val v, σ1) → ArgsChain ρ es σ1 vs σ2 → ArgsChain ρ (e :: es) σ (prim v :: vs) σ2

/-- the evaluation of an argument list IS the left-to-right chain (both directions) -/
theorem args_once_left_to_right (ρ : Env) (es : List Obj) (σ σ' : St) (vs : List Obj) :
    Evals (.args ρ es) σ (.val vs, σ') ↔ ArgsChain ρ es σ vs σ' := by
  constructor
  · rintro ⟨n, hn, _⟩
    induction es generalizing n σ vs with
    | nil =>
      cases n with
      | zero => simp [evalN] at hn
      | succ n =>
        simp [evalN, step, stepArgs] at hn
        obtain ⟨rfl, rfl⟩ := hn
        exact .nil _
    | cons e es ih =>
      cases n with
      | zero => simp [evalN] at hn
      | succ n =>
        simp only [evalN, step, stepArgs] at hn
        rcases h1 : evalN n (.form ρ e) σ with ⟨o, σ1⟩
        rw [show evalN n = evalN n from rfl] at hn
        simp only [h1] at hn
        cases o with
        | val v =>
          simp only [bindV] at hn
          rcases h2 : evalN n (.args ρ es) σ1 with ⟨o2, σ2⟩
          simp only [h2] at hn
          cases o2 with
          | val vs2 =>
            simp at hn
            obtain ⟨rfl, rfl⟩ := hn
            exact .cons ⟨n, h1, by simp⟩ (ih _ _ _ h2 (by simp))
          | _ => simp at hn
        | _ => simp [bindV] at hn
  · intro h
    induction h with
    | nil σ => exact ⟨1, by simp [evalN, step, stepArgs], by simp⟩
    | cons h1 _ ih =>
      obtain ⟨n1, h1, _⟩ := h1
      obtain ⟨n2, h2, _⟩ := ih
      refine ⟨max n1 n2 + 1, ?_, by simp⟩
      exact args_cons_val (evalN_ge h1 (by simp) (Nat.le_max_left _ _)) (evalN_ge h2 (by simp) (Nat.le_max_right _ _))

/-- the trace of an argument list is the concatenation of the traces of the arguments, in order -/
theorem args_trace_concat {n : Nat} {ρ : Env} {e : Obj} {es : List Obj} {σ σ1 σ2 : St} {v vs : List Obj}
    (h1 : evalN n (.form ρ e) σ = (.val v, σ1)) (h2 : evalN n (.args ρ es) σ1 = (.val vs, σ2)) :
    ∃ t1 t2, σ1.trace = σ.trace ++ t1 ∧ σ2.trace = σ1.trace ++ t2 ∧
      (evalN (n + 1) (.args ρ (e :: es)) σ).2.trace = σ.trace ++ (t1 ++ t2) := by
  obtain ⟨t1, ht1⟩ := evalN_ext n (.form ρ e) σ
  obtain ⟨t2, ht2⟩ := evalN_ext n (.args ρ es) σ1
  rw [h1] at ht1
  rw [h2] at ht2
  refine ⟨t1, t2, ht1.symm, ht2.symm, ?_⟩
  rw [args_cons_val h1 h2]
  simp only at ht1 ht2 ⊢
  rw [← ht2, ← ht1, List.append_assoc]

/-- a call of a named function evaluates all its arguments (left to right) BEFORE the function is
applied, and applies it to the argument values in the store the arguments left behind; the trace
of a call is therefore trace(arguments) ++ trace(application) -/
theorem call_args_then_apply {n : Nat} {ρ : Env} {f : String} {argsObj : Obj} {as : List Obj} {σ : St}
    (hf : formOf f = .call) (ha : listOf argsObj = some as) :
    evalN (n + 1) (.form ρ (.cons (.sym f) argsObj)) σ =
      bindV (evalN n (.args ρ as) σ) (fun vs σ1 => evalN n (.apply (.fn f) vs) σ1) := by
  simp [evalN, step, stepEval, ha, stepForm, hf]

example : formOf "vtr" = .call ∧ formOf "+" = .call ∧ formOf "my-function" = .call := by decide

/-- the trace primitive records its argument and returns it -/
theorem vtr_records (n : Nat) (v : Obj) (σ : St) (h : σ.funs.lookup "vtr" = none) :
    evalN (n + 1) (.apply (.fn "vtr") [v]) σ = (.val [v], { σ with trace := σ.trace ++ [v] }) := by
  simp [evalN, step, stepApply, callNamed, h, primOf, applyPrim, traceAdd]

-- ---------------------------------------------------------------------------------------------
-- conditionals evaluate only the selected branch

section conditionals
variable {n : Nat} {ρ : Env} {σ σ1 : St} {c a b : Obj} {v : List Obj}

theorem if_true (hc : evalN n (.form ρ c) σ = (.val v, σ1)) (ht : truthy (prim v) = true) :
    evalN (n + 1) (.form ρ (.cons (.sym "if") (.cons c (.cons a (.cons b .nil))))) σ = evalN n (.form ρ a) σ1 := by
  simp [evalN, step, stepEval, listOf, stepForm, formOf, hc, bindV, ht]

theorem if_false (hc : evalN n (.form ρ c) σ = (.val v, σ1)) (ht : truthy (prim v) = false) :
    evalN (n + 1) (.form ρ (.cons (.sym "if") (.cons c (.cons a (.cons b .nil))))) σ = evalN n (.form ρ b) σ1 := by
  simp [evalN, step, stepEval, listOf, stepForm, formOf, hc, bindV, ht]

theorem if_false_no_else (hc : evalN n (.form ρ c) σ = (.val v, σ1)) (ht : truthy (prim v) = false) :
    evalN (n + 1) (.form ρ (.cons (.sym "if") (.cons c (.cons a .nil)))) σ = (.val [.nil], σ1) := by
  simp [evalN, step, stepEval, listOf, stepForm, formOf, hc, bindV, ht]

example : evalN 3 (.form {} (.int 7)) {} = (.val [.int 7], {}) ∧ truthy (prim [.int 7]) = true := by decide

variable {bodyObj : Obj} {body : List Obj}

theorem when_true (hb : listOf bodyObj = some body) (hc : evalN n (.form ρ c) σ = (.val v, σ1))
    (ht : truthy (prim v) = true) :
    evalN (n + 1) (.form ρ (.cons (.sym "when") (.cons c bodyObj))) σ = evalN n (.seq ρ body) σ1 := by
  simp [evalN, step, stepEval, listOf, hb, stepForm, formOf, hc, bindV, ht]

theorem when_false (hb : listOf bodyObj = some body) (hc : evalN n (.form ρ c) σ = (.val v, σ1))
    (ht : truthy (prim v) = false) :
    evalN (n + 1) (.form ρ (.cons (.sym "when") (.cons c bodyObj))) σ = (.val [.nil], σ1) := by
  simp [evalN, step, stepEval, listOf, hb, stepForm, formOf, hc, bindV, ht]

theorem unless_false (hb : listOf bodyObj = some body) (hc : evalN n (.form ρ c) σ = (.val v, σ1))
    (ht : truthy (prim v) = false) :
    evalN (n + 1) (.form ρ (.cons (.sym "unless") (.cons c bodyObj))) σ = evalN n (.seq ρ body) σ1 := by
  simp [evalN, step, stepEval, listOf, hb, stepForm, formOf, hc, bindV, ht]

theorem unless_true (hb : listOf bodyObj = some body) (hc : evalN n (.form ρ c) σ = (.val v, σ1))
    (ht : truthy (prim v) = true) :
    evalN (n + 1) (.form ρ (.cons (.sym "unless") (.cons c bodyObj))) σ = (.val [.nil], σ1) := by
  simp [evalN, step, stepEval, listOf, hb, stepForm, formOf, hc, bindV, ht]

example : listOf (ofList [Obj.int 1, .int 2]) = some [.int 1, .int 2] := by decide

variable {cs : List Obj}

/-- cond: a clause whose test is true and that has forms — the forms are the result, later clauses
are not touched -/
theorem cond_clause_true (hb : listOf bodyObj = some body) (hne : body ≠ [])
    (hc : evalN n (.form ρ c) σ = (.val v, σ1)) (ht : truthy (prim v) = true) :
    evalN (n + 1) (.condClauses ρ (.cons c bodyObj :: cs)) σ = evalN n (.seq ρ body) σ1 := by
  cases body with
  | nil => exact absurd rfl hne
  | cons x xs => simp [evalN, step, stepCond, hb, hc, bindV, ht]

/-- cond: a clause with a true test and no forms yields the value of the test -/
theorem cond_test_only (hc : evalN n (.form ρ c) σ = (.val v, σ1)) (ht : truthy (prim v) = true) :
    evalN (n + 1) (.condClauses ρ (.cons c .nil :: cs)) σ = (.val [prim v], σ1) := by
  simp [evalN, step, stepCond, listOf, hc, bindV, ht]

/-- cond: a clause whose test is false is skipped (its forms are not evaluated) -/
theorem cond_clause_false (hb : listOf bodyObj = some body)
    (hc : evalN n (.form ρ c) σ = (.val v, σ1)) (ht : truthy (prim v) = false) :
    evalN (n + 1) (.condClauses ρ (.cons c bodyObj :: cs)) σ = evalN n (.condClauses ρ cs) σ1 := by
  simp [evalN, step, stepCond, hb, hc, bindV, ht]

theorem cond_is_clauses (hcs : listOf bodyObj = some cs) :
    evalN (n + 1) (.form ρ (.cons (.sym "cond") bodyObj)) σ = evalN n (.condClauses ρ cs) σ := by
  simp [evalN, step, stepEval, hcs, stepForm, formOf]

variable {es : List Obj} {e : Obj}

/-- and: a false form ends the evaluation with nil, the forms to its right are not evaluated -/
theorem and_stops_at_false (hne : es ≠ []) (hc : evalN n (.form ρ e) σ = (.val v, σ1))
    (ht : truthy (prim v) = false) :
    evalN (n + 1) (.andForms ρ (e :: es)) σ = (.val [.nil], σ1) := by
  cases es with
  | nil => exact absurd rfl hne
  | cons x xs => simp [evalN, step, stepAnd, hc, bindV, ht]

theorem and_continues_at_true (hne : es ≠ []) (hc : evalN n (.form ρ e) σ = (.val v, σ1))
    (ht : truthy (prim v) = true) :
    evalN (n + 1) (.andForms ρ (e :: es)) σ = evalN n (.andForms ρ es) σ1 := by
  cases es with
  | nil => exact absurd rfl hne
  | cons x xs => simp [evalN, step, stepAnd, hc, bindV, ht]

/-- and: the last form supplies the result (all its values) -/
theorem and_last : evalN (n + 1) (.andForms ρ [e]) σ = evalN n (.form ρ e) σ := by
  simp [evalN, step, stepAnd]

/-- or: the first true form supplies the result, the forms to its right are not evaluated -/
theorem or_stops_at_true (hne : es ≠ []) (hc : evalN n (.form ρ e) σ = (.val v, σ1))
    (ht : truthy (prim v) = true) :
    evalN (n + 1) (.orForms ρ (e :: es)) σ = (.val [prim v], σ1) := by
  cases es with
  | nil => exact absurd rfl hne
  | cons x xs => simp [evalN, step, stepOr, hc, bindV, ht]

theorem or_continues_at_false (hne : es ≠ []) (hc : evalN n (.form ρ e) σ = (.val v, σ1))
    (ht : truthy (prim v) = false) :
    evalN (n + 1) (.orForms ρ (e :: es)) σ = evalN n (.orForms ρ es) σ1 := by
  cases es with
  | nil => exact absurd rfl hne
  | cons x xs => simp [evalN, step, stepOr, hc, bindV, ht]

theorem and_or_empty : evalN (n + 1) (.andForms ρ []) σ = (.val [.t], σ) ∧
    evalN (n + 1) (.orForms ρ []) σ = (.val [.nil], σ) := by
  simp [evalN, step, stepAnd, stepOr]

/-- case: the key form is evaluated once, then exactly the forms of the first matching clause -/
theorem case_selected {k clausesObj : Obj} {clauses : List Obj} (hcl : listOf clausesObj = some clauses)
    (hk : evalN n (.form ρ k) σ = (.val v, σ1)) (hs : caseSelect (prim v) clauses = some body) :
    evalN (n + 1) (.form ρ (.cons (.sym "case") (.cons k clausesObj))) σ = evalN n (.seq ρ body) σ1 := by
  simp [evalN, step, stepEval, listOf, hcl, stepForm, formOf, hk, bindV, hs]

example : caseSelect (.int 2) [ofList [.int 1, .sym "a"], ofList [ofList [.int 2, .int 3], .sym "b"], ofList [.t, .sym "c"]]
    = some [.sym "b"] := by decide

end conditionals

-- ---------------------------------------------------------------------------------------------
-- progn / prog1

theorem progn_is_seq {n : Nat} {ρ : Env} {σ : St} {bodyObj : Obj} {body : List Obj} (hb : listOf bodyObj = some body) :
    evalN (n + 1) (.form ρ (.cons (.sym "progn") bodyObj)) σ = evalN n (.seq ρ body) σ := by
  simp [evalN, step, stepEval, hb, stepForm, formOf]

/-- a body: the first form is evaluated, its values are dropped, the rest follows in the new store -/
theorem body_first_then_rest {n : Nat} {ρ : Env} {e : Obj} {es : List Obj} {σ σ1 : St} {v : List Obj} (hne : es ≠ [])
    (h1 : evalN n (.form ρ e) σ = (.val v, σ1)) :
    evalN (n + 1) (.seq ρ (e :: es)) σ = evalN n (.seq ρ es) σ1 := seq_cons_val hne h1

/-- the last form of a body supplies all the values -/
theorem seq_last {n : Nat} {ρ : Env} {e : Obj} {σ : St} :
    evalN (n + 1) (.seq ρ [e]) σ = evalN n (.form ρ e) σ := by
  simp [evalN, step, stepSeq]

/-- prog1 returns the primary value of its first form after evaluating the others -/
theorem prog1_first_value {n : Nat} {ρ : Env} {e restObj : Obj} {rest : List Obj} {σ σ1 σ2 : St} {v w : List Obj}
    (hr : listOf restObj = some rest)
    (h1 : evalN n (.form ρ e) σ = (.val v, σ1)) (h2 : evalN n (.seq ρ rest) σ1 = (.val w, σ2)) :
    evalN (n + 1) (.form ρ (.cons (.sym "prog1") (.cons e restObj))) σ = (.val [prim v], σ2) := by
  simp [evalN, step, stepEval, listOf, hr, stepForm, formOf, h1, h2, bindV]

-- ---------------------------------------------------------------------------------------------
-- let binds in parallel, let* in sequence

/-- the binding list ((x₁ e₁) … (xₖ eₖ)) -/
def bindingList : List String → List Obj → List Obj
  | x :: xs, e :: es => ofList [.sym x, e] :: bindingList xs es
  | _, _ => []

theorem parseBindings_bindingList (xs : List String) (es : List Obj) (h : xs.length = es.length) :
    parseBindings (bindingList xs es) = some (List.zip xs es) := by
  induction xs generalizing es with
  | nil => cases es <;> simp_all [bindingList, parseBindings]
  | cons x xs ih =>
    cases es with
    | nil => simp at h
    | cons e es =>
      have := ih es (by simpa using h)
      simp [bindingList, parseBindings, parseBinding, ofList, this]

theorem symNames_map (xs : List String) : symNames (xs.map .sym) = some xs := by
  induction xs with
  | nil => rfl
  | cons x xs ih => simp [symNames, ih]

theorem zip_map_fst (xs : List String) (es : List Obj) (h : xs.length = es.length) :
    (List.zip xs es).map (·.1) = xs := by
  induction xs generalizing es with
  | nil => simp
  | cons x xs ih => cases es with
    | nil => simp at h
    | cons e es => simp [ih es (by simpa using h)]

theorem zip_map_snd (xs : List String) (es : List Obj) (h : xs.length = es.length) :
    (List.zip xs es).map (·.2) = es := by
  induction xs generalizing es with
  | nil => cases es <;> simp_all
  | cons x xs ih => cases es with
    | nil => simp at h
    | cons e es => simp [ih es (by simpa using h)]

/-- what both `let` and the application of a lambda to the init forms do: evaluate the init forms
left to right IN THE OUTER ENVIRONMENT, then bind all variables at once in one new frame -/
def parallelBinding (n : Nat) (ρ : Env) (xs : List String) (es body : List Obj) (σ : St) : Res :=
  bindV (evalN n (.args ρ es) σ) (fun vs σ1 =>
    evalN n (.seq (pushFrame ρ σ1.frames.length) body) (addFrame σ1 (zipFrame xs vs)))

/-- `(let ((x₁ e₁) … (xₖ eₖ)) body…)` binds in parallel -/
theorem let_is_parallel_binding (n : Nat) (ρ : Env) (xs : List String) (es body : List Obj) (σ : St)
    (h : xs.length = es.length) :
    evalN (n + 1) (.form ρ (.cons (.sym "let") (.cons (ofList (bindingList xs es)) (ofList body)))) σ
      = parallelBinding n ρ xs es body σ := by
  simp [evalN, step, stepEval, listOf, listOf_ofList, stepForm, formOf, parseBindings_bindingList xs es h,
    zip_map_fst xs es h, zip_map_snd xs es h, parallelBinding]

/-- `((lambda (x₁ … xₖ) body…) e₁ … eₖ)` is the same parallel binding -/
theorem lambda_call_is_parallel_binding (n : Nat) (ρ : Env) (xs : List String) (es body : List Obj) (σ : St)
    (h : xs.length = es.length) :
    evalN (n + 1) (.form ρ (.cons (.cons (.sym "lambda") (.cons (ofList (xs.map .sym)) (ofList body))) (ofList es))) σ
      = parallelBinding n ρ xs es body σ := by
  simp [evalN, step, stepEval, listOf_ofList, symNames_map, h, parallelBinding]

/-- let ≃ application of the corresponding lambda: same outcome, same store (hence same trace) -/
theorem let_parallel (n : Nat) (ρ : Env) (xs : List String) (es body : List Obj) (σ : St)
    (h : xs.length = es.length) :
    evalN (n + 1) (.form ρ (.cons (.sym "let") (.cons (ofList (bindingList xs es)) (ofList body)))) σ
      = evalN (n + 1) (.form ρ (.cons (.cons (.sym "lambda") (.cons (ofList (xs.map .sym)) (ofList body))) (ofList es))) σ := by
  rw [let_is_parallel_binding n ρ xs es body σ h, lambda_call_is_parallel_binding n ρ xs es body σ h]

example : bindingList ["x", "y"] [.int 1, .sym "x"] = [ofList [.sym "x", .int 1], ofList [.sym "y", .sym "x"]] := by decide

/-- in a `let` the init forms do not see the new bindings: `(let ((x 2) (y x)) y)` under an outer
x = 1 gives 1 -/
example : (evalN 10 (.form {} (form "let" [ofList [ofList [.sym "x", .int 1]],
      form "let" [ofList [ofList [.sym "x", .int 2], ofList [.sym "y", .sym "x"]], .sym "y"]])) {}).1 = .val [.int 1] := by
  decide +kernel

/-- `let*`: the first binding is established (in its own frame) before the next init form is evaluated -/
theorem letstar_step {n : Nat} {ρ : Env} {x : String} {init : Obj} {bs : List (String × Obj)} {body : List Obj}
    {σ σ1 : St} {v : List Obj} (h1 : evalN n (.form ρ init) σ = (.val v, σ1)) :
    evalN (n + 1) (.letStar ρ ((x, init) :: bs) body) σ
      = evalN n (.letStar (pushFrame ρ σ1.frames.length) bs body) (addFrame σ1 [(x, prim v)]) := by
  simp [evalN, step, stepLetStar, h1, bindV]

theorem letstar_nil {n : Nat} {ρ : Env} {body : List Obj} {σ : St} :
    evalN (n + 1) (.letStar ρ [] body) σ = evalN n (.seq ρ body) σ := by
  simp [evalN, step, stepLetStar]

/-- `(let* (b . bs) body…) ≃ (let (b) (let* bs body…))`: same result for every terminating run -/
theorem letstar_sequential (ρ : Env) (x : String) (init : Obj) (xs : List String) (es body : List Obj)
    (σ : St) (r : Res) (h : xs.length = es.length) :
    Evals (.form ρ (.cons (.sym "let*") (.cons (ofList (bindingList (x :: xs) (init :: es))) (ofList body)))) σ r ↔
    Evals (.form ρ (.cons (.sym "let") (.cons (ofList (bindingList [x] [init]))
      (ofList [.cons (.sym "let*") (.cons (ofList (bindingList xs es)) (ofList body))])))) σ r := by
  have hp1 : parseBindings (bindingList (x :: xs) (init :: es)) = some ((x, init) :: List.zip xs es) := by
    simpa using parseBindings_bindingList (x :: xs) (init :: es) (by simp [h])
  have hp2 := parseBindings_bindingList xs es h
  -- both sides, unfolded to the common continuation `letStar ρ' (zip xs es) body`
  have lhs : ∀ n, evalN (n + 3) (.form ρ (.cons (.sym "let*") (.cons (ofList (bindingList (x :: xs) (init :: es))) (ofList body)))) σ
      = bindV (evalN (n + 1) (.form ρ init) σ) (fun v σ1 =>
          evalN (n + 1) (.letStar (pushFrame ρ σ1.frames.length) (List.zip xs es) body) (addFrame σ1 [(x, prim v)])) := by
    intro n
    have h1 : evalN (n + 3) (.form ρ (.cons (.sym "let*") (.cons (ofList (bindingList (x :: xs) (init :: es))) (ofList body)))) σ
        = evalN (n + 2) (.letStar ρ ((x, init) :: List.zip xs es) body) σ := by
      simp [evalN, step, stepEval, listOf, listOf_ofList, stepForm, formOf, hp1]
    rw [h1]
    simp only [evalN, step, stepLetStar]
  have rhs : ∀ n, evalN (n + 4) (.form ρ (.cons (.sym "let") (.cons (ofList (bindingList [x] [init]))
      (ofList [.cons (.sym "let*") (.cons (ofList (bindingList xs es)) (ofList body))])))) σ
      = bindV (evalN (n + 2) (.form ρ init) σ) (fun v σ1 =>
          evalN (n + 1) (.letStar (pushFrame ρ σ1.frames.length) (List.zip xs es) body) (addFrame σ1 [(x, prim v)])) := by
    intro n
    rw [show n + 4 = (n + 3) + 1 from rfl, let_is_parallel_binding (n + 3) ρ [x] [init] _ σ rfl]
    unfold parallelBinding
    have hargs : evalN (n + 3) (.args ρ [init]) σ
        = bindV (evalN (n + 2) (.form ρ init) σ) (fun v σ1 => (.val [prim v], σ1)) := by
      simp only [evalN, step, stepArgs, bindV]
    have hinner : ∀ ρ' σ', evalN (n + 3) (.seq ρ' [.cons (.sym "let*") (.cons (ofList (bindingList xs es)) (ofList body))]) σ'
        = evalN (n + 1) (.letStar ρ' (List.zip xs es) body) σ' := by
      intro ρ' σ'
      simp [evalN, step, stepSeq, stepEval, listOf, listOf_ofList, stepForm, formOf, hp2]
    rw [hargs]
    rcases evalN (n + 2) (.form ρ init) σ with ⟨o, σ1⟩
    cases o <;> simp only [bindV, hinner, zipFrame]
  constructor
  · rintro ⟨m, hm, hr⟩
    -- take enough fuel on both sides
    have hm' := evalN_add hm hr 4
    obtain ⟨k, hk⟩ : ∃ k, m + 4 = k + 3 := ⟨m + 1, by omega⟩
    rw [hk, lhs] at hm'
    refine ⟨k + 4, ?_, hr⟩
    rw [rhs]
    rcases h1 : evalN (k + 1) (.form ρ init) σ with ⟨o, σ1⟩
    rw [h1] at hm'
    cases o with
    | timeout => simp [bindV] at hm'; rw [← hm'] at hr; exact absurd rfl hr
    | val v => rw [evalN_add h1 (by simp) 1]; exact hm'
    | ret id vs => rw [evalN_add h1 (by simp) 1]; exact hm'
    | go id tag => rw [evalN_add h1 (by simp) 1]; exact hm'
    | err cls => rw [evalN_add h1 (by simp) 1]; exact hm'
  · rintro ⟨m, hm, hr⟩
    have hm' := evalN_add hm hr 4
    obtain ⟨k, hk⟩ : ∃ k, m + 4 = k + 4 := ⟨m, rfl⟩
    rw [hk, rhs] at hm'
    refine ⟨k + 4, ?_, hr⟩
    rw [show k + 4 = (k + 1) + 3 from rfl, lhs]
    rcases h1 : evalN (k + 2) (.form ρ init) σ with ⟨o, σ1⟩
    rw [h1] at hm'
    cases o with
    | timeout => simp [bindV] at hm'; rw [← hm'] at hr; exact absurd rfl hr
    | val v =>
      simp only [bindV] at hm' ⊢
      have := evalN_add hm' hr 1
      simpa using this
    | ret id vs => simpa [bindV] using hm'
    | go id tag => simpa [bindV] using hm'
    | err cls => simpa [bindV] using hm'

-- ---------------------------------------------------------------------------------------------
-- closures: lexical scope

/-- evaluating `(lambda (p…) body…)` records the environment of the lambda form itself -/
theorem lambda_captures_definition_env (n : Nat) (ρ : Env) (ps : List String) (bodyObj : Obj) (body : List Obj)
    (σ : St) (hb : listOf bodyObj = some body) (hr : "&rest" ∉ ps) :
    evalN (n + 1) (.form ρ (.cons (.sym "lambda") (.cons (ofList (ps.map .sym)) bodyObj))) σ
      = (.val [.clo σ.clos.length],
         addClosure σ { params := ps, body := body, env := ρ, name := "" }) := by
  simp [evalN, step, stepEval, listOf, hb, listOf_ofList, symNames_map, stepForm, formOf, splitRest_plain ps hr]

theorem closure_stored (σ : St) (c : Closure) : (addClosure σ c).clos[σ.clos.length]? = some c := by
  simp [addClosure]

/-- applying a closure evaluates its body in the closure's DEFINITION environment extended by one
fresh frame binding the parameters — no caller environment occurs -/
theorem apply_closure_in_definition_env {n : Nat} {cid : Nat} {c : Closure} {args : List Obj} {σ : St}
    (hc : σ.clos[cid]? = some c) (hn : c.name = "") (hr : c.rest = none) (hl : c.params.length = args.length) :
    evalN (n + 1) (.apply (.clo cid) args) σ
      = evalN n (.seq (pushFrame c.env σ.frames.length) c.body) (addFrame σ (zipFrame c.params args)) := by
  simp [evalN, step, stepApply, callClosure, hc, hn, hr, bindArgs, hl]

/-- the result of `(funcall f a…)` depends on the environment of the call site only through the
evaluation of the argument forms: the application itself is independent of the caller's
environment -/
theorem closure_lexical {n : Nat} {ρ₁ ρ₂ : Env} {f restObj : Obj} {as : List Obj} {σ : St}
    (ha : listOf restObj = some as)
    (hargs : evalN n (.args ρ₁ (f :: as)) σ = evalN n (.args ρ₂ (f :: as)) σ) :
    evalN (n + 1) (.form ρ₁ (.cons (.sym "funcall") (.cons f restObj))) σ
      = evalN (n + 1) (.form ρ₂ (.cons (.sym "funcall") (.cons f restObj))) σ := by
  simp only [evalN, step, stepEval, listOf, ha, stepForm, formOf, Option.map]
  rw [hargs]

/-- a closure called under a caller binding of the same name still sees the captured variable:
`(let ((x 1)) (let ((f (lambda (z) x))) (let ((x 2)) (funcall f 0))))` is 1 -/
example : (evalN 12 (.form {} (form "let" [ofList [ofList [.sym "x", .int 1]],
      form "let" [ofList [ofList [.sym "f", form "lambda" [ofList [.sym "z"], .sym "x"]]],
        form "let" [ofList [ofList [.sym "x", .int 2]], form "funcall" [.sym "f", .int 0]]]])) {}).1
    = .val [.int 1] := by
  decide +kernel

-- store lemmas for setq

theorem lookup_setAssoc_same (x : String) (v : Obj) (fr : List (String × Obj)) (h : hasKey x fr = true) :
    (setAssoc x v fr).lookup x = some v := by
  induction fr with
  | nil => simp [hasKey] at h
  | cons p fr ih =>
    obtain ⟨y, w⟩ := p
    by_cases hy : y = x
    · subst hy; simp [setAssoc]
    · have hyx : (y == x) = false := by simp [hy]
      have hxy : (x == y) = false := by simp [Ne.symm hy]
      have h2 : hasKey x fr = true := by
        simpa [hasKey, List.lookup, hxy] using h
      simp [setAssoc, hyx, List.lookup, hxy, ih h2]

theorem findFrame_spec {σ : St} {fs : List Nat} {x : String} {f : Nat} (h : findFrame σ fs x = some f) :
    ∃ fr, σ.frames[f]? = some fr ∧ hasKey x fr = true := by
  induction fs with
  | nil => simp [findFrame] at h
  | cons g fs ih =>
    simp only [findFrame] at h
    split at h
    · rename_i fr hfr
      split at h
      · rename_i hk
        cases h
        exact ⟨fr, hfr, hk⟩
      · exact ih h
    · exact ih h

/-- after `setq x v` has updated the innermost frame `f` binding `x` (found along ANY chain), every
environment whose innermost binding of `x` is that same frame reads `v`: the update is visible to
every closure over that frame, and only through that frame -/
theorem setq_visible_through_shared_frame {σ : St} {ρ ρ' : Env} {x : String} {v : Obj} {f : Nat}
    (h : findFrame σ ρ.frames x = some f) (h' : findFrame σ ρ'.frames x = some f) :
    lookupVar (setVar σ ρ x v) ρ' x = some v := by
  obtain ⟨fr, hfr, hk⟩ := findFrame_spec h
  have hset : (setVar σ ρ x v).frames = σ.frames.modify f (setAssoc x v) := by
    simp [setVar, h]
  have key : ∀ fs, findFrame σ fs x = some f → lookupFrames (setVar σ ρ x v) fs x = some v := by
    intro fs
    induction fs with
    | nil => intro hf; simp [findFrame] at hf
    | cons g fs ih =>
      intro hf
      simp only [findFrame] at hf
      simp only [lookupFrames, hset]
      by_cases hg : g = f
      · subst hg
        simp [hfr, lookup_setAssoc_same x v fr hk]
      · have hne : ¬ f = g := fun e => hg e.symm
        simp only [List.getElem?_modify, hne]
        cases hgfr : σ.frames[g]? with
        | none =>
          simp only [hgfr] at hf
          simpa [hset] using ih hf
        | some gfr =>
          simp only [hgfr] at hf
          split at hf
          · cases hf; exact absurd rfl hg
          · rename_i hnk
            have : gfr.lookup x = none := by
              cases hl : gfr.lookup x with
              | none => rfl
              | some w => exact absurd (by simp [hasKey, hl]) hnk
            simp only [Option.map_eq_map, Option.map, ite_false, this]
            exact ih hf
  simp [lookupVar, key _ h']

/-- two closures over one binding: the increment made through the first is read by the second -/
example : (evalN 14 (.form {} (form "let" [ofList [ofList [.sym "c", .int 0]],
      form "let" [ofList [ofList [.sym "inc", form "lambda" [ofList [.sym "z"], form "setq" [.sym "c", form "+" [.sym "c", .sym "z"]]]],
                          ofList [.sym "get", form "lambda" [ofList [.sym "z"], .sym "c"]]],
        form "funcall" [.sym "inc", .int 2], form "funcall" [.sym "inc", .int 3], form "funcall" [.sym "get", .int 0]]])) {}).1
    = .val [.int 5] := by
  decide +kernel

-- ---------------------------------------------------------------------------------------------
-- extension round: iteration forms, mapcar / apply / funcall, multiple values, defun, &rest

section iteration
variable {n : Nat} {ρ : Env} {σ σ1 σ2 : St}

/-- the iterations of a `dolist` body that all end normally, threaded through the store: the loop variable is
assigned (in the loop's own frame `fid`) before each run of the body -/
inductive DolistChain (ρ : Env) (fid : Nat) (var : String) (body : List Obj) (tbid : Nat) : List Obj → St → St → Prop
  | nil (σ : St) : DolistChain ρ fid var body tbid [] σ σ
  | cons {v : Obj} {items : List Obj} {σ σ1 σ2 : St} {w : List Obj} :
      Evals (.tagbodyRun ρ tbid body body) (setInFrame σ fid var v) (.val w, σ1) →
      DolistChain ρ fid var body tbid items σ1 σ2 → DolistChain ρ fid var body tbid (v :: items) σ σ2

/-- `dolist` runs its body once per element, in list order, and then evaluates the result forms with the variable
bound to nil -/
theorem dolist_each_element_once_in_order {fid tbid : Nat} {var : String} {items body result : List Obj} {r : Res}
    (hc : DolistChain ρ fid var body tbid items σ σ1)
    (hr : Evals (.seq ρ result) (setInFrame σ1 fid var .nil) r) :
    Evals (.dolistLoop ρ fid var items body tbid result) σ r := by
  induction hc with
  | nil σ =>
    obtain ⟨m, hm, hne⟩ := hr
    exact ⟨m + 1, by simpa [evalN, step, stepDolist] using hm, hne⟩
  | @cons v items σa σb σc w h1 _ ih =>
    obtain ⟨m1, hm1, _⟩ := h1
    obtain ⟨m2, hm2, hne⟩ := ih hr
    refine ⟨max m1 m2 + 1, ?_, hne⟩
    have a1 := evalN_ge hm1 (by simp) (Nat.le_max_left m1 m2)
    have a2 := evalN_ge hm2 hne (Nat.le_max_right m1 m2)
    simp [evalN, step, stepDolist, a1, bindV, a2]

/-- an element whose body run does not end normally ends the loop: later elements are not visited -/
theorem dolist_exit_ends_loop {fid tbid : Nat} {var : String} {v : Obj} {items body result : List Obj} {o : Out}
    (h : evalN n (.tagbodyRun ρ tbid body body) (setInFrame σ fid var v) = (o, σ1)) (ho : NotVal o) :
    evalN (n + 1) (.dolistLoop ρ fid var (v :: items) body tbid result) σ = (o, σ1) := by
  simp [evalN, step, stepDolist, h, bindV_exit _ ho]

/-- `dotimes`: while the counter is below the count the body runs with the variable bound to the counter, then
the counter is incremented -/
theorem dotimes_iteration {fid tbid i count : Nat} {var : String} {body result : List Obj} {w : List Obj}
    (hi : i < count)
    (h : evalN n (.tagbodyRun ρ tbid body body) (setInFrame σ fid var (.int i)) = (.val w, σ1)) :
    evalN (n + 1) (.dotimesLoop ρ fid var i count body tbid result) σ
      = evalN n (.dotimesLoop ρ fid var (i + 1) count body tbid result) σ1 := by
  simp [evalN, step, stepDotimes, hi, h, bindV]

/-- `dotimes` ends when the counter reaches the count: the result forms see the variable bound to the count and
the body is not evaluated again -/
theorem dotimes_end {fid tbid i count : Nat} {var : String} {body result : List Obj} (hi : ¬ i < count) :
    evalN (n + 1) (.dotimesLoop ρ fid var i count body tbid result) σ
      = evalN n (.seq ρ result) (setInFrame σ fid var (.int count)) := by
  simp [evalN, step, stepDotimes, hi]

/-- `do` / `do*`: a true end test selects the result forms; neither the body nor a step form is evaluated -/
theorem do_ends_when_test_true {spec : DoSpec} {v : List Obj}
    (ht : evalN n (.form ρ spec.test) σ = (.val v, σ1)) (htrue : truthy (prim v) = true) (hres : spec.results ≠ []) :
    evalN (n + 1) (.doLoop ρ spec) σ = evalN n (.seq ρ spec.results) σ1 := by
  have : spec.results.isEmpty = false := by cases h : spec.results <;> simp_all
  simp [evalN, step, stepDoLoop, ht, bindV, htrue, this]

/-- `do` (parallel stepping): after the body ALL step forms are evaluated, left to right, in the old bindings and
only then assigned -/
theorem do_steps_in_parallel {spec : DoSpec} {v w vs : List Obj} {σ3 : St}
    (hseq : spec.sequential = false)
    (ht : evalN n (.form ρ spec.test) σ = (.val v, σ1)) (hfalse : truthy (prim v) = false)
    (hb : evalN n (.tagbodyRun ρ spec.tbid spec.body spec.body) σ1 = (.val w, σ2))
    (hs : evalN n (.args ρ (stepForms spec.vars)) σ2 = (.val vs, σ3)) :
    evalN (n + 1) (.doLoop ρ spec) σ
      = evalN n (.doLoop ρ spec) (assignAll σ3 ρ (stepNames spec.vars) vs) := by
  simp [evalN, step, stepDoLoop, ht, bindV, hfalse, hb, hseq, hs]

/-- `do*` (sequential stepping): each step form is evaluated and assigned before the next one is evaluated -/
theorem dostar_steps_in_sequence {x : String} {e : Obj} {vars : List (String × Option Obj)} {v : List Obj}
    (h : evalN n (.form ρ e) σ = (.val v, σ1)) :
    evalN (n + 1) (.doSteps ρ ((x, some e) :: vars)) σ = evalN n (.doSteps ρ vars) (setVar σ1 ρ x (prim v)) := by
  simp [evalN, step, stepDoSteps, h, bindV]

/-- a `do*` variable without step form keeps its value -/
theorem dostar_no_step_keeps_value {x : String} {vars : List (String × Option Obj)} :
    evalN (n + 1) (.doSteps ρ ((x, none) :: vars)) σ = evalN n (.doSteps ρ vars) σ := by
  simp [evalN, step, stepDoSteps]

end iteration

section mapping
variable {n : Nat} {ρ : Env} {σ σ1 σ2 : St}

/-- the applications `mapcar` makes over one list, in list order, each to a one-element argument list of its own;
the primary values are collected -/
inductive MapChain (f : Obj) : List Obj → St → List Obj → St → Prop
  | nil (σ : St) : MapChain f [] σ [] σ
  | cons {a : Obj} {l : List Obj} {σ σ1 σ2 : St} {v vs : List Obj} :
      Evals (.apply f [a]) σ (.val v, σ1) → MapChain f l σ1 vs σ2 → MapChain f (a :: l) σ (prim v :: vs) σ2

/-- `mapcar` applies the function to the elements one after the other, from the first to the last, exactly once
each, and returns the list of the primary values in the same order -/
theorem mapcar_each_element_once_in_order {f : Obj} {l acc vs : List Obj} (hc : MapChain f l σ vs σ1) :
    Evals (.mapcarLoop f l none acc) σ (.val [ofList (acc.reverse ++ vs)], σ1) := by
  induction hc generalizing acc with
  | nil σ => exact ⟨1, by simp [evalN, step, stepMapcar], by simp⟩
  | @cons a l σa σb σc v vs h1 _ ih =>
    obtain ⟨m1, hm1, _⟩ := h1
    obtain ⟨m2, hm2, _⟩ := ih (acc := prim v :: acc)
    refine ⟨max m1 m2 + 1, ?_, by simp⟩
    have a1 := evalN_ge hm1 (by simp) (Nat.le_max_left m1 m2)
    have a2 := evalN_ge hm2 (by simp) (Nat.le_max_right m1 m2)
    simp [evalN, step, stepMapcar, a1, bindV, a2]

/-- `mapcar` over two lists applies the function to a NEW two-element argument list per step (so an `&rest` list
made from it belongs to that call alone) and stops with the shorter list -/
theorem mapcar_two_lists_step {f a b : Obj} {l1 l2 acc v : List Obj}
    (h : evalN n (.apply f [a, b]) σ = (.val v, σ1)) :
    evalN (n + 1) (.mapcarLoop f (a :: l1) (some (b :: l2)) acc) σ
      = evalN n (.mapcarLoop f l1 (some l2) (prim v :: acc)) σ1 := by
  simp [evalN, step, stepMapcar, h, bindV]

theorem mapcar_stops_with_shorter_list {f a : Obj} {l1 acc : List Obj} :
    evalN (n + 1) (.mapcarLoop f (a :: l1) (some []) acc) σ = (.val [ofList acc.reverse], σ) := by
  simp [evalN, step, stepMapcar]

/-- `funcall`: the function form and the argument forms are evaluated as ONE left-to-right argument list, then the
first value is applied to the others -/
theorem funcall_args_then_apply {f restObj : Obj} {as : List Obj} {fv : Obj} {avs : List Obj}
    (ha : listOf restObj = some as)
    (h : evalN n (.args ρ (f :: as)) σ = (.val (fv :: avs), σ1)) :
    evalN (n + 1) (.form ρ (.cons (.sym "funcall") (.cons f restObj))) σ = evalN n (.apply fv avs) σ1 := by
  simp [evalN, step, stepEval, listOf, ha, stepForm, formOf, h, bindV]

/-- `apply`: all argument forms are evaluated left to right first; the last value is spread -/
theorem apply_spreads_last_argument {f restObj : Obj} {as : List Obj} {fv l : Obj} {front spread : List Obj}
    (ha : listOf restObj = some as)
    (h : evalN n (.args ρ (f :: as)) σ = (.val (fv :: (front ++ [l])), σ1)) (hl : listOf l = some spread) :
    evalN (n + 1) (.form ρ (.cons (.sym "apply") (.cons f restObj))) σ = evalN n (.apply fv (front ++ spread)) σ1 := by
  simp [evalN, step, stepEval, listOf, ha, stepForm, formOf, h, bindV, hl]

end mapping

section values
variable {n : Nat} {ρ : Env} {σ σ1 σ2 : St}

/-- `(values e…)`: the primary value of every argument, evaluated once, left to right (it IS the argument list) -/
theorem values_is_argument_list {argsObj : Obj} {es : List Obj} (ha : listOf argsObj = some es) :
    evalN (n + 1) (.form ρ (.cons (.sym "values") argsObj)) σ = evalN n (.args ρ es) σ := by
  simp [evalN, step, stepEval, ha, stepForm, formOf]

/-- `multiple-value-bind`: the values form is evaluated in the OUTER environment; then one new frame binds the
variables to the values (missing values are nil, surplus values are dropped) -/
theorem mvbind_binds_all_values {varsObj vform bodyObj : Obj} {xs : List String} {body vs : List Obj}
    (hx : listOf varsObj = some (xs.map .sym)) (hb : listOf bodyObj = some body)
    (h : evalN n (.form ρ vform) σ = (.val vs, σ1)) :
    evalN (n + 1) (.form ρ (.cons (.sym "multiple-value-bind") (.cons varsObj (.cons vform bodyObj)))) σ
      = evalN n (.seq (pushFrame ρ σ1.frames.length) body) (addFrame σ1 (zipFrame xs vs)) := by
  simp [evalN, step, stepEval, listOf, hb, stepForm, formOf, hx, symNames_map, h, bindV]

example : zipFrame ["a", "b", "c"] [.int 1, .int 2] = [("a", .int 1), ("b", .int 2), ("c", .nil)] ∧
    zipFrame ["a"] [.int 1, .int 2] = [("a", .int 1)] := by decide

/-- `multiple-value-list` collects every value of its form -/
theorem mvlist_collects_all_values {e : Obj} {vs : List Obj} (h : evalN n (.form ρ e) σ = (.val vs, σ1)) :
    evalN (n + 1) (.form ρ (.cons (.sym "multiple-value-list") (.cons e .nil))) σ = (.val [ofList vs], σ1) := by
  simp [evalN, step, stepEval, listOf, stepForm, formOf, h, bindV]

/-- `setq` stores and returns the primary value only -/
theorem setq_primary_value {x : String} {e : Obj} {v : List Obj} (h : evalN n (.form ρ e) σ = (.val v, σ1)) :
    evalN (n + 2) (.setqPairs ρ [.sym x, e] .nil) σ = (.val [prim v], setVar σ1 ρ x (prim v)) := by
  have h' := evalN_add h (by simp) 1
  simp [evalN, step, stepSetq, bindV] at h' ⊢
  simp [h', bindV, evalN, step, stepSetq]

end values

section functions
variable {n : Nat} {σ : St}

/-- `defun` stores the function in the GLOBAL, late-bound function table: the closure is found by name at call
time — this is what makes recursion (and calling a function defined later) work -/
theorem defun_registers_function {ρ : Env} {name : String} {ps : List String} {bodyObj : Obj} {body : List Obj}
    (hb : listOf bodyObj = some body) (hr : "&rest" ∉ ps) :
    evalN (n + 1) (.form ρ (.cons (.sym "defun") (.cons (.sym name) (.cons (ofList (ps.map .sym)) bodyObj)))) σ
      = (.val [.sym name],
         setFun (addClosure σ { params := ps, body := body, env := ρ, name := name }) name σ.clos.length) := by
  simp [evalN, step, stepEval, listOf, hb, listOf_ofList, symNames_map, stepForm, formOf, splitRest_plain ps hr]

theorem defun_then_lookup (σ : St) (c : Closure) (name : String) :
    (setFun (addClosure σ c) name σ.clos.length).funs.lookup name = some σ.clos.length ∧
    (setFun (addClosure σ c) name σ.clos.length).clos[σ.clos.length]? = some c := by
  simp [setFun, addClosure, List.lookup]

/-- calling a named user function (also recursively, from its own body): the function table of the CURRENT store
is consulted, and the body runs in the definition environment, inside a block named like the function, with a
frame of its own for this activation -/
theorem call_user_function {name : String} {cid : Nat} {c : Closure} {args : List Obj}
    (hf : σ.funs.lookup name = some cid) (hc : σ.clos[cid]? = some c) (hn : (c.name == "") = false)
    (hr : c.rest = none) (hl : c.params.length = args.length) :
    evalN (n + 1) (.apply (.fn name) args) σ
      = catchRet σ.nextId
          (evalN n (.seq (withBlock (pushFrame c.env σ.frames.length) c.name σ.nextId) c.body)
            (bumpId (addFrame σ (zipFrame c.params args)))) := by
  simp [evalN, step, stepApply, callNamed, hf, callClosure, hc, hr, bindArgs, hl, hn]

/-- every activation gets a NEW frame (its id is the number of frames allocated so far): the bindings of an outer
activation of the same function are untouched by an inner one -/
theorem activation_frame_is_fresh (σ : St) (fr : List (String × Obj)) (k : Nat) (hk : k < σ.frames.length) :
    (addFrame σ fr).frames[k]? = σ.frames[k]? ∧ (addFrame σ fr).frames[σ.frames.length]? = some fr := by
  simp [addFrame, List.getElem?_append_left hk]

/-- `&rest r`: the required parameters are bound positionally and `r` to a list built for this call from exactly the
surplus arguments -/
theorem rest_binds_surplus_arguments {cid : Nat} {c : Closure} {args : List Obj} {r : String}
    (hc : σ.clos[cid]? = some c) (hn : c.name = "") (hr : c.rest = some r) (hl : c.params.length ≤ args.length) :
    evalN (n + 1) (.apply (.clo cid) args) σ
      = evalN n (.seq (pushFrame c.env σ.frames.length) c.body)
          (addFrame σ (zipFrame c.params (args.take c.params.length) ++ [(r, ofList (args.drop c.params.length))])) := by
  simp [evalN, step, stepApply, callClosure, hc, hn, hr, bindArgs, Nat.not_lt.mpr hl]

/-- a lambda list `(p… &rest r)` is read as the required parameters `p…` and the rest variable `r` -/
theorem lambda_list_with_rest (ps : List String) (r : String) (h : "&rest" ∉ ps) (hr : r ≠ "&rest") :
    splitRest (ps ++ ["&rest", r]) = some (ps, some r) := by
  induction ps with
  | nil => simp [splitRest, hr]
  | cons x xs ih =>
    have hx : (x == "&rest") = false := by
      simp only [beq_eq_false_iff_ne, ne_eq]; intro hx; exact h (by simp [hx])
    have hxs : "&rest" ∉ xs := fun hm => h (List.mem_cons_of_mem _ hm)
    simp [splitRest, hx, ih hxs]

/-- `(mapcar (lambda (&rest r) r) '(1 2) '(10 20))`: every call has its own rest list -/
example : (evalN 10 (.form {} (form "mapcar" [form "lambda" [ofList [.sym "&rest", .sym "r"], .sym "r"],
      form "quote" [ofList [.int 1, .int 2]], form "quote" [ofList [.int 10, .int 20]]])) {}).1
    = .val [ofList [ofList [.int 1, .int 10], ofList [.int 2, .int 20]]] := by
  decide +kernel

end functions

end SlipVerif.Theorems.C01
