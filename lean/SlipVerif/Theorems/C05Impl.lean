import SlipVerif.Model.Num
import SlipVerif.Lemmas.Num
import SlipVerif.Lemmas.NumFix
import Mathlib.Tactic.Linarith
import Mathlib.Tactic.Ring
/-
  C05 — Impl layer: the fixnum (int64) branches of pkg/cl/*.go transcribed in
  SlipVerif.Model.Num.Impl with Go's wrap-around arithmetic explicit, and the refinement theorems:
  on fixnum operands each checked operation returns the canonical representation of the exact
  result (`canonInt`), i.e. a fixnum iff it fits and otherwise the exact bignum.
-/
namespace SlipVerif.Num

/-! ## canonical representation = the spec's `typeOf` -/

theorem canonInt_value (i : Int) : (canonInt i).value = (i : Rat) := by
  unfold canonInt; split <;> rfl

theorem canonRat_value (r : Rat) : (canonRat r).value = r := by
  unfold canonRat
  split
  · rename_i h
    rw [canonInt_value]
    have := Rat.num_div_den r
    rw [h] at this
    simpa using this
  · rfl

/-- the representation built by `canonicalRational` carries exactly the type the spec demands -/
theorem canonRat_tag (r : Rat) : (canonRat r).tag = typeOf r := by
  unfold canonRat typeOf canonInt
  by_cases h : r.den = 1 <;> by_cases h1 : isFix r.num <;> simp [h, h1, Rep.tag]

theorem canonInt_tag (i : Int) : (canonInt i).tag = typeOf (i : Rat) := by
  have := canonRat_tag (i : Rat)
  unfold canonRat at this
  simpa using this

namespace Impl

theorem inRange_iff_isFix (a : Int) : inRange a ↔ isFix a = true := by
  unfold inRange isFix minFix maxFix; simp

theorem wrap64_id (a : Int) (h : inRange a) : wrap64 a = a := by
  unfold wrap64 inRange at *; omega

theorem wrap64_range (a : Int) : inRange (wrap64 a) := by
  unfold wrap64 inRange; omega

/-- Go's arithmetic is arithmetic modulo 2^64 -/
theorem wrap64_congr (a : Int) : ∃ k : Int, wrap64 a = a - k * 18446744073709551616 := by
  refine ⟨(a + 9223372036854775808) / 18446744073709551616, ?_⟩
  unfold wrap64; omega

/-! ### addition -/

/-- the overflow test of `addFixnums` is exact: it accepts precisely the sums that fit -/
theorem addOk_iff (a b : Int) (ha : inRange a) (hb : inRange b) :
    addOk a b = true ↔ inRange (a + b) := by
  unfold addOk addFix wrap64 inRange at *
  by_cases h1 : a < (a + b + 9223372036854775808) % 18446744073709551616 - 9223372036854775808 <;>
    by_cases h2 : 0 < b <;> simp [h1, h2] <;> omega

/-- `addFixnums` returns the canonical representation of the exact sum -/
theorem addFixnums_refines (a b : Int) (ha : inRange a) (hb : inRange b) :
    addFixnums a b = canonInt (a + b) := by
  unfold addFixnums canonInt
  by_cases h : addOk a b = true
  · have hr := (addOk_iff a b ha hb).mp h
    rw [if_pos h, if_pos ((inRange_iff_isFix _).mp hr)]
    unfold addFix; rw [wrap64_id _ hr]
  · have hr : ¬ inRange (a + b) := fun hr => h ((addOk_iff a b ha hb).mpr hr)
    rw [if_neg h, if_neg (fun hf => hr ((inRange_iff_isFix _).mpr hf))]

/-- checked addition is exact for all operands -/
theorem addChecked_exact (a b : Int) (ha : inRange a) (hb : inRange b) : addChecked a b = a + b := by
  unfold addChecked
  by_cases h : addOk a b = true
  · simp only [h, if_true]
    have := (addOk_iff a b ha hb).mp h
    unfold addFix; exact wrap64_id _ this
  · simp [h]

/-! ### subtraction -/

theorem subOk_iff (a b : Int) (ha : inRange a) (hb : inRange b) :
    subOk a b = true ↔ inRange (a - b) := by
  unfold subOk subFix wrap64 inRange at *
  by_cases h1 : (a - b + 9223372036854775808) % 18446744073709551616 - 9223372036854775808 < a <;>
    by_cases h2 : 0 < b <;> simp [h1, h2] <;> omega

theorem subFixnums_refines (a b : Int) (ha : inRange a) (hb : inRange b) :
    subFixnums a b = canonInt (a - b) := by
  unfold subFixnums canonInt
  by_cases h : subOk a b = true
  · have hr := (subOk_iff a b ha hb).mp h
    rw [if_pos h, if_pos ((inRange_iff_isFix _).mp hr)]
    unfold subFix; rw [wrap64_id _ hr]
  · have hr : ¬ inRange (a - b) := fun hr => h ((subOk_iff a b ha hb).mpr hr)
    rw [if_neg h, if_neg (fun hf => hr ((inRange_iff_isFix _).mpr hf))]

/-! ### negation -/

theorem negFixnum_refines (a : Int) (ha : inRange a) : negFixnum a = canonInt (-a) := by
  unfold negFixnum canonInt isFix minFix maxFix negFix wrap64
  unfold inRange at ha
  by_cases h : a = -9223372036854775808
  · subst h; decide
  · rw [if_neg h]
    have h1 : (decide (-9223372036854775808 ≤ -a) && decide (-a ≤ 9223372036854775807)) = true := by
      simp; omega
    rw [if_pos h1]
    congr 1; omega

/-- unchecked int64 arithmetic is exact only inside the range … -/
theorem addFix_exact_iff (a b : Int) : addFix a b = a + b ↔ inRange (a + b) := by
  unfold addFix wrap64 inRange; omega

theorem subFix_exact_iff (a b : Int) : subFix a b = a - b ↔ inRange (a - b) := by
  unfold subFix wrap64 inRange; omega

theorem mulFix_exact_iff (a b : Int) : mulFix a b = a * b ↔ inRange (a * b) := by
  unfold mulFix wrap64 inRange; omega

/-- … and wraps outside it (witnesses replayed on the implementation by the harness sweep) -/
theorem addFix_wraps : addFix 9223372036854775807 1 = -9223372036854775808 := by decide
theorem negFix_wraps : negFix (-9223372036854775808) = -9223372036854775808 := by decide
theorem mulFix_wraps : mulFix 4611686018427387904 4 = 0 := by decide


/-! ### multiplication -/

theorem mulOk_iff (a b : Int) (ha : inRange a) (hb : inRange b) :
    mulOk a b = true ↔ inRange (a * b) := by
  constructor
  · intro h
    by_cases ha0 : a = 0
    · subst ha0; simp [inRange]
    by_cases ham : a = -1
    · subst ham
      have hb2 : b ≠ minFix := by
        intro hbm; subst hbm; revert h; decide
      unfold inRange minFix at *; omega
    · have h1 : quoFix (mulFix a b) a = b := by
        simp [mulOk, ha0, ham] at h
        exact h
      obtain ⟨k, hk⟩ := wrap64_congr (a * b)
      have hp := wrap64_range (a * b)
      unfold quoFix mulFix at h1
      have ht := tdiv_inRange _ a hp ha0 ham
      rw [wrap64_id _ ht] at h1
      have hid := Int.tmod_add_mul_tdiv (wrap64 (a * b)) a
      have habs : (Int.tmod (wrap64 (a * b)) a).natAbs < a.natAbs := by
        rw [Int.natAbs_tmod]; exact Nat.mod_lt _ (Int.natAbs_pos.mpr ha0)
      rw [h1] at hid
      generalize Int.tmod (wrap64 (a * b)) a = r at *
      generalize wrap64 (a * b) = p at *
      generalize a * b = m at *
      unfold inRange at *
      omega
  · intro h
    by_cases ha0 : a = 0
    · simp [mulOk, ha0]
    · have hm : mulFix a b = a * b := by unfold mulFix; exact wrap64_id _ h
      have hq : quoFix (a * b) a = b := by
        unfold quoFix
        rw [Int.mul_tdiv_cancel_left _ ha0]
        exact wrap64_id _ hb
      have h2 : ¬ (a = -1 ∧ b = minFix) := by
        rintro ⟨h1, h2⟩; subst h1; subst h2; unfold inRange minFix at h; omega
      simp [mulOk, hm, hq]
      by_cases h1 : a = -1
      · right; right; exact fun h2' => h2 ⟨h1, h2'⟩
      · right; left; exact h1

/-- `mulFixnums` returns the canonical representation of the exact product -/
theorem mulFixnums_refines (a b : Int) (ha : inRange a) (hb : inRange b) :
    mulFixnums a b = canonInt (a * b) := by
  unfold mulFixnums canonInt
  by_cases h : mulOk a b = true
  · have hr := (mulOk_iff a b ha hb).mp h
    rw [if_pos h, if_pos ((inRange_iff_isFix _).mp hr)]
    unfold mulFix; rw [wrap64_id _ hr]
  · have hr : ¬ inRange (a * b) := fun hr => h ((mulOk_iff a b ha hb).mpr hr)
    rw [if_neg h, if_neg (fun hf => hr ((inRange_iff_isFix _).mpr hf))]

/-! ### the fixnum branches of floor, ceiling, truncate, round (Go's truncated `/`) -/

theorem floorFixGo_spec_partial (a b : Int) (hb : 0 < b) :
    a = (floorFixGo a b).1 * b + (floorFixGo a b).2 ∧
    0 ≤ (floorFixGo a b).2 ∧ (floorFixGo a b).2 < b := by
  obtain ⟨e, habs, hs1, hs2⟩ := tdiv_facts a b (by omega)
  unfold floorFixGo
  simp only [e, hb, if_true]
  generalize Int.tmod a b = r at *
  generalize Int.tdiv a b = q at *
  by_cases h1 : r < 0
  · simp only [h1, if_true]
    refine ⟨by linarith, ?_, ?_⟩ <;> omega
  · simp only [h1, if_false]
    refine ⟨by linarith, ?_, ?_⟩ <;> omega

theorem ceilFixGo_spec (a b : Int) (hb : b ≠ 0) :
    a = (ceilFixGo a b).1 * b + (ceilFixGo a b).2 ∧
    (0 < b → -b < (ceilFixGo a b).2 ∧ (ceilFixGo a b).2 ≤ 0) ∧
    (b < 0 → 0 ≤ (ceilFixGo a b).2 ∧ (ceilFixGo a b).2 < -b) := by
  obtain ⟨e, habs, hs1, hs2⟩ := tdiv_facts a b hb
  unfold ceilFixGo
  simp only [e]
  generalize Int.tmod a b = r at *
  generalize Int.tdiv a b = q at *
  by_cases hbp : 0 < b
  · simp only [hbp, if_true]
    by_cases h1 : 0 < r
    · simp only [h1, if_true]
      refine ⟨by linarith, ?_, ?_⟩ <;> intro _ <;> first | contradiction | omega
    · simp only [h1, if_false]
      refine ⟨by linarith, ?_, ?_⟩ <;> intro _ <;> first | contradiction | omega
  · simp only [hbp, if_false]
    by_cases h1 : r < 0
    · simp only [h1, if_true]
      refine ⟨by linarith, ?_, ?_⟩ <;> intro _ <;> first | contradiction | omega
    · simp only [h1, if_false]
      refine ⟨by linarith, ?_, ?_⟩ <;> intro _ <;> first | contradiction | omega

theorem truncFixGo_spec (a b : Int) (hb : b ≠ 0) :
    a = (truncFixGo a b).1 * b + (truncFixGo a b).2 ∧
    (truncFixGo a b).2.natAbs < b.natAbs ∧
    (0 ≤ a → 0 ≤ (truncFixGo a b).2) ∧ (a ≤ 0 → (truncFixGo a b).2 ≤ 0) := by
  obtain ⟨e, habs, hs1, hs2⟩ := tdiv_facts a b hb
  unfold truncFixGo
  simp only [e]
  exact ⟨by linarith, habs, hs1, hs2⟩

/-- what a correct fixnum branch of `floor` computes from Go's truncating `/` and `%` (`floorFix`, the
    repair the pinned test forbids): floor division for both signs of the divisor:
    remainder identity, and the remainder has the sign of the divisor -/
theorem floorFix_spec (a b : Int) (hb : b ≠ 0) :
    a = (floorFix a b).1 * b + (floorFix a b).2 ∧
    (0 < b → 0 ≤ (floorFix a b).2 ∧ (floorFix a b).2 < b) ∧
    (b < 0 → b < (floorFix a b).2 ∧ (floorFix a b).2 ≤ 0) := by
  have hid := Int.tmod_add_mul_tdiv a b
  have habs : (Int.tmod a b).natAbs < b.natAbs := by
    rw [Int.natAbs_tmod]; exact Nat.mod_lt _ (Int.natAbs_pos.mpr hb)
  have hs1 : 0 ≤ a → 0 ≤ Int.tmod a b := fun h => Int.tmod_nonneg b h
  have hs2 : a ≤ 0 → Int.tmod a b ≤ 0 := fun h => by
    have := Int.tmod_nonneg (a := -a) b (by omega)
    rw [Int.neg_tmod] at this; omega
  have hf : floorFix a b =
      if Int.tmod a b ≠ 0 ∧ ((Int.tmod a b < 0) ≠ (b < 0)) then (Int.tdiv a b - 1, Int.tmod a b + b)
      else (Int.tdiv a b, Int.tmod a b) := rfl
  rw [hf]
  generalize Int.tmod a b = r at *
  generalize Int.tdiv a b = q at *
  by_cases h1 : r ≠ 0 ∧ ((r < 0) ≠ (b < 0))
  · rw [if_pos h1]
    simp only
    refine ⟨by nlinarith, ?_, ?_⟩ <;> intro hbs <;> simp at h1 <;> omega
  · rw [if_neg h1]
    simp only
    refine ⟨by nlinarith, ?_, ?_⟩ <;> intro hbs <;> simp at h1 <;> omega

/-- the full statement `floorFixGo_spec` (also for `b < 0`: `b < r ≤ 0`) is FALSE for the code as
    it is: the adjustment for a negative divisor goes the wrong way. It is pinned by
    test/cl/floor_test.go and recorded as a known finding (findings/C05.json, op=floor q=d-).
    Witness, replayed on the implementation by the harness sweep: -/
theorem floorFixGo_neg_divisor_witness : floorFixGo 1 (-2) = (0, 1) ∧ floorFix 1 (-2) = (-1, -1) := by
  decide

theorem roundMag_spec (n d : Int) (hn : 0 ≤ n) (hd : 0 < d) :
    n = (roundMag n d).1 * d + (roundMag n d).2 ∧
    2 * (roundMag n d).2.natAbs ≤ d.natAbs ∧
    (2 * (roundMag n d).2.natAbs = d.natAbs → (roundMag n d).1 % 2 = 0) := by
  obtain ⟨e, habs, hs1, _⟩ := tdiv_facts n d (by omega)
  have hr := hs1 hn
  unfold roundMag
  simp only [e]
  generalize Int.tmod n d = r at *
  generalize Int.tdiv n d = q at *
  by_cases c : d - r < r ∨ (d - r = r ∧ q % 2 ≠ 0)
  · rw [if_pos c]
    refine ⟨by linarith, ?_, ?_⟩ <;> omega
  · rw [if_neg c]
    refine ⟨by linarith, ?_, ?_⟩ <;> omega

theorem roundFixGo_spec (a b : Int) (hb : b ≠ 0) :
    a = (roundFixGo a b).1 * b + (roundFixGo a b).2 ∧
    2 * (roundFixGo a b).2.natAbs ≤ b.natAbs ∧
    (2 * (roundFixGo a b).2.natAbs = b.natAbs → (roundFixGo a b).1 % 2 = 0) := by
  obtain ⟨e, _, _, _⟩ := tdiv_facts a b hb
  unfold roundFixGo
  simp only [e]
  by_cases h0 : Int.tmod a b = 0
  · rw [if_pos h0]
    refine ⟨by simp only; linarith, by simp, ?_⟩
    intro h; simp at h; omega
  · rw [if_neg h0]
    have ha0 : a ≠ 0 := by
      intro h; subst h; simp at h0
    rcases lt_or_gt_of_ne ha0 with ha | ha <;> rcases lt_or_gt_of_ne hb with hbs | hbs
    · have hm := roundMag_spec (-a) (-b) (by omega) (by omega)
      have c1 : a < 0 := ha
      have c2 : b < 0 := hbs
      simp only [c1, c2, if_true, ne_eq, not_true_eq_false, if_false]
      generalize roundMag (-a) (-b) = m at *
      obtain ⟨h1, h2, h3⟩ := hm
      refine ⟨by linarith, by omega, by omega⟩
    · have hm := roundMag_spec (-a) b (by omega) (by omega)
      have c1 : a < 0 := ha
      have c2 : ¬ b < 0 := by omega
      simp only [c1, c2, if_true, if_false, ne_eq, eq_iff_iff, iff_false, not_true_eq_false, not_false_eq_true]
      generalize roundMag (-a) b = m at *
      obtain ⟨h1, h2, h3⟩ := hm
      refine ⟨by linarith, by omega, by omega⟩
    · have hm := roundMag_spec a (-b) (by omega) (by omega)
      have c1 : ¬ a < 0 := by omega
      have c2 : b < 0 := hbs
      simp only [c1, c2, if_true, if_false, ne_eq, eq_iff_iff, false_iff, not_true_eq_false, not_false_eq_true]
      generalize roundMag a (-b) = m at *
      obtain ⟨h1, h2, h3⟩ := hm
      refine ⟨by linarith, by omega, by omega⟩
    · have hm := roundMag_spec a b (by omega) (by omega)
      have c1 : ¬ a < 0 := by omega
      have c2 : ¬ b < 0 := by omega
      simp only [c1, c2, if_false, ne_eq, not_true_eq_false]
      generalize roundMag a b = m at *
      obtain ⟨h1, h2, h3⟩ := hm
      refine ⟨by linarith, by omega, by omega⟩

/-! ### the fixnum loop of gcd -/

/-- Euclid's loop on non-negative fixnums computes the gcd (any fuel above the second operand;
    the Go loop has no fuel, it terminates because the second operand decreases) -/
theorem gcdLoop_eq (fuel m n : Nat) (h : n < fuel) :
    gcdLoop fuel (m : Int) (n : Int) = (Nat.gcd m n : Int) := by
  induction fuel generalizing m n with
  | zero => omega
  | succ f ih =>
    unfold gcdLoop
    by_cases hn : n = 0
    · subst hn; simp
    · have hn' : (n : Int) ≠ 0 := by exact_mod_cast hn
      rw [if_neg hn']
      have hlt : m % n < n := Nat.mod_lt _ (Nat.pos_of_ne_zero hn)
      have e : Int.tmod (m : Int) (n : Int) = ((m % n : Nat) : Int) := by
        simp [Int.tmod]
      rw [e, ih n (m % n) (by omega)]
      congr 1
      rw [Nat.gcd_comm n (m % n), ← Nat.gcd_rec, Nat.gcd_comm]

/-! ### Impl = Spec for the rounding divisions: each fixnum branch returns exactly the quotient and
    remainder of the spec's division of the same two integers (for EVERY pair of integers with a
    non-zero divisor; the int64 range only matters for the absence of wrap-around, Theorems/GenC05) -/

theorem ceilFixGo_eq_spec (a b : Int) (hb : b ≠ 0) :
    ceilDiv (a : Rat) (b : Rat) = .ok ((ceilFixGo a b).1, (((ceilFixGo a b).2 : Int) : Rat)) := by
  obtain ⟨hid, h1, h2⟩ := ceilFixGo_spec a b hb
  apply divBy_of_identity _ a b _ _ hb hid
  rw [quot_decomp a b _ _ hb hid]
  have := frac_neg_gt_neg_one (ceilFixGo a b).2 b (by
    rcases lt_or_gt_of_ne hb with h | h
    · right; exact ⟨h, h2 h⟩
    · left; exact ⟨h, h1 h⟩)
  apply ceil_unique <;> linarith [this.1, this.2]

/-- the correct fixnum floor branch (`floorFix`) is the spec's floor division for both signs -/
theorem floorFix_eq_spec (a b : Int) (hb : b ≠ 0) :
    floorDiv (a : Rat) (b : Rat) = .ok ((floorFix a b).1, (((floorFix a b).2 : Int) : Rat)) := by
  obtain ⟨hid, h1, h2⟩ := floorFix_spec a b hb
  apply divBy_of_identity _ a b _ _ hb hid
  rw [quot_decomp a b _ _ hb hid]
  have := frac_nonneg_lt_one (floorFix a b).2 b (by
    rcases lt_or_gt_of_ne hb with h | h
    · right; exact ⟨h, h2 h⟩
    · left; exact ⟨h, h1 h⟩)
  apply floor_unique <;> linarith [this.1, this.2]

/-- the fixnum floor branch as pinned is the spec's floor division for a positive divisor (for a
    negative divisor it is not: `floorFixGo_neg_divisor_witness`, a known finding) -/
theorem floorFixGo_eq_spec_partial (a b : Int) (hb : 0 < b) :
    floorDiv (a : Rat) (b : Rat) = .ok ((floorFixGo a b).1, (((floorFixGo a b).2 : Int) : Rat)) := by
  obtain ⟨hid, h1, h2⟩ := floorFixGo_spec_partial a b hb
  have hb0 : b ≠ 0 := by omega
  apply divBy_of_identity _ a b _ _ hb0 hid
  rw [quot_decomp a b _ _ hb0 hid]
  have := frac_nonneg_lt_one (floorFixGo a b).2 b (Or.inl ⟨hb, h1, h2⟩)
  apply floor_unique <;> linarith [this.1, this.2]

theorem truncFixGo_eq_spec (a b : Int) (hb : b ≠ 0) :
    truncDiv (a : Rat) (b : Rat) = .ok ((truncFixGo a b).1, (((truncFixGo a b).2 : Int) : Rat)) := by
  obtain ⟨hid, habs, hs1, hs2⟩ := truncFixGo_spec a b hb
  apply divBy_of_identity _ a b _ _ hb hid
  have hd := quot_decomp a b _ _ hb hid
  generalize (truncFixGo a b).2 = r at *
  generalize (truncFixGo a b).1 = q at *
  have hbq : (b : Rat) ≠ 0 := by exact_mod_cast hb
  -- sign of a / b from the signs of a and b; r has the sign of a
  apply truncI_unique
  · intro hx
    rw [hd]
    have : 0 ≤ (r : Rat) / (b : Rat) ∧ (r : Rat) / (b : Rat) < 1 := by
      rcases lt_or_gt_of_ne hb with hneg | hpos
      · -- b < 0, a / b ≥ 0 ⇒ a ≤ 0 ⇒ r ≤ 0
        have ha : a ≤ 0 := by
          by_contra hc
          have hbq' : (b : Rat) < 0 := by exact_mod_cast hneg
          have haq : (0 : Rat) < a := by exact_mod_cast (not_le.mp hc)
          have := div_neg_of_pos_of_neg haq hbq'
          linarith
        exact frac_nonneg_lt_one r b (Or.inr ⟨hneg, by have := hs2 ha; omega, hs2 ha⟩)
      · have ha : 0 ≤ a := by
          by_contra hc
          have hbq' : (0 : Rat) < b := by exact_mod_cast hpos
          have haq : (a : Rat) < 0 := by exact_mod_cast (not_le.mp hc)
          have := div_neg_of_neg_of_pos haq hbq'
          linarith
        exact frac_nonneg_lt_one r b (Or.inl ⟨hpos, hs1 ha, by have := hs1 ha; omega⟩)
    constructor <;> linarith [this.1, this.2]
  · intro hx
    rw [hd]
    have : -1 < (r : Rat) / (b : Rat) ∧ (r : Rat) / (b : Rat) ≤ 0 := by
      rcases lt_or_gt_of_ne hb with hneg | hpos
      · have ha : 0 ≤ a := by
          by_contra hc
          have hbq' : (b : Rat) < 0 := by exact_mod_cast hneg
          have haq : (a : Rat) < 0 := by exact_mod_cast (not_le.mp hc)
          have := div_pos_of_neg_of_neg haq hbq'
          linarith
        exact frac_neg_gt_neg_one r b (Or.inr ⟨hneg, hs1 ha, by have := hs1 ha; omega⟩)
      · have ha : a ≤ 0 := by
          by_contra hc
          have hbq' : (0 : Rat) < b := by exact_mod_cast hpos
          have haq : (0 : Rat) < a := by exact_mod_cast (not_le.mp hc)
          have := div_pos haq hbq'
          linarith
        exact frac_neg_gt_neg_one r b (Or.inl ⟨hpos, by have := hs2 ha; omega, hs2 ha⟩)
    constructor <;> linarith [this.1, this.2]

theorem roundFixGo_eq_spec (a b : Int) (hb : b ≠ 0) :
    roundDiv (a : Rat) (b : Rat) = .ok ((roundFixGo a b).1, (((roundFixGo a b).2 : Int) : Rat)) := by
  obtain ⟨hid, habs, heven⟩ := roundFixGo_spec a b hb
  apply divBy_of_identity _ a b _ _ hb hid
  rw [quot_decomp a b _ _ hb hid]
  obtain ⟨f1, f2, f3⟩ := frac_abs_le_half (roundFixGo a b).2 b hb habs
  apply roundI_unique
  · linarith
  · linarith
  · rintro (e | e)
    · exact heven (f3 (Or.inr (by linarith)))
    · exact heven (f3 (Or.inl (by linarith)))

/-- Euclid's loop computes the spec's gcd of its two (non-negative) operands -/
theorem gcdLoop_eq_spec (fuel m n : Nat) (h : n < fuel) :
    gcdLoop fuel (m : Int) (n : Int) = gcdAll [(m : Int), (n : Int)] := by
  rw [gcdLoop_eq fuel m n h]
  simp [gcdAll, Int.gcd]

end Impl

/-! ## canonical form, whatever representation of a value an operator is given -/

section Canonical
open Impl

/-- a representation is well formed when a fixnum object holds an int64 (a Go `Fixnum` always does);
    a bignum object may hold ANY integer and a ratio object ANY rational (also with denominator 1):
    Lisp code can build such non-canonical operands with `coerce` -/
def Rep.WellFormed : Rep → Prop
  | .fix i => inRange i
  | _ => True

/-- canonical: well formed, and the Go type is the one the value demands -/
def Rep.Canonical (r : Rep) : Prop := r.WellFormed ∧ r.tag = typeOf r.value

theorem canonInt_canonical (i : Int) : (canonInt i).Canonical ∧ (canonInt i).value = (i : Rat) := by
  refine ⟨⟨?_, by rw [canonInt_value]; exact canonInt_tag i⟩, canonInt_value i⟩
  unfold canonInt
  by_cases h : isFix i = true
  · rw [if_pos h]; exact (inRange_iff_isFix i).mpr h
  · rw [if_neg h]; trivial

theorem canonRat_canonical (r : Rat) : (canonRat r).Canonical ∧ (canonRat r).value = r := by
  refine ⟨⟨?_, by rw [canonRat_value]; exact canonRat_tag r⟩, canonRat_value r⟩
  unfold canonRat
  by_cases h : r.den = 1
  · rw [if_pos h]; exact (canonInt_canonical r.num).1.1
  · rw [if_neg h]; trivial

/-- `canonicalNumber` keeps the value and returns the canonical representation, whatever
    representation of the value it is given -/
theorem canonNumber_spec (r : Rep) (h : r.WellFormed) :
    (canonNumber r).value = r.value ∧ (canonNumber r).Canonical := by
  cases r with
  | fix i =>
    refine ⟨rfl, h, ?_⟩
    show "fixnum" = typeOf ((i : Int) : Rat)
    unfold typeOf
    have : isFix i = true := (inRange_iff_isFix i).mp h
    simp [this]
  | big i => exact ⟨(canonInt_canonical i).2, (canonInt_canonical i).1⟩
  | ratio q => exact ⟨(canonRat_canonical q).2, (canonRat_canonical q).1⟩

/-- the canonical representation is a function of the value alone: two representations of the same
    value (5 as a fixnum, in a bignum object, as the ratio 5/1) are brought to the same object -/
theorem canonNumber_unique (r s : Rep) (hr : r.WellFormed) (hs : s.WellFormed) (h : r.value = s.value) :
    canonNumber r = canonNumber s := by
  have key : ∀ t : Rep, t.WellFormed → canonNumber t = canonRat t.value := by
    intro t ht
    cases t with
    | fix i =>
      show Rep.fix i = canonRat ((i : Int) : Rat)
      unfold canonRat canonInt
      have : isFix i = true := (inRange_iff_isFix i).mp ht
      simp [this]
    | big i =>
      show canonInt i = canonRat ((i : Int) : Rat)
      unfold canonRat; simp
    | ratio q => rfl
  rw [key r hr, key s hs, h]

example : canonNumber (.big 5) = .fix 5 ∧ canonNumber (.ratio 5) = .fix 5 ∧ canonNumber (.fix 5) = .fix 5 := by decide

end Canonical


/-! ## non-vacuity -/

example : Impl.inRange 9223372036854775807 ∧ Impl.inRange 1 ∧ ¬ Impl.inRange (9223372036854775807 + 1) := by
  unfold Impl.inRange; omega
example : Impl.addFixnums 9223372036854775807 1 = .big 9223372036854775808 := by decide
example : Impl.subFixnums (-9223372036854775808) 1 = .big (-9223372036854775809) := by decide
example : Impl.mulFixnums (-1) (-9223372036854775808) = .big 9223372036854775808 := by decide
example : Impl.mulFixnums 3037000500 3037000500 = .big 9223372037000250000 ∧ Impl.mulFixnums 3037000499 3037000499 = .fix 9223372030926249001 := by decide
example : Impl.negFixnum (-9223372036854775808) = .big 9223372036854775808 := by decide
example : Impl.roundFixGo 2 3 = (1, -1) ∧ Impl.roundFixGo 5 2 = (2, 1) ∧ Impl.roundFixGo (-7) 2 = (-4, 1) ∧ Impl.roundFixGo 5 (-2) = (-2, 1) := by decide
example : Impl.ceilFixGo (-5) (-2) = (3, 1) ∧ Impl.truncFixGo (-5) 2 = (-2, -1) ∧ Impl.floorFixGo (-5) 2 = (-3, 1) := by decide
example : Impl.gcdLoop 100 42 70 = 14 := by decide
example : ceilDiv ((7 : Int) : Rat) ((-2 : Int) : Rat) = .ok (-3, ((1 : Int) : Rat)) := Impl.ceilFixGo_eq_spec 7 (-2) (by decide)
example : roundDiv ((5 : Int) : Rat) ((2 : Int) : Rat) = .ok (2, ((1 : Int) : Rat)) := Impl.roundFixGo_eq_spec 5 2 (by decide)
example : truncDiv ((-7 : Int) : Rat) ((2 : Int) : Rat) = .ok (-3, ((-1 : Int) : Rat)) := Impl.truncFixGo_eq_spec (-7) 2 (by decide)
example : floorDiv ((-7 : Int) : Rat) ((2 : Int) : Rat) = .ok (-4, ((1 : Int) : Rat)) := Impl.floorFixGo_eq_spec_partial (-7) 2 (by decide)

end SlipVerif.Num
