import SlipVerif.Model.Num
import Mathlib.Data.List.Basic
import Mathlib.Data.List.Perm.Basic
import Mathlib.Data.Int.GCD
import Mathlib.Data.Int.Bitwise
import Mathlib.Tactic.Ring
import SlipVerif.Theorems.C05

/-!
  C05 — numbers are values: histories of calls, and n-ary calls.

  `run` (Model/Num.lean) is the history runner the driver executes for `num hist …`: every operand and
  every numeric result of a call is kept in the store (a variable of its own) and later calls may use
  any kept value again. The theorems say that nothing a later call does can be seen in a kept value
  ("never alter their operands"; results are values, not shared scratch), that the outcome of a call
  is `apply` on the referenced VALUES (so every theorem about the single operators applies to every
  call of a history), and that an n-ary call is the iterated binary call, whatever the order for the
  commutative operators.
-/

namespace SlipVerif.Num

/-! ### frame: the store only grows -/

theorem step_prefix (store : List Rat) (c : Call) : store <+: (step store c).1 := by
  unfold step
  split
  · exact List.prefix_refl _
  · simp only [List.append_assoc]; exact List.prefix_append _ _

theorem run_prefix (store : List Rat) (cs : List Call) : store <+: (run store cs).1 := by
  induction cs generalizing store with
  | nil => exact List.prefix_refl _
  | cons c cs ih =>
    simp only [run]
    exact (step_prefix store c).trans (ih _)

theorem prefix_getElem? {l₁ l₂ : List Rat} (h : l₁ <+: l₂) {i : Nat} {v : Rat}
    (hv : l₁[i]? = some v) : l₂[i]? = some v := by
  obtain ⟨t, rfl⟩ := h
  have hi : i < l₁.length := by
    rcases Nat.lt_or_ge i l₁.length with h | h
    · exact h
    · rw [List.getElem?_eq_none h] at hv; cases hv
  rw [List.getElem?_append_left hi]; exact hv

/-- FRAME. A value kept in the store (an operand or a result of an earlier call) reads the same
    after any further calls, whatever they are and whatever they use. -/
theorem run_frame (store : List Rat) (cs : List Call) (i : Nat) (v : Rat)
    (h : store[i]? = some v) : (run store cs).1[i]? = some v :=
  prefix_getElem? (run_prefix store cs) h

example : (run [5, 1/3] [⟨"gcd", [.lit 36893488147419103232, .lit 73786976294838206464]⟩,
    ⟨"gcd", [.lit 1208925819614629174706176, .lit 6]⟩]).1[1]? = some (1/3) :=
  run_frame _ _ 1 _ (by simp)

/-! ### a history is its calls one after the other -/

theorem run_append (store : List Rat) (cs ds : List Call) :
    run store (cs ++ ds) =
      ((run (run store cs).1 ds).1, (run store cs).2 ++ (run (run store cs).1 ds).2) := by
  induction cs generalizing store with
  | nil => simp [run]
  | cons c cs ih => simp only [List.cons_append, run, ih, List.cons_append]

/-- the outcomes of the first calls do not depend on what is called afterwards -/
theorem run_outcomes_prefix (store : List Rat) (cs ds : List Call) :
    (run store cs).2 <+: (run store (cs ++ ds)).2 := by
  rw [run_append]; exact List.prefix_append _ _

/-- the store after the first calls is kept, position by position, by every continuation -/
theorem run_store_prefix_append (store : List Rat) (cs ds : List Call) :
    (run store cs).1 <+: (run store (cs ++ ds)).1 := by
  rw [run_append]; exact run_prefix _ _

theorem run_length (store : List Rat) (cs : List Call) : (run store cs).2.length = cs.length := by
  induction cs generalizing store with
  | nil => rfl
  | cons c cs ih => simp [run, ih]

/-! ### every call of a history is `apply` on values -/

/-- the outcome of a call is the operator applied to the referenced values -/
theorem step_outcome (store : List Rat) (c : Call) (xs : List Rat)
    (h : c.args.mapM (argVal store) = some xs) :
    step store c = (store ++ lits c.args ++ (apply c.op xs).values, apply c.op xs) := by
  unfold step; rw [h]

/-- RESULTS ARE KEPT. The new operands and the results of a call stay in the store, unchanged, through
    every later call. -/
theorem run_keeps_results (store : List Rat) (c : Call) (ds : List Call) (xs : List Rat)
    (h : c.args.mapM (argVal store) = some xs) :
    (store ++ lits c.args ++ (apply c.op xs).values) <+: (run store (c :: ds)).1 := by
  simp only [run, step_outcome store c xs h]
  exact run_prefix _ _

/-- replace a reference by the value it refers to -/
def inline (store : List Rat) : Arg → Arg
  | .lit r => .lit r
  | .ref i => match store[i]? with
    | some v => .lit v
    | none => .ref i

theorem argVal_inline (store : List Rat) (a : Arg) : argVal store (inline store a) = argVal store a := by
  cases a with
  | lit r => rfl
  | ref i =>
    unfold inline
    cases h : store[i]? with
    | none => simp [argVal, h]
    | some v => simp [argVal, h]

theorem mapM_argVal_inline (store : List Rat) (as : List Arg) :
    (as.map (inline store)).mapM (argVal store) = as.mapM (argVal store) := by
  induction as with
  | nil => rfl
  | cons a as ih => simp only [List.map_cons, List.mapM_cons, argVal_inline, ih]

/-- REFERENTIAL TRANSPARENCY. A call that takes a kept value returns what the same call returns on a
    fresh operand of that value: it is the value that matters, not the object or its history. -/
theorem step_inline (store : List Rat) (op : String) (as : List Arg) :
    (step store ⟨op, as.map (inline store)⟩).2 = (step store ⟨op, as⟩).2 := by
  unfold step
  simp only [mapM_argVal_inline]
  cases as.mapM (argVal store) <;> rfl

/-- a result that is used again: `(op₂ (op₁ xs) y)` evaluated through the store is the composition of
    the two operators on values -/
theorem run_uses_result (xs : List Rat) (op₁ op₂ : String) (r y : Rat)
    (h : apply op₁ xs = .vals [r]) :
    (run [] [⟨op₁, xs.map Arg.lit⟩, ⟨op₂, [.ref xs.length, .lit y]⟩]).2
      = [apply op₁ xs, apply op₂ [r, y]] := by
  have hm : ∀ (s : List Rat) (l : List Rat), (l.map Arg.lit).mapM (argVal s) = some l := by
    intro s l; induction l with
    | nil => rfl
    | cons a l ih => simp [List.mapM_cons, argVal, ih]
  have hl : ∀ l : List Rat, lits (l.map Arg.lit) = l := by
    intro l; induction l with
    | nil => rfl
    | cons a l ih => simp [lits, ih]
  simp only [run, step, hm, hl, h, Outcome.values, List.nil_append]
  have : (xs ++ [r])[xs.length]? = some r := by simp
  simp [List.mapM_cons, argVal]

/-! ### n-ary calls are iterated binary calls -/

theorem addAll_snoc (xs : List Rat) (x : Rat) : addAll (xs ++ [x]) = add (addAll xs) x := by
  simp [addAll, List.foldl_append]
theorem mulAll_snoc (xs : List Rat) (x : Rat) : mulAll (xs ++ [x]) = mul (mulAll xs) x := by
  simp [mulAll, List.foldl_append]
theorem gcdAll_snoc (xs : List Int) (x : Int) : gcdAll (xs ++ [x]) = (Int.gcd (gcdAll xs) x : Int) := by
  simp [gcdAll, List.foldl_append]
theorem lcmAll_snoc (xs : List Int) (x : Int) : lcmAll (xs ++ [x]) = (Int.lcm (lcmAll xs) x : Int) := by
  simp [lcmAll, List.foldl_append]
theorem landAll_snoc (xs : List Int) (x : Int) : landAll (xs ++ [x]) = land (landAll xs) x := by
  simp [landAll, List.foldl_append]
theorem lorAll_snoc (xs : List Int) (x : Int) : lorAll (xs ++ [x]) = lor (lorAll xs) x := by
  simp [lorAll, List.foldl_append]
theorem lxorAll_snoc (xs : List Int) (x : Int) : lxorAll (xs ++ [x]) = lxor (lxorAll xs) x := by
  simp [lxorAll, List.foldl_append]
theorem leqvAll_snoc (xs : List Int) (x : Int) : leqvAll (xs ++ [x]) = leqv (leqvAll xs) x := by
  simp [leqvAll, List.foldl_append]

/-- `(- a b … y z) = (- (- a b … y) z)` from two arguments on -/
theorem subAll_snoc (a b : Rat) (xs : List Rat) (x : Rat) :
    subAll (a :: b :: (xs ++ [x])) = (subAll (a :: b :: xs)).map (fun r => sub r x) := by
  simp [subAll, List.foldl_append, Except.map]

/-- `(/ a b … y z) = (/ (/ a b … y) z)`: a zero divisor anywhere is an error, otherwise the last
    division is applied to the quotient so far -/
theorem divAll_snoc (a b : Rat) (xs : List Rat) (x : Rat) :
    divAll (a :: b :: (xs ++ [x])) = (divAll (a :: b :: xs)) >>= (fun r => div r x) := by
  have : ∀ (l : List Rat) (s : Rat), (l ++ [x]).foldlM div s = l.foldlM div s >>= (fun r => div r x) := by
    intro l; induction l with
    | nil => intro s; simp [List.foldlM]
    | cons y l ih =>
      intro s
      simp only [List.cons_append, List.foldlM_cons]
      cases div s y with
      | error e => rfl
      | ok v => simpa using ih v
  simpa [divAll] using this (b :: xs) a

/-! ### the commutative n-ary operators do not depend on the order of their arguments -/

theorem addAll_perm {xs ys : List Rat} (h : xs.Perm ys) : addAll xs = addAll ys := by
  rw [addAll_eq_sum, addAll_eq_sum]; exact h.sum_eq

theorem mulAll_perm {xs ys : List Rat} (h : xs.Perm ys) : mulAll xs = mulAll ys := by
  rw [mulAll_eq_prod, mulAll_eq_prod]; exact h.prod_eq

theorem gcdAll_perm {xs ys : List Int} (h : xs.Perm ys) : gcdAll xs = gcdAll ys := by
  unfold gcdAll
  refine h.foldl_eq' (fun x _ y _ g => ?_) 0
  show ((Int.gcd ((Int.gcd g x : Int)) y : Nat) : Int) = ((Int.gcd ((Int.gcd g y : Int)) x : Nat) : Int)
  congr 1
  simp only [Int.gcd_natCast_natCast, Int.gcd, Int.natAbs_natCast]
  rw [Nat.gcd_assoc, Nat.gcd_assoc, Nat.gcd_comm x.natAbs]

theorem lcmAll_perm {xs ys : List Int} (h : xs.Perm ys) : lcmAll xs = lcmAll ys := by
  unfold lcmAll
  refine h.foldl_eq' (fun x _ y _ g => ?_) 1
  show ((Int.lcm ((Int.lcm g x : Int)) y : Nat) : Int) = ((Int.lcm ((Int.lcm g y : Int)) x : Nat) : Int)
  congr 1
  simp only [Int.lcm, Int.natAbs_natCast]
  rw [Nat.lcm_assoc, Nat.lcm_assoc, Nat.lcm_comm x.natAbs]

end SlipVerif.Num
