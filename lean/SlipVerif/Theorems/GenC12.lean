import SlipVerif.Gen.ClosCode
import SlipVerif.Gen.ClosFacts
import SlipVerif.Lemmas.ClosGen
/-
  C12 — obligations over `Gen/ClosCode.lean`, the Go → Lean translation of pkg/clos's class
  machinery regenerated from the repository's current source on every run (extract/closcode.go):
  StandardClass.Inherits / Ready / unready / mergeSupers, makeClassesReady, classChanged and the
  tail of DefStandardClass.

  The theorems say that the code *as translated now* computes what the hand model
  (Model/Clos.lean, about which Theorems/C12.lean proves the property) says:

  * `gen_inherits`, `gen_ready`, `gen_unready`          the three small methods;
  * `gen_mergeSupers`            mergeSupers in closed form (fails unless every direct superclass is
                                 ready; inherit = directs in written order followed by theirs,
                                 first occurrence kept; initForms least → most specific; precedence
                                 = class, inherit, base class, t);
  * `gen_mergeSupers_refines`    that is the model's `mergeSupers` on the abstracted class table;
  * `gen_precedence_standard`    the tail `standard-object t` the harness strips;
  * `gen_initform_most_specific` the initform table holds, per slot, the most specific initform;
  * `gen_makeClassesReady`       the readiness loop = merge attempts (`tryReady`) ending in a fixed point;
  * `gen_classChanged`           redefinition: dependants (by name) marked, then the loop;
  * `gen_sharedInitialize`       the default shared-initialize method = supplied initargs, then default
                                 initargs for the slots not filled, then the initform table
                                 (`gen_initarg_wins`, `gen_initform_fills`, `gen_setSlot`);
  * `gen_isA`, `gen_hierarchy`, `gen_typep_refines`   typep / dispatch read the class object's precedence list;
  * `gen_defclass_refines`       DefStandardClass's order of operations (merge, register, loop, mark
                                 dependants, loop) ends in the same state as the model's `defclass`
                                 (invalidate, register, loop), for every class table and every form
                                 that is not cyclic (`defStandardClass_steps` + `goOrder_sound`);
  * `gen_history_refines`        hence for every history of defclass forms without a cyclic form.

  Over `Gen/ClosFacts.lean` (extract/closfacts.go; the parts of pkg/clos around the translated ones):

  * `gen_make_instance_protocol` make-instance allocates through StandardClass.MakeInstance (which refuses
                                 a class with an empty precedence list before it touches the slots), then
                                 Init applies the generic function initialize-instance to the instance and
                                 ALL the initargs under no other condition than "the function exists", and
                                 its default method applies shared-initialize the same way — every instance
                                 is filled by the (translated) shared-initialize method and user methods on
                                 both generic functions run for every make-instance;
  * `gen_accessors_own_slot`     the :reader / :writer / :accessor methods generated for a slot definition are
                                 bound to that definition's own slot name, and their callers read / write
                                 exactly that slot of the instance (SlotValue / SetSlotValue);
  * `gen_writer_creates_no_slot` HasSlots.SetSlotValue stores only under the "slot present" test.

  A failure to build this module means the code no longer has the shape the proofs were written
  for: tools/check.py reports a broken proof obligation and the harness searches a failing input.
-/
namespace SlipVerif.ClosGo
open SlipVerif.Clos SlipVerif.Gen.ClosCode

/-! ## the small methods -/

theorem gen_inherits (g : GClass) (sc : Name) : Inherits g sc = decide (sc ∈ g.inherit) := inherits_eq g sc

theorem gen_ready (g : GClass) : Ready g = decide (g.precedence ≠ []) := ready_eq g

theorem gen_unready (g : GClass) : (unready.body g).state = { g with precedence := [] } := unready_eq g

/-! ## mergeSupers -/

theorem gen_mergeSupers (H : Heap) (g : GClass) :
    mergeSupers.body H g =
      if g.supers.all (readyIn H) then Ctl.ret (mergedClass H g) true
      else Ctl.ret (failedClass g) false := mergeSupers_spec H g

/-- the translated mergeSupers succeeds exactly when the model's does, with the model's list -/
theorem gen_mergeSupers_refines (H : Heap) (g : GClass) :
    (if (mergeSupers.body H g).value false then some (mergeSupers.body H g).state.inherit else none)
      = Clos.mergeSupers (abs H) (absDef g) := by
  rw [mergeSupers_spec, mergeSupers_abs]
  by_cases hr : g.supers.all (readyIn H) = true <;> simp [hr, Ctl.value, Ctl.state, mergedClass]

example : (mergeSupers.body [{ name := 0, supers := [], precedence := [Sym.cls 0, Sym.standardObject, Sym.t] },
    { name := 1, supers := [0], inherit := [0], precedence := [Sym.cls 1, Sym.cls 0, Sym.standardObject, Sym.t] }]
    { name := 2, supers := [1, 0] }).state.inherit = [1, 0] := by decide

/-- a successful merge of a class with base class standard-object leaves the precedence list
    `class, inherit…, standard-object, t` (the harness strips that constant tail) -/
theorem gen_precedence_standard (H : Heap) (g : GClass) (hb : g.baseClass = some Sym.standardObject)
    (hr : g.supers.all (readyIn H) = true) :
    (mergeSupers.body H g).state.precedence =
      Sym.cls g.name :: (mergedInherit H g.supers).map Sym.cls ++ [Sym.standardObject, Sym.t] := by
  rw [mergeSupers_spec, if_pos hr]
  simp only [Ctl.state, mergedClass]
  exact precedenceOf_standard g _ hb

example : ({ name := 2, supers := [1, 0] } : GClass).baseClass = some Sym.standardObject := rfl

/-- gen_initform_most_specific: after a successful merge the initform table of the class object
    holds, for every slot, the most specific initform — the one the hand model's `initformFor` finds
    walking the slot definitions of the class and then of its inheritance list in precedence order
    (slot maps keyed by slot name, one entry per name). -/
theorem gen_initform_most_specific (H : Heap) (g : GClass) (hr : g.supers.all (readyIn H) = true)
    (hown : SlotMapWF g.slotDefs)
    (hinh : ∀ k ∈ mergedInherit H g.supers, SlotMapWF (H.slotDefsOf k)) (x : Name) :
    ((mergeSupers.body H g).state.initForms.get? x).bind (·.initform) =
      initformFor (absSlots g.slotDefs ++
        (mergedInherit H g.supers).flatMap (fun k => absSlots (H.slotDefsOf k))) x := by
  rw [mergeSupers_spec, if_pos hr]
  simp only [Ctl.state, mergedClass]
  exact initFormsOf_get? H g.slotDefs _ hown hinh x

-- class 2 (own slot 0 without initform) below 1 (slot 0 :initform 11) below 0 (slot 0 :initform 1):
-- the table holds 11, the most specific initform
example : (((mergeSupers.body
    [{ name := 0, supers := [], slotDefs := [(0, { name := 0, initargs := [], initform := some 1 })],
       precedence := [Sym.cls 0, Sym.standardObject, Sym.t] },
     { name := 1, supers := [0], slotDefs := [(0, { name := 0, initargs := [], initform := some 11 })],
       inherit := [0], precedence := [Sym.cls 1, Sym.cls 0, Sym.standardObject, Sym.t] }]
    { name := 2, supers := [1], slotDefs := [(0, { name := 0, initargs := [], initform := none })] }).state.initForms.get? 0).bind
      (·.initform)) = some 11 := by decide

/-! ## make-instance: shared-initialize -/

theorem gen_setSlot (T : GClass) (sd : GSlot) (v : Option Val) (o : GObj) :
    (setSlot.body T sd v o).state = { o with vars := setSlotF sd v o.vars } := setSlot_eq T sd v o

/-- gen_sharedInitialize: the default shared-initialize method, as translated: it signals an error
    exactly when a supplied initarg is declared by no slot or reaches a slot that has been filled;
    otherwise the instance's slots are those left by three passes in this order — the supplied
    initargs (every slot that declares one), the class's default initargs (slots not yet filled),
    the initform table (slots still not filled). -/
theorem gen_sharedInitialize (T : GClass) (argMap : AList Val) (s : sharedInitialize.St) :
    match passArgs T argMap (siProj s) with
    | none => ∃ s', sharedInitialize.body T argMap s = Ctl.ret s' 2
    | some st1 => ∃ s', sharedInitialize.body T argMap s = Ctl.ret s' 0 ∧
        siProj s' = passForms T (passDefaults T st1) := sharedInitialize_normal T argMap s

/-- "from the matching initarg if supplied, otherwise …": a slot filled by a supplied initarg keeps
    that value through the default-initarg and initform passes -/
theorem gen_initarg_wins (T : GClass) (hk : ∀ kv ∈ T.initForms, kv.1 = kv.2.name) (st1 : SI) (x : Name)
    (h : st1.2.has x = true) :
    (passForms T (passDefaults T st1)).1.get? x = st1.1.get? x := by
  obtain ⟨d1, d2⟩ := passDefaults_keeps_filled T x st1 h
  rw [passForms_keeps_filled T hk x _ d2, d1]

/-- "… otherwise from the most specific initform": a slot no initarg filled ends with the value of
    its entry in the initform table (which holds the most specific initform: gen_initform_most_specific) -/
theorem gen_initform_fills (T : GClass) (hk : ∀ kv ∈ T.initForms, kv.1 = kv.2.name)
    (hnd : (T.initForms.map (·.1)).Nodup) (hcs : ∀ kv ∈ T.initForms, kv.2.classStore = false)
    (st2 : SI) (x : Name) (sd : GSlot) (hx : (x, sd) ∈ T.initForms) (h : st2.2.has x = false) :
    (passForms T st2).1.get? x = some (some (sd.initform.getD nilVal)) :=
  passForms_fills T hk hnd hcs x sd st2 hx h

-- slot 0 declares initarg 0 and has initform 1; slot 1 declares initargs 0, 1; the class has the
-- default initarg 1 = 77: (make-instance c :k0 9) fills both slots from :k0, the default and the initform lose
example : (match sharedInitialize.body
      { name := 0, supers := [],
        initArgs := [(0, [{ name := 0, initargs := [0], initform := some 1 }, { name := 1, initargs := [0, 1], initform := none }]),
                     (1, [{ name := 1, initargs := [0, 1], initform := none }])],
        initForms := [(0, { name := 0, initargs := [0], initform := some 1 })],
        defaultInitArgs := [(1, 77)] }
      [(0, 9)] { obj := { vars := [(0, some 1), (1, none)] } } with
    | Ctl.ret s' 0 => s'.obj.vars
    | _ => []) = [(0, some 9), (1, some 9)] := by decide

/-! ## typep and the hierarchy of an instance use the class object's precedence list -/

theorem gen_isA (T : GClass) (o : GObj) (k : Sym) : IsA T o k = decide (k ∈ T.precedence) := isA_eq T o k

theorem gen_hierarchy (T : GClass) (o : GObj) : Hierarchy T o = T.precedence := rfl

/-- for an instance of a merged class `c` with inheritance list `l`, `obj.IsA(k)` for a class name
    `k` is the model's `isA` on the model's precedence list `c :: l` — the list class-precedence
    shows, generic dispatch walks (`Hierarchy`) and mergeSupers built -/
theorem gen_typep_refines (T : GClass) (o : GObj) (c : Name) (l : List Name) (k : Name)
    (hp : T.precedence = Sym.cls c :: l.map Sym.cls ++ [Sym.standardObject, Sym.t]) :
    IsA T o (Sym.cls k) = isA (c :: l) k := by
  rw [isA_eq, hp]
  have h1 : isA (c :: l) k = decide (k ∈ c :: l) := by
    by_cases h : k ∈ c :: l
    · simp [h, isA_iff_mem.2 h]
    · have : ¬ isA (c :: l) k = true := fun e => h (isA_iff_mem.1 e)
      simp [h, this]
  rw [h1]
  simp

example : (Sym.cls 1 :: [0].map Sym.cls ++ [Sym.standardObject, Sym.t])
    = [Sym.cls 1, Sym.cls 0, Sym.standardObject, Sym.t] := rfl

/-! ## the readiness loop and redefinition -/

theorem gen_makeClassesReady (fuel : Nat) (h : Heap) (hn : NodupNames h) (hfuel : nr (abs h) < fuel) :
    (∃ cs : List Name, abs (makeClassesReady fuel h) = cs.foldl tryReady (abs h)) ∧
    Fix (abs (makeClassesReady fuel h)) ∧
    NodupNames (makeClassesReady fuel h) ∧ (makeClassesReady fuel h).allClasses = h.allClasses :=
  makeClassesReady_spec fuel h hn hfuel

theorem gen_classChanged (fuel : Nat) (cc : Name) (h : Heap) (hn : NodupNames h) (hfix : Fix (abs h))
    (hfuel : h.length < fuel) :
    (∃ cs : List Name, abs (classChanged fuel cc h) = cs.foldl tryReady (invalidateEx (abs h) cc)) ∧
    Fix (abs (classChanged fuel cc h)) ∧
    NodupNames (classChanged fuel cc h) ∧ (classChanged fuel cc h).allClasses = h.allClasses :=
  classChanged_spec fuel cc h hn hfix hfuel

example : NodupNames [{ name := 0, supers := [] }, { name := 1, supers := [0] }] ∧
    nr (abs [{ name := 0, supers := [] }, { name := 1, supers := [0] }]) < 3 :=
  ⟨by unfold NodupNames; decide, by decide⟩

/-! ## DefStandardClass -/

/-- the translated tail of DefStandardClass as a function on class tables: `g` is the class object
    filled from the form (name, supers, slot definitions; not merged yet) -/
def defStandardClass (fuel : Nat) (h : Heap) (g : GClass) : Heap :=
  (DefStandardClass.body fuel { heap := h, sc := g }).state.heap

theorem allClasses_length (h : Heap) : h.allClasses.length = h.length := by simp [Heap.allClasses]

/-- the four steps of the translated DefStandardClass, seen from the hand model: the new object
    merged against the old table and registered, merge attempts, the dependants marked, merge
    attempts — ending in a fixed point -/
theorem defStandardClass_steps (fuel : Nat) (h : Heap) (g : GClass) (hn : NodupNames h)
    (hfresh : g.precedence = []) (hfuel : h.length + 1 < fuel) :
    (∃ cs cs' : List Name, abs (defStandardClass fuel h g) =
      cs'.foldl tryReady (invalidateEx (cs.foldl tryReady
        (regE (abs h) { name := g.name, defn := absDef g, inh := Clos.mergeSupers (abs h) (absDef g) })) g.name)) ∧
    Fix (abs (defStandardClass fuel h g)) ∧ NodupNames (defStandardClass fuel h g) ∧
    (defStandardClass fuel h g).length ≤ h.length + 1 := by
  have hstate : defStandardClass fuel h g =
      classChanged fuel g.name (makeClassesReady fuel (h.register (mergeSupers.body h g).state)) := by
    have : (mergeSupers.body h g).state.name = g.name := by
      rw [mergeSupers_spec]
      by_cases hr : g.supers.all (readyIn h) = true <;> simp [hr, Ctl.state, mergedClass, failedClass]
    unfold defStandardClass DefStandardClass.body
    show classChanged fuel (mergeSupers.body h g).state.name
      (makeClassesReady fuel (h.register (mergeSupers.body h g).state)) = _
    rw [this]
  rw [hstate]
  generalize hg1 : (mergeSupers.body h g).state = g1 at *
  have hentry : absEntry g1 = { name := g.name, defn := absDef g, inh := Clos.mergeSupers (abs h) (absDef g) } := by
    rw [← hg1, mergeSupers_spec, mergeSupers_abs]
    by_cases hr : g.supers.all (readyIn h) = true
    · simp [hr, Ctl.state, mergedClass, absEntry, absDef, absInh, precedenceOf_ne_nil]
    · simp [hr, Ctl.state, failedClass, absEntry, absDef, absInh, hfresh]
  have habs1 : abs (h.register g1) = regE (abs h) { name := g.name, defn := absDef g, inh := Clos.mergeSupers (abs h) (absDef g) } := by
    rw [abs_register, hentry]
  have hn1 : NodupNames (h.register g1) := nodup_register hn g1
  have hlen1 : (h.register g1).length ≤ h.length + 1 := length_register_le g1 h
  have hnr1 : nr (abs (h.register g1)) < fuel := by
    have := nr_le_length (abs (h.register g1))
    simp only [abs, List.length_map] at this
    simp only [abs]
    omega
  obtain ⟨⟨cs, m1⟩, m2, m3, m4⟩ := makeClassesReady_spec fuel (h.register g1) hn1 hnr1
  generalize makeClassesReady fuel (h.register g1) = h2 at *
  have hlen2 : h2.length = (h.register g1).length := by
    rw [← allClasses_length, ← allClasses_length, m4]
  obtain ⟨⟨cs', c1⟩, c2, c3, c4⟩ := classChanged_spec fuel g.name h2 m3 m2 (by omega)
  generalize classChanged fuel g.name h2 = h3 at *
  have hlen3 : h3.length ≤ h.length + 1 := by
    have : h3.length = h2.length := by rw [← allClasses_length, ← allClasses_length, c4]
    omega
  exact ⟨⟨cs, cs', by rw [c1, m1, habs1]⟩, c2, c3, hlen3⟩

/-- gen_defclass_refines: whatever the class table (unique names, every ready class carrying its
    specified list) and whatever the form whose direct superclasses do not reach the class itself in
    the new graph (no cyclic definition), the translated DefStandardClass — slip's order: merge,
    register, loop, mark the dependants, loop — ends in a table that is again sound, is a fixed
    point, has the new definition in force, and every class has the same inheritance list (or is
    not ready) as after the hand model's `defclass`, which marks the dependants first. -/
theorem gen_defclass_refines (fuel : Nat) (h : Heap) (g : GClass) (hn : NodupNames h) (hs : Sound (abs h))
    (hfresh : g.precedence = []) (hfuel : h.length + 1 < fuel)
    (hac : ∀ x ∈ g.supers, ¬ Reach (update (defOf (abs h)) g.name (absDef g)) x g.name) :
    NodupNames (defStandardClass fuel h g) ∧ Sound (abs (defStandardClass fuel h g)) ∧
    Fix (abs (defStandardClass fuel h g)) ∧
    defOf (abs (defStandardClass fuel h g)) = update (defOf (abs h)) g.name (absDef g) ∧
    (defStandardClass fuel h g).length ≤ h.length + 1 ∧
    ∀ c, inhOf (abs (defStandardClass fuel h g)) c = inhOf (defclass (abs h) g.name (absDef g)) c := by
  obtain ⟨⟨cs, cs', habs⟩, hfix, hnd, hlen⟩ := defStandardClass_steps fuel h g hn hfresh hfuel
  obtain ⟨hsound, hdef⟩ := goOrder_sound hs g.name (absDef g) cs cs' hac
  rw [← habs] at hsound hdef
  refine ⟨hnd, hsound, hfix, hdef, hlen, ?_⟩
  intro c
  exact inhOf_eq_of_sound_fix (by rw [hdef, defOf_defclass]) hsound hfix (defclass_sound hs _ _) (defclass_fix _ _ _) c

-- the hypotheses hold for a concrete table and form (class 2 with the forward-referenced supers 1, 0)
example : NodupNames [{ name := 1, supers := [0] }] ∧ ({ name := 2, supers := [1, 0] } : GClass).precedence = [] :=
  ⟨by unfold NodupNames; decide, rfl⟩

/-! ## histories -/

/-- a history of defclass forms run through the translated DefStandardClass, from the empty table -/
def goRun (fuel : Nat) (forms : List GClass) : Heap := forms.foldl (defStandardClass fuel) []

/-- the same history for the hand model -/
def formsOf (forms : List GClass) : List (Name × ClassDef) := forms.map (fun g => (g.name, absDef g))

/-- no form of the history is cyclic: in the class graph in force right after the form, the direct
    superclasses it names do not reach its class -/
def Acyclic (forms : List GClass) : Prop :=
  ∀ (pre post : List GClass) (g : GClass), forms = pre ++ g :: post →
    ∀ x ∈ g.supers, ¬ Reach (lastDef (formsOf (pre ++ [g]))) x g.name

theorem goRun_snoc (fuel : Nat) (pre : List GClass) (g : GClass) :
    goRun fuel (pre ++ [g]) = defStandardClass fuel (goRun fuel pre) g := by
  simp [goRun, List.foldl_append]

theorem history_inv (fuel : Nat) : ∀ (post pre : List GClass),
    (∀ g ∈ pre ++ post, g.precedence = []) → (pre ++ post).length + 1 < fuel → Acyclic (pre ++ post) →
    (NodupNames (goRun fuel pre) ∧ Sound (abs (goRun fuel pre)) ∧ Fix (abs (goRun fuel pre)) ∧
      defOf (abs (goRun fuel pre)) = lastDef (formsOf pre) ∧ (goRun fuel pre).length ≤ pre.length) →
    (NodupNames (goRun fuel (pre ++ post)) ∧ Sound (abs (goRun fuel (pre ++ post))) ∧
      Fix (abs (goRun fuel (pre ++ post))) ∧
      defOf (abs (goRun fuel (pre ++ post))) = lastDef (formsOf (pre ++ post)) ∧
      (goRun fuel (pre ++ post)).length ≤ (pre ++ post).length)
  | [], pre, _, _, _, h => by simpa using h
  | g :: post, pre, hfresh, hfuel, hns, ⟨i1, i2, _, i4, i5⟩ => by
    have happ : pre ++ g :: post = (pre ++ [g]) ++ post := by simp
    have hlen : (pre ++ g :: post).length = pre.length + post.length + 1 := by simp; omega
    have hstep := gen_defclass_refines fuel (goRun fuel pre) g i1 i2 (hfresh g (by simp))
      (by rw [hlen] at hfuel; omega)
      (by
        intro x hx
        have := hns pre post g rfl x hx
        rw [i4]
        unfold formsOf at this ⊢
        rw [List.map_append, List.map_cons, List.map_nil, lastDef_append] at this
        exact this)
    obtain ⟨s1, s2, s3, s4, s5, _⟩ := hstep
    rw [happ] at hfresh hfuel hns ⊢
    refine history_inv fuel post (pre ++ [g]) hfresh hfuel hns ?_
    rw [goRun_snoc]
    refine ⟨s1, s2, s3, ?_, ?_⟩
    · rw [s4, i4]
      unfold formsOf
      rw [List.map_append, List.map_cons, List.map_nil, lastDef_append]
    · simp only [List.length_append, List.length_cons, List.length_nil]
      omega

/-- gen_history_refines: for every history of defclass forms (any order, forward references,
    redefinitions; no cyclic form) the class table built by the translated
    Go code and the state of the hand model agree on every class: same inheritance list, or not
    ready in both — hence the theorems of Theorems/C12.lean about `run` speak about the code. -/
theorem gen_history_refines (fuel : Nat) (forms : List GClass) (hfresh : ∀ g ∈ forms, g.precedence = [])
    (hfuel : forms.length + 1 < fuel) (hns : Acyclic forms) (c : Name) :
    inhOf (abs (goRun fuel forms)) c = inhOf (run (formsOf forms)) c := by
  have h0 : NodupNames (goRun fuel []) ∧ Sound (abs (goRun fuel [])) ∧ Fix (abs (goRun fuel [])) ∧
      defOf (abs (goRun fuel [])) = lastDef (formsOf []) ∧ (goRun fuel []).length ≤ ([] : List GClass).length := by
    refine ⟨by simp [goRun, NodupNames, Heap.allClasses], ?_, ?_, ?_, by simp [goRun]⟩
    · exact sound_nil
    · exact fix_nil
    · rfl
  obtain ⟨_, r2, r3, r4, _⟩ := history_inv fuel forms [] (by simpa using hfresh) (by simpa using hfuel)
    (by simpa using hns) h0
  simp only [List.nil_append] at r2 r3 r4
  exact inhOf_eq_of_sound_fix (by rw [r4, defOf_run]) r2 r3 (run_sound _) (run_fix _) c

-- a history with a forward reference: the two sides compute [1, 0] for class 2
example : inhOf (abs (goRun 5 [{ name := 2, supers := [1, 0] }, { name := 0, supers := [] }, { name := 1, supers := [0] }])) 2
    = some [1, 0] := by decide

/-! ## the initialisation protocol and the slot access paths (Gen/ClosFacts.lean) -/

section facts
open SlipVerif.Gen.ClosFacts

theorem gen_make_instance_protocol :
    makeInstanceCalls = ["MakeInstance", "Init"] ∧ allocGuard = true ∧
    initApplies = true ∧ initGuards = [] ∧ initPassesArgs = true ∧
    sharedApplies = true ∧ sharedGuards = [] ∧ sharedPassesArgs = true := by decide

theorem gen_accessors_own_slot :
    readerSlot = ["readSlot:own"] ∧ writerSlot = ["writeSlot:own"] ∧
    accessorSlots = ["readSlot:own", "writeSlot:own"] ∧
    readCall = ["SlotValue:own"] ∧ writeCall = ["SetSlotValue:own"] := by decide

theorem gen_writer_creates_no_slot : 0 < setStores ∧ setUnguardedStores = 0 := by decide

end facts

end SlipVerif.ClosGo
