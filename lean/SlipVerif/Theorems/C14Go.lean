import SlipVerif.Model.SeqGo
import SlipVerif.Lemmas.SeqGo
/-
  C14 — the scan loops of pkg/cl/delete.go, count.go, position.go as index loops (Model/SeqGo.lean)
  refine the specification for every loop skeleton that is extensionally the reference skeleton.

  `extract/seqloops.go` translates the skeletons (first index, continuation test, step, keep-guard,
  end defaulting, window re-slicing, returned index) from the Go source on every run into
  `Gen/SeqLoops.lean`; `Theorems/GenC14.lean` proves that each extracted skeleton satisfies the
  `Is…` predicate used as hypothesis here and instantiates these theorems with it. So a changed
  comparison operator, loop bound, step or default in the Go source either still satisfies the
  predicate (a harmless rewrite) or breaks a proof obligation.

  In-range bounds are expressed as in the rest of the slice: `bounds start stop length = .ok (s, e)`.
-/
namespace SlipVerif.Seq
variable {α : Type}

theorem bounds_ok {start : Nat} {stop : Option Nat} {len s e : Nat} (h : bounds start stop len = .ok (s, e)) :
    s = start ∧ s ≤ e ∧ e ≤ len ∧ e = (match stop with | none => len | some x => x) := by
  cases stop with
  | none =>
    have h' : (if start ≤ len ∧ len ≤ len then Except.ok (start, len) else Except.error Err.bounds)
        = (Except.ok (s, e) : Except Err (Nat × Nat)) := h
    by_cases hc : start ≤ len ∧ len ≤ len
    · rw [if_pos hc] at h'; cases h'; exact ⟨rfl, hc.1, hc.2, rfl⟩
    · rw [if_neg hc] at h'; cases h'
  | some x =>
    have h' : (if start ≤ x ∧ x ≤ len then Except.ok (start, x) else Except.error Err.bounds)
        = (Except.ok (s, e) : Except Err (Nat × Nat)) := h
    by_cases hc : start ≤ x ∧ x ≤ len
    · rw [if_pos hc] at h'; cases h'; exact ⟨rfl, hc.1, hc.2, rfl⟩
    · rw [if_neg hc] at h'; cases h'

/-- delete.go (remove, delete, remove-if, delete-if on lists, strings and octets): for every pair of
    loops that are the reference forward / backward loop and every end defaulting that keeps an
    in-range end and turns an absent end into at least the length, the Go loops return exactly
    `remove` — no index fault, for every in-range `:start`/`:end`, every `:count` (absent, negative,
    zero, positive) and both directions. `nb` is what `len(seq)` is in the end defaulting (the byte
    length of a Go string ≥ its number of characters). -/
theorem goDelete_refines_remove (fwd bwd : GoLoop) (norm : Int → Int → Int → Int)
    (hf : fwd.IsDeleteFwd) (hb : bwd.IsDeleteBwd) (hn : IsNormEndAtLeast norm)
    (p : α → Bool) (start : Nat) (stop : Option Nat) (count : Option Int) (fromEnd : Bool) (xs : List α)
    (nb : Int) (hnb : (xs.length : Int) ≤ nb) (hlen : (xs.length : Int) ≤ goMaxInt)
    (s e : Nat) (hbd : bounds start stop xs.length = .ok (s, e)) :
    goDelete fwd bwd norm nb p start stop count fromEnd xs = some (remove p s e count fromEnd xs) := by
  obtain ⟨hs, hse, hel, hestop⟩ := bounds_ok hbd
  subst hs
  -- the normalised end: as a natural number it is `e`, or something at or above the length when `e` is the length
  have hE : 0 ≤ norm xs.length nb (goEndArg stop) ∧
      ((norm xs.length nb (goEndArg stop)).toNat = e ∨
        (e = xs.length ∧ xs.length ≤ (norm xs.length nb (goEndArg stop)).toNat)) := by
    have h := hn xs.length nb
    cases stop with
    | none =>
      simp only at hestop
      have h1 := (h 0 (by omega) hnb).1
      simp only [goEndArg]
      refine ⟨by omega, Or.inr ⟨hestop, by omega⟩⟩
    | some x =>
      simp only at hestop
      subst hestop
      have h2 := (h (e : Int) (by omega) hnb).2 (by omega) (by omega)
      simp only [goEndArg]
      rw [h2]
      exact ⟨by omega, Or.inl (by simp)⟩
  obtain ⟨hE0, hEe⟩ := hE
  -- the limit
  have hlim : ∀ m : List α, m.length ≤ xs.length →
      dropFirstN p (goCountArg count).toNat m = dropFirstN p (limit count m.length) m := by
    intro m hm
    cases count with
    | none =>
      simp only [goCountArg, limit]
      exact dropFirstN_ge p _ _ m (by unfold goMaxInt at *; omega) (by omega)
    | some c => simp [goCountArg, limit]
  have hml : (mid s e xs).length ≤ xs.length := by rw [mid_length s e xs hel]; omega
  unfold goDelete
  simp only []
  cases fromEnd
  · simp only [Bool.false_eq_true, if_false]
    rw [hf.init]
    have h := goFor_delete_fwd fwd hf p xs s (norm xs.length nb (goEndArg stop)) (goCountArg count) hE0
      xs.length (xs.length + 1) 0 0 [] (by omega) (by omega)
    simp only [Int.natCast_zero, List.drop_zero, List.nil_append] at h
    rw [h]
    congr 1
    have hend : deleteFwdLoop p s (norm xs.length nb (goEndArg stop)).toNat (goCountArg count).toNat 0 0 xs
        = deleteFwdLoop p s e (goCountArg count).toNat 0 0 xs := by
      rcases hEe with h1 | ⟨h1, h2⟩
      · rw [h1]
      · exact deleteFwdLoop_end_ge p s _ e _ 0 0 xs (by omega) (by omega)
    rw [hend]
    have := deleteLoops_eq p s e (goCountArg count).toNat false xs hse hel
    simp only [Bool.false_eq_true, if_false] at this
    rw [this]
    unfold remove onRange directed
    simp only [Bool.false_eq_true, if_false]
    rw [hlim _ hml]
  · simp only [if_true]
    rw [hb.init]
    have h := goFor_delete_bwd bwd hb p xs s (norm xs.length nb (goEndArg stop)) (goCountArg count) hE0
      xs.length (xs.length + 1) 0 [] (by omega) (by omega)
    simp only [Int.natCast_zero, List.take_length, List.nil_append] at h
    have hmap : ∀ (o : Option (Int × List α)) (l : List α), o.map (fun st => st.2) = some l →
        o.map (fun st => st.2.reverse) = some l.reverse := by
      intro o l ho
      cases o with
      | none => cases ho
      | some v => simp only [Option.map_some, Option.some.injEq] at ho ⊢; rw [ho]
    rw [hmap _ _ h]
    congr 1
    have hend : deleteBwdLoop p s (norm xs.length nb (goEndArg stop)).toNat (goCountArg count).toNat 0 xs.reverse
        = deleteBwdLoop p s e (goCountArg count).toNat 0 xs.reverse := by
      rcases hEe with h1 | ⟨h1, h2⟩
      · rw [h1]
      · exact deleteBwdLoop_end_ge p s _ e _ 0 xs.reverse (by simp; omega) (by simp; omega)
    rw [hend]
    have := deleteLoops_eq p s e (goCountArg count).toNat true xs hse hel
    simp only [if_true] at this
    rw [this]
    unfold remove onRange directed
    simp only [if_true]
    have hr := hlim (mid s e xs).reverse (by simpa using hml)
    rw [List.length_reverse] at hr
    rw [hr]

/-- count.go (count, count-if on lists and strings): with the reference loops and an end defaulting
    that turns an absent end into exactly the number of elements, both loops return `count` without
    an index fault -/
theorem goCount_refines_count (fwd bwd : GoLoop) (norm : Int → Int → Int → Int)
    (hf : fwd.IsRangeFwd) (hb : bwd.IsRangeBwd) (hn : IsNormEnd norm)
    (p : α → Bool) (start : Nat) (stop : Option Nat) (fromEnd : Bool) (xs : List α)
    (nb : Int) (hnb : (xs.length : Int) ≤ nb)
    (s e : Nat) (hbd : bounds start stop xs.length = .ok (s, e)) :
    goCount fwd bwd norm nb p start stop fromEnd xs = some (count p s e xs) := by
  obtain ⟨hs, hse, hel, hestop⟩ := bounds_ok hbd
  subst hs
  have hE : norm xs.length nb (goEndArg stop) = (e : Int) := by
    have h := hn xs.length nb
    cases stop with
    | none =>
      simp only at hestop
      simp only [goEndArg]
      rw [(h 0 (by omega) hnb).1, hestop]
    | some x =>
      simp only at hestop
      subst hestop
      simp only [goEndArg]
      exact (h (e : Int) (by omega) hnb).2 (by omega) (by omega)
  unfold goCount
  simp only [hE]
  cases fromEnd
  · simp only [Bool.false_eq_true, if_false]
    rw [hf.init]
    have h := goFor_count_fwd fwd hf p xs xs.length s e hel (e - s) (xs.length + 1) s 0 (by omega) (by omega)
    rw [h, countLoop_eq]
    simp [count, mid]
  · simp only [if_true]
    rw [hb.init]
    have h := goFor_count_bwd bwd hb p xs xs.length s e hel (e - s) (xs.length + 1) 0 (by omega) (by omega)
    have hidx : (((s + (e - s) : Nat) : Int) - 1) = (e : Int) - 1 := by omega
    rw [hidx] at h
    rw [h]
    simp [count, mid]

/-- position.go (position, position-if; find / find-if return the element at that index): with a
    window that is `[start, end)`, loops over every index of the window in ascending / descending
    order and the answer `start + i`, the Go code returns `position` — no slice or index fault -/
theorem goPosition_refines_position (W : GoWindow) (fwd bwd : GoLoop) (ret : Int → Int → Int)
    (hW : W.IsRange) (hf : fwd.IsAllFwd) (hb : bwd.IsAllBwd) (hret : ∀ i s, ret i s = s + i)
    (p : α → Bool) (start : Nat) (stop : Option Nat) (fromEnd : Bool) (xs : List α)
    (s e : Nat) (hbd : bounds start stop xs.length = .ok (s, e)) :
    goPosition W fwd bwd ret p start stop fromEnd xs = some ((position p s e fromEnd xs).map (fun k : Nat => (k : Int))) := by
  obtain ⟨hs, hse, hel, hestop⟩ := bounds_ok hbd
  subst hs
  unfold goPosition
  simp only [hW.early, hW.cut, hW.lo1, hW.hi1, hW.lo2]
  by_cases hearly : (xs.length : Int) ≤ (s : Int)
  · -- the window is empty
    simp only [hearly, decide_true, if_true]
    have hmid : mid s e xs = [] := by
      have : (mid s e xs).length = 0 := by rw [mid_length s e xs hel]; omega
      exact List.eq_nil_of_length_eq_zero this
    unfold position
    rw [hmid]
    cases fromEnd <;> simp [idxFirst, idxLast]
  · simp only [hearly, decide_false, Bool.false_eq_true, if_false]
    -- the window is mid s e xs
    have hwin : (if decide (0 ≤ goEndArg stop ∧ goEndArg stop < (xs.length : Int)) = true
          then goSlice xs (s : Int) (goEndArg stop) else goSlice xs (s : Int) (xs.length : Int))
        = some (mid s e xs) := by
      cases stop with
      | none =>
        simp only at hestop
        subst hestop
        have : ¬ (0 ≤ goEndArg (none : Option Nat) ∧ goEndArg none < (xs.length : Int)) := by
          simp [goEndArg]
        simp only [this, decide_false, Bool.false_eq_true, if_false]
        unfold goSlice
        have hc : (0 : Int) ≤ (s : Int) ∧ (s : Int) ≤ (xs.length : Int) ∧ (xs.length : Int) ≤ (xs.length : Int) := by omega
        simp [hc, mid]
      | some x =>
        simp only at hestop
        subst hestop
        simp only [goEndArg]
        by_cases hlt : e < xs.length
        · have : (0 ≤ (e : Int) ∧ (e : Int) < (xs.length : Int)) := by omega
          simp only [this, decide_true, if_true]
          unfold goSlice
          have hc : (0 : Int) ≤ (s : Int) ∧ (s : Int) ≤ (e : Int) ∧ (e : Int) ≤ (xs.length : Int) := by omega
          simp [hc, mid]
        · have he' : e = xs.length := by omega
          have : ¬ (0 ≤ (e : Int) ∧ (e : Int) < (xs.length : Int)) := by omega
          simp only [this, decide_false, Bool.false_eq_true, if_false]
          unfold goSlice
          have hc : (0 : Int) ≤ (s : Int) ∧ (s : Int) ≤ (xs.length : Int) ∧ (xs.length : Int) ≤ (xs.length : Int) := by omega
          simp [hc, mid, he']
    rw [hwin]
    unfold position
    cases fromEnd
    · simp only [Bool.false_eq_true, if_false]
      rw [hf.init]
      have h := goForFind_position_fwd fwd hf p (mid s e xs) ret (s : Int) (goEndArg stop)
        (mid s e xs).length ((mid s e xs).length + 1) 0 (by omega) (by omega)
      simp only [Int.natCast_zero, List.drop_zero, Nat.add_zero] at h
      rw [h]
      simp only [Option.map_map]
      congr 1
      apply congrArg (fun g => Option.map g (idxFirst p (mid s e xs)))
      funext r
      simp only [Function.comp, hret]
      omega
    · simp only [if_true]
      rw [hb.init]
      have h := goForFind_position_bwd bwd hb p (mid s e xs) ret (s : Int) (goEndArg stop)
        (mid s e xs).length ((mid s e xs).length + 1) (by omega) (by omega)
      rw [List.take_length] at h
      rw [h]
      simp only [Option.map_map]
      congr 1
      apply congrArg (fun g => Option.map g (idxLast p (mid s e xs)))
      funext r
      simp only [Function.comp, hret]
      omega

/-! ### non-vacuity: the reference skeletons satisfy the hypotheses, and the Go loops compute -/

def refDeleteFwd : GoLoop :=
  { init := fun _ _ _ => 0, cond := fun i n _ _ => decide (i < n), step := 1,
    skip := fun i _ s e lim cnt => decide (i < s ∨ e ≤ i ∨ lim ≤ cnt) }
def refDeleteBwd : GoLoop :=
  { init := fun n _ _ => n - 1, cond := fun i _ _ _ => decide (0 ≤ i), step := -1,
    skip := fun i _ s e lim cnt => decide (i < s ∨ e ≤ i ∨ lim ≤ cnt) }
def refRangeFwd : GoLoop :=
  { init := fun _ s _ => s, cond := fun i _ _ e => decide (i < e), step := 1, skip := fun _ _ _ _ _ _ => false }
def refRangeBwd : GoLoop :=
  { init := fun _ _ e => e - 1, cond := fun i _ s _ => decide (s ≤ i), step := -1, skip := fun _ _ _ _ _ _ => false }
def refNormEnd (n nb e : Int) : Int := if e < 0 ∨ n < e then n else e
def refNormEndBytes (n nb e : Int) : Int := if e < 0 ∨ nb < e then nb else e
def refWindow : GoWindow :=
  { early := fun n _ s _ => decide (n ≤ s), cut := fun n _ _ e => decide (0 ≤ e ∧ e < n),
    lo1 := fun _ s _ => s, hi1 := fun _ _ e => e, lo2 := fun _ s _ => s }

example : refDeleteFwd.IsDeleteFwd := ⟨fun _ _ _ => rfl, fun _ _ _ _ => rfl, rfl, fun _ _ _ _ _ _ => rfl⟩
example : refDeleteBwd.IsDeleteBwd := ⟨fun _ _ _ => rfl, fun _ _ _ _ => rfl, rfl, fun _ _ _ _ _ _ => rfl⟩
example : refRangeFwd.IsRangeFwd := ⟨fun _ _ _ => rfl, fun _ _ _ _ => rfl, rfl⟩
example : refRangeBwd.IsRangeBwd := ⟨fun _ _ _ => rfl, fun _ _ _ _ => rfl, rfl⟩
example : refWindow.IsRange := ⟨fun _ _ _ _ => rfl, fun _ _ _ _ => rfl, fun _ _ _ => rfl, fun _ _ _ => rfl, fun _ _ _ => rfl⟩
example : IsNormEnd refNormEnd := by
  intro n nb e hn hnb
  unfold refNormEnd
  refine ⟨by simp, fun h0 h1 => ?_⟩
  have : ¬ (e < 0 ∨ n < e) := by omega
  simp [this]
-- the byte-length defaulting is good enough for the guard style, not for the range style
example : IsNormEndAtLeast refNormEndBytes := by
  intro n nb e hn hnb
  unfold refNormEndBytes
  refine ⟨by simp; omega, fun h0 h1 => ?_⟩
  have : ¬ (e < 0 ∨ nb < e) := by omega
  simp [this]
example : ¬ IsNormEnd refNormEndBytes := by
  intro h
  have := (h 1 2 0 (by omega) (by omega)).1
  simp [refNormEndBytes] at this
example : goDelete refDeleteFwd refDeleteBwd refNormEnd 5 (fun x : Nat => x == 1) 1 (some 4) (some 1) true [1, 1, 2, 1, 1]
    = some [1, 1, 2, 1] := by decide
example : goDelete refDeleteFwd refDeleteBwd refNormEndBytes 9 (fun x : Nat => x == 1) 1 none none false [1, 1, 2, 1, 1]
    = some [1, 2] := by decide
example : goCount refRangeFwd refRangeBwd refNormEnd 5 (fun x : Nat => x == 1) 1 none true [1, 1, 2, 1, 1] = some 3 := by decide
-- the defect repaired by fix 0019: with the byte length as default the loop runs past the last character
example : goCount refRangeFwd refRangeBwd refNormEndBytes 6 (fun x : Nat => x == 1) 1 none false [1, 1, 2, 1, 1] = none := by
  decide
example : goPosition refWindow refDeleteFwd refDeleteBwd (fun i s => s + i) (fun x : Nat => x == 1) 1 (some 4) true [1, 1, 2, 1, 1]
    = some (some 3) := by decide

end SlipVerif.Seq
