import SlipVerif.Model.Types
import SlipVerif.Gen.TypeCode
import SlipVerif.Lemmas.Types
import SlipVerif.Theorems.C16
/-
  C16 — obligations over the regenerated tables (Gen/Hierarchies.lean: the Hierarchy() literals of
  package slip and the built-in class table of pkg/clos/built-in.go). Re-proved by `decide`
  whenever the extractor output changes; a failure to build this module means a code change broke
  the coherence of the type predicates.
-/
namespace SlipVerif.Types.Gen
open SlipVerif.Types SlipVerif.Gen.Hierarchies

/-- known incoherence of the unchanged tree (findings/C16.json, signature
    `type-law=supertype-typep type=sequence kind=array`): the class table makes `array` a subclass
    of `sequence` while `(*Array).Hierarchy()` is `[array t]`. -/
def knownIncoherent : List (String × String) := [("array", "sequence")]

/-- `subtypep` is reflexive on every registered class. -/
theorem subtype_refl : ∀ c ∈ classNames classes, subtypep classes c c = true := by
  decide +kernel

/-- `subtypep` is transitive on the registered classes. -/
theorem subtype_trans : ∀ a ∈ classNames classes, ∀ b ∈ classNames classes, ∀ c ∈ classNames classes,
    subtypep classes a b = true → subtypep classes b c = true → subtypep classes a c = true := by
  decide +kernel

/-- `subtypep` is antisymmetric (the superclass chains have no cycle). -/
theorem subtype_antisymm : ∀ a ∈ classNames classes, ∀ b ∈ classNames classes,
    subtypep classes a b = true → subtypep classes b a = true → a = b := by
  decide +kernel

/-- literals with the same `type-of` symbol agree, so the `type-of` symbol determines `typep`. -/
theorem head_determines_list : headDetermines hierarchies = true := by
  decide +kernel

/-- every supertype listed by a `Hierarchy()` method that has a literal of its own lists only
    supertypes that the first list also has, in the same order. -/
theorem hierarchy_closed : ∀ e ∈ hierarchies, closedEntry hierarchies e.2 = true := by
  decide +kernel

/-- every object satisfies `typep` of its own `type-of`. -/
theorem typep_of_typeof : ∀ e ∈ hierarchies, ∀ ty, e.2.head? = some ty → typep hierarchies ty ty = true := by
  decide +kernel

/-- `typep` implies `subtypep` of the `type-of`: a registered type symbol an object of a registered
    type belongs to is a superclass of (or the same as) its `type-of` class. -/
theorem typep_implies_subtypep : ∀ e ∈ hierarchies, ∀ ty, e.2.head? = some ty → registered classes ty = true →
    ∀ σ ∈ classNames classes, typep hierarchies ty σ = true → subtypep classes ty σ = true := by
  decide +kernel

/-- every object satisfies `typep` of every supertype of its `type-of` (the converse direction;
    together: `subtypep` agrees with `typep`), except the listed known incoherence. -/
theorem subtypep_implies_typep : ∀ e ∈ hierarchies, ∀ ty, e.2.head? = some ty →
    ∀ σ ∈ classNames classes, subtypep classes ty σ = true → (ty, σ) ∉ knownIncoherent →
    typep hierarchies ty σ = true := by
  decide +kernel

/-- every result type the modelled `coerce` targets produce belongs to the target type. -/
theorem coerce_result_type : ∀ p ∈ coerceResults, ∀ ρ ∈ p.2, typep hierarchies ρ p.1 = true := by
  decide +kernel

/-- `subtypep` on two-element specifiers such as `(vector fixnum)` is reflexive on the registered
    classes … -/
theorem specSub_refl_gen (s : TSpec) (hs : specRegistered classes s = true) : specSub classes s s = true :=
  specSub_refl classes (fun c hc => subtype_refl c (mem_classNames_of_registered classes c hc)) s hs

/-- … and transitive -/
theorem specSub_trans_gen (s t u : TSpec) (h1 : specSub classes s t = true) (h2 : specSub classes t u = true) :
    specSub classes s u = true :=
  specSub_trans classes (fun a b c hab hbc =>
    subtype_trans a (mem_classNames_of_registered classes a (registered_of_subtypep classes a b hab).1)
      b (mem_classNames_of_registered classes b (registered_of_subtypep classes a b hab).2)
      c (mem_classNames_of_registered classes c (registered_of_subtypep classes b c hbc).2) hab hbc) s t u h1 h2

/-! ### the code of typep / type-of / subtypep (Gen/TypeCode.lean, extract/typecode.go)

The registry model (Model/ClassReg.lean, Theorems/C16Dyn.lean) answers from the current
definitions and the class of the object alone. The code does so as long as the three functions keep no
state of their own between calls and consult `Hierarchy()` / `FindClass` + `Inherits`. -/

open SlipVerif.Gen.TypeCode in
/-- typep, type-of and subtypep refer to no package-level variable (no memo, cache or counter
    survives a call): their answers are functions of the arguments and the class registry -/
theorem type_predicates_stateless : typepState = [] ∧ typeOfState = [] ∧ subtypepState = [] := by
  decide

open SlipVerif.Gen.TypeCode in
/-- typep and type-of consult the object's `Hierarchy()`, subtypep consults the registry
    (`FindClass`) and `Class.Inherits` -/
theorem type_predicates_consult :
    typepCalls.contains "Hierarchy" = true ∧ typeOfCalls.contains "Hierarchy" = true ∧
    subtypepCalls.contains "FindClass" = true ∧ subtypepCalls.contains "Inherits" = true := by
  decide

end SlipVerif.Types.Gen
