import SlipVerif.Lemmas.Dispatch
/-
  C10 — generic dispatch equals the specification and is unaffected by its cache.

  The statements are about `SlipVerif.Dispatch.step` / `runOps` (the implementation-shaped model
  the correspondence harness runs against pkg/generic) and `spec` / `tableOf` (the property's
  statement: no cache, no fast path).  All of them hold for arbitrary class precedence lists of
  the arguments of every single call (so for classes redefined in the middle of a history, and for
  instances of the old and the new definition of a class used side by side), arbitrary numbers of
  required arguments and arbitrary histories.
-/
namespace SlipVerif.Dispatch

/-! ## 1. the nested hierarchy walk enumerates the applicable tuples in lexicographic order -/

theorem keys_sorted (precs : List (List Cls)) : (keys precs).Pairwise (MoreSpecific precs) := by
  induction precs with
  | nil => simp [keys]
  | cons p ps ih =>
    simp only [keys]
    rw [List.pairwise_flatMap]
    constructor
    · intro c _
      rw [List.pairwise_map]
      exact ih.imp (fun h => Or.inr ⟨rfl, h⟩)
    · have hp : p.Pairwise (fun a b => Precedes p a b) :=
        List.pairwise_iff_forall_sublist.mpr (fun h => h)
      refine hp.imp ?_
      intro a b hab x hx y hy
      simp only [List.mem_map] at hx hy
      obtain ⟨x', _, rfl⟩ := hx
      obtain ⟨y', _, rfl⟩ := hy
      exact Or.inl hab

/-- The walk of `Aux.collectMethods` visits exactly the specializer tuples applicable to the
    arguments (one class from each argument's precedence list), in lexicographic precedence order
    (most specific first, leftmost argument most significant), and returns the combinations
    stored under the visited tuples in that order. -/
theorem collect_is_lex_sorted (ms : Methods) (precs : List (List Cls)) :
    collect ms precs [] = (keys precs).filterMap (lookup ms)
    ∧ (∀ k, k ∈ keys precs ↔ Applicable k precs)
    ∧ (keys precs).Pairwise (MoreSpecific precs) :=
  ⟨collect_nil_pre ms precs, mem_keys precs, keys_sorted precs⟩

example : collect [([2, 0], ⟨some ⟨7, .stop⟩, none, none, none⟩), ([1, 1], ⟨some ⟨8, .stop⟩, none, none, none⟩)]
    [[2, 1, 0], [1, 0]] [] = [⟨some ⟨7, .stop⟩, none, none, none⟩, ⟨some ⟨8, .stop⟩, none, none, none⟩] := by decide

/-- With duplicate-free precedence lists no tuple is visited twice: a method can enter the
    effective method only once. -/
theorem keys_nodup (precs : List (List Cls)) (hnd : ∀ p ∈ precs, p.Nodup) : (keys precs).Nodup := by
  refine (keys_sorted precs).imp ?_
  intro a b hab e
  subst e
  exact moreSpecific_irrefl precs hnd a hab

example : ∀ p ∈ [[3, 2, 1, 0], [1, 0]], p.Nodup := by decide

/-- Exactly the applicable methods take part: a body is among the methods of qualifier `q` used
    for arguments with precedence lists `precs` iff it is defined in the table under a specializer
    tuple that is applicable to those arguments. -/
theorem applicable_exact (t : Table) (precs : List (List Cls)) (q : Qual) (b : Body) :
    b ∈ applicable t precs q ↔ ∃ k, Applicable k precs ∧ t k q = some b := by
  unfold applicable
  rw [List.mem_filterMap]
  constructor
  · rintro ⟨k, hk, hb⟩; exact ⟨k, (mem_keys precs k).1 hk, hb⟩
  · rintro ⟨k, hk, hb⟩; exact ⟨k, (mem_keys precs k).2 hk, hb⟩

example : Applicable [2, 0] [[3, 2, 1, 0], [1, 0]] := by simp [Applicable]

/-! ## 2. running a combined method visits the daemons in the specified order -/

/-- `Method.Call` on a combined method (scan for the next Wrap, `InnerCall` loops) is the
    specified run of the four ordered lists: the :around chain in list order with
    `call-next-method` walking it, then every :before in list order, the first primary, every
    :after in reverse list order. -/
theorem effective_order (eff : List Combo) :
    callEff eff = specRun (eff.filterMap (fun c => c.wrap)) (eff.filterMap (fun c => c.before))
      (eff.filterMap (fun c => c.primary)).head? (eff.filterMap (fun c => c.after)) := by
  unfold callEff specRun
  rw [continueFrom_eq, innerCall_eq, hasInner_eq]

/-- `next-method-p` in an :around body (`WhopLoc.HasNext`) holds iff a later combination has an
    :around method or some combination has a primary, :before or :after method. -/
theorem next_method_p_iff (all rest : List Combo) :
    (hasWrap rest || hasInner all) = true ↔
      (∃ c ∈ rest, c.wrap.isSome = true) ∨
      (∃ c ∈ all, c.primary.isSome = true ∨ c.before.isSome = true ∨ c.after.isSome = true) := by
  simp [hasWrap, hasInner, List.any_eq_true, or_assoc]

/-- The specified order in the words of the property: when every applicable :around method
    continues and there is something inside, the bodies start in the order all :around (given most
    specific first), all :before, the primary, all :after reversed (least specific first), and the
    call returns the primary's value. -/
theorem spec_order (ar be : List Body) (pr : Option Body) (af : List Body)
    (hcont : ∀ b ∈ ar, b.mode ≠ .stop)
    (hin : (!be.isEmpty || pr.isSome || !af.isEmpty) = true) :
    entered (specRun ar be pr af).trace
        = ar.map (·.id) ++ be.map (·.id) ++ pr.toList.map (·.id) ++ af.reverse.map (·.id)
    ∧ (specRun ar be pr af).res = .val (pr.map (·.id)) := by
  unfold specRun
  rw [hin]
  induction ar with
  | nil =>
    constructor
    · cases pr <;>
        simp [specArounds, specInner, entered_append, entered_runs, entered_runs_rev, entered]
    · rfl
  | cons b rest ih =>
    have ih := ih (fun b hb => hcont b (by simp [hb]))
    obtain ⟨ih1, ih2⟩ := ih
    have hm := hcont b (by simp)
    simp only [specArounds, Bool.or_true]
    cases hmode : b.mode with
    | stop => exact absurd hmode hm
    | guarded =>
      simp only [runAround, hmode, if_true, ih2]
      constructor <;> simp [entered, entered_append, ih1]
    | direct =>
      simp only [runAround, hmode, if_true, ih2]
      constructor <;> simp [entered, entered_append, ih1]

example : (∀ b ∈ [(⟨1, .guarded⟩ : Body), ⟨2, .direct⟩], b.mode ≠ .stop)
    ∧ (!([] : List Body).isEmpty || (some (⟨3, .stop⟩ : Body)).isSome || !([] : List Body).isEmpty) = true := by
  decide

theorem specArounds_res (inner : Out) (hasInner : Bool) (ar : List Body)
    (hi : inner.res ≠ .noApplicable) : (specArounds inner hasInner ar).res ≠ .noApplicable := by
  induction ar with
  | nil => exact hi
  | cons b rest ih =>
    simp only [specArounds, runAround]
    cases b.mode <;> cases (!rest.isEmpty || hasInner) <;> simp
    all_goals
      cases hr : (specArounds inner hasInner rest).res <;> simp_all

/-- no-applicable-method is signalled exactly when no method of any qualifier is applicable -/
theorem spec_noApplicable_iff (t : Table) (precs : Precs) :
    (spec t precs).res = .noApplicable ↔ ∀ q, applicable t precs q = [] := by
  unfold spec
  simp only []
  constructor
  · intro h q
    by_cases hc : ((applicable t precs .around).isEmpty && (applicable t precs .before).isEmpty
        && (applicable t precs .primary).isEmpty && (applicable t precs .after).isEmpty) = true
    · simp only [Bool.and_eq_true, List.isEmpty_iff] at hc
      obtain ⟨⟨⟨h1, h2⟩, h3⟩, h4⟩ := hc
      cases q <;> assumption
    · rw [if_neg hc] at h
      exact absurd h (specArounds_res _ _ _ (by simp [specInner]))
  · intro h
    simp [h .around, h .before, h .primary, h .after]

/-! ## 3. the cache and the fast path stay a function of the method table -/

/-- The invariant of `generic.Aux`: no empty combination is stored, every cached effective method
    is what the walk would build now for its key — the class precedence lists of the arguments it
    was built for — (and is not empty), and the fast-path caller is what `updateDefaultCaller`
    would compute now. -/
structure Inv (E : Env) (a : Aux) : Prop where
  noEmpty : NoEmpty a.methods
  cache : ∀ k e, lookup a.cache k = some e → e = collect a.methods k [] ∧ e ≠ []
  dflt : a.dflt = dfltOf E.tC E.n a.methods

theorem cache_coherent_init (E : Env) : Inv E Aux.init :=
  ⟨noEmpty_nil, by intro k e h; simp [Aux.init, lookup] at h, rfl⟩

/-- every operation preserves the invariant -/
theorem cache_coherent (E : Env) (a : Aux) (op : Op) (h : Inv E a) : Inv E (step E a op).1 := by
  cases op with
  | defmethod q k b =>
    exact ⟨noEmpty_addMethod _ _ _ _ h.noEmpty, by intro k e he; simp [step, lookup] at he, rfl⟩
  | remove q k =>
    simp only [step]
    cases hl : lookup a.methods k with
    | none => exact h
    | some c =>
      exact ⟨noEmpty_removeMethod _ _ _ h.noEmpty, by intro k e he; simp [lookup] at he, rfl⟩
  | methods precs => exact h
  | redefine => exact cache_coherent_init E
  | call precs =>
    simp only [step]
    cases hd : a.dflt with
    | some b => exact h
    | none =>
      cases hc : lookup a.cache precs with
      | some eff => exact h
      | none =>
        by_cases he : (collect a.methods precs []).isEmpty = true
        · simp only [he, if_true]; exact h
        · have he' : (collect a.methods precs []).isEmpty = false := by simpa using he
          simp only [he', Bool.false_eq_true, if_false]
          refine ⟨h.noEmpty, ?_, hd.symm.trans h.dflt⟩
          intro k e hk
          simp only [lookup_insert] at hk
          by_cases hkc : k = precs
          · subst hkc
            simp at hk
            subst hk
            refine ⟨rfl, ?_⟩
            intro hnil
            exact he (by simp [hnil])
          · simp [hkc] at hk
            exact h.cache k e hk

example : Inv ⟨0, 1⟩ (step ⟨0, 1⟩ Aux.init (.defmethod .primary [0] ⟨1, .stop⟩)).1 :=
  cache_coherent _ _ _ (cache_coherent_init _)

/-- **Eviction is safe.** Dropping any cache entry at any time (a bounded cache, a selective
    invalidation that drops more than it must, the conditional `if 0 < len(aux.cache)` reset)
    keeps the invariant: the proofs below need the cache to hold nothing wrong, never to hold
    anything. -/
theorem cache_eviction_safe (E : Env) (a : Aux) (k : Precs) (h : Inv E a) :
    Inv E { a with cache := erase a.cache k } := by
  refine ⟨h.noEmpty, ?_, h.dflt⟩
  intro k' e hk
  simp only [lookup_erase] at hk
  by_cases hkk : k' = k
  · simp [hkk] at hk
  · simp [hkk] at hk
    exact h.cache k' e hk

/-- … and so is dropping the whole cache without a table change. -/
theorem cache_flush_safe (E : Env) (a : Aux) (h : Inv E a) : Inv E { a with cache := [] } :=
  ⟨h.noEmpty, by intro k e hk; simp [lookup] at hk, h.dflt⟩

/-- A call after an eviction still equals the specification (instance of `call_eq_spec` below is
    `call_after_eviction_eq_spec`). -/
example : Inv ⟨0, 1⟩ { (step ⟨0, 1⟩ (step ⟨0, 1⟩ Aux.init (.defmethod .before [0] ⟨1, .stop⟩)).1 (.call [[2, 0]])).1
    with cache := erase (step ⟨0, 1⟩ (step ⟨0, 1⟩ Aux.init (.defmethod .before [0] ⟨1, .stop⟩)).1 (.call [[2, 0]])).1.cache [[2, 0]] } :=
  cache_eviction_safe _ _ _ (cache_coherent _ _ _ (cache_coherent _ _ _ (cache_coherent_init _)))

/-- the abstract table follows the history: `defmethod` sets and `remove-method` clears exactly
    the addressed (specializer tuple, qualifier) slot; a call changes nothing -/
theorem table_step (E : Env) (a : Aux) (op : Op) :
    absT (step E a op).1.methods = tableOf [op] (absT a.methods) := by
  cases op with
  | defmethod q k b => simp [step, tableOf, absT_addMethod]
  | remove q k =>
    simp only [step, tableOf]
    cases hl : lookup a.methods k with
    | none =>
      have := absT_removeMethod a.methods q k
      simp only [removeMethod, hl] at this
      exact this
    | some c => exact absT_removeMethod a.methods q k
  | methods precs => rfl
  | redefine => simp only [step, tableOf]; exact absT_init
  | call precs =>
    simp only [step, tableOf]
    cases a.dflt with
    | some b => rfl
    | none =>
      cases lookup a.cache precs with
      | some eff => rfl
      | none =>
        by_cases he : (collect a.methods precs []).isEmpty = true
        · simp [he]
        · simp [he]

/-! ## 4. a call equals the specification -/

/-- building the effective method from the table and running it is the specification -/
theorem build_eq_spec (ms : Methods) (hne : NoEmpty ms) (precs : Precs) :
    (if (collect ms precs []).isEmpty then (⟨[], .noApplicable⟩ : Out)
     else callEff (collect ms precs [])) = spec (absT ms) precs := by
  have hmem : ∀ c ∈ collect ms precs [], c.isEmpty = false := by
    intro c hc
    rw [collect_nil_pre, List.mem_filterMap] at hc
    obtain ⟨k, _, hk⟩ := hc
    exact hne k c hk
  rw [eff_empty_iff _ hmem, effective_order]
  unfold spec
  simp only [collect_nil_pre]
  have e1 := collected_get ms precs .around
  have e2 := collected_get ms precs .before
  have e3 := collected_get ms precs .primary
  have e4 := collected_get ms precs .after
  simp only [Combo.get] at e1 e2 e3 e4
  rw [e1, e2, e3, e4]

example : NoEmpty [([1], ⟨some ⟨7, .stop⟩, none, none, none⟩)] := by
  intro k c h
  by_cases hk : [1] = k <;> simp [lookup, hk] at h
  subst h; rfl

/-- the single-method fast path returns what the specification says -/
theorem dflt_eq_spec (E : Env) (ms : Methods) (b : Body) (precs : Precs)
    (hT : ∀ p ∈ precs, E.tC ∈ p) (hlen : precs.length = E.n) (hd : dfltOf E.tC E.n ms = some b) :
    (⟨[.run b.id], .val (some b.id)⟩ : Out) = spec (absT ms) precs := by
  unfold dfltOf at hd
  match ms, hd with
  | [(k, c)], hd =>
    by_cases hcond : k = List.replicate E.n E.tC ∧ c.before = none ∧ c.after = none ∧ c.wrap = none
    · simp only [hcond, and_self, if_true] at hd
      obtain ⟨hk, hb, ha, hw⟩ := hcond
      have hget : ∀ q k', absT [(k, c)] k' q = if k = k' then c.get q else none := by
        intro q k'
        by_cases e : k = k' <;> simp [absT, lookup, e]
      have hnone : ∀ q, c.get q = none → applicable (absT [(k, c)]) precs q = [] := by
        intro q hq
        unfold applicable
        rw [List.filterMap_eq_nil_iff]
        intro k' _
        rw [hget]; split <;> simp [hq]
      have hprim : (applicable (absT [(k, c)]) precs .primary).head? = some b := by
        unfold applicable
        apply filterMap_head_of_const
        · intro k' _
          rw [hget]; split
          · left; simpa [Combo.get] using hd
          · right; rfl
        · refine ⟨k, ?_, ?_⟩
          · rw [mem_keys, hk, ← hlen]
            exact applicable_replicate precs E.tC hT
          · rw [hget]; simpa [Combo.get] using hd
      unfold spec
      simp only []
      rw [hnone .around (by simpa [Combo.get] using hw), hnone .before (by simpa [Combo.get] using hb),
        hnone .after (by simpa [Combo.get] using ha), hprim]
      cases hp : applicable (absT [(k, c)]) precs .primary with
      | nil => rw [hp] at hprim; simp at hprim
      | cons x r => simp [specRun, specArounds, specInner]
    · simp [hcond] at hd

example : dfltOf 0 1 [([0], ⟨some ⟨1, .stop⟩, none, none, none⟩)] = some ⟨1, .stop⟩ := by decide

/-- a call is made with one class precedence list per required argument, each containing `t` -/
def GoodArgs (E : Env) (precs : Precs) : Prop := precs.length = E.n ∧ ∀ p ∈ precs, E.tC ∈ p

example : GoodArgs ⟨0, 2⟩ [[3, 2, 0], [0]] := by simp [GoodArgs]

/-- **A call equals the specification on the current table**, whatever is in the cache and
    whether or not the fast path is taken — provided the state satisfies the invariant. -/
theorem call_eq_spec (E : Env) (a : Aux) (h : Inv E a) (precs : Precs) (hg : GoodArgs E precs) :
    (step E a (.call precs)).2 = spec (absT a.methods) precs := by
  simp only [step]
  cases hd : a.dflt with
  | some b =>
    exact dflt_eq_spec E a.methods b precs hg.2 hg.1 (h.dflt ▸ hd)
  | none =>
    cases hc : lookup a.cache precs with
    | some eff =>
      obtain ⟨he, hne⟩ := h.cache precs eff hc
      have := build_eq_spec a.methods h.noEmpty precs
      rw [← he] at this
      have hne' : eff.isEmpty = false := by cases eff <;> simp_all
      simp only [hne'] at this
      simpa using this
    | none =>
      have := build_eq_spec a.methods h.noEmpty precs
      by_cases he : (collect a.methods precs []).isEmpty = true
      · simp only [he, if_true] at this ⊢; exact this
      · simp only [he] at this ⊢; exact this

/-- a call made after any cache entry was evicted equals the specification as well -/
theorem call_after_eviction_eq_spec (E : Env) (a : Aux) (h : Inv E a) (k precs : Precs) (hg : GoodArgs E precs) :
    (step E { a with cache := erase a.cache k } (.call precs)).2 = spec (absT a.methods) precs :=
  call_eq_spec E _ (cache_eviction_safe E a k h) precs hg

/-- **compute-applicable-methods equals the specification**: the second copy of the nested walk
    (`Aux.compMeths` with its accumulator, `Aux.compMethList`) lists the methods the property names,
    in the order they run: every applicable :around and :before most specific first, the most
    specific primary, every :after least specific first. It never looks at the cache. -/
theorem compMethList_eq_spec (ms : Methods) (precs : Precs) :
    compMethList ms precs = specMethodList (absT ms) precs := by
  unfold compMethList specMethodList
  simp only [compMeths_eq, foldl_compStep, MethComp.empty, List.nil_append, collect_nil_pre]
  have e1 := collected_get ms precs .around
  have e2 := collected_get ms precs .before
  have e3 := collected_get ms precs .primary
  have e4 := collected_get ms precs .after
  simp only [Combo.get] at e1 e2 e3 e4
  rw [e1, e2, e3, e4]

/-- The list of compute-applicable-methods is the order in which a call starts the bodies (when
    every :around continues and something is inside), and the call's value is its primary's. -/
theorem methodList_is_run_order (t : Table) (precs : Precs)
    (hcont : ∀ b ∈ applicable t precs .around, b.mode ≠ .stop)
    (hin : (!(applicable t precs .before).isEmpty || (applicable t precs .primary).head?.isSome
            || !(applicable t precs .after).isEmpty) = true) :
    entered (spec t precs).trace = (specMethodList t precs).map (·.2) := by
  have hne : ((applicable t precs .around).isEmpty && (applicable t precs .before).isEmpty
      && (applicable t precs .primary).isEmpty && (applicable t precs .after).isEmpty) = false := by
    cases hb : applicable t precs .before <;> cases hp : applicable t precs .primary <;>
      cases ha : applicable t precs .after <;> simp_all
  unfold spec specMethodList
  simp only [hne, Bool.false_eq_true, if_false]
  rw [(spec_order _ _ _ _ hcont hin).1]
  simp [List.map_append, List.map_map, Function.comp_def, Option.toList]

example : (∀ b ∈ applicable (Table.empty.set [0] .primary (some ⟨1, .stop⟩)) [[2, 0]] .around, b.mode ≠ .stop)
    ∧ (!(applicable (Table.empty.set [0] .primary (some ⟨1, .stop⟩)) [[2, 0]] .before).isEmpty
        || (applicable (Table.empty.set [0] .primary (some ⟨1, .stop⟩)) [[2, 0]] .primary).head?.isSome
        || !(applicable (Table.empty.set [0] .primary (some ⟨1, .stop⟩)) [[2, 0]] .after).isEmpty) = true := by
  decide

/-! ## 5. histories -/

theorem run_inv (E : Env) (a : Aux) (ops : List Op) (h : Inv E a) : Inv E (run E a ops) := by
  induction ops generalizing a with
  | nil => exact h
  | cons op ops ih => rw [run_cons]; exact ih _ (cache_coherent E a op h)

theorem run_table (E : Env) (a : Aux) (ops : List Op) :
    absT (run E a ops).methods = tableOf ops (absT a.methods) := by
  induction ops generalizing a with
  | nil => rfl
  | cons op ops ih => rw [run_cons, ih, table_step, ← tableOf_cons]

/-- every call of a history is made with one class precedence list per required argument, each
    containing `t` -/
def WellFormed (E : Env) (ops : List Op) : Prop := ∀ precs, Op.call precs ∈ ops → GoodArgs E precs

/-- **History independence.** After any history `ops` of defmethod / remove-method / call /
    compute-applicable-methods operations, a call with arguments whose class precedence lists are
    `precs` produces exactly what the cache-free specification yields on the table that `ops`
    defines: earlier calls (and whatever they left in the cache or the fast path) have no
    influence. The precedence lists of this call and of the earlier ones are arbitrary: the
    statement covers classes redefined during the history. -/
theorem dispatch_history_independent (E : Env) (ops : List Op) (precs : Precs) (hg : GoodArgs E precs) :
    (step E (run E Aux.init ops) (.call precs)).2 = spec (tableOf ops Table.empty) precs := by
  rw [call_eq_spec E _ (run_inv E _ ops (cache_coherent_init E)) precs hg, run_table, absT_init]

/-- compute-applicable-methods after any history lists the specification's methods -/
theorem methods_history_independent (E : Env) (ops : List Op) (precs : Precs) :
    (step E (run E Aux.init ops) (.methods precs)).2
      = ⟨[], .methods (specMethodList (tableOf ops Table.empty) precs)⟩ := by
  simp only [step]
  rw [compMethList_eq_spec, run_table, absT_init]

/-- **Cache coherence under class redefinition.** Two arguments of one class *name* (the head of
    the precedence list) but different precedence lists — an instance made before and one made
    after `(defclass c …)` was evaluated again with other superclasses, or after a superclass was
    redefined — never share a cache entry: each call, wherever it stands in the history and
    whatever was called before, gets the specification's outcome for its own precedence list. -/
theorem class_redefinition_coherent (E : Env) (ops mid : List Op) (c : Cls) (old new : List Cls)
    (ho : GoodArgs E [c :: old]) (hn : GoodArgs E [c :: new]) :
    (step E (run E Aux.init ops) (.call [c :: old])).2 = spec (tableOf ops Table.empty) [c :: old]
    ∧ (step E (run E Aux.init (ops ++ Op.call [c :: old] :: mid)) (.call [c :: new])).2
        = spec (tableOf mid (tableOf ops Table.empty)) [c :: new] := by
  refine ⟨dispatch_history_independent E ops _ ho, ?_⟩
  rw [dispatch_history_independent E _ _ hn, tableOf_append, tableOf_cons]
  rfl

example : GoodArgs ⟨0, 1⟩ [3 :: [0]] ∧ GoodArgs ⟨0, 1⟩ [3 :: [2, 0]] := by simp [GoodArgs]

/-- test: class 3 first has the precedence list (3 t), is called (the entry is cached), then is
    redefined below class 2: the next call with a new instance runs the method on 2, a call with an
    instance made before the redefinition still runs the one on t -/
example : (runOps ⟨0, 1⟩ Aux.init
      [.defmethod .primary [0] ⟨1, .stop⟩, .defmethod .primary [2] ⟨2, .stop⟩, .defmethod .before [0] ⟨3, .stop⟩,
       .call [[3, 0]], .call [[3, 2, 0]], .call [[3, 0]]]).2.map (·.res)
    = [.noCall, .noCall, .noCall, .val (some 1), .val (some 2), .val (some 1)] := by decide

/-- A defmethod or remove-method issued after any history (with earlier calls in it) takes effect
    on the very next call: that call sees the table with exactly that one slot changed. -/
theorem mutation_takes_effect_on_next_call (E : Env) (ops : List Op) (m : Op) (precs : Precs)
    (hg : GoodArgs E precs) :
    (step E (run E Aux.init (ops ++ [m])) (.call precs)).2
      = spec (tableOf [m] (tableOf ops Table.empty)) precs := by
  rw [dispatch_history_independent E _ precs hg, tableOf_append]

/-- **A re-evaluated defgeneric forgets everything.** Whatever was defined and called before
    `(defgeneric g …)` is evaluated again — in particular calls that filled the cache or set up the
    fast path for the very class tuple used afterwards — the next call sees exactly the methods
    defined since (`ops'`); directly after the redefinition that is no-applicable-method. -/
theorem redefine_forgets_history (E : Env) (ops ops' : List Op) (precs : Precs) (hg : GoodArgs E precs) :
    (step E (run E Aux.init (ops ++ Op.redefine :: ops')) (.call precs)).2
      = spec (tableOf ops' Table.empty) precs := by
  rw [dispatch_history_independent E _ precs hg, tableOf_append, tableOf_cons]
  rfl

theorem call_after_redefine_noApplicable (E : Env) (ops : List Op) (precs : Precs) (hg : GoodArgs E precs) :
    (step E (run E Aux.init (ops ++ [Op.redefine])) (.call precs)).2 = ⟨[], .noApplicable⟩ := by
  rw [redefine_forgets_history E ops [] precs hg]
  have h : ∀ q, applicable (tableOf [] Table.empty) precs q = [] := by
    intro q; simp [applicable, tableOf, Table.empty]
  unfold spec
  simp [h]

/-- test: the seeded history — method, call (cache filled), defgeneric again, same call -/
example : (runOps ⟨0, 1⟩ Aux.init
      [.defmethod .primary [2] ⟨1, .stop⟩, .defmethod .before [0] ⟨2, .stop⟩, .call [[3, 2, 0]], .redefine,
       .call [[3, 2, 0]]]).2.map (·.res)
    = [.noCall, .noCall, .val (some 1), .noCall, .noApplicable] := by decide

/-- two histories that define the same table are indistinguishable by any later call -/
theorem same_table_same_outcome (E : Env) (ops1 ops2 : List Op) (precs : Precs) (hg : GoodArgs E precs)
    (htab : tableOf ops1 Table.empty = tableOf ops2 Table.empty) :
    (step E (run E Aux.init ops1) (.call precs)).2 = (step E (run E Aux.init ops2) (.call precs)).2 := by
  rw [dispatch_history_independent E ops1 precs hg, dispatch_history_independent E ops2 precs hg, htab]

example : tableOf [.defmethod .primary [0] ⟨1, .stop⟩, .call [[3, 0]], .defmethod .primary [0] ⟨2, .stop⟩] Table.empty
    = tableOf [.defmethod .primary [0] ⟨2, .stop⟩] Table.empty := by
  funext k q
  simp only [tableOf, Table.set, Table.empty]
  by_cases h : k = [0] ∧ q = Qual.primary <;> simp [h]

/-- the operations of a history that change the method table -/
def isMutation : Op → Bool
  | .defmethod .. => true
  | .remove .. => true
  | .redefine => true
  | _ => false

/-- Calls never change the table: the table of a history is that of its mutations alone. -/
theorem calls_do_not_matter (ops : List Op) (t : Table) :
    tableOf ops t = tableOf (ops.filter isMutation) t := by
  induction ops generalizing t with
  | nil => rfl
  | cons op ops ih =>
    cases op with
    | call precs => simpa [tableOf, isMutation] using ih t
    | methods precs => simpa [tableOf, isMutation] using ih t
    | defmethod q k b =>
      have : (Op.defmethod q k b :: ops).filter isMutation = Op.defmethod q k b :: ops.filter isMutation := rfl
      rw [this]; simpa [tableOf] using ih _
    | remove q k =>
      have : (Op.remove q k :: ops).filter isMutation = Op.remove q k :: ops.filter isMutation := rfl
      rw [this]; simpa [tableOf] using ih _
    | redefine =>
      have : (Op.redefine :: ops).filter isMutation = Op.redefine :: ops.filter isMutation := rfl
      rw [this]; simpa [tableOf] using ih _

/-- **Post-quiescence judgement of the race rounds.** However the racing calls were interleaved
    with the mutations (two histories with the same mutations in the same order, calls anywhere),
    a call made after everything has finished has one outcome: the specification's on the table of
    the mutations. This is what the harness demands of the implementation after each round. -/
theorem post_quiescence_outcome (E : Env) (ops1 ops2 : List Op) (precs : Precs) (hg : GoodArgs E precs)
    (hmut : ops1.filter isMutation = ops2.filter isMutation) :
    (step E (run E Aux.init ops1) (.call precs)).2 = (step E (run E Aux.init ops2) (.call precs)).2 := by
  apply same_table_same_outcome E ops1 ops2 precs hg
  rw [calls_do_not_matter ops1, calls_do_not_matter ops2, hmut]

example : ([Op.call [[3, 0]], .defmethod .primary [0] ⟨1, .stop⟩, .call [[2, 0]]].filter isMutation)
    = ([Op.defmethod .primary [0] ⟨1, .stop⟩, .call [[3, 0]]].filter isMutation) := by decide

theorem runOps_eq_specOuts (E : Env) (a : Aux) (h : Inv E a)
    (ops : List Op) (hwf : WellFormed E ops) :
    (runOps E a ops).2 = specOuts ops (absT a.methods) := by
  induction ops generalizing a with
  | nil => rfl
  | cons op ops ih =>
    have hwf' : WellFormed E ops := fun cs hcs => hwf cs (by simp [hcs])
    have ih := ih (step E a op).1 (cache_coherent E a op h) hwf'
    simp only [runOps]
    rw [ih, table_step]
    cases op with
    | defmethod q k b => simp [specOuts, tableOf, step]
    | remove q k =>
      simp only [specOuts, tableOf]
      congr 1
      simp only [step]
      cases lookup a.methods k <;> rfl
    | methods precs =>
      simp only [specOuts, tableOf, step, compMethList_eq_spec]
    | redefine => simp [specOuts, tableOf, step]
    | call precs =>
      simp only [specOuts, tableOf]
      rw [call_eq_spec E a h precs (hwf precs (by simp))]

/-- **The whole observable behaviour of a history** (what the model driver prints and the
    harness compares with the implementation) is the specification's. -/
theorem history_outcomes_eq_spec (E : Env) (ops : List Op) (hwf : WellFormed E ops) :
    (runOps E Aux.init ops).2 = specOuts ops Table.empty := by
  rw [runOps_eq_specOuts E _ (cache_coherent_init E) ops hwf, absT_init]

example : WellFormed ⟨0, 1⟩
    [.defmethod .primary [0] ⟨1, .stop⟩, .call [[3, 0]], .remove .primary [0], .call [[2, 0]]] := by
  intro cs h
  simp at h
  rcases h with rfl | rfl <;> simp [GoodArgs]

end SlipVerif.Dispatch
