import SlipVerif.Model.JsonText
/-
  C18 — the configuration of the bag package as state: the variables `*bag-time-format*` and
  `*bag-time-wrap*` (pkg/bag/pkg.go), the converter derived from them (`updateConverter`), and
  what that converter does to a freshly parsed document (ojg `Converter.Convert`): which leaves
  become time values.  Time values stay opaque tokens: `second:<float token>`, `nano:<integer>`,
  `text:<string>`.

  The point of modelling the converter as a *stored* component next to the variables is the
  property "after any history of settings the behaviour depends on the current values only"
  (Theorems/C18: `conv_is_derived`, `reset_restores_default`).

  Core Lean only.
-/
namespace SlipVerif.Json

open J

/-- the converter `updateConverter` installs -/
inductive Conv where
  | off
  | nano                       -- integers from 2000-01-01 in nanoseconds on
  | rfc3339                    -- RFC 3339 strings and plain dates
  | second                     -- floats between 2000-01-01 and 2050-01-01 in seconds
  | layout (fmt : String)      -- strings that parse with the Go layout `fmt`
  | wrap (key : String) (fmt : String)   -- objects `{key: <time text or nanoseconds>}`
  deriving DecidableEq, Repr

/-- the two variables ("" stands for nil) and the converter built from them -/
structure Cfg where
  format : String
  wrap : String
  conv : Conv
  deriving DecidableEq, Repr

def rfc3339nano : String := "2006-01-02T15:04:05.999999999Z07:00"

/-- the converter the current values call for -/
def derive (format wrap : String) : Conv :=
  if format = "" then .off
  else if wrap ≠ "" then .wrap wrap format
  else if format = "nano" then .nano
  else if format = rfc3339nano ∨ format = "rfc3339" then .rfc3339
  else if format = "second" then .second
  else .layout format

/-- `updateConverter`: rebuild the stored converter, branch by branch as pkg.go does -/
def updateConverter (c : Cfg) : Cfg :=
  if c.format = "" then { c with conv := .off }
  else if c.wrap ≠ "" then { c with conv := .wrap c.wrap c.format }
  else if c.format = "nano" then { c with conv := .nano }
  else if c.format = rfc3339nano ∨ c.format = "rfc3339" then { c with conv := .rfc3339 }
  else if c.format = "second" then { c with conv := .second }
  else { c with conv := .layout c.format }

def Cfg.init : Cfg := { format := "", wrap := "", conv := .off }

/-- `(setq *bag-time-format* v)` (nil and "" both give "") -/
def setFormat (v : String) (c : Cfg) : Cfg := updateConverter { c with format := v }

/-- `(setq *bag-time-wrap* v)` -/
def setWrap (v : String) (c : Cfg) : Cfg := updateConverter { c with wrap := v }

inductive CfgOp where
  | format (v : String)
  | wrap (v : String)
  deriving Repr

def applyOp (c : Cfg) : CfgOp → Cfg
  | .format v => setFormat v c
  | .wrap v => setWrap v c

def runHistory (ops : List CfgOp) (c : Cfg) : Cfg := ops.foldl applyOp c

/-! ### recognising time text (what Go's time.Parse accepts for the three layouts) -/

def digitsVal (cs : List Char) : Option Nat :=
  if cs.all isDig && !cs.isEmpty then some (natOfDigits cs) else none

def leapYear (y : Nat) : Bool := (y % 4 == 0 && y % 100 != 0) || y % 400 == 0

def daysIn (y m : Nat) : Nat :=
  if m = 2 then (if leapYear y then 29 else 28)
  else if m = 4 ∨ m = 6 ∨ m = 9 ∨ m = 11 then 30 else 31

/-- `YYYY-MM-DD` with a real calendar day -/
def isDateChars (cs : List Char) : Bool :=
  match cs with
  | [y1, y2, y3, y4, d1, m1, m2, d2, a1, a2] =>
    d1 == '-' && d2 == '-' &&
    (match digitsVal [y1, y2, y3, y4], digitsVal [m1, m2], digitsVal [a1, a2] with
     | some y, some m, some d => decide (1 ≤ m) && decide (m ≤ 12) && decide (1 ≤ d) && decide (d ≤ daysIn y m)
     | _, _, _ => false)
  | _ => false

/-- `hh:mm:ss` -/
def isClock (cs : List Char) : Bool :=
  match cs with
  | [h1, h2, c1, m1, m2, c2, s1, s2] =>
    c1 == ':' && c2 == ':' &&
    (match digitsVal [h1, h2], digitsVal [m1, m2], digitsVal [s1, s2] with
     | some h, some m, some s => decide (h ≤ 23) && decide (m ≤ 59) && decide (s ≤ 59)
     | _, _, _ => false)
  | _ => false

/-- `Z` or `±hh:mm` -/
def isZone (cs : List Char) : Bool :=
  match cs with
  | ['Z'] => true
  | [sg, h1, h2, c, m1, m2] =>
    (sg == '+' || sg == '-') && c == ':' &&
    (match digitsVal [h1, h2], digitsVal [m1, m2] with
     | some h, some m => decide (h ≤ 23) && decide (m ≤ 59)
     | _, _ => false)
  | _ => false

/-- optional `.` and digits (Go accepts any number of them), then the zone -/
def isFracZone (cs : List Char) : Bool :=
  match cs with
  | '.' :: rest =>
    let ds := rest.takeWhile isDig
    !ds.isEmpty && isZone (rest.dropWhile isDig)
  | _ => isZone cs

/-- `YYYY-MM-DDThh:mm:ss[.fffffffff](Z|±hh:mm)` -/
def isRFC3339Chars (cs : List Char) : Bool :=
  isDateChars (cs.take 10) && (cs.drop 10).take 1 == ['T'] && isClock ((cs.drop 11).take 8) &&
  isFracZone (cs.drop 19)

def isDate (s : String) : Bool := isDateChars s.toList
def isRFC3339 (s : String) : Bool := isRFC3339Chars s.toList

/-- strings a `layout` converter accepts; the model knows the date layout only -/
def layoutMatches (fmt s : String) : Bool := fmt == "2006-01-02" && isDate s

/-! ### the value of a float token, exactly (for the range test of the `second` converter) -/

/-- mantissa digits (point removed), number of fraction digits, exponent: value = m * 10^(e - f) -/
def splitFloat (cs : List Char) : Option (Bool × Nat × Nat × Int) :=
  let (neg, cs) := match cs with
    | '-' :: r => (true, r)
    | r => (false, r)
  let ip := cs.takeWhile isDig
  let r1 := cs.dropWhile isDig
  let (fp, r2) := match r1 with
    | '.' :: r => (r.takeWhile isDig, r.dropWhile isDig)
    | r => ([], r)
  let ex : Option Int := match r2 with
    | [] => some 0
    | e :: r =>
      if e == 'e' || e == 'E' then
        (match r with
         | '-' :: ds => (digitsVal ds).map (fun n => -(n : Int))
         | '+' :: ds => (digitsVal ds).map (fun n => (n : Int))
         | ds => (digitsVal ds).map (fun n => (n : Int)))
      else none
  if ip.isEmpty && fp.isEmpty then none
  else ex.map (fun e => (neg, natOfDigits (ip ++ fp), fp.length, e))

/-- lo ≤ value ≤ hi for natural bounds, exactly -/
def floatTokInRange (tok : String) (lo hi : Nat) : Bool :=
  match splitFloat tok.toList with
  | some (neg, m, f, e) =>
    if neg then false
    else
      -- value = m * 10^(e - f); compare after scaling both sides by a power of ten
      let sh : Int := e - (f : Int)
      if 0 ≤ sh then
        let v := m * 10 ^ sh.toNat
        decide (lo ≤ v) && decide (v ≤ hi)
      else
        let k := 10 ^ (-sh).toNat
        decide (lo * k ≤ m) && decide (m ≤ hi * k)
  | none => false

/-- ojg keeps a number with 18 or more fraction digits as text (json.Number): no float converter
    sees it -/
def fracDigits (tok : String) : Nat :=
  match (tok.toList.dropWhile (fun c => c != '.')) with
  | _ :: r => (r.takeWhile isDig).length
  | [] => 0

/-- integers a bag holds as int64 (ojg keeps the ones whose magnitude reaches 9223372036854775800
    as json.Number text, which no converter sees) -/
def int64Leaf (i : Int) : Bool := decide (-9223372036854775800 < i) && decide (i < 9223372036854775800)

/-! ### what the converter does to a parsed document -/

/-- the `second` converter fires for floats between 2000-01-01 and 2050-01-01 in seconds, both
    ends included (tied to pkg.go by Theorems/GenC18 `gen_second_range`) -/
def secondLo : Nat := 946684800
def secondHi : Nat := 2524608000
/-- a layout converter looks at strings of at least this many bytes (`gen_layout_min_len`) -/
def layoutMin : Nat := 6
/-- the `nano` converter (ojg.TimeNanoConverter) fires from 2000-01-01 in nanoseconds on -/
def nanoLo : Int := 946684800000000000

/-- a single member object `{key: v}` whose value is time text or nanoseconds -/
def wrapFires (key fmt : String) : Members → Option J
  | [(k, v)] =>
    if k = key then
      match v with
      | str s => if isRFC3339 s || isDate s || layoutMatches fmt s then some (.time ("text:" ++ s)) else none
      | int i => if int64Leaf i then some (.time ("nano:" ++ toString i)) else none
      | _ => none
    else none
  | _ => none

mutual
def convertDoc (c : Conv) : J → J
  | int i =>
    match c with
    | .nano => if decide (nanoLo ≤ i) && int64Leaf i then .time ("nano:" ++ toString i) else int i
    | _ => int i
  | flo t =>
    match c with
    | .second => if floatTokInRange t secondLo secondHi && decide (fracDigits t < 18) then .time ("second:" ++ t) else flo t
    | _ => flo t
  | str s =>
    match c with
    | .rfc3339 =>
      if (decide (20 ≤ s.utf8ByteSize) && decide (s.utf8ByteSize ≤ 35) && isRFC3339 s) ||
         (s.utf8ByteSize == 10 && isDate s) then .time ("text:" ++ s) else str s
    | .layout fmt => if decide (layoutMin ≤ s.utf8ByteSize) && layoutMatches fmt s then .time ("text:" ++ s) else str s
    | _ => str s
  | arr xs => arr (convertL c xs)
  | obj kvs =>
    match c with
    | .wrap key fmt =>
      (match wrapFires key fmt kvs with
       | some t => t
       | none => obj (convertM c kvs))
    | _ => obj (convertM c kvs)
  | j => j
def convertL (c : Conv) : List J → List J
  | [] => []
  | x :: xs => convertDoc c x :: convertL c xs
def convertM (c : Conv) : Members → Members
  | [] => []
  | (k, v) :: kvs => (k, convertDoc c v) :: convertM c kvs
end

/-- what `make-bag`, `:parse`, `bag-parse`, `bag-read`, `:read` hold after parsing `text` under a
    configuration -/
def parseWith (c : Cfg) (text : String) : Except PErr J := (parse text).map (convertDoc c.conv)

end SlipVerif.Json
