/-
  C13 — package visibility is coherent with the use/export graph after any history.

  The state mirrors slip's denormalised per-package tables (package.go): every package has a
  variable table and a function table mapping a name to an *entry* (`*VarVal` / `*FuncInfo`); an
  entry belongs to one owner package (`Pkg`) and carries the export flag (and the value / body).
  A package's table holds its own entries and *copies of the pointers* to exported entries of the
  packages it uses; `Uses` / `Users` are the two directions of the use graph.

  Here an entry object is identified by (owner, name): `defs owner name` is the entry object,
  `cell p name = some owner` says "p's table maps name to the entry owned by owner".  One `Tab`
  is one kind of table (variables or functions) for all packages.  Every operation is one
  transformer written like the (repaired) Go method named in its comment.

  `Graph.resolve` recomputes visibility from the graph alone (own definitions, export flags, use
  lists) — it never looks at a `cell`.  Theorems/C13.lean proves that the tables always agree
  with it.

  Core Lean only (linked into the `slipmodel` driver).
-/
namespace SlipVerif.Pkg

abbrev Pk := Nat   -- package
abbrev Nm := Nat   -- (lower-case) symbol name

/-- An entry object (`VarVal` / `FuncInfo`) without its owner. `val = none` is slip's `Unbound`
    (variables only; a function entry always has a body). -/
structure Def where
  exp : Bool
  val : Option Nat
  deriving DecidableEq, Repr

/-- One kind of table for all packages. -/
structure Tab where
  defs : Pk → Nm → Option Def     -- the entry objects, keyed by owner
  cell : Pk → Nm → Option Pk      -- package table: name ↦ owner of the entry it points to

namespace Tab

def empty : Tab := { defs := fun _ _ => none, cell := fun _ _ => none }

/-- dereference a table cell: the owner and the entry object -/
def entry (t : Tab) (p : Pk) (n : Nm) : Option (Pk × Def) :=
  match t.cell p n with
  | none => none
  | some o => match t.defs o n with
    | none => none
    | some d => some (o, d)

/-- `vv := q.vars[name]; vv != nil && vv.Pkg == q && vv.Export` -/
def ownExp (t : Tab) (q : Pk) (n : Nm) : Bool :=
  match t.entry q n with
  | some (o, d) => decide (o = q) && d.exp
  | none => false

/-- first used package (in `Uses` order) that owns an exported `n` (repaired Go: `inheritVar`,
    `inheritFunc`) -/
def inheritFirst (t : Tab) (us : List Pk) (n : Nm) : Option Pk := us.find? (fun q => t.ownExp q n)

/-- the rebuild loop of `Unuse` walks `Uses` in order and later packages overwrite earlier ones -/
def inheritLast (t : Tab) (us : List Pk) (n : Nm) : Option Pk := us.reverse.find? (fun q => t.ownExp q n)

def setCell (t : Tab) (p : Pk) (n : Nm) (c : Option Pk) : Tab :=
  { t with cell := fun p' n' => if p' = p ∧ n' = n then c else t.cell p' n' }

def setDef (t : Tab) (p : Pk) (n : Nm) (d : Option Def) : Tab :=
  { t with defs := fun p' n' => if p' = p ∧ n' = n then d else t.defs p' n' }

/-- `Use`: copy the exported entries of `pkg` into `obj`'s table; `obj`'s own entries stay. -/
def useCopy (t : Tab) (obj pkg : Pk) : Tab :=
  { t with cell := fun p n =>
      if p = obj then
        (if t.cell obj n = some obj then some obj
         else if t.ownExp pkg n then some pkg
         else t.cell obj n)
      else t.cell p n }

/-- `Unuse`: rebuild `obj`'s table from its own entries and the exported entries of the packages
    still used (`us`). -/
def rebuild (t : Tab) (obj : Pk) (us : List Pk) : Tab :=
  { t with cell := fun p n =>
      if p = obj then
        (if t.cell obj n = some obj then some obj else t.inheritLast us n)
      else t.cell p n }

/-- offer `owner`'s entry `n` to every user of `owner` that has no entry of that name
    (`for _, u := range owner.Users { if _, has := u.vars[name]; !has { u.vars[name] = vv } }`) -/
def push (t : Tab) (users : Pk → List Pk) (owner : Pk) (n : Nm) : Tab :=
  { t with cell := fun p n' =>
      if n' = n ∧ p ∈ users owner ∧ t.cell p n = none then some owner else t.cell p n' }

/-- take `owner`'s entry `n` away from every user that holds it; the user falls back to another
    used package that exports the name
    (`for _, u := range owner.Users { if vv := u.vars[name]; vv != nil && vv.Pkg == owner {
       delete(u.vars, name); u.inheritVar(name) } }`) -/
def retract (t : Tab) (uses users : Pk → List Pk) (owner : Pk) (n : Nm) : Tab :=
  { t with cell := fun p n' =>
      if n' = n ∧ p ∈ users owner ∧ t.cell p n = some owner then t.inheritFirst (uses p) n
      else t.cell p n' }

/-- assignment through `p`'s table (`SetIfHas`, `DefLambda` on an existing entry): the entry object
    `p` sees is changed in place, whoever owns it. (`SetIfHas` also offers an own exported entry
    to the users that lack the name; the users of an exported entry already hold it — `Export`,
    `Use` — so this changes nothing and is not modelled.) -/
def assign (t : Tab) (p : Pk) (n : Nm) (v : Option Nat) : Tab :=
  match t.entry p n with
  | none => t
  | some (o, d) => t.setDef o n (some { d with val := v })

/-- a new entry object owned by `p` is stored in `p`'s table (`Set` / `Export` placeholder /
    `DefLambda` for a new name); an exported entry is offered to `p`'s users. -/
def create (t : Tab) (users : Pk → List Pk) (p : Pk) (n : Nm) (d : Def) : Tab :=
  let t1 := (t.setDef p n (some d)).setCell p n (some p)
  if d.exp then t1.push users p n else t1

/-- `Define` (the Go extension interface; `defgeneric`, `defstruct` … use it): a new entry object
    for `p`'s `n`. It replaces `p`'s own entry object — users keep or lose it according to the new
    export flag — or, when `p` has none, becomes `p`'s own entry in front of whatever `p`
    inherited. A user's own entry of that name is never touched. -/
def define (t : Tab) (uses users : Pk → List Pk) (p : Pk) (n : Nm) (d : Def) : Tab :=
  if t.cell p n = some p then
    let t1 := t.setDef p n (some d)
    if d.exp then t1.push users p n else t1.retract uses users p n
  else t.create users p n d

/-- `Remove` / `Undefine`: the entry leaves `p`'s table and `p` falls back to what the use graph
    offers. An own entry object disappears and also leaves the tables of `p`'s users (they fall
    back too); an inherited entry stays with its owner, so the name remains visible. -/
def remove (t : Tab) (uses users : Pk → List Pk) (p : Pk) (n : Nm) : Tab :=
  match t.cell p n with
  | none => t
  | some o =>
    if o = p then
      let t1 := (t.setDef p n none).setCell p n none
      let t2 := t1.setCell p n (t1.inheritFirst (uses p) n)
      t2.retract uses users p n
    else t.setCell p n (t.inheritFirst (uses p) n)

/-- `Export` of `p`'s own entry: set the flag, offer it to the users. -/
def exportOwn (t : Tab) (users : Pk → List Pk) (p : Pk) (n : Nm) : Tab :=
  match t.defs p n with
  | none => t
  | some d => (t.setDef p n (some { d with exp := true })).push users p n

/-- `Unexport` of `p`'s own entry: clear the flag, take it away from the users. -/
def unexportOwn (t : Tab) (uses users : Pk → List Pk) (p : Pk) (n : Nm) : Tab :=
  match t.defs p n with
  | none => t
  | some d => (t.setDef p n (some { d with exp := false })).retract uses users p n

/-- what package `c` (being the current package) gets for the unqualified name `n`:
    `Package.Get` (`vv.Export || CurrentPackage == obj`, and `obj` is the current package) -/
def get (t : Tab) (c : Pk) (n : Nm) : Option Nat :=
  match t.entry c n with
  | some (_, d) => d.val
  | none => none

/-- `FindFunc` for an unqualified name in the current package `c`:
    `fi.Export || CurrentPackage == fi.Pkg` -/
def find (t : Tab) (c : Pk) (n : Nm) : Option Nat :=
  match t.entry c n with
  | some (o, d) => if d.exp ∨ o = c then d.val else none
  | none => none

/-- `fboundp`: `CurrentPackage.GetFunc(name) != nil` -/
def has (t : Tab) (c : Pk) (n : Nm) : Bool := (t.cell c n).isSome

/-- `q:n` (`priv = false`) and `q::n` (`priv = true`) for a variable, `Scope.get`:
    `vv := q.GetVarVal(n); vv != nil && (vv.Export || private)` -/
def qualVar (t : Tab) (q : Pk) (n : Nm) (priv : Bool) : Option Nat :=
  match t.entry q n with
  | some (_, d) => if d.exp ∨ priv then d.val else none
  | none => none

/-- `(q:n …)` / `(q::n …)` evaluated in current package `c`, `FindFunc`:
    `private || fi.Export || CurrentPackage == fi.Pkg` -/
def qualFun (t : Tab) (c q : Pk) (n : Nm) (priv : Bool) : Option Nat :=
  match t.entry q n with
  | some (o, d) => if priv ∨ d.exp ∨ c = o then d.val else none
  | none => none

end Tab

/-- The interpreter's package state: variable tables, function tables, use graph in both
    directions, current package. -/
structure State where
  v : Tab
  f : Tab
  uses : Pk → List Pk
  users : Pk → List Pk
  cur : Pk

def State.init : State :=
  { v := Tab.empty, f := Tab.empty, uses := fun _ => [], users := fun _ => [], cur := 0 }

def updList (g : Pk → List Pk) (p : Pk) (l : List Pk) : Pk → List Pk :=
  fun p' => if p' = p then l else g p'

/-- `obj.Use(pkg)` -/
def use (s : State) (obj pkg : Pk) : State :=
  if obj = pkg ∨ pkg ∈ s.uses obj then s
  else { s with
    uses := updList s.uses obj (s.uses obj ++ [pkg]),
    users := updList s.users pkg (s.users pkg ++ [obj]),
    v := s.v.useCopy obj pkg,
    f := s.f.useCopy obj pkg }

/-- `obj.Unuse(pkg)` -/
def unuse (s : State) (obj pkg : Pk) : State :=
  if obj = pkg then s
  else
    let us := (s.uses obj).erase pkg
    { s with
      uses := updList s.uses obj us,
      users := updList s.users pkg ((s.users pkg).erase obj),
      v := s.v.rebuild obj us,
      f := s.f.rebuild obj us }

/-- `p.Export(n)`: the own function entry and the own variable entry are exported; when `p` has no
    variable entry at all an unbound exported placeholder remembers the export. An entry `p`
    merely inherits is left alone. -/
def «export» (s : State) (p : Pk) (n : Nm) : State :=
  { s with
    f := if s.f.cell p n = some p then s.f.exportOwn s.users p n else s.f,
    v := match s.v.cell p n with
      | some o => if o = p then s.v.exportOwn s.users p n else s.v
      | none => s.v.create s.users p n { exp := true, val := none } }

/-- `p.Unexport(n)` -/
def unexport (s : State) (p : Pk) (n : Nm) : State :=
  { s with
    f := if s.f.cell p n = some p then s.f.unexportOwn s.uses s.users p n else s.f,
    v := if s.v.cell p n = some p then s.v.unexportOwn s.uses s.users p n else s.v }

/-- `q.Set(n, v)` for a package the caller may write to: `SetIfHas` (assignment through `q`'s
    table, whoever owns the entry), else a new own unexported variable of `q`. -/
def setqIn (s : State) (q : Pk) (n : Nm) (val : Option Nat) : State :=
  match s.v.cell q n with
  | some _ => { s with v := s.v.assign q n val }
  | none => { s with v := s.v.create s.users q n { exp := false, val := val } }

/-- `(setq n v)` at top level in the current package: `Scope.Set` → `CurrentPackage.Set` →
    `SetIfHas`, else a new own unexported variable. -/
def setq (s : State) (n : Nm) (val : Option Nat) : State := setqIn s s.cur n val

/-- `(setq q:n v)` (`priv = false`) / `(setq q::n v)` (`priv = true`), `Scope.Set` with a package
    qualified symbol: `vv := q.GetVarVal(n); vv != nil && (vv.Export || private)` → `q.Set(n, v,
    private)`. Only an entry the form reaches is assigned (whoever owns it); nothing is created. -/
def qsetq (s : State) (q : Pk) (n : Nm) (priv : Bool) (val : Nat) : State :=
  match s.v.entry q n with
  | some (_, d) => if d.exp ∨ priv = true then { s with v := s.v.assign q n (some val) } else s
  | none => s

/-- `(defvar n [v])`: nothing when the name is visible and bound, else like `setq`
    (`val = none`: no initial value, the variable is created unbound). -/
def defvar (s : State) (n : Nm) (val : Option Nat) : State :=
  if (s.v.get s.cur n).isSome then s else setq s n val

/-- `(defvar q:n [v])` / `(defvar q::n [v])` (cl:defvar with a package qualified symbol): nothing
    when the form reaches a bound variable (`vv.Export || private || CurrentPackage == q`); an
    entry it reaches that is unbound is assigned; an entry it does not reach is left alone
    (`SetIfHas` refuses); without any entry a new own unexported variable of `q` is created. -/
def qdefvar (s : State) (q : Pk) (n : Nm) (priv : Bool) (val : Option Nat) : State :=
  match s.v.entry q n with
  | some (_, d) =>
    if d.exp ∨ priv = true ∨ s.cur = q then
      (if d.val.isSome then s else { s with v := s.v.assign q n val })
    else s
  | none => setqIn s q n val

/-- `(unintern 'n 'q)`: `q.Remove(n)` -/
def unintern (s : State) (q : Pk) (n : Nm) : State :=
  { s with v := s.v.remove s.uses s.users q n }

/-- `(makunbound 'n)`: `CurrentPackage.Remove(n)` -/
def makunbound (s : State) (n : Nm) : State := unintern s s.cur n

/-- `(intern "n" 'q)`: a name `q`'s table does not hold becomes an own, unexported, unbound
    variable of `q` (`q.Set(n, Unbound)`); otherwise nothing changes. -/
def intern (s : State) (q : Pk) (n : Nm) : State :=
  match s.v.cell q n with
  | some _ => s
  | none => setqIn s q n none

/-- `(fmakunbound 'n)`: `CurrentPackage.Undefine(n)` -/
def fmakunbound (s : State) (n : Nm) : State :=
  { s with f := s.f.remove s.uses s.users s.cur n }

/-- `q.DefLambda(n, …)`. A function entry visible in `q` is redefined in place (whoever owns it);
    otherwise a new own entry, exported when the package holds an own, unbound, exported variable
    placeholder of that name (the name was exported before it was defined) — the placeholder is
    consumed. -/
def defunIn (s : State) (q : Pk) (n : Nm) (body : Nat) : State :=
  match s.f.cell q n with
  | some _ => { s with f := s.f.assign q n (some body) }
  | none =>
    let ph : Bool := decide (s.v.cell q n = some q) &&
      decide (s.v.defs q n = some { exp := true, val := none })
    { s with
      v := if ph then s.v.remove s.uses s.users q n else s.v,
      f := s.f.create s.users q n { exp := ph, val := some body } }

/-- `(defun n …)`: `CurrentPackage.DefLambda`; `(defun q::n …)` / `(defun q:n …)`: `q.DefLambda`
    (cl:defun unpacks the name and ignores the number of colons) -/
def defun (s : State) (n : Nm) (body : Nat) : State := defunIn s s.cur n body

/-- `CurrentPackage.Define(creator, doc)` from Go: a built-in style function `n`, exported unless
    `doc.NoExport` -/
def gdefine (s : State) (n : Nm) (body : Nat) (exp : Bool) : State :=
  { s with f := s.f.define s.uses s.users s.cur n { exp := exp, val := some body } }

/-- `(in-package p)` -/
def inPackage (s : State) (p : Pk) : State := { s with cur := p }

/-- `(defpackage p (:use …) (:export …))`: `Use` each, then `Export` each. -/
def defpackage (s : State) (p : Pk) (us : List Pk) (ex : List Nm) : State :=
  ex.foldl (fun s n => «export» s p n) (us.foldl (fun s q => use s p q) s)

inductive Op where
  | defpackage (p : Pk) (us : List Pk) (ex : List Nm)
  | inPackage (p : Pk)
  | use (obj pkg : Pk)          -- (use-package 'pkg 'obj)
  | unuse (obj pkg : Pk)
  | «export» (p : Pk) (n : Nm)
  | unexport (p : Pk) (n : Nm)
  | defvar (n : Nm) (val : Option Nat)
  | setq (n : Nm) (val : Nat)
  | defun (n : Nm) (body : Nat)
  | makunbound (n : Nm)
  | fmakunbound (n : Nm)
  | gdefine (n : Nm) (body : Nat) (exp : Bool)
  | qsetq (q : Pk) (n : Nm) (priv : Bool) (val : Nat)            -- (setq q:n v) / (setq q::n v)
  | qdefvar (q : Pk) (n : Nm) (priv : Bool) (val : Option Nat)   -- (defvar q:n [v]) / (defvar q::n [v])
  | qdefun (q : Pk) (n : Nm) (body : Nat)                        -- (defun q::n …)
  | unintern (q : Pk) (n : Nm)                                   -- (unintern 'n 'q)
  | intern (q : Pk) (n : Nm)                                     -- (intern "n" 'q)
  deriving Repr

def step (s : State) : Op → State
  | .defpackage p us ex => defpackage s p us ex
  | .inPackage p => inPackage s p
  | .use obj pkg => use s obj pkg
  | .unuse obj pkg => unuse s obj pkg
  | .export p n => «export» s p n
  | .unexport p n => unexport s p n
  | .defvar n v => defvar s n v
  | .setq n v => setq s n (some v)
  | .defun n b => defun s n b
  | .makunbound n => makunbound s n
  | .fmakunbound n => fmakunbound s n
  | .gdefine n b e => gdefine s n b e
  | .qsetq q n pr v => qsetq s q n pr v
  | .qdefvar q n pr v => qdefvar s q n pr v
  | .qdefun q n b => defunIn s q n b
  | .unintern q n => unintern s q n
  | .intern q n => intern s q n

def run (s : State) (ops : List Op) : State := ops.foldl step s

/-! ## visibility recomputed from the graph

  The graph is: which package owns which definitions (`defs`, with their export flags) and the
  use lists. `resolve` never reads a table cell. -/

/-- package `q` has an exported definition of `n` -/
def isExp (defs : Pk → Nm → Option Def) (n : Nm) (q : Pk) : Bool :=
  match defs q n with
  | some d => d.exp
  | none => false

/-- own definition, else the exported definition of the first directly used package that has one,
    else nothing -/
def resolve (defs : Pk → Nm → Option Def) (uses : Pk → List Pk) (p : Pk) (n : Nm) : Option (Pk × Def) :=
  match defs p n with
  | some d => some (p, d)
  | none =>
    match (uses p).find? (isExp defs n) with
    | none => none
    | some q => (defs q n).map (fun d => (q, d))

/-- the packages `p` uses that have an exported definition of `n` -/
def candidates (defs : Pk → Nm → Option Def) (uses : Pk → List Pk) (p : Pk) (n : Nm) : List Pk :=
  (uses p).filter (isExp defs n)

/-- value of a variable / body of a function as `resolve` sees it -/
def resolveVal (defs : Pk → Nm → Option Def) (uses : Pk → List Pk) (p : Pk) (n : Nm) : Option Nat :=
  match resolve defs uses p n with
  | some (_, d) => d.val
  | none => none

/-- `q:n` / `q::n` by the property: the definition *of that package*, exported / any -/
def resolveQual (defs : Pk → Nm → Option Def) (q : Pk) (n : Nm) (priv : Bool) : Option Nat :=
  match defs q n with
  | some d => if d.exp ∨ priv then d.val else none
  | none => none

/-! ## `find-symbol`: the status of a name in a package

  0 = not accessible, 1 = `:internal` (own, not exported), 2 = `:external` (own, exported),
  3 = `:inherited` (the entry of a used package). -/

/-- status of the entry `c`'s table holds for `n` -/
def Tab.status (t : Tab) (c : Pk) (n : Nm) : Nat :=
  match t.entry c n with
  | some (o, d) => if o = c then (if d.exp then 2 else 1) else 3
  | none => 0

/-- `(find-symbol "n")` in the current package `c` (cl:find-symbol): the variable entry
    (`c.GetVarVal`) decides; without one the function entry `FindFunc` returns
    (`fi.Export || CurrentPackage == fi.Pkg`) does. -/
def findSymbol (s : State) (c : Pk) (n : Nm) : Nat :=
  match s.v.entry c n with
  | some _ => s.v.status c n
  | none =>
    match s.f.entry c n with
    | some (o, d) => if d.exp ∨ c = o then s.f.status c n else 0
    | none => 0

/-- the status recomputed from the graph: own definition (exported or not), else inherited when
    some directly used package exports the name -/
def graphStatus (defs : Pk → Nm → Option Def) (uses : Pk → List Pk) (c : Pk) (n : Nm) : Nat :=
  match defs c n with
  | some d => if d.exp then 2 else 1
  | none => if (candidates defs uses c n).isEmpty then 0 else 3

/-- variable status if the name is a variable anywhere visible, else function status -/
def symbolStatus (vdefs fdefs : Pk → Nm → Option Def) (uses : Pk → List Pk) (c : Pk) (n : Nm) : Nat :=
  if graphStatus vdefs uses c n = 0 then graphStatus fdefs uses c n else graphStatus vdefs uses c n

end SlipVerif.Pkg
