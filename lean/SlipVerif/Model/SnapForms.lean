/-
  C19 — the top-level forms of a snapshot and the order in which `(load "snapshot")` EVALUATES them.

  A snapshot is a text of top-level forms, written section by section (pkg/gi/snapshot.go,
  AppendSnapshot: requires, packages, constants, flavors + their methods, classes, variables,
  functions).  `load` does not evaluate the forms in the order of the text: Code.Compile first
  evaluates every defun / defmacro / defvar / defparameter / defconstant form (in text order), then the
  remaining forms (in text order).  `loadOrder` is that stable two-phase order.

  A form NEEDS definitions at the moment it is evaluated (a defflavor its component flavors, a
  setq whose value is an instance the flavor/class and the defvar, a defgeneric with methods the
  classes its methods are specialised on, …).  `loadsOk` evaluates a sequence of forms keeping the
  set of definitions made so far and fails at the first form with a missing need — what the real
  `load` does with `class zqfa not found`, `Package zqpk does not exist`, ….

  `kindNeeds` is the table of which kinds of definition a form of a given kind may need; `secIdx`
  and `hoisted` are computed from the section order and the hoisted heads (the model's own copies
  `sectionOrder`, `hoistedHeads`; Theorems/GenC19.lean states the same conditions for the tables
  regenerated from snapshot.go / code.go on every run).

  Core Lean only (linked into the `slipmodel` driver).
-/
namespace SlipVerif.SnapForms

/-- kinds of top-level forms of a snapshot -/
inductive Head where
  | require        -- (require 'name "dir")
  | defpackage     -- (defpackage "name" …)
  | defconstant    -- (defconstant pkg::name value "doc")
  | defflavor      -- (defflavor name (vars) (components) options)
  | flavorMethod   -- (defmethod (flavor :daemon :message) (args) body)
  | defclass       -- (defclass name (supers) (slots) options) / (define-condition …)
  | defvar         -- (defvar pkg::name) / (defvar pkg::name nil "doc")
  | setq           -- (setq pkg::name value)
  | usePackage     -- (use-package "name")
  | defun          -- (defun name …)
  | defmacro       -- (defmacro name …)
  | defgeneric     -- (defgeneric name (args) options (:method …) …)
  deriving DecidableEq, Repr, Inhabited

namespace Head

def all : List Head :=
  [require, defpackage, defconstant, defflavor, flavorMethod, defclass, defvar, setq, usePackage,
   defun, defmacro, defgeneric]

/-- the operator as it stands in the text (what Code.Compile switches on) -/
def text : Head → String
  | require => "require"
  | defpackage => "defpackage"
  | defconstant => "defconstant"
  | defflavor => "defflavor"
  | flavorMethod => "defmethod"
  | defclass => "defclass"
  | defvar => "defvar"
  | setq => "setq"
  | usePackage => "use-package"
  | defun => "defun"
  | defmacro => "defmacro"
  | defgeneric => "defgeneric"

/-- the section writer of snapshot.go that emits forms of this kind, named by the section's marker -/
def sect : Head → String
  | require => "require"
  | defpackage => "defpackage"
  | defconstant => "defconstant"
  | defflavor => "defflavor"
  | flavorMethod => "defflavor"
  | defclass => "defclass"
  | defvar => "defvar"
  | setq => "defvar"
  | usePackage => "defun"
  | defun => "defun"
  | defmacro => "defun"
  | defgeneric => "defun"

/-- kinds of definition a form of this kind may need when it is EVALUATED.  Function and method
    bodies, flavor defaults and slot initforms are evaluated later (calls resolve when made), so
    they need nothing at load time.  A constant's value is written into the defconstant form, and
    that form is evaluated before every flavor and class: it may hold data only.  A defclass form
    needs nothing: slip accepts a superclass that is defined later (the class becomes ready when its
    last superclass is defined; observed with a snapshot that wrote subclasses first), only
    make-instance needs the class complete — and instances are made by setq forms. -/
def kindNeeds : Head → List Head
  | require => []
  | defpackage => [defpackage]
  | defconstant => []
  | defflavor => [defflavor]
  | flavorMethod => [defflavor]
  | defclass => []
  | defvar => []
  | setq => [defvar, defflavor, defclass, defpackage]
  | usePackage => [defpackage]
  | defun => []
  | defmacro => []
  | defgeneric => [defclass, defflavor]

def ofText? (s : String) : Option Head :=
  if s = "require" then some require
  else if s = "defpackage" then some defpackage
  else if s = "defconstant" then some defconstant
  else if s = "defflavor" then some defflavor
  else if s = "defmethod" then some flavorMethod
  else if s = "defclass" ∨ s = "define-condition" then some defclass
  else if s = "defvar" ∨ s = "defparameter" then some defvar
  else if s = "setq" then some setq
  else if s = "use-package" then some usePackage
  else if s = "defun" then some defun
  else if s = "defmacro" then some defmacro
  else if s = "defgeneric" then some defgeneric
  else none

end Head

/-- the model's copy of the order of the section writers in AppendSnapshot (markers) -/
def sectionOrder : List String :=
  ["require", "defpackage", "defconstant", "defflavor", "defclass", "defvar", "defun"]

/-- the model's copy of the operators Code.Compile evaluates in its first pass -/
def hoistedHeads : List String := ["defun", "defmacro", "defvar", "defparameter", "defconstant"]

/-- position of a kind's section in the text (sections not in the list come last) -/
def secIdx (order : List String) (h : Head) : Nat := order.idxOf h.sect

/-- evaluated in the first pass of `load` -/
def hoisted (hs : List String) (h : Head) : Bool := hs.contains h.text

/-- one top-level form: its kind, the name it defines (setq / use-package define nothing: they are
    given the kind of what they operate on only through `needs`), and the definitions it needs -/
structure Form where
  head : Head
  name : String
  needs : List (Head × String)
  deriving DecidableEq, Repr

/-- what a form defines -/
def Form.defines (f : Form) : Head × String := (f.head, f.name)

/-- the order in which `load` evaluates the forms of a text: hoisted forms first -/
def loadOrder (hs : List String) (fs : List Form) : List Form :=
  fs.filter (fun f => hoisted hs f.head) ++ fs.filter (fun f => !hoisted hs f.head)

/-- evaluate the forms in the given order; `defd` = the definitions made so far.  The result is the
    first form with a need that is not yet defined. -/
def loadForms : List Form → List (Head × String) → Except Form Unit
  | [], _ => .ok ()
  | f :: rest, defd =>
    if f.needs.all (fun n => defd.contains n) then loadForms rest (f.defines :: defd) else .error f

def loadsOk (fs : List Form) (defd : List (Head × String)) : Bool :=
  match loadForms fs defd with
  | .ok _ => true
  | .error _ => false

/-- the table conditions under which section order + hoisting are sound (decidable; stated for the
    model's tables in Theorems/C19.lean and for the regenerated tables in Theorems/GenC19.lean):
    a needed kind is written in the same or an earlier section, and a hoisted kind needs hoisted
    kinds only -/
def tablesOk (order hs : List String) : Bool :=
  Head.all.all fun h =>
    order.contains h.sect &&
    h.kindNeeds.all fun k =>
      decide (secIdx order k ≤ secIdx order h) && (!hoisted hs h || hoisted hs k)

end SlipVerif.SnapForms
