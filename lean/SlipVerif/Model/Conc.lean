/-
  C17 — channels, mutexes and guarded counters under concurrency (core Lean only).

  Part 1: an abstract small-step interleaving semantics of the supported program shape. A thread
  is a list of operations; a configuration holds the channel queues, the mutex owners, the shared
  counters, the per-thread program counters and registers and the (ghost) trace of what happened;
  a schedule is any list of thread ids. A thread chosen by the scheduler while its next operation
  is not enabled (full channel, empty channel, mutex taken) does not move: it is blocked.

  Part 2: structured statements (`with-mutex-lock` bodies, error exits, handlers) and their
  compilation to operation lists, the way `with-mutex-lock` behaves in slip: the unlock is
  deferred, so it is executed on every exit.

  Part 3: checkers over *observed histories* (what the harness can record from a real run):
  `fifoOk`, `mutexOk`, `counterOk`. Theorems/C17.lean proves that every history the semantics can
  produce under any schedule passes them, and what a `true` verdict implies about a history.
-/
namespace SlipVerif.Conc

/-! ## Part 1 — interleaving semantics -/

/-- an item travelling through a channel: who pushed it and the value -/
structure Item where
  src : Nat
  val : Nat
deriving DecidableEq, Repr

inductive Op where
  | push (ch v : Nat)
  | pop (ch : Nat)
  /-- `(select (ch v …) …)`: receive from one of the listed channels that has an item (clauses on
      time channels only add the possibility of waking up without receiving: no step) -/
  | sel (chs : List Nat)
  | lock (m : Nat)
  | unlock (m : Nat)
  /-- first half of `(setq c (1+ c))`: read the shared counter into the thread's register -/
  | load (c : Nat)
  /-- second half: write register + 1 back -/
  | store (c : Nat)
deriving DecidableEq, Repr

/-- what a step did (the ghost trace is the list of these, oldest first) -/
inductive Event where
  | pushed (t ch : Nat) (it : Item)
  | popped (t ch : Nat) (it : Item)
  | locked (t m : Nat)
  | unlocked (t m : Nat)
  | loaded (t c v : Nat)
  | stored (t c v : Nat)
deriving DecidableEq, Repr

/-- the static part: one program per thread, one capacity per channel (0 = unbuffered) -/
structure Sys where
  progs : List (List Op)
  caps  : List Nat

/-- the program of thread `t`; a thread that does not exist has the empty program -/
def Sys.prog (S : Sys) (t : Nat) : List Op :=
  match S.progs[t]? with
  | some p => p
  | none => []

/-- capacity of channel `ch`; a channel without an entry is unbuffered -/
def Sys.cap (S : Sys) (ch : Nat) : Nat :=
  match S.caps[ch]? with
  | some k => k
  | none => 0

/-- pointwise update of a total map -/
def upd {α : Type} (f : Nat → α) (k : Nat) (v : α) : Nat → α :=
  fun x => if x = k then v else f x

structure Config where
  queue : Nat → List Item
  owner : Nat → Option Nat
  value : Nat → Nat
  pc    : Nat → Nat
  /-- `some (c, v)`: the thread has read `v` from counter `c` and not yet written back -/
  reg   : Nat → Option (Nat × Nat)
  trace : List Event

def init : Config :=
  { queue := fun _ => [], owner := fun _ => none, value := fun _ => 0, pc := fun _ => 0,
    reg := fun _ => none, trace := [] }

/-- the operation thread `t` is about to execute (none: finished or no such thread) -/
def Sys.cur (S : Sys) (c : Config) (t : Nat) : Option Op := (S.prog t)[c.pc t]?

/-- some thread is waiting at `pop ch` or at a select listing `ch` (needed for a push on an
    unbuffered channel) -/
def receiverReady (S : Sys) (c : Config) (ch : Nat) : Bool :=
  (List.range S.progs.length).any (fun t =>
    match S.cur c t with
    | some (.pop ch') => ch' == ch
    | some (.sel chs) => chs.contains ch
    | _ => false)

def canPush (S : Sys) (c : Config) (ch : Nat) : Bool :=
  if S.cap ch = 0 then (c.queue ch).isEmpty && receiverReady S c ch
  else (c.queue ch).length < S.cap ch

/-- the channel a select receives from: the `k`-th (cyclically) of the listed channels that hold
    an item; `k` is the runtime's choice, part of the schedule -/
def selChan (c : Config) (chs : List Nat) (k : Nat) : Option Nat :=
  let ready := chs.filter (fun ch => !(c.queue ch).isEmpty)
  ready[k % ready.length]?

def advance (c : Config) (t : Nat) (e : Event) : Config :=
  { c with pc := upd c.pc t (c.pc t + 1), trace := c.trace ++ [e] }

/-- one step of thread `t` (`k`: the runtime's choice when a select has several ready channels);
    `none` when the thread is finished or blocked -/
def step (S : Sys) (c : Config) (t : Nat) (k : Nat) : Option Config :=
  match S.cur c t with
  | none => none
  | some (.push ch v) =>
      if canPush S c ch then
        some (advance { c with queue := upd c.queue ch (c.queue ch ++ [⟨t, v⟩]) } t (.pushed t ch ⟨t, v⟩))
      else none
  | some (.pop ch) =>
      match c.queue ch with
      | [] => none
      | it :: rest => some (advance { c with queue := upd c.queue ch rest } t (.popped t ch it))
  | some (.sel chs) =>
      match selChan c chs k with
      | none => none
      | some ch =>
          match c.queue ch with
          | [] => none
          | it :: rest => some (advance { c with queue := upd c.queue ch rest } t (.popped t ch it))
  | some (.lock m) =>
      match c.owner m with
      | none => some (advance { c with owner := upd c.owner m (some t) } t (.locked t m))
      | some _ => none
  | some (.unlock m) =>
      if c.owner m = some t then
        some (advance { c with owner := upd c.owner m none } t (.unlocked t m))
      else none
  | some (.load k) =>
      some (advance { c with reg := upd c.reg t (some (k, c.value k)) } t (.loaded t k (c.value k)))
  | some (.store k) =>
      match c.reg t with
      | none => none
      | some (k', v) =>
          if k' = k then
            some (advance { c with value := upd c.value k (v + 1), reg := upd c.reg t none } t
              (.stored t k (v + 1)))
          else none

/-- the scheduler's choice is tried; a blocked or finished thread leaves the configuration as is -/
def stepOrStay (S : Sys) (c : Config) (tk : Nat × Nat) : Config :=
  match step S c tk.1 tk.2 with
  | some c' => c'
  | none => c

/-- run a whole schedule: a list of (thread id, choice) pairs -/
def exec (S : Sys) (c : Config) : List (Nat × Nat) → Config
  | [] => c
  | t :: ts => exec S (stepOrStay S c t) ts

/-- every thread has run to the end of its program -/
def quiescent (S : Sys) (c : Config) : Bool :=
  (List.range S.progs.length).all (fun t => (S.cur c t).isNone)

/-! ### projections of programs and traces -/

/-- mutexes held after executing `ops` starting with `hs` held -/
def heldFrom (hs : List Nat) : List Op → List Nat
  | [] => hs
  | .lock m :: rest => heldFrom (m :: hs) rest
  | .unlock m :: rest => heldFrom (hs.erase m) rest
  | _ :: rest => heldFrom hs rest

def held (ops : List Op) : List Nat := heldFrom [] ops

/-- the mutexes thread `t` is inside of, read off its program counter -/
def inside (S : Sys) (c : Config) (t : Nat) : List Nat := held ((S.prog t).take (c.pc t))

/-- items a program pushes on `ch`, in program order, tagged with the producer `p` -/
def sends (p ch : Nat) (ops : List Op) : List Item :=
  ops.filterMap fun
    | .push ch' v => if ch' = ch then some ⟨p, v⟩ else none
    | _ => none

/-- number of completed increments of counter `k` in an executed program prefix -/
def stores (k : Nat) (ops : List Op) : Nat := ops.count (Op.store k)

def pushLog (ch : Nat) (tr : List Event) : List Item :=
  tr.filterMap fun
    | .pushed _ ch' it => if ch' = ch then some it else none
    | _ => none

def recvLog (ch : Nat) (tr : List Event) : List Item :=
  tr.filterMap fun
    | .popped _ ch' it => if ch' = ch then some it else none
    | _ => none

/-- what thread `t` received on `ch`, in the order it received it -/
def recvBy (t ch : Nat) (tr : List Event) : List Item :=
  tr.filterMap fun
    | .popped t' ch' it => if t' = t ∧ ch' = ch then some it else none
    | _ => none

/-- the values read by the increments of counter `k`, in trace order -/
def loadLog (k : Nat) (tr : List Event) : List Nat :=
  tr.filterMap fun
    | .loaded _ k' v => if k' = k then some v else none
    | _ => none

def sumTo : Nat → (Nat → Nat) → Nat
  | 0, _ => 0
  | n + 1, f => sumTo n f + f n

/-- completed increments of counter `k` over all threads, read off the program counters -/
def doneIncr (S : Sys) (c : Config) (k : Nat) : Nat :=
  sumTo S.progs.length (fun t => stores k ((S.prog t).take (c.pc t)))

/-- all increments of counter `k` the programs contain -/
def totalIncr (S : Sys) (k : Nat) : Nat :=
  sumTo S.progs.length (fun t => stores k (S.prog t))

/-- Well-formedness of a program w.r.t. the guard map `g` (counter ↦ mutex): every `load k` is
    immediately followed by `store k` and happens while `g k` is held; no stray `store`. -/
def guardedFrom (g : Nat → Nat) : List Nat → List Op → Bool
  | _, [] => true
  | hs, .load k :: .store k' :: rest => k == k' && hs.contains (g k) && guardedFrom g hs rest
  | _, .load _ :: _ => false
  | _, .store _ :: _ => false
  | hs, .lock m :: rest => guardedFrom g (m :: hs) rest
  | hs, .unlock m :: rest => guardedFrom g (hs.erase m) rest
  | hs, .push _ _ :: rest => guardedFrom g hs rest
  | hs, .pop _ :: rest => guardedFrom g hs rest
  | hs, .sel _ :: rest => guardedFrom g hs rest

def Sys.guarded (S : Sys) (g : Nat → Nat) : Bool :=
  S.progs.all (fun p => guardedFrom g [] p)

/-- every item a producer pushes on one channel is distinct (the harness numbers them) -/
def Sys.distinctSends (S : Sys) (nch : Nat) : Bool :=
  (List.range S.progs.length).all fun p => (List.range nch).all fun ch =>
    decide ((sends p ch (S.prog p)).Nodup)

/-! ## Part 2 — structured statements -/

inductive Stmt where
  | skip
  | seq (a b : Stmt)
  | push (ch v : Nat)
  | pop (ch : Nat)
  /-- one receive through `select` over the channels `chs` -/
  | sel (chs : List Nat)
  /-- `(setq c (1+ c))` on a shared counter -/
  | incr (c : Nat)
  /-- `(with-mutex-lock m body)` -/
  | withLock (m : Nat) (body : Stmt)
  /-- an error is signalled: control leaves every enclosing form up to the nearest handler -/
  | fail
  /-- `(ignore-errors body)` -/
  | protect (body : Stmt)
deriving Repr

/-- the operations a statement executes and whether it ends by an error exit. The unlock of
    `withLock` is emitted on both exits (slip: `defer Unlock()`). -/
def compile : Stmt → List Op × Bool
  | .skip => ([], false)
  | .seq a b =>
      match compile a with
      | (oa, true) => (oa, true)
      | (oa, false) => match compile b with
          | (ob, fb) => (oa ++ ob, fb)
  | .push ch v => ([.push ch v], false)
  | .pop ch => ([.pop ch], false)
  | .sel chs => ([.sel chs], false)
  | .incr k => ([.load k, .store k], false)
  | .withLock m b => match compile b with
      | (ob, fb) => (.lock m :: ob ++ [.unlock m], fb)
  | .fail => ([], true)
  | .protect b => ((compile b).1, false)

def Stmt.ops (s : Stmt) : List Op := (compile s).1

/-! ## Part 3 — checkers over observed histories -/

/-- values received from producer `p`, in the order they appear in `l` -/
def fromP (p : Nat) (l : List Item) : List Nat := (l.filter (fun it => it.src == p)).map (·.val)

/-- What was observed about one channel. `sent`: per producer the values it pushed, in order;
    `recv`: per consumer the items in the order it received them; `left`: what was still in the
    channel at the end (drained in order); `quiescent`: all routines ran to completion. -/
structure FifoObs where
  sent : List (Nat × List Nat)
  recv : List (List Item)
  left : List Item
  quiescent : Bool

def FifoObs.all (o : FifoObs) : List Item := o.recv.flatten ++ o.left

/-- the observation itself is well formed: producers listed once, each producer's values distinct -/
def FifoObs.wf (o : FifoObs) : Bool :=
  decide ((o.sent.map (·.1)).Nodup) && o.sent.all (fun pv => decide (pv.2.Nodup))

/-- only listed producers appear as the source of an item -/
def knownOk (o : FifoObs) : Bool :=
  o.all.all (fun it => o.sent.any (fun pv => pv.1 == it.src))

/-- each consumer sees the items of each producer in the order they were pushed -/
def orderOk (o : FifoObs) : Bool :=
  o.recv.all (fun l => o.sent.all (fun pv => (fromP pv.1 l).isSublist pv.2))

/-- nothing was delivered twice -/
def nodupOk (o : FifoObs) : Bool := decide (o.all.Nodup)

/-- what is still buffered are the most recent items of each producer, in order -/
def leftOk (o : FifoObs) : Bool :=
  o.sent.all (fun pv => (fromP pv.1 o.left).isSuffixOf pv.2)

/-- at quiescence every producer's items are all accounted for -/
def countOk (o : FifoObs) : Bool :=
  !o.quiescent || o.sent.all (fun pv => (fromP pv.1 o.all).length == pv.2.length)

def fifoOk (o : FifoObs) : Bool :=
  knownOk o && orderOk o && nodupOk o && leftOk o && countOk o

/-- the first sub-check that fails (for the verdict line) -/
def fifoVerdict (o : FifoObs) : String :=
  if !knownOk o then "fail unsent"
  else if !orderOk o then "fail order"
  else if !nodupOk o then "fail duplicate"
  else if !leftOk o then "fail leftover"
  else if !countOk o then "fail lost"
  else "pass"

/-- an entry of the enter/exit log written inside critical sections -/
inductive MEv where
  | enter (t m : Nat)
  | exit (t m : Nat)
deriving DecidableEq, Repr

/-- checker state: the (mutex, thread) pairs currently inside -/
def mutexStep (hs : List (Nat × Nat)) : MEv → Option (List (Nat × Nat))
  | .enter t m => if hs.any (fun p => p.1 == m) then none else some ((m, t) :: hs)
  | .exit t m => if hs.contains (m, t) then some (hs.erase (m, t)) else none

def mutexRun (hs : List (Nat × Nat)) : List MEv → Option (List (Nat × Nat))
  | [] => some hs
  | e :: rest => match mutexStep hs e with
      | none => none
      | some hs' => mutexRun hs' rest

/-- sections on one mutex never overlap in the log; with `quiescent` nobody is left inside -/
def mutexOk (quiescent : Bool) (log : List MEv) : Bool :=
  match mutexRun [] log with
  | none => false
  | some hs => !quiescent || hs.isEmpty

/-- the enter/exit log of a trace -/
def mutexLog (tr : List Event) : List MEv :=
  tr.filterMap fun
    | .locked t m => some (.enter t m)
    | .unlocked t m => some (.exit t m)
    | _ => none

/-- `reads`: (counter, value read) per increment in log order; `finals`: (counter, final value).
    Each listed counter must have been read as 0, 1, 2, … in this order and end at the count. -/
def counterOk (reads : List (Nat × Nat)) (finals : List (Nat × Nat)) : Bool :=
  finals.all (fun kv => ((reads.filter (fun r => r.1 == kv.1)).map (·.2)) == List.range kv.2)

/-- all (counter, value read) pairs of a trace -/
def readLog (tr : List Event) : List (Nat × Nat) :=
  tr.filterMap fun
    | .loaded _ k v => some (k, v)
    | _ => none

/-- the FIFO observation of channel `ch` the model itself produces -/
def obsFifo (S : Sys) (c : Config) (ch : Nat) : FifoObs :=
  { sent := (List.range S.progs.length).map
      (fun p => (p, (sends p ch ((S.prog p).take (c.pc p))).map (·.val))),
    recv := (List.range S.progs.length).map (fun t => recvBy t ch c.trace),
    left := c.queue ch,
    quiescent := quiescent S c }

end SlipVerif.Conc
