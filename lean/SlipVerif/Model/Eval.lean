/-
  Model/Eval.lean — reference evaluator for the core language of C01 and the control forms of C07.

  A fuel-indexed big-step evaluator in *open-recursion* style:

      evalN 0       = timeout
      evalN (n+1)   = step (evalN n)

  `step` is a NON-recursive function from "how to evaluate sub-tasks" to "how to evaluate a task".
  Every recursive use goes through the `rec` argument, so fuel strictly decreases on every
  sub-evaluation and all theorems are proved by unfolding one `step` (equations) or by showing that
  `step` preserves a relation between two `rec`s (fuel monotonicity, trace growth, …).

  The model is the *language rule* (Common Lisp, with slip's documented deviations): lexical
  scope, lexically matched blocks and tags (unique ids allocated on entry), outcomes are first
  class: `val vs | ret id vs | go id tag | err cls | timeout`.

  Core Lean only (linked into the native driver).
-/
namespace SlipVerif.Eval

/-- Plain (non-nested) object universe: data and programs. -/
inductive Obj where
  | nil
  | t
  | int (i : Int)
  | str (s : String)
  | sym (s : String)
  | cons (a d : Obj)
  | clo (id : Nat)        -- closure (index into the closure table of the store)
  | fn (name : String)    -- `#'name`: named function designator (user function or primitive)
  | mutex (id : Nat)      -- mutex (index into the lock table of the store)
  | cond (cls : String)   -- condition object (second value of ignore-errors)
  | stream (id : Nat)     -- file stream (index into the stream table of the store)
  deriving DecidableEq, Repr, Inhabited

/-- Lexical environment: frame ids (innermost first), visible blocks and go tags with the unique
id of the block / tagbody instance that established them. -/
structure Env where
  frames : List Nat := []
  blocks : List (String × Nat) := []
  tags : List (Obj × Nat) := []
  deriving DecidableEq, Repr, Inhabited

/-- A function object: required parameters, body, definition environment and the name of the
implicit block (`""` for lambda, which has none). -/
structure Closure where
  params : List String
  body : List Obj
  env : Env
  name : String
  rest : Option String := none   -- `&rest r`: the variable bound to the list of the surplus arguments
  deriving DecidableEq, Repr, Inhabited

/-- The store. -/
structure St where
  frames : List (List (String × Obj)) := []   -- frame id = index
  globals : List (String × Obj) := []
  funs : List (String × Nat) := []            -- global, late-bound function table: name ↦ closure id
  clos : List Closure := []
  trace : List Obj := []                       -- what `(vtr x)` recorded, oldest first
  locks : List Bool := []                      -- mutex id ↦ held
  nextId : Nat := 0                            -- unique ids for block / tagbody instances
  wide : Bool := false                         -- instrumentation: some integer result left the range
                                               -- in which slip's fixnum arithmetic is exact (C05)
  streams : List Bool := []                    -- stream id ↦ open (streams opened by with-open-file)
  deriving DecidableEq, Repr, Inhabited

/-- Outcomes. -/
inductive Out where
  | val (vs : List Obj)
  | ret (id : Nat) (vs : List Obj)
  | go (id : Nat) (tag : Obj)
  | err (cls : String)
  | timeout
  deriving DecidableEq, Repr, Inhabited

abbrev Res := Out × St

/-- The loop description shared by `do` and `do*`. -/
structure DoSpec where
  vars : List (String × Option Obj)   -- variable and optional step form
  test : Obj
  results : List Obj
  body : List Obj
  sequential : Bool                   -- do* : steps assigned one after the other
  tbid : Nat                          -- id of the implicit tagbody of the body
  deriving DecidableEq, Repr, Inhabited

/-- What can be evaluated. `form` is the evaluator proper; the others are the auxiliary
iterations (argument lists, bodies, clause lists, loops). -/
inductive Task where
  | form (ρ : Env) (e : Obj)
  | seq (ρ : Env) (es : List Obj)                     -- implicit progn: values of the last form
  | args (ρ : Env) (es : List Obj)                    -- left to right; `val` of the primary values
  | apply (f : Obj) (args : List Obj)                 -- function application (no caller environment!)
  | condClauses (ρ : Env) (cs : List Obj)
  | andForms (ρ : Env) (es : List Obj)
  | orForms (ρ : Env) (es : List Obj)
  | letStar (ρ : Env) (bs : List (String × Obj)) (body : List Obj)
  | setqPairs (ρ : Env) (ps : List Obj) (last : Obj)
  | tagbodyRun (ρ : Env) (id : Nat) (all : List Obj) (rest : List Obj)
  | dolistLoop (ρ : Env) (fid : Nat) (var : String) (items : List Obj) (body : List Obj) (tbid : Nat) (result : List Obj)
  | dotimesLoop (ρ : Env) (fid : Nat) (var : String) (i : Nat) (count : Nat) (body : List Obj) (tbid : Nat) (result : List Obj)
  | doStarInit (ρ : Env) (bs : List (String × Obj)) (spec : DoSpec)
  | doLoop (ρ : Env) (spec : DoSpec)
  | doSteps (ρ : Env) (vars : List (String × Option Obj))     -- sequential stepping (do*)
  | mapcarLoop (f : Obj) (l1 : List Obj) (l2 : Option (List Obj)) (acc : List Obj)
  deriving Repr, Inhabited

-- ---------------------------------------------------------------------------------------------
-- data helpers

def truthy (o : Obj) : Bool := o != Obj.nil

/-- primary value of a value list (no values = nil, the language rule) -/
def prim : List Obj → Obj
  | [] => .nil
  | v :: _ => v

def ofBool (b : Bool) : Obj := if b then .t else .nil

/-- proper list → Lean list -/
def listOf : Obj → Option (List Obj)
  | .nil => some []
  | .cons a d => (listOf d).map (a :: ·)
  | _ => none

def ofList : List Obj → Obj
  | [] => .nil
  | a :: as => .cons a (ofList as)

def isKeyword (s : String) : Bool := s.startsWith ":"

-- ---------------------------------------------------------------------------------------------
-- store helpers

def lookupFrames (σ : St) : List Nat → String → Option Obj
  | [], _ => none
  | f :: fs, x =>
    match σ.frames[f]? with
    | some fr =>
      match fr.lookup x with
      | some v => some v
      | none => lookupFrames σ fs x
    | none => lookupFrames σ fs x

def lookupVar (σ : St) (ρ : Env) (x : String) : Option Obj :=
  match lookupFrames σ ρ.frames x with
  | some v => some v
  | none => σ.globals.lookup x

/-- replace the value of the first binding of `x` (there is one when this is called) -/
def setAssoc (x : String) (v : Obj) : List (String × Obj) → List (String × Obj)
  | [] => []
  | (y, w) :: rest => if y == x then (y, v) :: rest else (y, w) :: setAssoc x v rest

def hasKey (x : String) (l : List (String × Obj)) : Bool := (l.lookup x).isSome

/-- the innermost frame of the chain that binds `x` -/
def findFrame (σ : St) : List Nat → String → Option Nat
  | [], _ => none
  | f :: fs, x =>
    match σ.frames[f]? with
    | some fr => if hasKey x fr then some f else findFrame σ fs x
    | none => findFrame σ fs x

def setGlobal (σ : St) (x : String) (v : Obj) : St :=
  if hasKey x σ.globals then { σ with globals := setAssoc x v σ.globals }
  else { σ with globals := σ.globals ++ [(x, v)] }

/-- `setq`: the innermost lexical binding, else the global variable (created when missing). -/
def setVar (σ : St) (ρ : Env) (x : String) (v : Obj) : St :=
  match findFrame σ ρ.frames x with
  | some f => { σ with frames := σ.frames.modify f (setAssoc x v) }
  | none => setGlobal σ x v

/-- assignment in a known frame (loop variables) -/
def setInFrame (σ : St) (fid : Nat) (x : String) (v : Obj) : St :=
  { σ with frames := σ.frames.modify fid (setAssoc x v) }

/-- allocate a frame: its id is the current number of frames -/
def addFrame (σ : St) (fr : List (String × Obj)) : St := { σ with frames := σ.frames ++ [fr] }

def pushFrame (ρ : Env) (fid : Nat) : Env := { ρ with frames := fid :: ρ.frames }

/-- allocate a closure: its id is the current number of closures -/
def addClosure (σ : St) (c : Closure) : St := { σ with clos := σ.clos ++ [c] }

/-- consume the unique id `σ.nextId` -/
def bumpId (σ : St) : St := { σ with nextId := σ.nextId + 1 }

def traceAdd (σ : St) (v : Obj) : St := { σ with trace := σ.trace ++ [v] }

def setFun (σ : St) (name : String) (id : Nat) : St :=
  { σ with funs := (name, id) :: σ.funs.filter (fun p => p.1 != name) }

def setLock (σ : St) (id : Nat) (b : Bool) : St := { σ with locks := σ.locks.set id b }

/-- open a stream: its id is the current number of streams -/
def addStream (σ : St) (isOpen : Bool := true) : St := { σ with streams := σ.streams ++ [isOpen] }

/-- `:direction :probe` among the evaluated options of `with-open-file` / `open`: the file is opened and closed at
once, the variable is bound to a closed stream -/
def probeDirection : List Obj → Bool
  | .sym ":direction" :: .sym ":probe" :: _ => true
  | _ :: _ :: rest => probeDirection rest
  | _ => false

def closeStream (σ : St) (id : Nat) : St := { σ with streams := σ.streams.set id false }

-- ---------------------------------------------------------------------------------------------
-- result combinators. `timeout` is absorbing in every one of them: that is what makes the
-- evaluator monotone in the fuel.

/-- continue with the outcome unless it is a timeout -/
@[inline] def andThen (r : Res) (k : Out → St → Res) : Res :=
  match r with
  | (.timeout, σ) => (.timeout, σ)
  | (o, σ) => k o σ

/-- continue with the values when the outcome is `val`, otherwise the outcome is the result -/
@[inline] def bindV (r : Res) (k : List Obj → St → Res) : Res :=
  match r with
  | (.val vs, σ) => k vs σ
  | (o, σ) => (o, σ)

/-- a block instance catches exactly the `ret` carrying its own id -/
def catchRet (id : Nat) (r : Res) : Res :=
  match r with
  | (.ret id' vs, σ) => if id' = id then (.val vs, σ) else (.ret id' vs, σ)
  | r => r

-- ---------------------------------------------------------------------------------------------
-- primitives (ordinary functions: called with evaluated arguments)

inductive Prim where
  | vtr | vheld | vopen | close | add | sub | mul | inc | dec | lt | gt | le | ge | numEq
  | eql | equal | cons | car | cdr | list | not | length | div
  deriving DecidableEq, Repr, Inhabited

def primOf : String → Option Prim
  | "vtr" => some .vtr
  | "vheld" => some .vheld
  | "vopen" => some .vopen
  | "close" => some .close
  | "+" => some .add
  | "-" => some .sub
  | "*" => some .mul
  | "1+" => some .inc
  | "1-" => some .dec
  | "<" => some .lt
  | ">" => some .gt
  | "<=" => some .le
  | ">=" => some .ge
  | "=" => some .numEq
  | "eql" => some .eql
  | "equal" => some .equal
  | "cons" => some .cons
  | "car" => some .car
  | "cdr" => some .cdr
  | "list" => some .list
  | "not" => some .not
  | "null" => some .not
  | "length" => some .length
  | "/" => some .div
  | _ => none

def ints : List Obj → Option (List Int)
  | [] => some []
  | .int i :: rest => (ints rest).map (i :: ·)
  | _ => none

/-- the integer range inside which the model claims anything (fixnum overflow is C05's business) -/
def inRange (i : Int) : Bool := -(2^62) < i && i < 2^62

def typeError : String := "type-error"

/-- integers are exact (the language rule); the store remembers when a result left the fixnum-safe
range so that the harness can set such a program aside -/
def numResult (σ : St) (i : Int) : Res :=
  if inRange i then (.val [.int i], σ) else (.val [.int i], { σ with wide := true })

def chain (p : Int → Int → Bool) : List Int → Bool
  | a :: b :: rest => p a b && chain p (b :: rest)
  | _ => true

def cmpResult (σ : St) (p : Int → Int → Bool) (vs : List Obj) : Res :=
  match ints vs with
  | some (i :: is) => (.val [ofBool (chain p (i :: is))], σ)
  | _ => (.err typeError, σ)

/-- `eql`: identity on atoms of the same kind (conses are never `eql` here: the generator does not
compare them) -/
def eqlObj : Obj → Obj → Bool
  | .cons _ _, _ => false
  | _, .cons _ _ => false
  | .str _, _ => false
  | _, .str _ => false
  | a, b => a == b

def applyPrim (p : Prim) (vs : List Obj) (σ : St) : Res :=
  match p, vs with
  | .vtr, [v] => (.val [v], traceAdd σ v)
  | .vheld, [.mutex id] =>
    match σ.locks[id]? with
    | some b => (.val [ofBool b], σ)
    | none => (.err typeError, σ)
  | .vopen, [.stream id] =>
    match σ.streams[id]? with
    | some b => (.val [ofBool b], σ)
    | none => (.err typeError, σ)
  -- `(close stream)`: an open stream is closed (value t); closing a closed stream changes nothing (value nil)
  | .close, [.stream id] =>
    match σ.streams[id]? with
    | some true => (.val [.t], closeStream σ id)
    | some false => (.val [.nil], σ)
    | none => (.err typeError, σ)
  | .add, vs => match ints vs with
    | some is => numResult σ (is.foldl (· + ·) 0)
    | none => (.err typeError, σ)
  | .mul, vs => match ints vs with
    | some is => numResult σ (is.foldl (· * ·) 1)
    | none => (.err typeError, σ)
  | .sub, vs => match ints vs with
    | some [i] => numResult σ (-i)
    | some (i :: is) => numResult σ (is.foldl (· - ·) i)
    | _ => (.err typeError, σ)
  | .inc, [.int i] => numResult σ (i + 1)
  | .dec, [.int i] => numResult σ (i - 1)
  | .lt, vs => cmpResult σ (· < ·) vs
  | .gt, vs => cmpResult σ (· > ·) vs
  | .le, vs => cmpResult σ (· ≤ ·) vs
  | .ge, vs => cmpResult σ (· ≥ ·) vs
  | .numEq, vs => cmpResult σ (· == ·) vs
  | .eql, [a, b] => (.val [ofBool (eqlObj a b)], σ)
  | .equal, [a, b] => (.val [ofBool (a == b)], σ)
  | .cons, [a, d] => (.val [.cons a d], σ)
  | .car, [.nil] => (.val [.nil], σ)
  | .car, [.cons a _] => (.val [a], σ)
  | .cdr, [.nil] => (.val [.nil], σ)
  | .cdr, [.cons _ d] => (.val [d], σ)
  | .list, vs => (.val [ofList vs], σ)
  | .not, [v] => (.val [ofBool (v == .nil)], σ)
  | .length, [v] => match listOf v with
    | some l => (.val [.int l.length], σ)
    | none => (.err typeError, σ)
  | .div, [.int a, .int b] =>
    if b = 0 then (.err "division-by-zero", σ)
    else if a % b = 0 then numResult σ (a / b) else (.val [.int (a / b)], { σ with wide := true })
  | _, _ => (.err typeError, σ)

-- ---------------------------------------------------------------------------------------------
-- special forms: the head symbol is decoded ONCE into an enum

inductive Form where
  | quote | progn | prog1 | if_ | when_ | unless_ | cond_ | case_ | and_ | or_
  | let_ | letStar | setq | lambda | function | funcall | apply | mapcar | defun
  | dolist | dotimes | do_ | doStar | values | mvBind | mvList
  | block | returnFrom | return_ | tagbody | go_ | unwindProtect | ignoreErrors | error_
  | withMutexLock | recover | withOpenFile
  | call          -- anything else: call of a named function
  deriving DecidableEq, Repr, Inhabited

def formOf : String → Form
  | "quote" => .quote
  | "progn" => .progn
  | "prog1" => .prog1
  | "if" => .if_
  | "when" => .when_
  | "unless" => .unless_
  | "cond" => .cond_
  | "case" => .case_
  | "and" => .and_
  | "or" => .or_
  | "let" => .let_
  | "let*" => .letStar
  | "setq" => .setq
  | "lambda" => .lambda
  | "function" => .function
  | "funcall" => .funcall
  | "apply" => .apply
  | "mapcar" => .mapcar
  | "defun" => .defun
  | "dolist" => .dolist
  | "dotimes" => .dotimes
  | "do" => .do_
  | "do*" => .doStar
  | "values" => .values
  | "multiple-value-bind" => .mvBind
  | "multiple-value-list" => .mvList
  | "block" => .block
  | "return-from" => .returnFrom
  | "return" => .return_
  | "tagbody" => .tagbody
  | "go" => .go_
  | "unwind-protect" => .unwindProtect
  | "ignore-errors" => .ignoreErrors
  | "error" => .error_
  | "with-mutex-lock" => .withMutexLock
  | "recover" => .recover
  | "with-open-file" => .withOpenFile
  | _ => .call

def programError : String := "program-error"
def controlError : String := "control-error"

/-- symbol names of a parameter list -/
def symNames : List Obj → Option (List String)
  | [] => some []
  | .sym s :: rest => (symNames rest).map (s :: ·)
  | _ => none

/-- lambda list: required parameters, optionally followed by `&rest r` (nothing after it) -/
def splitRest : List String → Option (List String × Option String)
  | [] => some ([], none)
  | x :: xs =>
    if x == "&rest" then
      match xs with
      | [r] => if r == "&rest" then none else some ([], some r)
      | _ => none
    else (splitRest xs).map (fun p => (x :: p.1, p.2))

/-- `x`, `(x)`, `(x init)` → (name, init form) -/
def parseBinding : Obj → Option (String × Obj)
  | .sym x => some (x, .nil)
  | .cons (.sym x) .nil => some (x, .nil)
  | .cons (.sym x) (.cons init .nil) => some (x, init)
  | _ => none

def parseBindings : List Obj → Option (List (String × Obj))
  | [] => some []
  | b :: bs => match parseBinding b, parseBindings bs with
    | some p, some ps => some (p :: ps)
    | _, _ => none

/-- `x`, `(x)`, `(x init)`, `(x init step)` of do / do* -/
def parseDoBinding : Obj → Option (String × Obj × Option Obj)
  | .sym x => some (x, .nil, none)
  | .cons (.sym x) .nil => some (x, .nil, none)
  | .cons (.sym x) (.cons init .nil) => some (x, init, none)
  | .cons (.sym x) (.cons init (.cons step .nil)) => some (x, init, some step)
  | _ => none

def parseDoBindings : List Obj → Option (List (String × Obj × Option Obj))
  | [] => some []
  | b :: bs => match parseDoBinding b, parseDoBindings bs with
    | some p, some ps => some (p :: ps)
    | _, _ => none

/-- block name: a symbol or nil -/
def blockName : Obj → Option String
  | .nil => some "nil"
  | .sym s => some s
  | _ => none

/-- go tags: symbols and integers; statements: everything else -/
def isTag : Obj → Bool
  | .sym _ => true
  | .int _ => true
  | _ => false

def tagsOf (id : Nat) (items : List Obj) : List (Obj × Nat) :=
  (items.filter isTag).map (fun tg => (tg, id))

/-- the statements after the first occurrence of the tag -/
def afterTag (tag : Obj) : List Obj → Option (List Obj)
  | [] => none
  | x :: rest => if isTag x && x == tag then some rest else afterTag tag rest

def withTags (ρ : Env) (id : Nat) (items : List Obj) : Env :=
  { ρ with tags := tagsOf id items ++ ρ.tags }

def withBlock (ρ : Env) (name : String) (id : Nat) : Env :=
  { ρ with blocks := (name, id) :: ρ.blocks }

/-- `case` clause selection (pure): the body of the first matching clause -/
def caseMatches (key : Obj) (head : Obj) (isLast : Bool) : Bool :=
  match head with
  | .t => isLast
  | .sym "otherwise" => isLast
  | .cons _ _ => match listOf head with
    | some ks => ks.any (fun k => eqlObj key k)
    | none => false
  | .nil => false
  | k => eqlObj key k

def caseSelect (key : Obj) : List Obj → Option (List Obj)
  | [] => some []
  | c :: cs =>
    match c with
    | .cons head body =>
      if caseMatches key head cs.isEmpty then listOf body else caseSelect key cs
    | _ => none

def zipFrame : List String → List Obj → List (String × Obj)
  | x :: xs, v :: vs => (x, v) :: zipFrame xs vs
  | x :: xs, [] => (x, .nil) :: zipFrame xs []
  | [], _ => []

/-- the frame of a call: required parameters positionally; with `&rest r`, `r` is bound to a NEW list
of exactly the surplus arguments (built for this call, shared with nothing) -/
def bindArgs (params : List String) (rest : Option String) (args : List Obj) : Option (List (String × Obj)) :=
  match rest with
  | none => if params.length != args.length then none else some (zipFrame params args)
  | some r =>
    if args.length < params.length then none
    else some (zipFrame params (args.take params.length) ++ [(r, ofList (args.drop params.length))])

-- ---------------------------------------------------------------------------------------------
-- the evaluator, one `step`

section step
variable (rec : Task → St → Res)

/-- calling a closure: the callee's environment is the closure's *definition* environment extended
by one new frame for the parameters — the caller's environment is not an input. A named function
(defun) has an implicit block of its name. -/
def callClosure (args : List Obj) (cid : Nat) (σ : St) : Res :=
  match σ.clos[cid]? with
  | none => (.err typeError, σ)
  | some c =>
    match bindArgs c.params c.rest args with
    | none => (.err programError, σ)
    | some fr =>
      if c.name == "" then
        rec (.seq (pushFrame c.env σ.frames.length) c.body) (addFrame σ fr)
      else
        catchRet σ.nextId
          (rec (.seq (withBlock (pushFrame c.env σ.frames.length) c.name σ.nextId) c.body)
            (bumpId (addFrame σ fr)))

/-- calling by name: the global function table is consulted at call time (late binding), then the
primitives -/
def callNamed (args : List Obj) (name : String) (σ : St) : Res :=
  match σ.funs.lookup name with
  | some cid => callClosure rec args cid σ
  | none =>
    match primOf name with
    | some p => applyPrim p args σ
    | none => (.err "undefined-function", σ)

/-- function application -/
def stepApply (f : Obj) (args : List Obj) (σ : St) : Res :=
  match f with
  | .clo cid => callClosure rec args cid σ
  | .fn name => callNamed rec args name σ
  | .sym name => callNamed rec args name σ
  | _ => (.err typeError, σ)

def stepSeq (ρ : Env) (es : List Obj) (σ : St) : Res :=
  match es with
  | [] => (.val [.nil], σ)
  | [e] => rec (.form ρ e) σ
  | e :: es => bindV (rec (.form ρ e) σ) (fun _ σ1 => rec (.seq ρ es) σ1)

def stepArgs (ρ : Env) (es : List Obj) (σ : St) : Res :=
  match es with
  | [] => (.val [], σ)
  | e :: es =>
    bindV (rec (.form ρ e) σ) (fun v σ1 =>
      bindV (rec (.args ρ es) σ1) (fun vs σ2 => (.val (prim v :: vs), σ2)))

def stepCond (ρ : Env) (cs : List Obj) (σ : St) : Res :=
  match cs with
  | [] => (.val [.nil], σ)
  | c :: cs =>
    match c with
    | .cons test body =>
      match listOf body with
      | none => (.err programError, σ)
      | some body =>
        bindV (rec (.form ρ test) σ) (fun v σ1 =>
          if truthy (prim v) then
            (if body.isEmpty then (.val [prim v], σ1) else rec (.seq ρ body) σ1)
          else rec (.condClauses ρ cs) σ1)
    | _ => (.err programError, σ)

def stepAnd (ρ : Env) (es : List Obj) (σ : St) : Res :=
  match es with
  | [] => (.val [.t], σ)
  | [e] => rec (.form ρ e) σ
  | e :: es =>
    bindV (rec (.form ρ e) σ) (fun v σ1 =>
      if truthy (prim v) then rec (.andForms ρ es) σ1 else (.val [.nil], σ1))

def stepOr (ρ : Env) (es : List Obj) (σ : St) : Res :=
  match es with
  | [] => (.val [.nil], σ)
  | [e] => rec (.form ρ e) σ
  | e :: es =>
    bindV (rec (.form ρ e) σ) (fun v σ1 =>
      if truthy (prim v) then (.val [prim v], σ1) else rec (.orForms ρ es) σ1)

/-- `let*` = one new frame per binding, each init evaluated in the environment so far -/
def stepLetStar (ρ : Env) (bs : List (String × Obj)) (body : List Obj) (σ : St) : Res :=
  match bs with
  | [] => rec (.seq ρ body) σ
  | (x, init) :: bs =>
    bindV (rec (.form ρ init) σ) (fun v σ1 =>
      rec (.letStar (pushFrame ρ σ1.frames.length) bs body) (addFrame σ1 [(x, prim v)]))

def stepSetq (ρ : Env) (ps : List Obj) (last : Obj) (σ : St) : Res :=
  match ps with
  | [] => (.val [last], σ)
  | .sym x :: e :: ps =>
    bindV (rec (.form ρ e) σ) (fun v σ1 =>
      rec (.setqPairs ρ ps (prim v)) (setVar σ1 ρ x (prim v)))
  | _ => (.err programError, σ)

/-- run the statements of a tagbody instance; a `go` carrying this instance's id restarts after
the tag (searching the whole body: forwards and backwards) -/
def stepTagbody (ρ : Env) (id : Nat) (all rest : List Obj) (σ : St) : Res :=
  match rest with
  | [] => (.val [.nil], σ)
  | x :: rest =>
    if isTag x then rec (.tagbodyRun ρ id all rest) σ
    else
      andThen (rec (.form ρ x) σ) (fun o σ1 =>
        match o with
        | .val _ => rec (.tagbodyRun ρ id all rest) σ1
        | .go id' tag =>
          if id' = id then
            match afterTag tag all with
            | some rest' => rec (.tagbodyRun ρ id all rest') σ1
            | none => (.err controlError, σ1)
          else (.go id' tag, σ1)
        | o => (o, σ1))

def stepDolist (ρ : Env) (fid : Nat) (var : String) (items body : List Obj) (tbid : Nat)
    (result : List Obj) (σ : St) : Res :=
  match items with
  | [] => rec (.seq ρ result) (setInFrame σ fid var .nil)
  | v :: items =>
    bindV (rec (.tagbodyRun ρ tbid body body) (setInFrame σ fid var v)) (fun _ σ1 =>
      rec (.dolistLoop ρ fid var items body tbid result) σ1)

def stepDotimes (ρ : Env) (fid : Nat) (var : String) (i count : Nat) (body : List Obj) (tbid : Nat)
    (result : List Obj) (σ : St) : Res :=
  if i < count then
    bindV (rec (.tagbodyRun ρ tbid body body) (setInFrame σ fid var (.int i))) (fun _ σ1 =>
      rec (.dotimesLoop ρ fid var (i + 1) count body tbid result) σ1)
  else rec (.seq ρ result) (setInFrame σ fid var (.int count))

/-- do* initialisation: like let*, then the loop -/
def stepDoStarInit (ρ : Env) (bs : List (String × Obj)) (spec : DoSpec) (σ : St) : Res :=
  match bs with
  | [] => rec (.doLoop ρ spec) σ
  | (x, init) :: bs =>
    bindV (rec (.form ρ init) σ) (fun v σ1 =>
      rec (.doStarInit (pushFrame ρ σ1.frames.length) bs spec) (addFrame σ1 [(x, prim v)]))

def stepForms (vars : List (String × Option Obj)) : List Obj :=
  vars.filterMap (fun p => p.2)

def stepNames (vars : List (String × Option Obj)) : List String :=
  vars.filterMap (fun p => p.2.map (fun _ => p.1))

def assignAll (σ : St) (ρ : Env) : List String → List Obj → St
  | x :: xs, v :: vs => assignAll (setVar σ ρ x v) ρ xs vs
  | _, _ => σ

def stepDoLoop (ρ : Env) (spec : DoSpec) (σ : St) : Res :=
  bindV (rec (.form ρ spec.test) σ) (fun v σ1 =>
    if truthy (prim v) then
      (if spec.results.isEmpty then (.val [.nil], σ1) else rec (.seq ρ spec.results) σ1)
    else
      bindV (rec (.tagbodyRun ρ spec.tbid spec.body spec.body) σ1) (fun _ σ2 =>
        if spec.sequential then
          bindV (rec (.doSteps ρ spec.vars) σ2) (fun _ σ3 => rec (.doLoop ρ spec) σ3)
        else
          bindV (rec (.args ρ (stepForms spec.vars)) σ2) (fun vs σ3 =>
            rec (.doLoop ρ spec) (assignAll σ3 ρ (stepNames spec.vars) vs))))

def stepDoSteps (ρ : Env) (vars : List (String × Option Obj)) (σ : St) : Res :=
  match vars with
  | [] => (.val [.nil], σ)
  | (_, none) :: vars => rec (.doSteps ρ vars) σ
  | (x, some e) :: vars =>
    bindV (rec (.form ρ e) σ) (fun v σ1 => rec (.doSteps ρ vars) (setVar σ1 ρ x (prim v)))

def stepMapcar (f : Obj) (l1 : List Obj) (l2 : Option (List Obj)) (acc : List Obj) (σ : St) : Res :=
  match l1, l2 with
  | [], _ => (.val [ofList acc.reverse], σ)
  | a :: l1, none =>
    bindV (rec (.apply f [a]) σ) (fun v σ1 => rec (.mapcarLoop f l1 none (prim v :: acc)) σ1)
  | _ :: _, some [] => (.val [ofList acc.reverse], σ)
  | a :: l1, some (b :: l2) =>
    bindV (rec (.apply f [a, b]) σ) (fun v σ1 => rec (.mapcarLoop f l1 (some l2) (prim v :: acc)) σ1)

/-- is the object a function designator that can be called (checked by mapcar before it looks at
the lists, so that an empty list does not hide a bad designator) -/
def callableCheck (σ : St) (f : Obj) : Option String :=
  let named (name : String) : Option String :=
    if (σ.funs.lookup name).isSome || (primOf name).isSome then none else some "undefined-function"
  match f with
  | .clo _ => none
  | .fn name => named name
  | .sym name => named name
  | _ => some typeError

/-- enter a loop form: implicit block `nil` (id `σ.nextId`) around everything, implicit tagbody
(id `σ.nextId + 1`) around the body -/
def loopEnv (ρ : Env) (body : List Obj) (σ : St) : Env :=
  withTags (withBlock ρ "nil" σ.nextId) (σ.nextId + 1) body

/-- special forms and calls: `a` is the decoded argument spine -/
def stepForm (ρ : Env) (head : String) (a : List Obj) (σ : St) : Res :=
  match formOf head, a with
  | .quote, [d] => (.val [d], σ)
  | .progn, es => rec (.seq ρ es) σ
  | .prog1, e :: es =>
    bindV (rec (.form ρ e) σ) (fun v σ1 =>
      bindV (rec (.seq ρ es) σ1) (fun _ σ2 => (.val [prim v], σ2)))
  | .if_, [c, x] =>
    bindV (rec (.form ρ c) σ) (fun v σ1 =>
      if truthy (prim v) then rec (.form ρ x) σ1 else (.val [.nil], σ1))
  | .if_, [c, x, y] =>
    bindV (rec (.form ρ c) σ) (fun v σ1 =>
      if truthy (prim v) then rec (.form ρ x) σ1 else rec (.form ρ y) σ1)
  | .when_, c :: body =>
    bindV (rec (.form ρ c) σ) (fun v σ1 =>
      if truthy (prim v) then rec (.seq ρ body) σ1 else (.val [.nil], σ1))
  | .unless_, c :: body =>
    bindV (rec (.form ρ c) σ) (fun v σ1 =>
      if truthy (prim v) then (.val [.nil], σ1) else rec (.seq ρ body) σ1)
  | .cond_, cs => rec (.condClauses ρ cs) σ
  | .case_, k :: cs =>
    bindV (rec (.form ρ k) σ) (fun v σ1 =>
      match caseSelect (prim v) cs with
      | some body => rec (.seq ρ body) σ1
      | none => (.err programError, σ1))
  | .and_, es => rec (.andForms ρ es) σ
  | .or_, es => rec (.orForms ρ es) σ
  | .let_, bs :: body =>
    match (listOf bs).bind parseBindings with
    | none => (.err programError, σ)
    | some bs =>
      bindV (rec (.args ρ (bs.map (·.2))) σ) (fun vs σ1 =>
        rec (.seq (pushFrame ρ σ1.frames.length) body) (addFrame σ1 (zipFrame (bs.map (·.1)) vs)))
  | .letStar, bs :: body =>
    match (listOf bs).bind parseBindings with
    | none => (.err programError, σ)
    | some bs => rec (.letStar ρ bs body) σ
  | .setq, ps => rec (.setqPairs ρ ps .nil) σ
  | .lambda, ps :: body =>
    match ((listOf ps).bind symNames).bind splitRest with
    | none => (.err programError, σ)
    | some (ps, r) =>
      (.val [.clo σ.clos.length], addClosure σ { params := ps, body := body, env := ρ, name := "", rest := r })
  | .function, [.sym name] => (.val [.fn name], σ)
  | .function, [.cons (.sym "lambda") rest] => rec (.form ρ (.cons (.sym "lambda") rest)) σ
  | .funcall, f :: as =>
    bindV (rec (.args ρ (f :: as)) σ) (fun vs σ1 =>
      match vs with
      | fv :: avs => rec (.apply fv avs) σ1
      | [] => (.err programError, σ1))
  | .apply, f :: as =>
    bindV (rec (.args ρ (f :: as)) σ) (fun vs σ1 =>
      match vs with
      | fv :: avs =>
        match avs.getLast?, avs.dropLast with
        | some l, front =>
          match listOf l with
          | some spread => rec (.apply fv (front ++ spread)) σ1
          | none => (.err typeError, σ1)
        | none, _ => (.err programError, σ1)
      | [] => (.err programError, σ1))
  | .mapcar, [f, l] =>
    bindV (rec (.args ρ [f, l]) σ) (fun vs σ1 =>
      match vs with
      | [fv, lv] =>
        match callableCheck σ1 fv, listOf lv with
        | some cls, _ => (.err cls, σ1)
        | none, some items => rec (.mapcarLoop fv items none []) σ1
        | none, none => (.err typeError, σ1)
      | _ => (.err programError, σ1))
  | .mapcar, [f, l, l2] =>
    bindV (rec (.args ρ [f, l, l2]) σ) (fun vs σ1 =>
      match vs with
      | [fv, lv, lv2] =>
        match callableCheck σ1 fv, listOf lv, listOf lv2 with
        | some cls, _, _ => (.err cls, σ1)
        | none, some items, some items2 => rec (.mapcarLoop fv items (some items2) []) σ1
        | none, _, _ => (.err typeError, σ1)
      | _ => (.err programError, σ1))
  | .defun, .sym name :: ps :: body =>
    match ((listOf ps).bind symNames).bind splitRest with
    | none => (.err programError, σ)
    | some (ps, r) =>
      (.val [.sym name],
        setFun (addClosure σ { params := ps, body := body, env := ρ, name := name, rest := r }) name σ.clos.length)
  | .dolist, spec :: body =>
    match listOf spec with
    | some (.sym var :: listForm :: result) =>
      if result.length > 1 then (.err programError, σ) else
      catchRet σ.nextId (
        bindV (rec (.form (loopEnv ρ body σ) listForm) (bumpId (bumpId σ))) (fun v σ2 =>
          match listOf (prim v) with
          | none => (.err typeError, σ2)
          | some items =>
            rec (.dolistLoop (pushFrame (loopEnv ρ body σ) σ2.frames.length) σ2.frames.length var items body
              (σ.nextId + 1) result) (addFrame σ2 [(var, .nil)])))
    | _ => (.err programError, σ)
  | .dotimes, spec :: body =>
    match listOf spec with
    | some (.sym var :: countForm :: result) =>
      if result.length > 1 then (.err programError, σ) else
      catchRet σ.nextId (
        bindV (rec (.form (loopEnv ρ body σ) countForm) (bumpId (bumpId σ))) (fun v σ2 =>
          match prim v with
          | .int n =>
            rec (.dotimesLoop (pushFrame (loopEnv ρ body σ) σ2.frames.length) σ2.frames.length var 0 n.toNat body
              (σ.nextId + 1) result) (addFrame σ2 [(var, .nil)])
          | _ => (.err typeError, σ2)))
    | _ => (.err programError, σ)
  | .do_, bs :: endc :: body =>
    match (listOf bs).bind parseDoBindings, listOf endc with
    | some bs, some (test :: results) =>
      catchRet σ.nextId (
        bindV (rec (.args (loopEnv ρ body σ) (bs.map (·.2.1))) (bumpId (bumpId σ))) (fun vs σ2 =>
          rec (.doLoop (pushFrame (loopEnv ρ body σ) σ2.frames.length)
            { vars := bs.map (fun b => (b.1, b.2.2)), test := test, results := results, body := body,
              sequential := false, tbid := σ.nextId + 1 }) (addFrame σ2 (zipFrame (bs.map (·.1)) vs))))
    | _, _ => (.err programError, σ)
  | .doStar, bs :: endc :: body =>
    match (listOf bs).bind parseDoBindings, listOf endc with
    | some bs, some (test :: results) =>
      catchRet σ.nextId (
        rec (.doStarInit (loopEnv ρ body σ) (bs.map (fun b => (b.1, b.2.1)))
          { vars := bs.map (fun b => (b.1, b.2.2)), test := test, results := results, body := body,
            sequential := true, tbid := σ.nextId + 1 }) (bumpId (bumpId σ)))
    | _, _ => (.err programError, σ)
  | .values, es => rec (.args ρ es) σ
  | .mvBind, vars :: vform :: body =>
    match (listOf vars).bind symNames with
    | none => (.err programError, σ)
    | some xs =>
      bindV (rec (.form ρ vform) σ) (fun vs σ1 =>
        rec (.seq (pushFrame ρ σ1.frames.length) body) (addFrame σ1 (zipFrame xs vs)))
  | .mvList, [e] =>
    bindV (rec (.form ρ e) σ) (fun vs σ1 => (.val [ofList vs], σ1))
  | .block, name :: body =>
    match blockName name with
    | none => (.err typeError, σ)
    | some nm => catchRet σ.nextId (rec (.seq (withBlock ρ nm σ.nextId) body) (bumpId σ))
  | .returnFrom, name :: rest =>
    match blockName name with
    | none => (.err typeError, σ)
    | some nm =>
      match ρ.blocks.lookup nm with
      | none => (.err controlError, σ)
      | some bid =>
        match rest with
        | [] => (.ret bid [.nil], σ)
        | [e] => bindV (rec (.form ρ e) σ) (fun vs σ1 => (.ret bid vs, σ1))
        | _ => (.err programError, σ)
  | .return_, rest =>
    match ρ.blocks.lookup "nil" with
    | none => (.err controlError, σ)
    | some bid =>
      match rest with
      | [] => (.ret bid [.nil], σ)
      | [e] => bindV (rec (.form ρ e) σ) (fun vs σ1 => (.ret bid vs, σ1))
      | _ => (.err programError, σ)
  | .tagbody, items =>
    rec (.tagbodyRun (withTags ρ σ.nextId items) σ.nextId items items) (bumpId σ)
  | .go_, [tag] =>
    match ρ.tags.lookup tag with
    | some id => (.go id tag, σ)
    | none => (.err controlError, σ)
  | .unwindProtect, p :: cleanup =>
    andThen (rec (.form ρ p) σ) (fun o σ1 =>
      andThen (rec (.seq ρ cleanup) σ1) (fun oc σ2 =>
        match oc with
        | .val _ => (o, σ2)
        | oc => (oc, σ2)))
  | .ignoreErrors, body =>
    andThen (rec (.seq ρ body) σ) (fun o σ1 =>
      match o with
      | .err cls => (.val [.nil, .cond cls], σ1)
      | o => (o, σ1))
  | .error_, e :: es =>
    bindV (rec (.args ρ (e :: es)) σ) (fun vs σ1 =>
      match vs with
      | .str _ :: _ => (.err "error", σ1)
      | _ => (.err typeError, σ1))
  | .withMutexLock, m :: body =>
    bindV (rec (.form ρ m) σ) (fun v σ1 =>
      match prim v with
      | .mutex id =>
        match σ1.locks[id]? with
        | some false =>
          andThen (rec (.seq ρ body) (setLock σ1 id true)) (fun o σ2 => (o, setLock σ2 id false))
        | some true => (.err "x-deadlock", σ1)
        | none => (.err typeError, σ1)
      | _ => (.err typeError, σ1))
  -- `(recover sym on-recover form…)` (gi:recover): the forms in order; when one of them signals an error, the
  -- on-recover form is evaluated with `sym` bound to the condition and gives the value. Only errors are
  -- recovered: return-from / go pass.
  | .recover, .sym x :: onrec :: body =>
    andThen (rec (.seq ρ body) σ) (fun o σ1 =>
      match o with
      | .err cls => rec (.form (pushFrame ρ σ1.frames.length) onrec) (addFrame σ1 [(x, .cond cls)])
      | o => (o, σ1))
  -- `(with-open-file (sym path option…) form…)`: path and options are evaluated left to right, the stream is
  -- opened and bound to `sym` in a new frame, and closed when the body is left — on every path, whatever the body did to
  -- the stream (closing a stream the body closed already, or a `:direction :probe` stream, is a no-op: the outcome
  -- of the body stays the outcome of the form).
  | .withOpenFile, spec :: body =>
    match listOf spec with
    | some (.sym x :: path :: opts) =>
      bindV (rec (.args ρ (path :: opts)) σ) (fun vs σ1 =>
        match vs with
        | .str _ :: ovs =>
          andThen (rec (.seq (pushFrame ρ σ1.frames.length) body)
              (addFrame (addStream σ1 (!probeDirection ovs)) [(x, .stream σ1.streams.length)]))
            (fun o σ2 => (o, closeStream σ2 σ1.streams.length))
        | _ => (.err typeError, σ1))
    | _ => (.err typeError, σ)
  | .call, as =>
    bindV (rec (.args ρ as) σ) (fun vs σ1 => rec (.apply (.fn head) vs) σ1)
  | _, _ => (.err programError, σ)

def stepEval (ρ : Env) (e : Obj) (σ : St) : Res :=
  match e with
  | .sym s =>
    if isKeyword s then (.val [e], σ) else
    match lookupVar σ ρ s with
    | some v => (.val [v], σ)
    | none => (.err "unbound-variable", σ)
  | .cons (.sym head) rest =>
    match listOf rest with
    | some a => stepForm rec ρ head a σ
    | none => (.err programError, σ)
  | .cons (.cons (.sym "lambda") lam) rest =>
    -- ((lambda (x…) body…) arg…): arguments first (left to right), then the binding, like let
    match listOf rest, lam with
    | some as, .cons ps body =>
      match (listOf ps).bind symNames, listOf body with
      | some ps, some body =>
        if ps.length != as.length then (.err programError, σ) else
        bindV (rec (.args ρ as) σ) (fun vs σ1 =>
          rec (.seq (pushFrame ρ σ1.frames.length) body) (addFrame σ1 (zipFrame ps vs)))
      | _, _ => (.err programError, σ)
    | _, _ => (.err programError, σ)
  | .cons _ _ => (.err programError, σ)
  | e => (.val [e], σ)

def step (task : Task) (σ : St) : Res :=
  match task with
  | .form ρ e => stepEval rec ρ e σ
  | .seq ρ es => stepSeq rec ρ es σ
  | .args ρ es => stepArgs rec ρ es σ
  | .apply f as => stepApply rec f as σ
  | .condClauses ρ cs => stepCond rec ρ cs σ
  | .andForms ρ es => stepAnd rec ρ es σ
  | .orForms ρ es => stepOr rec ρ es σ
  | .letStar ρ bs body => stepLetStar rec ρ bs body σ
  | .setqPairs ρ ps last => stepSetq rec ρ ps last σ
  | .tagbodyRun ρ id all rest => stepTagbody rec ρ id all rest σ
  | .dolistLoop ρ fid var items body tbid result => stepDolist rec ρ fid var items body tbid result σ
  | .dotimesLoop ρ fid var i count body tbid result => stepDotimes rec ρ fid var i count body tbid result σ
  | .doStarInit ρ bs spec => stepDoStarInit rec ρ bs spec σ
  | .doLoop ρ spec => stepDoLoop rec ρ spec σ
  | .doSteps ρ vars => stepDoSteps rec ρ vars σ
  | .mapcarLoop f l1 l2 acc => stepMapcar rec f l1 l2 acc σ

end step

/-- the evaluator: `n` bounds the nesting depth of sub-evaluations -/
def evalN : Nat → Task → St → Res
  | 0 => fun _ σ => (.timeout, σ)
  | n + 1 => step (evalN n)

/-- evaluate the top-level forms of a program one after the other in the empty environment -/
def runProgram (fuel : Nat) (forms : List Obj) (σ : St) : Res :=
  evalN fuel (.seq {} forms) σ

end SlipVerif.Eval
