/- C09 — the reader's object stack and the numeric argument of the sharp macro (core Lean only;
   linked into the slipmodel driver, entry points `tot stack` / `tot sharp`).

   (1) `(*reader).read` of code.go keeps two slices: `r.stack` (objects and markers) and `r.starts`
   (for every open list / vector the index of its opener in `r.stack`). `closeList`, `pushToken` and
   the value clauses index them: `r.starts[len-1]`, `make(List, len(r.stack)-start-1)`,
   `r.stack[start]`, `r.stack[start-1]`, `r.stack[len(r.stack)-1]`. The model performs the same
   accesses with an explicit `fault` outcome where Go would panic (index out of range, makeslice
   with a negative length). Theorems/C09Stack.lean shows `fault` is unreachable from the empty
   state for every sequence of operations.

   (2) `case sharpNumByte` accumulates the decimal argument of `#<n>A` / `#<n>R` in a Go int with a
   guard before the multiply; the model does the arithmetic modulo 2^64 like Go and the theorems show
   that the wrap never happens when the extracted guard constant is small enough, and that what
   reaches `make([]int, n)` / the radix of pushInteger is inside the extracted bounds. -/
namespace SlipVerif.ReaderStack

/-! ## (1) object stack -/

inductive MK where
  | quote | sharpQuote | backquote | comma | commaAt
deriving DecidableEq, Repr

inductive Opener where
  | list      -- `(`  : r.stack gets nil
  | vector    -- `#(` : r.stack gets vectorMarker (closeList takes the *Vector branch: no quote step)
deriving DecidableEq, Repr

inductive Item where
  | opener (k : Opener)
  | marker (k : MK)
  | value
deriving DecidableEq, Repr

/-- `stack` is r.stack bottom first (index i = r.stack[i]); `starts` is r.starts LAST ELEMENT FIRST
    (the head is `r.starts[len(r.starts)-1]`); `forms` is len(r.code). -/
structure SState where
  stack : List Item
  starts : List Nat
  forms : Nat
deriving DecidableEq, Repr

inductive Why where
  | unmatched       -- "unmatched close parenthesis"
  | commaOutside    -- "comma not inside a backquote"
deriving DecidableEq, Repr

inductive SOut where
  | ok (s : SState)
  | raise (w : Why)
  /-- where Go panics: index out of range / makeslice: len out of range -/
  | fault
deriving DecidableEq, Repr

inductive Op where
  | openList | openVec
  | close
  /-- `'`, `#'`, `` ` `` -/
  | mark (k : MK)
  | comma
  /-- `@` directly after a comma -/
  | commaAt
  /-- string, |symbol|, character, #x… integer, bit vector: pushed as they are -/
  | value
  /-- the tokens `t` / `nil`: pushed without looking at the marker below -/
  | tokenTN
  /-- any other token: wrapped when a marker is on top of the stack -/
  | token
deriving DecidableEq, Repr

def empty : SState := { stack := [], starts := [], forms := 0 }

/-- `if 0 < len(r.stack) { r.stack = append(r.stack, obj) } else { r.code = append(r.code, obj) }` -/
def pushValue (s : SState) : SState :=
  if 0 < s.stack.length then { s with stack := s.stack ++ [.value] }
  else { s with forms := s.forms + 1 }

def openWith (k : Opener) (s : SState) : SState :=
  { s with starts := s.stack.length :: s.starts, stack := s.stack ++ [.opener k] }

/-- `r.inBackquote()` -/
def inBackquote (s : SState) : Bool := s.stack.contains (.marker .backquote)

/-- pushToken for a token other than t / nil -/
def pushToken (s : SState) : SOut :=
  if 0 < s.stack.length then
    match s.stack[s.stack.length - 1]? with
    | none => .fault
    | some (.marker _) =>
      if s.stack.length = 1 then .ok { s with stack := [], forms := s.forms + 1 }
      else .ok { s with stack := s.stack.set (s.stack.length - 1) .value }
    | some _ => .ok (pushValue s)
  else .ok (pushValue s)

/-- closeList, access by access -/
def closeList (s : SState) : SOut :=
  match s.starts with
  | [] => .raise .unmatched
  | start :: outer =>
    -- size := len(r.stack) - start - 1; list := make(List, size); copy(list, r.stack[start+1:])
    if s.stack.length < start + 1 then .fault
    else
      let stack1 := s.stack.take (start + 1)          -- r.stack = r.stack[:start+1]
      match stack1[start]? with                        -- switch to := r.stack[start].(type)
      | none => .fault
      | some top =>
        let step : Option (Nat × List Item) :=
          match top with
          | .opener .vector => some (start, stack1)
          | _ =>
            if 0 < start then
              match stack1[start - 1]? with              -- switch r.stack[start-1]
              | none => none
              -- start--; r.stack[start] = nil; r.stack = r.stack[:start+1]
              | some (.marker _) => some (start - 1, stack1.take start)
              | some _ => some (start, stack1)
            else some (start, stack1)
        match step with
        | none => .fault
        | some (st, stack2) =>
          if 0 < st then
            -- r.stack[start] = obj; r.starts = r.starts[:len(r.starts)-1]
            if st < stack2.length then .ok { stack := stack2.set st .value, starts := outer, forms := s.forms }
            else .fault
          else
            -- r.stack = r.stack[:0]; r.starts = r.starts[:0]; r.code = append(r.code, obj)
            .ok { stack := [], starts := [], forms := s.forms + 1 }

def step (s : SState) : Op → SOut
  | .openList => .ok (openWith .list s)
  | .openVec => .ok (openWith .vector s)
  | .close => closeList s
  | .mark k => .ok { s with stack := s.stack ++ [.marker k] }
  | .comma =>
    if inBackquote s then .ok { s with stack := s.stack ++ [.marker .comma] } else .raise .commaOutside
  | .commaAt =>
    if 0 < s.stack.length then
      match s.stack[s.stack.length - 1]? with
      | none => .fault
      | some (.marker .comma) => .ok { s with stack := s.stack.set (s.stack.length - 1) (.marker .commaAt) }
      | some _ => .ok s       -- `@` starts a token
    else .ok s
  | .value => .ok (pushValue s)
  | .tokenTN => .ok (pushValue s)
  | .token => pushToken s

inductive Final where
  /-- the input was read completely: len(r.code) -/
  | forms (n : Nat)
  /-- end of input with objects on the stack: PartialPanic with Depth = len(r.starts) -/
  | partialDepth (d : Nat)
  | raise (w : Why) (at_ : Nat)
  | fault (at_ : Nat)
deriving DecidableEq, Repr

def finish (s : SState) : Final :=
  if 0 < s.stack.length then .partialDepth s.starts.length else .forms s.forms

def runOps : SState → Nat → List Op → Final
  | s, _, [] => finish s
  | s, i, op :: rest =>
    match step s op with
    | .ok s' => runOps s' (i + 1) rest
    | .raise w => .raise w i
    | .fault => .fault i

def run (ops : List Op) : Final := runOps empty 0 ops

/-- every entry of r.starts is the index of an opener that is still in r.stack, and the entries
    increase (boolean version, for the driver's self check) -/
def startsOK (s : SState) : Bool :=
  s.starts.all (fun st => match s.stack[st]? with
    | some (.opener _) => true
    | _ => false) &&
  (s.starts.zip (s.starts.drop 1)).all (fun p => decide (p.2 < p.1))

/-! ## (2) numeric argument of the sharp macro -/

structure SharpConsts where
  /-- math.MaxInt -/
  maxInt : Nat
  /-- the constant `r.sharpNum` is compared with before `r.sharpNum*10 + digit` -/
  guard : Nat
  /-- ArrayMaxRank -/
  maxRank : Nat
  /-- the radix bounds the `radixByte` clause checks before pushInteger uses `r.base` (0, 0 when the
      clause has no check) -/
  radixLo : Nat
  radixHi : Nat
deriving Repr

/-- Go's int arithmetic: the result modulo 2^64 in [-2^63, 2^63) -/
def wrapInt (x : Int) : Int := (x + 9223372036854775808) % 18446744073709551616 - 9223372036854775808

/-- `case sharpNumByte`: none = r.raise("numeric argument to the sharp macro is too large") -/
def sharpStep (c : SharpConsts) (n : Int) (d : Nat) : Option Int :=
  if (c.guard : Int) < n then none else some (wrapInt (n * 10 + d))

def sharpAcc (c : SharpConsts) : Int → List Nat → Option Int
  | n, [] => some n
  | n, d :: ds =>
    match sharpStep c n d with
    | none => none
    | some n' => sharpAcc c n' ds

/-- the digits of a sharp argument, first digit by `case sharpIntByte` (r.sharpNum = int(b-'0')) -/
def sharpNum (c : SharpConsts) : List Nat → Option Int
  | [] => some 0
  | d :: ds => sharpAcc c (d : Int) ds

inductive Dispatch where
  /-- nothing is allocated / no radix is used -/
  | plain
  | raise
  /-- make([]int, n) twice -/
  | alloc (n : Int)
  /-- pushInteger parses with this base (strconv.ParseInt, then math/big which panics outside 2..62) -/
  | radix (b : Int)
  /-- make with a negative length, or math/big's "invalid number base" -/
  | fault
deriving DecidableEq, Repr

/-- `case arrayByte` -/
def arrayDispatch (c : SharpConsts) (n : Int) : Dispatch :=
  if n = 0 ∨ n = 1 then .plain
  else if (c.maxRank : Int) < n then .raise
  else if n < 0 then .fault
  else .alloc n

/-- math/big accepts bases 2..62 (MaxBase) and 0 -/
def bigBaseOK (b : Int) : Bool := b == 0 || (2 ≤ b && b ≤ 62)

/-- `case radixByte` followed by pushInteger -/
def radixDispatch (c : SharpConsts) (n : Int) : Dispatch :=
  if c.radixHi ≠ 0 ∧ (n < (c.radixLo : Int) ∨ (c.radixHi : Int) < n) then .raise
  else if bigBaseOK n then .radix n
  else .fault

/-- `#<digits>A` / `#<digits>R`: what the reader does with the argument -/
def sharpDispatch (c : SharpConsts) (digits : List Nat) (array : Bool) : Dispatch :=
  match sharpNum c digits with
  | none => .raise
  | some n => if array then arrayDispatch c n else radixDispatch c n

/-- the condition Theorems/GenC09 decides for the extracted constants -/
def SharpOK (c : SharpConsts) : Bool :=
  decide (c.guard * 10 + 9 ≤ c.maxInt) && decide (c.maxInt = 9223372036854775807) &&
  decide (2 ≤ c.radixLo) && decide (c.radixLo ≤ c.radixHi) && decide (c.radixHi ≤ 62) &&
  decide (c.maxRank ≤ 65536)

/-! ## (3) format argument cursor (pkg/cl/control.go: nextArg, dirMove) -/

/-- what the extractor reads off control.go: every index expression `c.args[c.argPos]` is reached
    only after `0 <= c.argPos` (checksLow) and `c.argPos < len(c.args)` (checksHigh) were checked -/
structure CursorGuards where
  checksLow : Bool
  checksHigh : Bool
deriving Repr

inductive ArgOut where
  /-- "missing argument for directive" -/
  | raise
  /-- the index of the argument taken and the cursor afterwards -/
  | got (idx : Nat) (pos : Int)
  /-- c.args[c.argPos] with the cursor outside the slice: Go's index out of range -/
  | fault
deriving DecidableEq, Repr

/-- nextArg: guard, index, increment -/
def nextArg (g : CursorGuards) (len : Nat) (pos : Int) : ArgOut :=
  if (g.checksLow && decide (pos < 0)) || (g.checksHigh && decide ((len : Int) ≤ pos)) then .raise
  else if pos < 0 ∨ (len : Int) ≤ pos then .fault
  else .got pos.toNat (pos + 1)

/-- dirMove (`~n*`, `~n:*`, `~n@*`): Go int arithmetic (wraps), then the range check; none = raise -/
def moveCursor (len : Nat) (pos : Int) (colon at_ : Bool) (n : Int) : Option Int :=
  let p := if colon then wrapInt (pos - n) else if at_ then n else wrapInt (pos + n)
  if p < 0 ∨ (len : Int) < p then none else some p

inductive CurOp where
  | next
  | move (colon at_ : Bool) (n : Int)
deriving Repr

inductive CurRun where
  /-- indices of the arguments consumed, in order, and the final cursor -/
  | done (taken : List Nat) (pos : Int)
  | raise (at_ : Nat)
  | fault (at_ : Nat)
deriving DecidableEq, Repr

def runCursor (g : CursorGuards) (len : Nat) : Int → Nat → List Nat → List CurOp → CurRun
  | pos, _, taken, [] => .done taken.reverse pos
  | pos, i, taken, .next :: rest =>
    match nextArg g len pos with
    | .raise => .raise i
    | .fault => .fault i
    | .got idx pos' => runCursor g len pos' (i + 1) (idx :: taken) rest
  | pos, i, taken, .move colon at_ n :: rest =>
    match moveCursor len pos colon at_ n with
    | none => .raise i
    | some pos' => runCursor g len pos' (i + 1) taken rest

end SlipVerif.ReaderStack
