/-
  C02 — reading is a function of the text, not of its delivery.

  A model of slip's reader (`code.go`: `reader.read`, `pushToken`, `resolveToken`, `pushChar`,
  `pushInteger`, `closeList`, the block loops of `ReadStream*`, `ReadOne`) at two layers.

  L1 (`step1`, `readAll`): a byte-at-a-time left fold. The state carries the lexer mode, the *bytes
      themselves* of the token / string being read, the object stack, the finished objects and the
      number of bytes consumed. This is the specification: by construction the result depends only on
      the concatenation of the bytes.
  L2 (`step2`, `endBlock`, `readBlocks`): the implementation's block structure. A token is an offset
      `tokenStart` into the *current* block plus a `carry` of bytes saved from earlier blocks, a
      string is either the slice `src[tokenStart:pos]` of the current block or, once an escape or a
      block boundary was met, the bytes in `buf`.

  The per-mode byte tables are not written here: every function takes a `Tables` value which the
  driver instantiates with `Gen/ReaderTables.lean`, regenerated from `/repo/code.go` on every run.
  What each action code *does* is transcribed by hand from the `switch` in `reader.read`.

  The model describes the repaired reader (repo-patches/C02): the carry is saved only in the modes
  that own a token, `pushToken`/`pushChar` look at the whole token, the one-form position is past a
  closing `"` or `|`, and a text ending inside `#`-dispatch / `#*…` / `#|…` is not silently accepted.

  Core Lean only (linked into the `slipmodel` driver).
-/
namespace SlipVerif.Reader

abbrev Byte := UInt8

/-! ### modes and actions -/

/-- modes in which no token or string is being collected -/
inductive PMode where
  | value | comment | sharp | sharpNum | mustArray | blockComment | blockEnd
  deriving DecidableEq, Repr

/-- modes that collect the raw bytes of a token (`tokenMode charMode intMode bitVectorMode`) -/
inductive TMode where
  | token | chr | int | bitVec
  deriving DecidableEq, Repr

/-- modes that collect the content of a string or a |symbol| -/
inductive SMode where
  | string | symbol
  deriving DecidableEq, Repr

inductive Mode where
  | plain (p : PMode)
  | tok (t : TMode)
  | str (s : SMode)
  | esc
  | rune
  /-- `charStartMode`: directly behind `#\`, the next byte is taken whatever it is -/
  | chrStart
  deriving DecidableEq, Repr

/-- one constructor per `case` label of the byte switch in `reader.read`, plus the default branch -/
inductive Action where
  | skipNewline | skipByte | commentByte | commentDone | openParen | closeParen
  | tokenStart | tokenDone | doubleQuote | pipeByte | stringByte | stringDone | pipeDone
  | escByte | escOne | escUnicode4 | escUnicode8 | runeDigit | runeHexA | runeHexa
  | sharpByte | charSlash | charFirst | charDone | vectorByte | binaryByte | octByte | hexByte | intDone
  | sharpIntByte | sharpNumByte | radixByte | sharpComplex | arrayByte | swallowOpen
  | singleQuote | sharpQuote | backquote | comma | commaAt | blockStart | blockEnd0
  | bitVectorByte | bitVectorDone
  | raise
  deriving DecidableEq, Repr

/-- the reader's tables as data (instantiated from Gen/ReaderTables by the driver and GenC02) -/
structure Tables where
  value : List Nat
  comment : List Nat
  token : List Nat
  string : List Nat
  symbol : List Nat
  esc : List Nat
  rune : List Nat
  sharp : List Nat
  chr : List Nat
  chrStart : List Nat
  int : List Nat
  sharpNum : List Nat
  mustArray : List Nat
  blockComment : List Nat
  blockEnd : List Nat
  bitVector : List Nat
  /-- `escByteMap` -/
  escMap : List Nat
  /-- `hexByteValues` -/
  hexVals : List Nat
  /-- `runeMap`: lower-case character name, code point -/
  runeMap : List (List Nat × Nat)
  arrayMaxRank : Nat
  /-- action code (a byte of a mode table) → action; codes not listed take the default branch -/
  acts : List (Nat × Action)

def Tables.get (T : Tables) : Mode → List Nat
  | .plain .value => T.value
  | .plain .comment => T.comment
  | .plain .sharp => T.sharp
  | .plain .sharpNum => T.sharpNum
  | .plain .mustArray => T.mustArray
  | .plain .blockComment => T.blockComment
  | .plain .blockEnd => T.blockEnd
  | .tok .token => T.token
  | .tok .chr => T.chr
  | .tok .int => T.int
  | .tok .bitVec => T.bitVector
  | .str .string => T.string
  | .str .symbol => T.symbol
  | .esc => T.esc
  | .rune => T.rune
  | .chrStart => T.chrStart

def decode (T : Tables) (code : Nat) : Action :=
  match T.acts.lookup code with
  | some a => a
  | none => .raise

/-- `r.mode[b]`; a table with fewer than 256 entries would be an index fault in Go: `none` -/
def lookup? (T : Tables) (m : Mode) (b : Byte) : Option Action :=
  (T.get m)[b.toNat]?.map (decode T)

/-! ### objects -/

inductive Marker where
  | quote | sharpQuote | backquote | comma | commaAt
  deriving DecidableEq, Repr

inductive FloatTy where
  | single | double | long
  deriving DecidableEq, Repr

inductive Opener where
  | list | vec | arr (rank : Nat) | cplx
  deriving DecidableEq, Repr

/-- what the reader produces. Floats are not evaluated (`flo` keeps the token text);
    `timeLike` is a token `@<digit>…` which slip may read as a time or as a symbol. `mark` and
    `opener` are the reader's own stack markers (a `mark` can end up inside a list: `(a 't)`). -/
inductive Obj where
  | nil
  | tru
  | int (v : Int)
  | ratio (num : Int) (den : Nat)
  | flo (ty : FloatTy) (tok : List Byte)
  | timeLike (tok : List Byte)
  | sym (name : List Byte)
  | str (bs : List Byte)
  | chr (cp : Nat)
  | bits (bs : List Bool)
  | list (xs : List Obj)
  | tail (x : Obj)
  | vec (xs : List Obj)
  | arr (dims : List Nat) (elems : List Obj)
  | cplx (re im : Obj)
  | wrap (m : Marker) (x : Obj)
  | mark (m : Marker)
  | opener (k : Opener)

inductive Err where
  | parse                 -- `r.raise`: parse-error
  | incomplete (depth : Nat) -- `r.partial`: PartialPanic with the list depth
  | table                 -- the tables leave the matrix of (mode class, action) the model covers
  | unsupported           -- construct outside the model (radix outside 2..36)
  | eof                   -- nothing to read where one form was required
  deriving DecidableEq, Repr

inductive Halt where
  | err (e : Err)
  | one (endPos : Nat)    -- one-form mode: the first form is complete, `endPos` bytes belong to it
  deriving DecidableEq, Repr

structure Cfg where
  /-- `*read-base*` (2..36) -/
  rbase : Nat := 10
  /-- `*read-default-float-format*` -/
  floatTy : FloatTy := .double
  /-- `ReadOne` / `ReadStream(…, true)` -/
  one : Bool := false
  deriving Repr

/-- the part of the reader state that does not depend on how token bytes are stored -/
structure Core where
  stack : List Obj := []
  starts : List Nat := []
  code : List Obj := []
  nextMode : SMode := .string
  base : Nat := 10
  sharpNum : Nat := 0
  rn : Nat := 0
  rcnt : Nat := 0
  line : Nat := 0
  halt : Option Halt := none

def Core.fail (c : Core) (e : Err) : Core := { c with halt := some (.err e) }

/-- `if 0 < len(r.stack) { r.stack = append(r.stack, obj) } else { r.code = append(r.code, obj) }` -/
def Core.push (c : Core) (o : Obj) : Core :=
  match c.stack with
  | [] => { c with code := c.code ++ [o] }
  | _ :: _ => { c with stack := c.stack ++ [o] }

/-! ### token resolution (`resolveToken`, `pushInteger`, `pushChar`) -/

def lowerByte (b : Byte) : Byte := if 65 ≤ b ∧ b ≤ 90 then b + 32 else b
def lower (bs : List Byte) : List Byte := bs.map lowerByte

def isDigit (b : Byte) : Bool := 48 ≤ b && b ≤ 57

/-- value of a digit in any radix up to 36, both letter cases -/
def digitVal (b : Byte) : Option Nat :=
  if 48 ≤ b ∧ b ≤ 57 then some (b.toNat - 48)
  else if 97 ≤ b ∧ b ≤ 122 then some (b.toNat - 97 + 10)
  else if 65 ≤ b ∧ b ≤ 90 then some (b.toNat - 65 + 10)
  else none

/-- a non-empty run of digits of `base`, most significant first -/
def parseNat (base : Nat) (ds : List Byte) : Option Nat :=
  match ds with
  | [] => none
  | _ => ds.foldlM (fun acc d => match digitVal d with
      | some v => if v < base then some (acc * base + v) else none
      | none => none) 0

/-- `[-+]?digits+` -/
def parseSigned (base : Nat) (bs : List Byte) : Option Int :=
  match bs with
  | 45 :: ds => (parseNat base ds).map (fun n => - (n : Int))
  | 43 :: ds => (parseNat base ds).map (fun n => (n : Int))
  | ds => (parseNat base ds).map (fun n => (n : Int))

def dropLastDot (bs : List Byte) : List Byte :=
  match bs.getLast? with
  | some 46 => bs.dropLast
  | _ => bs

/-- `intRxs[base]`: `^[-+]?[digits of base]+\.?$` then `ParseInt`/`big.Int.SetString` -/
def matchInt (base : Nat) (tok : List Byte) : Option Int :=
  parseSigned base (dropLastDot tok)

/-- split at the first `/` -/
def splitSlash : List Byte → Option (List Byte × List Byte)
  | [] => none
  | b :: rest =>
    if b = 47 then some ([], rest)
    else (splitSlash rest).map (fun (a, c) => (b :: a, c))

/-- `ratioRxs[base]`: `^[-+]?d+/[-+]?d+$` -/
def matchRatio (base : Nat) (tok : List Byte) : Option (Int × Int) :=
  match splitSlash tok with
  | none => none
  | some (n, d) =>
    match parseSigned base n, parseSigned base d with
    | some nv, some dv => some (nv, dv)
    | _, _ => none

def allDigits (bs : List Byte) : Bool := bs.all isDigit

/-- shape `[0-9]+\.?[0-9]*` followed by `rest`; returns `rest` -/
def stripMantissa (bs : List Byte) : Option (List Byte) :=
  let ip := bs.takeWhile isDigit
  let r1 := bs.dropWhile isDigit
  if ip.isEmpty then none
  else match r1 with
    | 46 :: r2 => some (r2.dropWhile isDigit)
    | _ => some r1

def stripSign : List Byte → List Byte
  | 45 :: r => r
  | 43 :: r => r
  | r => r

/-- the float regular expressions of code.go on the lower-cased token: `none` = not a float,
    `some none` = `decimalRegex`, `some (some c)` = exponent marker `c` ∈ e s f d l -/
def floatShape (tok : List Byte) : Option (Option Byte) :=
  match stripMantissa (stripSign tok) with
  | none => none
  | some [] => some none
  | some (c :: ex) =>
    if c = 101 ∨ c = 115 ∨ c = 102 ∨ c = 100 ∨ c = 108 then
      let ds := stripSign ex
      if !ds.isEmpty && allDigits ds then some (some c) else none
    else none

def floatTyOf (cfg : Cfg) : Option Byte → FloatTy
  | none => cfg.floatTy
  | some c =>
    if c = 101 then cfg.floatTy
    else if c = 100 then .double
    else if c = 108 then .long
    else .single

/-- `resolveToken`: what a bare token denotes under `*read-base*` / `*read-default-float-format*` -/
def resolveToken (cfg : Cfg) (tok : List Byte) : Obj :=
  let low := lower tok
  match low with
  | 64 :: rest =>
    -- `@…`: slip's time literal; only a token starting with a digit after `@` can parse as a time
    match rest with
    | d :: _ => if isDigit d then .timeLike tok else .sym tok
    | [] => .sym tok
  | _ =>
    match matchInt cfg.rbase low with
    | some i => .int i
    | none =>
      match floatShape low with
      | some sh => .flo (floatTyOf cfg sh) tok
      | none =>
        match matchRatio cfg.rbase low with
        | some (n, d) =>
          if 0 < d then
            let g := Nat.gcd n.natAbs d.natAbs
            .ratio (n / (g : Int)) (d.natAbs / g)
          else .sym tok
        | none => .sym tok

def markerOf : Obj → Option Marker
  | .mark m => some m
  | _ => none

def isNilTok (tok : List Byte) : Bool := lower tok == [110, 105, 108]

/-- `pushToken` on the complete token bytes -/
def pushToken (cfg : Cfg) (c : Core) (tok : List Byte) : Core :=
  if tok = [116] ∨ tok = [84] then c.push .tru
  else if isNilTok tok then c.push .nil
  else
    match c.stack.getLast? with
    | some (.mark m) =>
      let w := Obj.wrap m (.sym tok)
      match c.stack with
      | [_] => { c with code := c.code ++ [w], stack := [] }
      | _ => { c with stack := c.stack.dropLast ++ [w] }
    | _ => c.push (resolveToken cfg tok)

/-- `pushInteger`: `#b #o #x #NNr` followed by the digits -/
def pushInteger (c : Core) (tok : List Byte) : Core :=
  if 2 ≤ c.base ∧ c.base ≤ 36 then
    match parseSigned c.base tok with
    | some i => c.push (.int i)
    | none =>
      -- a ratio such as #b1/11 or #16r-a/f: `strings.IndexByte(token, '/')` must be > 0
      match splitSlash tok with
      | some (n :: ns, d) =>
        match parseSigned c.base (n :: ns), parseSigned c.base d with
        | some nv, some dv =>
          if 0 < dv then
            let g := Nat.gcd nv.natAbs dv.natAbs
            c.push (.ratio (nv / (g : Int)) (dv.natAbs / g))
          else c.fail .parse
        | _, _ => c.fail .parse
      | _ => c.fail .parse
  else c.fail .unsupported

/-- Go's `utf8.DecodeRune` on a non-empty slice: the first rune, U+FFFD for an invalid sequence -/
def decodeRune (bs : List Byte) : Nat :=
  let cont (b : Byte) : Bool := 128 ≤ b && b ≤ 191
  match bs with
  | [] => 65533
  | b0 :: rest =>
    if b0 < 128 then b0.toNat
    else if 194 ≤ b0 ∧ b0 ≤ 223 then
      match rest with
      | b1 :: _ => if cont b1 then (b0.toNat - 192) * 64 + (b1.toNat - 128) else 65533
      | _ => 65533
    else if 224 ≤ b0 ∧ b0 ≤ 239 then
      match rest with
      | b1 :: b2 :: _ =>
        let lo : Byte := if b0 = 224 then 160 else 128
        let hi : Byte := if b0 = 237 then 159 else 191
        if lo ≤ b1 ∧ b1 ≤ hi ∧ cont b2 then
          (b0.toNat - 224) * 4096 + (b1.toNat - 128) * 64 + (b2.toNat - 128)
        else 65533
      | _ => 65533
    else if 240 ≤ b0 ∧ b0 ≤ 244 then
      match rest with
      | b1 :: b2 :: b3 :: _ =>
        let lo : Byte := if b0 = 240 then 144 else 128
        let hi : Byte := if b0 = 244 then 143 else 191
        if lo ≤ b1 ∧ b1 ≤ hi ∧ cont b2 ∧ cont b3 then
          (b0.toNat - 240) * 262144 + (b1.toNat - 128) * 4096 + (b2.toNat - 128) * 64 + (b3.toNat - 128)
        else 65533
      | _ => 65533
    else 65533

/-- Go's `utf8.EncodeRune`; surrogates and values above U+10FFFF encode U+FFFD -/
def encodeRune (r : Nat) : List Byte :=
  let r := if (55296 ≤ r ∧ r ≤ 57343) ∨ 1114111 < r then 65533 else r
  if r < 128 then [r.toUInt8]
  else if r < 2048 then [(192 + r / 64).toUInt8, (128 + r % 64).toUInt8]
  else if r < 65536 then [(224 + r / 4096).toUInt8, (128 + r / 64 % 64).toUInt8, (128 + r % 64).toUInt8]
  else [(240 + r / 262144).toUInt8, (128 + r / 4096 % 64).toUInt8, (128 + r / 64 % 64).toUInt8, (128 + r % 64).toUInt8]

/-- `pushChar` on the complete bytes after `#\` -/
def pushChar (T : Tables) (c : Core) (tok : List Byte) : Core :=
  match tok with
  | [] => c.fail .parse
  | [b] => if b = 0 then c.fail .parse else c.push (.chr b.toNat)
  | b0 :: rest =>
    match T.runeMap.lookup ((lower tok).map (·.toNat)) with
    | some cp => if cp = 0 then c.fail .parse else c.push (.chr cp)
    | none =>
      if b0 = 117 ∨ b0 = 85 then
        if 7 < tok.length then c.fail .parse
        else
          let rn := rest.foldl (fun acc b => acc * 16 + (T.hexVals.getD b.toNat 0)) 0
          if rn = 0 ∨ 1114111 < rn then c.fail .parse else c.push (.chr rn)
      else
        let rn := decodeRune tok
        if rn = 0 then c.fail .parse else c.push (.chr rn)

def pushBits (c : Core) (tok : List Byte) : Core :=
  c.push (.bits (tok.map (fun b => b != 48)))

/-- what the four token modes do with their bytes when the token ends -/
def consume (T : Tables) (cfg : Cfg) (t : TMode) (c : Core) (tok : List Byte) : Core :=
  match t with
  | .token => pushToken cfg c tok
  | .chr => pushChar T c tok
  | .int => pushInteger c tok
  | .bitVec => pushBits c tok

/-- the action that ends a token in each token mode -/
def doneOf : TMode → Action
  | .token => .tokenDone
  | .chr => .charDone
  | .int => .intDone
  | .bitVec => .bitVectorDone

/-! ### lists (`closeList`) -/

def isReal : Obj → Bool
  | .int _ => true
  | .ratio _ _ => true
  | .flo _ _ => true
  | _ => false

/-- `Array.calcAndSet`: dimensions from the first elements, then a rectangular fill -/
def arrDims : Nat → Obj → Option (List Nat)
  | 0, _ => some []
  | n + 1, .list xs =>
    if n = 0 then some [xs.length]
    else match xs with
      | x :: _ => (arrDims n x).map (xs.length :: ·)
      | [] => none
  | _ + 1, _ => none

def arrFill : List Nat → Obj → Option (List Obj)
  | [], _ => some []
  | [d], .list xs => if xs.length = d then some xs else none
  | d :: d2 :: ds, .list xs =>
    if xs.length = d then
      xs.foldlM (fun acc x => (arrFill (d2 :: ds) x).map (acc ++ ·)) []
    else none
  | _ :: _, _ => none

/-- the dotted-pair rule of `closeList` -/
def dotted (xs : List Obj) : List Obj :=
  if 3 ≤ xs.length then
    match xs[xs.length - 2]?, xs[xs.length - 1]? with
    | some (.sym [46]), some .nil => xs.take (xs.length - 2) ++ [.nil]
    | some (.sym [46]), some last => xs.take (xs.length - 2) ++ [.tail last]
    | _, _ => xs
  else xs

/-- store a finished compound at stack index `start` (or emit it when it is the outermost) -/
def Core.place (c : Core) (start : Nat) (obj : Obj) : Core :=
  if 0 < start then
    { c with stack := c.stack.take start ++ [obj], starts := c.starts.dropLast }
  else
    { c with stack := [], starts := [], code := c.code ++ [obj] }

def closeList (c : Core) : Core :=
  match c.starts.getLast? with
  | none => c.fail .parse
  | some start =>
    let items := c.stack.drop (start + 1)
    match c.stack[start]? with
    | some (.opener .vec) => c.place start (.vec items)
    | some (.opener (.arr rank)) =>
      if rank = 0 then c.place start (.arr [] [])
      else
        match arrDims rank (.list items) with
        | none => c.fail .parse
        | some dims =>
          match arrFill dims (.list items) with
          | none => c.fail .parse
          | some elems => c.place start (.arr dims elems)
    | some (.opener .cplx) =>
      match items with
      | [re, im] => if isReal re && isReal im then c.place start (.cplx re im) else c.fail .parse
      | _ => c.fail .parse
    | _ =>
      let obj := Obj.list (dotted items)
      if 0 < start then
        match c.stack[start - 1]? with
        | some (.mark m) => c.place (start - 1) (.wrap m obj)
        | _ => c.place start obj
      else c.place start obj

/-! ### actions that touch neither token bytes nor string content -/

def inBackquote (stack : List Obj) : Bool :=
  stack.any (fun o => match o with | .mark .backquote => true | _ => false)

def openWith (c : Core) (k : Opener) : Core :=
  { c with starts := c.starts ++ [c.stack.length], stack := c.stack ++ [.opener k] }

/-- the effect of a plain action on the core (the mode change is `plainNext`) -/
def plainAct (T : Tables) (c : Core) (a : Action) (b : Byte) : Core :=
  match a with
  | .skipNewline => { c with line := c.line + 1 }
  | .openParen => openWith c .list
  | .closeParen => closeList c
  | .vectorByte => openWith c .vec
  | .sharpIntByte => { c with sharpNum := b.toNat - 48 }
  | .sharpNumByte => { c with sharpNum := c.sharpNum * 10 + (b.toNat - 48) }
  | .sharpComplex => openWith c .cplx
  | .arrayByte =>
    if c.sharpNum = 0 then openWith c (.arr 0)
    else if c.sharpNum = 1 then openWith c .vec
    else if T.arrayMaxRank < c.sharpNum then c.fail .parse
    else openWith c (.arr c.sharpNum)
  | .singleQuote => { c with stack := c.stack ++ [.mark .quote] }
  | .sharpQuote => { c with stack := c.stack ++ [.mark .sharpQuote] }
  | .backquote => { c with stack := c.stack ++ [.mark .backquote] }
  | .comma =>
    if inBackquote c.stack then { c with stack := c.stack ++ [.mark .comma] } else c.fail .parse
  | _ => c

def plainNext (a : Action) (p : PMode) : PMode :=
  match a with
  | .commentByte => .comment
  | .commentDone => .value
  | .sharpByte => .sharp
  | .vectorByte => .value
  | .sharpIntByte => .sharpNum
  | .sharpComplex => .mustArray
  | .arrayByte => .mustArray
  | .swallowOpen => .value
  | .sharpQuote => .value
  | .blockStart => .blockComment
  | .blockEnd0 => .blockEnd
  | _ => p

/-- how an action met in a plain mode relates to token / string storage -/
inductive PlainKind where
  | core                      -- changes the core and the plain mode only
  | startTok                  -- `tokenStart`: the token begins with this byte
  | commaAt                   -- `,@` or the start of an `@…` token
  | startAfter (t : TMode) (base : Option (Option Nat))
                              -- the token begins after this byte; `some (some n)`: base := n,
                              -- `some none`: base := sharpNum
  | startStr (m : SMode)      -- a string / |symbol| begins after this byte
  | startChar                 -- `#\`: the character begins after this byte, whatever that byte is
  | raise                     -- the default branch
  | bad                       -- an action the model supports only in another mode class

def kindOf : Action → PlainKind
  | .tokenStart => .startTok
  | .commaAt => .commaAt
  | .charSlash => .startChar
  | .binaryByte => .startAfter .int (some (some 2))
  | .octByte => .startAfter .int (some (some 8))
  | .hexByte => .startAfter .int (some (some 16))
  | .radixByte => .startAfter .int (some none)
  | .bitVectorByte => .startAfter .bitVec none
  | .doubleQuote => .startStr .string
  | .pipeByte => .startStr .symbol
  | .raise => .raise
  | .skipByte | .skipNewline | .commentByte | .commentDone | .openParen | .closeParen
  | .sharpByte | .vectorByte | .sharpIntByte | .sharpNumByte | .sharpComplex | .arrayByte
  | .swallowOpen | .singleQuote | .sharpQuote | .backquote | .comma | .blockStart | .blockEnd0 => .core
  | .tokenDone | .stringByte | .stringDone | .pipeDone | .escByte | .escOne | .escUnicode4
  | .escUnicode8 | .runeDigit | .runeHexA | .runeHexa | .charDone | .intDone | .bitVectorDone
  | .charFirst => .bad

def setBase (c : Core) : Option (Option Nat) → Core
  | none => c
  | some (some n) => { c with base := n }
  | some none => { c with base := c.sharpNum }

/-- `,@`: the comma marker on top of the stack becomes a comma-at marker -/
def commaAtTop (c : Core) : Option Core :=
  match c.stack.getLast? with
  | some (.mark .comma) => some { c with stack := c.stack.dropLast ++ [.mark .commaAt] }
  | _ => none

/-- value of a hex digit byte in rune mode -/
def runeVal (a : Action) (b : Byte) : Option Nat :=
  match a with
  | .runeDigit => some (b.toNat - 48)
  | .runeHexA => some (b.toNat - 65 + 10)
  | .runeHexa => some (b.toNat - 97 + 10)
  | _ => none

/-- the byte test of the one-form exit: these bytes complete a form and belong to it -/
def isCloser (b : Byte) : Bool := b == 41 || b == 34 || b == 124

/-- `if r.one && 0 < len(r.code) { … return }` after each byte; `pos` = index of the byte -/
def oneCheck (cfg : Cfg) (pos : Nat) (b : Byte) (c : Core) : Core :=
  match c.halt with
  | some _ => c
  | none =>
    if cfg.one && !c.code.isEmpty then
      { c with halt := some (.one (if isCloser b then pos + 1 else pos)) }
    else c

/-! ### L1: the byte fold -/

structure S1 where
  core : Core := {}
  mode : Mode := .plain .value
  /-- raw bytes of the current token (token modes) -/
  tok : List Byte := []
  /-- decoded content of the current string / |symbol| -/
  sbuf : List Byte := []
  /-- bytes consumed -/
  pos : Nat := 0

def S1.fail (s : S1) (e : Err) : S1 := { s with core := s.core.fail e }

/-- a byte met in a plain mode (also the `goto Retry` target after a token ended) -/
def plainStep1 (T : Tables) (s : S1) (p : PMode) (b : Byte) : S1 :=
  match lookup? T (.plain p) b with
  | none => s.fail .table
  | some a =>
    match kindOf a with
    | .core => { s with core := plainAct T s.core a b, mode := .plain (plainNext a p) }
    | .startTok => { s with mode := .tok .token, tok := [b] }
    | .commaAt =>
      match commaAtTop s.core with
      | some c => { s with core := c, mode := .plain p }
      | none => { s with mode := .tok .token, tok := [b] }
    | .startAfter t base => { s with core := setBase s.core base, mode := .tok t, tok := [] }
    | .startStr m => { s with core := { s.core with nextMode := m }, mode := .str m, sbuf := [] }
    | .startChar => { s with mode := .chrStart, tok := [] }
    | .raise => s.fail .parse
    | .bad => s.fail .table

/-- a byte met in one of the four token modes -/
def tokStep1 (T : Tables) (cfg : Cfg) (s : S1) (t : TMode) (b : Byte) : S1 :=
  match lookup? T (.tok t) b with
  | none => s.fail .table
  | some a =>
    if a = .skipByte then { s with tok := s.tok ++ [b] }
    else if a = doneOf t then
      let s0 : S1 := { s with core := consume T cfg t s.core s.tok, mode := .plain .value, tok := [] }
      match s0.core.halt with
      | some _ => s0
      | none => plainStep1 T s0 .value b
    else if a = .raise then s.fail .parse
    else s.fail .table

/-- a byte inside a string or |symbol| -/
def strStep1 (T : Tables) (s : S1) (m : SMode) (b : Byte) : S1 :=
  match lookup? T (.str m) b with
  | none => s.fail .table
  | some a =>
    match a with
    | .stringByte => { s with sbuf := s.sbuf ++ [b] }
    | .stringDone => { s with core := s.core.push (.str s.sbuf), mode := .plain .value, sbuf := [] }
    | .pipeDone => { s with core := s.core.push (.sym s.sbuf), mode := .plain .value, sbuf := [] }
    | .escByte => { s with mode := .esc }
    | .raise => s.fail .parse
    | _ => s.fail .table

/-- the byte after a backslash -/
def escStep1 (T : Tables) (s : S1) (b : Byte) : S1 :=
  match lookup? T .esc b with
  | none => s.fail .table
  | some a =>
    match a with
    | .escOne => { s with sbuf := s.sbuf ++ [(T.escMap.getD b.toNat 0).toUInt8], mode := .str s.core.nextMode }
    | .escUnicode4 => { s with core := { s.core with rn := 0, rcnt := 4 }, mode := .rune }
    | .escUnicode8 => { s with core := { s.core with rn := 0, rcnt := 8 }, mode := .rune }
    | .raise => s.fail .parse
    | _ => s.fail .table

/-- a hex digit of \uXXXX / \UXXXXXXXX -/
def runeStep1 (T : Tables) (s : S1) (b : Byte) : S1 :=
  match lookup? T .rune b with
  | none => s.fail .table
  | some a =>
    match runeVal a b with
    | some v =>
      let rn := s.core.rn * 16 + v
      if s.core.rcnt - 1 = 0 then
        { s with core := { s.core with rn := rn, rcnt := 0 }, sbuf := s.sbuf ++ encodeRune rn,
                 mode := .str s.core.nextMode }
      else { s with core := { s.core with rn := rn, rcnt := s.core.rcnt - 1 } }
    | none => if a = .raise then s.fail .parse else s.fail .table

/-- the byte directly behind `#\`: it is the first byte of the character token -/
def chrStartStep1 (T : Tables) (s : S1) (b : Byte) : S1 :=
  match lookup? T .chrStart b with
  | none => s.fail .table
  | some a =>
    if a = .charFirst then { s with mode := .tok .chr, tok := [b] }
    else if a = .raise then s.fail .parse
    else s.fail .table

/-- the `switch r.mode[b]` of `read` for one byte -/
def body1 (T : Tables) (cfg : Cfg) (s : S1) (b : Byte) : S1 :=
  match s.mode with
  | .plain p => plainStep1 T s p b
  | .tok t => tokStep1 T cfg s t b
  | .str m => strStep1 T s m b
  | .esc => escStep1 T s b
  | .rune => runeStep1 T s b
  | .chrStart => chrStartStep1 T s b

def step1 (T : Tables) (cfg : Cfg) (s : S1) (b : Byte) : S1 :=
  match s.core.halt with
  | some _ => { s with pos := s.pos + 1 }
  | none =>
    let s' := body1 T cfg s b
    { s' with core := oneCheck cfg s.pos b s'.core, pos := s.pos + 1 }

inductive Result where
  | ok (code : List Obj) (pos : Nat)
  | err (e : Err) (code : List Obj)

/-- end of input (`!r.more` after the byte loop) on the core, given the mode and the pending bytes -/
def finishCore (T : Tables) (cfg : Cfg) (c : Core) (m : Mode) (tok : List Byte) : Core :=
  let c1 :=
    match m with
    | .tok t => consume T cfg t c tok
    | .str .string => c.fail (.incomplete c.starts.length)
    | .str .symbol => c.fail .parse
    | .esc => c.fail .parse
    | .rune => c.fail .parse
    | .chrStart => pushChar T c []   -- `case charStartMode, charMode: r.pushChar(src)`: the token is empty here
    | .plain .sharp => c.fail (.incomplete c.starts.length)
    | .plain .sharpNum => c.fail (.incomplete c.starts.length)
    | .plain .blockComment => c.fail (.incomplete c.starts.length)
    | .plain .blockEnd => c.fail (.incomplete c.starts.length)
    | .plain _ => c
  match c1.halt with
  | some _ => c1
  | none =>
    match c1.stack with
    | [] => c1
    | _ :: _ => c1.fail (.incomplete c1.starts.length)

def resultOf (c : Core) (pos : Nat) : Result :=
  match c.halt with
  | some (.err e) => .err e c.code
  | some (.one p) => .ok c.code p
  | none => .ok c.code pos

def finish1 (T : Tables) (cfg : Cfg) (s : S1) : Result :=
  match s.core.halt with
  | some _ => resultOf s.core s.pos
  | none => resultOf (finishCore T cfg s.core s.mode s.tok) s.pos

def init1 : S1 := {}

def run1 (T : Tables) (cfg : Cfg) (s : S1) (bs : List Byte) : S1 := bs.foldl (step1 T cfg) s

/-- L1: read a whole text -/
def readAll (T : Tables) (cfg : Cfg) (bs : List Byte) : Result :=
  finish1 T cfg (run1 T cfg init1 bs)

/-! ### L2: blocks, `tokenStart`, `carry`, `buf` -/

def slice (src : List Byte) (a b : Nat) : List Byte := (src.drop a).take (b - a)

structure S2 where
  core : Core := {}
  mode : Mode := .plain .value
  /-- bytes of the current token saved from earlier blocks -/
  carry : List Byte := []
  /-- offset of the current token / string in the current block -/
  tokenStart : Nat := 0
  /-- string content once it can no longer be a slice of the current block -/
  buf : List Byte := []

def S2.fail (s : S2) (e : Err) : S2 := { s with core := s.core.fail e }

/-- `makeToken`: carry ++ src[tokenStart:pos] -/
def makeToken (src : List Byte) (pos : Nat) (s : S2) : List Byte :=
  s.carry ++ slice src s.tokenStart pos

/-- the string content: `if 0 < len(r.buf) { r.buf } else { src[r.tokenStart:r.pos] }` -/
def strContent (src : List Byte) (pos : Nat) (s : S2) : List Byte :=
  match s.buf with
  | [] => slice src s.tokenStart pos
  | _ :: _ => s.buf

def plainStep2 (T : Tables) (pos : Nat) (s : S2) (p : PMode) (b : Byte) : S2 :=
  match lookup? T (.plain p) b with
  | none => s.fail .table
  | some a =>
    match kindOf a with
    | .core => { s with core := plainAct T s.core a b, mode := .plain (plainNext a p) }
    | .startTok => { s with mode := .tok .token, tokenStart := pos }
    | .commaAt =>
      match commaAtTop s.core with
      | some c => { s with core := c, mode := .plain p }
      | none => { s with mode := .tok .token, tokenStart := pos }
    | .startAfter t base => { s with core := setBase s.core base, mode := .tok t, tokenStart := pos + 1 }
    | .startStr m =>
      { s with core := { s.core with nextMode := m }, mode := .str m, tokenStart := pos + 1, buf := [] }
    | .startChar => { s with mode := .chrStart, tokenStart := pos + 1 }
    | .raise => s.fail .parse
    | .bad => s.fail .table

def tokStep2 (T : Tables) (cfg : Cfg) (src : List Byte) (pos : Nat) (s : S2) (t : TMode) (b : Byte) : S2 :=
  match lookup? T (.tok t) b with
  | none => s.fail .table
  | some a =>
    if a = .skipByte then s
    else if a = doneOf t then
      let s0 : S2 :=
        { s with core := consume T cfg t s.core (makeToken src pos s), mode := .plain .value, carry := [] }
      match s0.core.halt with
      | some _ => s0
      | none => plainStep2 T pos s0 .value b
    else if a = .raise then s.fail .parse
    else s.fail .table

def strStep2 (T : Tables) (src : List Byte) (pos : Nat) (s : S2) (m : SMode) (b : Byte) : S2 :=
  match lookup? T (.str m) b with
  | none => s.fail .table
  | some a =>
    match a with
    | .stringByte =>
      match s.buf with
      | [] => s
      | _ :: _ => { s with buf := s.buf ++ [b] }
    | .stringDone => { s with core := s.core.push (.str (strContent src pos s)), mode := .plain .value }
    | .pipeDone => { s with core := s.core.push (.sym (strContent src pos s)), mode := .plain .value }
    | .escByte =>
      match s.buf with
      | [] => { s with buf := slice src s.tokenStart pos, mode := .esc }
      | _ :: _ => { s with mode := .esc }
    | .raise => s.fail .parse
    | _ => s.fail .table

def escStep2 (T : Tables) (s : S2) (b : Byte) : S2 :=
  match lookup? T .esc b with
  | none => s.fail .table
  | some a =>
    match a with
    | .escOne => { s with buf := s.buf ++ [(T.escMap.getD b.toNat 0).toUInt8], mode := .str s.core.nextMode }
    | .escUnicode4 => { s with core := { s.core with rn := 0, rcnt := 4 }, mode := .rune }
    | .escUnicode8 => { s with core := { s.core with rn := 0, rcnt := 8 }, mode := .rune }
    | .raise => s.fail .parse
    | _ => s.fail .table

def runeStep2 (T : Tables) (s : S2) (b : Byte) : S2 :=
  match lookup? T .rune b with
  | none => s.fail .table
  | some a =>
    match runeVal a b with
    | some v =>
      let rn := s.core.rn * 16 + v
      if s.core.rcnt - 1 = 0 then
        { s with core := { s.core with rn := rn, rcnt := 0 }, buf := s.buf ++ encodeRune rn,
                 mode := .str s.core.nextMode }
      else { s with core := { s.core with rn := rn, rcnt := s.core.rcnt - 1 } }
    | none => if a = .raise then s.fail .parse else s.fail .table

/-- `case charFirst: r.mode = charMode` — `tokenStart` was set by `charSlash` and is this byte -/
def chrStartStep2 (T : Tables) (s : S2) (b : Byte) : S2 :=
  match lookup? T .chrStart b with
  | none => s.fail .table
  | some a =>
    if a = .charFirst then { s with mode := .tok .chr }
    else if a = .raise then s.fail .parse
    else s.fail .table

def body2 (T : Tables) (cfg : Cfg) (src : List Byte) (pos : Nat) (s : S2) (b : Byte) : S2 :=
  match s.mode with
  | .plain p => plainStep2 T pos s p b
  | .tok t => tokStep2 T cfg src pos s t b
  | .str m => strStep2 T src pos s m b
  | .esc => escStep2 T s b
  | .rune => runeStep2 T s b
  | .chrStart => chrStartStep2 T s b

/-- one byte `b = src[pos]` of the current block `src`; `base` is `ReadStream`'s position
    accumulator, the number of bytes in the blocks already read -/
def step2 (T : Tables) (cfg : Cfg) (src : List Byte) (base pos : Nat) (s : S2) (b : Byte) : S2 :=
  match s.core.halt with
  | some _ => s
  | none =>
    let s' := body2 T cfg src pos s b
    { s' with core := oneCheck cfg (base + pos) b s'.core }

/-- the byte loop of `read` over `src[pos..]` -/
def run2 (T : Tables) (cfg : Cfg) (src : List Byte) (base : Nat) : S2 → Nat → List Byte → S2
  | s, _, [] => s
  | s, pos, b :: rest => run2 T cfg src base (step2 T cfg src base pos s b) (pos + 1) rest

/-- end of a block when the stream has more (`r.more`): save what the next block cannot see, then
    `cr.tokenStart = 0` of the caller's loop -/
def endBlock (src : List Byte) (s : S2) : S2 :=
  let s1 : S2 :=
    match s.core.halt with
    | some _ => s
    | none =>
      match s.mode with
      | .tok _ => { s with carry := s.carry ++ slice src s.tokenStart src.length }
      | .str _ =>
        match s.buf with
        | [] => { s with buf := slice src s.tokenStart src.length }
        | _ :: _ => s
      | _ => s
  { s1 with tokenStart := 0 }

def finish2 (T : Tables) (cfg : Cfg) (src : List Byte) (base : Nat) (s : S2) : Result :=
  match s.core.halt with
  | some _ => resultOf s.core (base + src.length)
  | none => resultOf (finishCore T cfg s.core s.mode (makeToken src src.length s)) (base + src.length)

def init2 : S2 := {}

/-- the block loop of `ReadStream`: `pos += cr.pos` is the `base` of the next block -/
def runBlocks (T : Tables) (cfg : Cfg) : Nat → S2 → List (List Byte) → Nat × S2
  | base, s, [] => (base, s)
  | base, s, blk :: rest => runBlocks T cfg (base + blk.length) (endBlock blk (run2 T cfg blk base s 0 blk)) rest

/-- L2: the stream delivers `blocks` and then, together with the end-of-file, `last` -/
def readBlocks (T : Tables) (cfg : Cfg) (blocks : List (List Byte)) (last : List Byte) : Result :=
  let (base, s) := runBlocks T cfg 0 init2 blocks
  finish2 T cfg last base (run2 T cfg last base s 0 last)

/-! ### `ReadOne` -/

/-- `ReadOne` / `read-from-string`: the first form and the position where it ends -/
def readOne (T : Tables) (cfg : Cfg) (bs : List Byte) : Except Err (Obj × Nat) :=
  match readAll T { cfg with one := true } bs with
  | .ok (o :: _) pos => .ok (o, pos)
  | .ok [] _ => .error .eof
  | .err e _ => .error e

/-! ### obligations over the tables (decided for the generated tables in Theorems/GenC02) -/

/-- the bytes on which an action may sit so that the model's byte arithmetic is Go's -/
def byteOK (a : Action) (b : Nat) : Bool :=
  match a with
  | .sharpIntByte | .sharpNumByte | .runeDigit => 48 ≤ b && b ≤ 57
  | .runeHexA => 65 ≤ b && b ≤ 70
  | .runeHexa => 97 ≤ b && b ≤ 102
  | _ => true

/-- the (mode class, action) matrix the model covers -/
def placed (m : Mode) (a : Action) : Bool :=
  match m with
  | .plain _ => match kindOf a with
    | .bad => false
    | _ => true
  | .tok t => a = .skipByte || a = doneOf t || a = .raise
  | .str _ => a = .stringByte || a = .stringDone || a = .pipeDone || a = .escByte || a = .raise
  | .esc => a = .escOne || a = .escUnicode4 || a = .escUnicode8 || a = .raise
  | .rune => a = .runeDigit || a = .runeHexA || a = .runeHexa || a = .raise
  | .chrStart => a = .charFirst || a = .raise

def allModes : List Mode :=
  [.plain .value, .plain .comment, .plain .sharp, .plain .sharpNum, .plain .mustArray,
   .plain .blockComment, .plain .blockEnd, .tok .token, .tok .chr, .tok .int, .tok .bitVec,
   .str .string, .str .symbol, .esc, .rune, .chrStart]

/-- every table has 256 entries and every entry is an action the model covers in that mode,
    sitting on a byte for which the model's arithmetic is exact -/
def tablesOK (T : Tables) : Bool :=
  allModes.all (fun m =>
    (T.get m).length == 256 &&
    (List.range 256).all (fun b =>
      match (T.get m)[b]? with
      | some code => placed m (decode T code) && byteOK (decode T code) b
      | none => false))
  && T.escMap.length == 256 && T.hexVals.length == 256

end SlipVerif.Reader
