/-
  C05 — exact integer and rational arithmetic.

  Spec layer: a slip rational number *is* its exact value (`Rat`); the representation the
  language makes observable (`type-of`) is a function of the value (`typeOf`).
  Every operator is a small total function; rejected inputs are an explicit `Except` error.

  Impl layer (`Impl.*`): the fixnum (int64) branches of the Go code transcribed with Go's
  wrap-around semantics made explicit, so that the theorems in Theorems/C05.lean say exactly when
  the machine arithmetic is exact.

  Core Lean only (this file is linked into the `slipmodel` driver).
-/
namespace SlipVerif.Num

inductive Err where
  | divZero      -- division-by-zero
  | typeErr      -- type-error (e.g. isqrt of a negative, gcd of a ratio)
  deriving DecidableEq, Repr

def minFix : Int := -9223372036854775808
def maxFix : Int := 9223372036854775807

def isFix (i : Int) : Bool := decide (minFix ≤ i) && decide (i ≤ maxFix)

/-- The type slip must report for a rational value in canonical form. -/
def typeOf (r : Rat) : String :=
  if r.den = 1 then (if isFix r.num then "fixnum" else "bignum") else "ratio"

def isInt (r : Rat) : Bool := r.den == 1

/-! ### field operations -/

def add (a b : Rat) : Rat := a + b
def sub (a b : Rat) : Rat := a - b
def mul (a b : Rat) : Rat := a * b
def div (a b : Rat) : Except Err Rat := if b = 0 then .error .divZero else .ok (a / b)
def neg (a : Rat) : Rat := -a
def recip (a : Rat) : Except Err Rat := if a = 0 then .error .divZero else .ok (1 / a)

def addAll (xs : List Rat) : Rat := xs.foldl add 0
def mulAll (xs : List Rat) : Rat := xs.foldl mul 1
/-- `(- a)` negates, `(- a b c …)` subtracts from the left. -/
def subAll : List Rat → Except Err Rat
  | [] => .error .typeErr
  | [a] => .ok (neg a)
  | a :: rest => .ok (rest.foldl sub a)
def divAll : List Rat → Except Err Rat
  | [] => .error .typeErr
  | [a] => recip a
  | a :: rest => rest.foldlM div a

/-! ### the four rounding divisions: quotient (an integer) and remainder -/

def ceil (x : Rat) : Int := -((-x).floor)

def truncI (x : Rat) : Int := if 0 ≤ x then x.floor else ceil x

/-- round to nearest, ties to the even integer -/
def roundI (x : Rat) : Int :=
  let f := x.floor
  let d := x - (f : Rat)
  if d < 1/2 then f
  else if 1/2 < d then f + 1
  else if f % 2 = 0 then f else f + 1

def divBy (rnd : Rat → Int) (a b : Rat) : Except Err (Int × Rat) :=
  if b = 0 then .error .divZero
  else
    let q := rnd (a / b)
    .ok (q, a - (q : Rat) * b)

def floorDiv := divBy Rat.floor
def ceilDiv  := divBy ceil
def truncDiv := divBy truncI
def roundDiv := divBy roundI

def modR (a b : Rat) : Except Err Rat := (floorDiv a b).map (·.2)
def remR (a b : Rat) : Except Err Rat := (truncDiv a b).map (·.2)

/-! ### integer functions -/

def absR (a : Rat) : Rat := if a < 0 then -a else a

def gcdAll (xs : List Int) : Int := xs.foldl (fun g x => (Int.gcd g x : Int)) 0
def lcmAll (xs : List Int) : Int := xs.foldl (fun l x => (Int.lcm l x : Int)) 1

def isqrt (n : Int) : Except Err Int :=
  if n < 0 then .error .typeErr else .ok (Nat.sqrt n.toNat : Int)

/-- `(ash n k)`: shift left for `k ≥ 0`, floor-shift right for `k < 0`. -/
def ash (n k : Int) : Int :=
  if 0 ≤ k then n * (2 : Int) ^ k.toNat else n >>> (-k).toNat

/-- integer power with a rational base: `b^n`, reciprocal for negative `n`. -/
def expt (b : Rat) (n : Int) : Except Err Rat :=
  if 0 ≤ n then .ok (b ^ n.toNat)
  else if b = 0 then .error .divZero
  else .ok (1 / (b ^ (-n).toNat))

/-! ### bitwise operations on two's-complement integers of unbounded width -/

def ldiff (a b : Nat) : Nat := Nat.bitwise (fun x y => x && !y) a b

def land : Int → Int → Int
  | .ofNat m, .ofNat n => ((m &&& n : Nat) : Int)
  | .ofNat m, .negSucc n => (ldiff m n : Int)
  | .negSucc m, .ofNat n => (ldiff n m : Int)
  | .negSucc m, .negSucc n => .negSucc (m ||| n)

def lor : Int → Int → Int
  | .ofNat m, .ofNat n => ((m ||| n : Nat) : Int)
  | .ofNat m, .negSucc n => .negSucc (ldiff n m)
  | .negSucc m, .ofNat n => .negSucc (ldiff m n)
  | .negSucc m, .negSucc n => .negSucc (m &&& n)

def lxor : Int → Int → Int
  | .ofNat m, .ofNat n => ((m ^^^ n : Nat) : Int)
  | .ofNat m, .negSucc n => .negSucc (m ^^^ n)
  | .negSucc m, .ofNat n => .negSucc (m ^^^ n)
  | .negSucc m, .negSucc n => ((m ^^^ n : Nat) : Int)

def lnot (a : Int) : Int := -a - 1

/-- bit `i` of the infinite two's-complement expansion -/
def testBit : Int → Nat → Bool
  | .ofNat m, i => m.testBit i
  | .negSucc m, i => !(m.testBit i)

def landAll (xs : List Int) : Int := xs.foldl land (-1)
def lorAll (xs : List Int) : Int := xs.foldl lor 0
def lxorAll (xs : List Int) : Int := xs.foldl lxor 0

/-! ### integer-length, logcount, logbitp, evenp/oddp, signum, numerator/denominator -/

/-- number of binary digits of a natural number (0 for 0) -/
def bitLen (n : Nat) : Nat := if n = 0 then 0 else Nat.log2 n + 1

/-- `(integer-length n)`: digits of `n`, of `-n-1` for a negative `n` (two's complement without sign) -/
def integerLength (n : Int) : Int :=
  if n < 0 then ((bitLen (-n - 1).toNat : Nat) : Int) else ((bitLen n.toNat : Nat) : Int)

/-- number of 1 bits of a natural number -/
def popCount (n : Nat) : Nat :=
  if h : n = 0 then 0 else n % 2 + popCount (n / 2)
decreasing_by omega

/-- `(logcount n)`: the 1 bits of a non-negative integer, the 0 bits of a negative one -/
def logcount (n : Int) : Int :=
  if n < 0 then ((popCount (-n - 1).toNat : Nat) : Int) else ((popCount n.toNat : Nat) : Int)

/-- `(logbitp i n)`: bit `i` of the infinite two's-complement expansion; a negative index is rejected -/
def logbitp (i n : Int) : Except Err Bool :=
  if i < 0 then .error .typeErr else .ok (testBit n i.toNat)

def evenp (n : Int) : Bool := n % 2 == 0
def oddp (n : Int) : Bool := n % 2 == 1

/-- `(signum r)` of a rational: -1, 0 or 1 -/
def signum (r : Rat) : Int := if r < 0 then -1 else if r = 0 then 0 else 1

def numerator (r : Rat) : Int := r.num
def denominator (r : Rat) : Int := (r.den : Int)

/-! ### comparisons (on exact values; floats are decoded to exact rationals first) -/

def chain (rel : Rat → Rat → Bool) : List Rat → Bool
  | [] => true
  | [_] => true
  | a :: b :: rest => rel a b && chain rel (b :: rest)

def lt (a b : Rat) : Bool := decide (a < b)
def le (a b : Rat) : Bool := decide (a ≤ b)
def gt (a b : Rat) : Bool := decide (b < a)
def ge (a b : Rat) : Bool := decide (b ≤ a)
def eq (a b : Rat) : Bool := decide (a = b)

/-- `/=` : all arguments pairwise different -/
def allDiff : List Rat → Bool
  | [] => true
  | a :: rest => rest.all (fun b => !eq a b) && allDiff rest

def minAll : List Rat → Except Err Rat
  | [] => .error .typeErr
  | a :: rest => .ok (rest.foldl (fun m x => if x < m then x else m) a)
def maxAll : List Rat → Except Err Rat
  | [] => .error .typeErr
  | a :: rest => .ok (rest.foldl (fun m x => if m < x then x else m) a)

def zerop (a : Rat) : Bool := decide (a = 0)
def plusp (a : Rat) : Bool := decide (0 < a)
def minusp (a : Rat) : Bool := decide (a < 0)

/-! ### the remaining bitwise operators of the language, all derived from `land lor lxor lnot` -/

/-- `(logeqv a b)`: bitwise equivalence (XNOR) -/
def leqv (a b : Int) : Int := lnot (lxor a b)
def leqvAll (xs : List Int) : Int := xs.foldl leqv (-1)
def lognand (a b : Int) : Int := lnot (land a b)
def lognor (a b : Int) : Int := lnot (lor a b)
def logandc1 (a b : Int) : Int := land (lnot a) b
def logandc2 (a b : Int) : Int := land a (lnot b)
def logorc1 (a b : Int) : Int := lor (lnot a) b
def logorc2 (a b : Int) : Int := lor a (lnot b)
/-- `(logtest a b)`: do the two integers have a 1 bit in common -/
def logtest (a b : Int) : Bool := land a b != 0

/-! ### IEEE-754 binary32 / binary64 bit patterns as exact rationals (finite values only) -/

def pow2 (e : Int) : Rat := if 0 ≤ e then ((2 : Rat) ^ e.toNat) else 1 / ((2 : Rat) ^ (-e).toNat)

def ofBits64 (bits : Nat) : Option Rat :=
  let sign : Nat := bits / 2 ^ 63 % 2
  let ex : Nat := bits / 2 ^ 52 % 2048
  let man : Nat := bits % 2 ^ 52
  if ex = 2047 then none
  else
    let mag : Rat := if ex = 0 then (man : Rat) * pow2 (-1074)
                     else ((2 ^ 52 + man : Nat) : Rat) * pow2 ((ex : Int) - 1075)
    some (if sign = 1 then -mag else mag)

def ofBits32 (bits : Nat) : Option Rat :=
  let sign : Nat := bits / 2 ^ 31 % 2
  let ex : Nat := bits / 2 ^ 23 % 256
  let man : Nat := bits % 2 ^ 23
  if ex = 255 then none
  else
    let mag : Rat := if ex = 0 then (man : Rat) * pow2 (-149)
                     else ((2 ^ 23 + man : Nat) : Rat) * pow2 ((ex : Int) - 150)
    some (if sign = 1 then -mag else mag)

/-! ### canonical representation (what `canonicalInteger` / `canonicalRational` of pkg/cl/number.go build) -/

/-- the three exact representations of slip: `Fixnum`, `*Bignum`, `*Ratio` -/
inductive Rep where
  | fix (i : Int)
  | big (i : Int)
  | ratio (r : Rat)
  deriving DecidableEq

namespace Rep
/-- the exact value a representation stands for -/
def value : Rep → Rat
  | .fix i => (i : Rat)
  | .big i => (i : Rat)
  | .ratio r => r
/-- the type slip reports for it -/
def tag : Rep → String
  | .fix _ => "fixnum"
  | .big _ => "bignum"
  | .ratio _ => "ratio"
end Rep

/-- `canonicalInteger`: fixnum if `IsInt64`, else bignum -/
def canonInt (i : Int) : Rep := if isFix i then .fix i else .big i
/-- `canonicalRational`: an integer if `IsInt`, else a ratio -/
def canonRat (r : Rat) : Rep := if r.den = 1 then canonInt r.num else .ratio r

/-! ### Impl layer: Go's int64 arithmetic, transcribed -/

namespace Impl

/-- reduction into [-2^63, 2^63): what Go's `int64` arithmetic yields -/
def wrap64 (i : Int) : Int :=
  (i + 9223372036854775808) % 18446744073709551616 - 9223372036854775808

/-- the int64 range as a proposition -/
def inRange (a : Int) : Prop := -9223372036854775808 ≤ a ∧ a ≤ 9223372036854775807

def addFix (a b : Int) : Int := wrap64 (a + b)
def subFix (a b : Int) : Int := wrap64 (a - b)
def mulFix (a b : Int) : Int := wrap64 (a * b)
def negFix (a : Int) : Int := wrap64 (-a)

/-- Go's truncated `/` and `%` on int64 (divisor non-zero); `/` wraps for MinInt64 / -1 -/
def quoFix (a b : Int) : Int := wrap64 (Int.tdiv a b)
def remFix (a b : Int) : Int := Int.tmod a b

/-- Go's `x << k` on int64 (any count: counts ≥ 64 give 0, which is `wrap64` of a multiple of 2^64) -/
def shlFix (a k : Int) : Int := wrap64 (a * 2 ^ k.toNat)
/-- Go's arithmetic `x >> k` on int64 (counts ≥ 64 leave only the sign: 0 or -1) -/
def shrFix (a k : Int) : Int := a >>> k.toNat

/-- `uint64(x)` of an int64: the residue modulo 2^64 -/
def toU64 (a : Int) : Int := a % 18446744073709551616
/-- `int64(u)` of a uint64 -/
def ofU64 (u : Int) : Int := wrap64 u
/-- `^u` on uint64 -/
def notU (u : Int) : Int := 18446744073709551615 - u
def andU (a b : Int) : Int := ((a.toNat &&& b.toNat : Nat) : Int)
def orU (a b : Int) : Int := ((a.toNat ||| b.toNat : Nat) : Int)
def xorU (a b : Int) : Int := ((a.toNat ^^^ b.toNat : Nat) : Int)
def shlU (a k : Int) : Int := (a * 2 ^ k.toNat) % 18446744073709551616
def shrU (a k : Int) : Int := a / 2 ^ k.toNat

/-- `big.Rat.Cmp` (and the meaning of `compareReals` on exact values): the sign of `a - b` -/
def cmpRat (a b : Rat) : Int := if a < b then -1 else if a = b then 0 else 1

/-- the loop of `<`, `<=`, `>`, `>=` (pkg/cl/lt.go …): `target := args[0]; for _, arg := range args[1:] { BODY }; return t`
    where BODY either fails the chain (`return nil`) or yields the next target -/
def goChain (body : Rat → Rat → Option Rat) : Rat → List Rat → Bool
  | _, [] => true
  | t, a :: rest =>
    match body t a with
    | none => false
    | some t' => goChain body t' rest

/-- the loop of `=` (pkg/cl/same.go): from the last argument down, `target = same(args[pos], target)` -/
def goSame (same : Rat → Rat → Option Rat) (xs : List Rat) : Bool :=
  match xs.reverse with
  | [] => true
  | t :: more => goChain (fun t x => same x t) t more

/-- `canonicalNumber` on an exact integer result: a bignum object that fits becomes a fixnum -/
def canonNumber : Rep → Rep
  | .big i => canonInt i
  | .ratio r => canonRat r
  | x => x

/-- `addFixnums` (pkg/cl/number.go): `sum := x + y; overflow iff (x < sum) != (0 < y)` -/
def addOk (a b : Int) : Bool := decide (a < addFix a b) == decide (0 < b)
def addFixnums (a b : Int) : Rep := if addOk a b then .fix (addFix a b) else .big (a + b)

/-- `subFixnums`: `dif := x - y; overflow iff (dif < x) != (0 < y)` -/
def subOk (a b : Int) : Bool := decide (subFix a b < a) == decide (0 < b)
def subFixnums (a b : Int) : Rep := if subOk a b then .fix (subFix a b) else .big (a - b)

/-- `mulFixnums`: `p := x * y; overflow iff x != 0 && (p/x != y || (x == -1 && y == MinInt64))` -/
def mulOk (a b : Int) : Bool :=
  !(a != 0 && (quoFix (mulFix a b) a != b || (a == -1 && b == minFix)))
def mulFixnums (a b : Int) : Rep := if mulOk a b then .fix (mulFix a b) else .big (a * b)

/-- `negFixnum`: the most negative fixnum is negated as a bignum -/
def negFixnum (a : Int) : Rep := if a = minFix then .big (-a) else .fix (negFix a)

/-- checked addition (value only), kept for the theorems of the first round -/
def addChecked (a b : Int) : Int := if addOk a b then addFix a b else a + b

/-- fixnum branch of `floor` as a correct implementation computes it from Go's `/`, `%` -/
def floorFix (a b : Int) : Int × Int :=
  let q := Int.tdiv a b
  let r := Int.tmod a b
  if r ≠ 0 ∧ ((r < 0) ≠ (b < 0)) then (q - 1, r + b) else (q, r)

/-- fixnum branch of `floor` as pkg/cl/floor.go has it (the adjustment for a negative divisor is
    pinned by test/cl/floor_test.go and is a known finding) -/
def floorFixGo (a b : Int) : Int × Int :=
  let q := Int.tdiv a b
  let r := a - q * b
  if 0 < b then (if r < 0 then (q - 1, r + b) else (q, r))
  else (if r < 0 then (q + 1, r - b) else (q, r))

/-- fixnum branch of `ceiling` (pkg/cl/ceiling.go) -/
def ceilFixGo (a b : Int) : Int × Int :=
  let q := Int.tdiv a b
  let r := a - q * b
  if 0 < b then (if 0 < r then (q + 1, r - b) else (q, r))
  else (if r < 0 then (q + 1, r - b) else (q, r))

/-- fixnum branch of `truncate` (pkg/cl/truncate.go) -/
def truncFixGo (a b : Int) : Int × Int :=
  let q := Int.tdiv a b
  (q, a - q * b)

/-- `round` on magnitudes (pkg/cl/round.go after the fix): truncate, then round up when the
    remainder exceeds the rest of the divisor or on a tie with an odd quotient -/
def roundMag (n d : Int) : Int × Int :=
  let q := Int.tdiv n d
  let r := n - q * d
  let rest := d - r
  if rest < r ∨ (rest = r ∧ q % 2 ≠ 0) then (q + 1, r - d) else (q, r)

/-- fixnum branch of `round`: exact quotients return at once, otherwise `roundMag` on the
    magnitudes and then the signs (quotient negated iff the signs differ, remainder has the sign
    of the dividend) -/
def roundFixGo (a b : Int) : Int × Int :=
  let q0 := Int.tdiv a b
  let r0 := a - q0 * b
  if r0 = 0 then (q0, 0)
  else
    let m := roundMag (if a < 0 then -a else a) (if b < 0 then -b else b)
    (if (a < 0) ≠ (b < 0) then -m.1 else m.1, if a < 0 then -m.2 else m.2)

/-- fixnum loop of `gcd` (pkg/cl/gcd.go) on non-negative operands, with fuel -/
def gcdLoop : Nat → Int → Int → Int
  | 0, x, _ => x
  | fuel + 1, x, y => if y = 0 then x else gcdLoop fuel y (Int.tmod x y)

end Impl

/-! ### one call of an operator (the table the driver executes) and histories of calls -/

/-- what a call returns -/
inductive Outcome where
  | vals (vs : List Rat)     -- the returned numbers (one; quotient and remainder for the rounding divisions)
  | bool (b : Bool)
  | err (e : Err)
  | bad (why : String)       -- not a call of the protocol (a machinery error, never a verdict)

namespace Outcome
def ofRat (r : Rat) : Outcome := .vals [r]
def ofInt (i : Int) : Outcome := .vals [(i : Rat)]
def ofExRat : Except Err Rat → Outcome
  | .ok r => .vals [r]
  | .error e => .err e
def ofExQR : Except Err (Int × Rat) → Outcome
  | .ok (q, r) => .vals [(q : Rat), r]
  | .error e => .err e
def ofExBool : Except Err Bool → Outcome
  | .ok b => .bool b
  | .error e => .err e
/-- the numbers a call hands back (they are what a program can keep in variables) -/
def values : Outcome → List Rat
  | .vals vs => vs
  | _ => []
end Outcome

/-- all operands integers? -/
def ints (xs : List Rat) : Option (List Int) :=
  xs.mapM (fun r => if r.den = 1 then some r.num else none)

/-- integer-only n-ary operators reject a ratio with a type-error -/
def onInts (xs : List Rat) (f : List Int → Int) : Outcome :=
  match ints xs with
  | some is => .ofInt (f is)
  | none => .err .typeErr

def onInt2 (a b : Rat) (f : Int → Int → Int) : Outcome :=
  if a.den = 1 ∧ b.den = 1 then .ofInt (f a.num b.num) else .err .typeErr

/-- `(op x₁ … xₙ)` on exact values -/
def apply (op : String) (xs : List Rat) : Outcome :=
  match op, xs with
  | "+", xs => .ofRat (addAll xs)
  | "*", xs => .ofRat (mulAll xs)
  | "-", xs => .ofExRat (subAll xs)
  | "/", xs => .ofExRat (divAll xs)
  | "1+", [a] => .ofRat (add a 1)
  | "1-", [a] => .ofRat (sub a 1)
  | "incf", [a] => .ofRat (add a 1)
  | "incf", [a, b] => .ofRat (add a b)
  | "decf", [a] => .ofRat (sub a 1)
  | "decf", [a, b] => .ofRat (sub a b)
  | "abs", [a] => .ofRat (absR a)
  | "floor", [a] => .ofExQR (floorDiv a 1)
  | "floor", [a, b] => .ofExQR (floorDiv a b)
  | "ceiling", [a] => .ofExQR (ceilDiv a 1)
  | "ceiling", [a, b] => .ofExQR (ceilDiv a b)
  | "truncate", [a] => .ofExQR (truncDiv a 1)
  | "truncate", [a, b] => .ofExQR (truncDiv a b)
  | "round", [a] => .ofExQR (roundDiv a 1)
  | "round", [a, b] => .ofExQR (roundDiv a b)
  | "mod", [a, b] => .ofExRat (modR a b)
  | "rem", [a, b] => .ofExRat (remR a b)
  | "gcd", xs => onInts xs gcdAll
  | "lcm", xs => onInts xs lcmAll
  | "isqrt", [a] => if a.den = 1 then .ofExRat ((isqrt a.num).map (fun i => (i : Rat))) else .err .typeErr
  | "ash", [a, k] => onInt2 a k ash
  | "expt", [b, n] => if n.den = 1 then .ofExRat (expt b n.num) else .bad "expt"
  | "logand", xs => onInts xs landAll
  | "logior", xs => onInts xs lorAll
  | "logxor", xs => onInts xs lxorAll
  | "logeqv", xs => onInts xs leqvAll
  | "lognot", [a] => if a.den = 1 then .ofInt (lnot a.num) else .err .typeErr
  | "lognand", [a, b] => onInt2 a b lognand
  | "lognor", [a, b] => onInt2 a b lognor
  | "logandc1", [a, b] => onInt2 a b logandc1
  | "logandc2", [a, b] => onInt2 a b logandc2
  | "logorc1", [a, b] => onInt2 a b logorc1
  | "logorc2", [a, b] => onInt2 a b logorc2
  | "logtest", [a, b] => if a.den = 1 ∧ b.den = 1 then .bool (logtest a.num b.num) else .err .typeErr
  | "LessThan", [a, b] => .bool (lt a b)
  | "<", xs => .bool (chain lt xs)
  | "<=", xs => .bool (chain le xs)
  | ">", xs => .bool (chain gt xs)
  | ">=", xs => .bool (chain ge xs)
  | "=", xs => .bool (chain eq xs)
  | "/=", xs => .bool (allDiff xs)
  | "min", xs => .ofExRat (minAll xs)
  | "max", xs => .ofExRat (maxAll xs)
  | "zerop", [a] => .bool (zerop a)
  | "plusp", [a] => .bool (plusp a)
  | "minusp", [a] => .bool (minusp a)
  | "logcount", [a] => if a.den = 1 then .ofInt (logcount a.num) else .err .typeErr
  | "integer-length", [a] => if a.den = 1 then .ofInt (integerLength a.num) else .err .typeErr
  | "logbitp", [i, a] => if i.den = 1 ∧ a.den = 1 then .ofExBool (logbitp i.num a.num) else .err .typeErr
  | "evenp", [a] => if a.den = 1 then .bool (evenp a.num) else .err .typeErr
  | "oddp", [a] => if a.den = 1 then .bool (oddp a.num) else .err .typeErr
  | "signum", [a] => .ofInt (signum a)
  | "numerator", [a] => .ofInt (numerator a)
  | "denominator", [a] => .ofInt (denominator a)
  | "rational", [a] => .ofRat a
  | "value", [a] => .ofRat a
  | _, _ => .bad "op"

/-- an argument of a call inside a history: a new operand, or a value kept from earlier (an operand
    or a result of an earlier call, by its position in the store) -/
inductive Arg where
  | lit (r : Rat)
  | ref (i : Nat)

structure Call where
  op : String
  args : List Arg

def argVal (store : List Rat) : Arg → Option Rat
  | .lit r => some r
  | .ref i => store[i]?

/-- the new operands of a call, in argument order -/
def lits : List Arg → List Rat
  | [] => []
  | .lit r :: rest => r :: lits rest
  | .ref _ :: rest => lits rest

/-- one call of a history. Numbers are VALUES: the store (every operand and every numeric result so
    far, each bound to its own variable) only grows; the new operands and then the results are
    appended. A reference outside the store is a protocol error and leaves the store alone. -/
def step (store : List Rat) (c : Call) : List Rat × Outcome :=
  match c.args.mapM (argVal store) with
  | none => (store, .bad "ref")
  | some xs =>
    let o := apply c.op xs
    (store ++ lits c.args ++ o.values, o)

/-- a history: calls in a row; returns the final store and the outcome of every call -/
def run (store : List Rat) : List Call → List Rat × List Outcome
  | [] => (store, [])
  | c :: cs =>
    let r := step store c
    let rest := run r.1 cs
    (rest.1, r.2 :: rest.2)

end SlipVerif.Num
