import SlipVerif.Model.Reader
/-
  C02 — histories on one input stream that mix the Lisp reader (`cl:read`) with the character level
  operations `read-char`, `unread-char`, `peek-char`, `read-line`, `read-byte`.

  The specification is a *cursor* over the text: every operation is a function of the bytes from the
  cursor on and moves the cursor by what it consumed; `read` is the L1 one-form reading (`readOne`) of
  the rest of the text and consumes exactly the form (its end position). What kind of stream delivers
  the bytes (seekable string / file stream, input stream over any io.Reader, pushed back characters)
  does not occur in the model: it must not matter.

  Core Lean only (linked into the `slipmodel` driver).
-/
namespace SlipVerif.Reader

inductive HOp where
  | read        -- (read stream)
  | readChar    -- (read-char stream nil eof)
  | unreadChar  -- (unread-char <the character just read> stream)
  | peek        -- (peek-char nil stream nil eof)
  | peekSkip    -- (peek-char t stream nil eof): skips whitespace first
  | readLine    -- (read-line stream nil eof)
  | readByte    -- (read-byte stream nil eof)
  deriving DecidableEq, Repr

inductive HOut where
  | form (o : Obj)
  | chr (cp : Nat)
  | peeked (cp : Nat)
  | unread
  | line (bs : List Byte) (missingNewline : Bool)
  | byte (b : Nat)
  | eof                    -- the operation's eof value / end-of-file on read
  | failed (e : Err)       -- read raised: parse error or incomplete form; the history ends here
  | illegal                -- unread-char without a character just read (not generated)

structure HState where
  cursor : Nat := 0
  /-- byte length of the character the previous operation read with read-char (0: none) -/
  lastChar : Nat := 0
  stopped : Bool := false
  deriving DecidableEq, Repr

/-- byte length of the UTF-8 sequence at the head (1 for an invalid sequence, as utf8.DecodeRune) -/
def runeLen (bs : List Byte) : Nat :=
  match bs with
  | [] => 0
  | _ :: _ =>
    let r := decodeRune bs
    if r = 65533 then
      -- U+FFFD itself is 3 bytes; an invalid sequence decodes to it with width 1
      (if bs.take 3 = [239, 191, 189] then 3 else 1)
    else (encodeRune r).length

/-- the white space `peek-char t` skips -/
def isPeekWhite (b : Byte) : Bool := b == 32 || b == 10 || b == 13 || b == 9 || b == 8 || b == 12

/-- one operation at the cursor -/
def hstep (T : Tables) (cfg : Cfg) (text : List Byte) (s : HState) (op : HOp) : HState × Option HOut :=
  if s.stopped then (s, none) else
  let rest := text.drop s.cursor
  match op with
  | .read =>
    match readOne T cfg rest with
    | .ok (o, pos) => ({ cursor := s.cursor + pos, lastChar := 0 }, some (.form o))
    | .error .eof => ({ s with cursor := text.length, lastChar := 0 }, some .eof)
    | .error e => ({ s with stopped := true }, some (.failed e))
  | .readChar =>
    match rest with
    | [] => ({ s with lastChar := 0 }, some .eof)
    | _ :: _ => ({ cursor := s.cursor + runeLen rest, lastChar := runeLen rest }, some (.chr (decodeRune rest)))
  | .unreadChar =>
    if s.lastChar = 0 then (s, some .illegal)
    else ({ cursor := s.cursor - s.lastChar, lastChar := 0 }, some .unread)
  | .peek =>
    match rest with
    | [] => ({ s with lastChar := 0 }, some .eof)
    | _ :: _ => ({ s with lastChar := 0 }, some (.peeked (decodeRune rest)))
  | .peekSkip =>
    let skipped := (rest.takeWhile isPeekWhite).length
    match rest.drop skipped with
    | [] => ({ cursor := s.cursor + skipped, lastChar := 0 }, some .eof)
    | r :: rs => ({ cursor := s.cursor + skipped, lastChar := 0 }, some (.peeked (decodeRune (r :: rs))))
  | .readLine =>
    match rest with
    | [] => ({ s with lastChar := 0 }, some .eof)
    | _ :: _ =>
      let ln := rest.takeWhile (· != 10)
      if ln.length < rest.length then
        ({ cursor := s.cursor + ln.length + 1, lastChar := 0 }, some (.line ln false))
      else ({ cursor := s.cursor + ln.length, lastChar := 0 }, some (.line ln true))
  | .readByte =>
    match rest with
    | [] => ({ s with lastChar := 0 }, some .eof)
    | b :: _ => ({ cursor := s.cursor + 1, lastChar := 0 }, some (.byte b.toNat))

/-- a whole history: the outputs in order and the final state -/
def runHist (T : Tables) (cfg : Cfg) (text : List Byte) : HState → List HOp → HState × List HOut
  | s, [] => (s, [])
  | s, op :: ops =>
    let (s1, out) := hstep T cfg text s op
    let (s2, outs) := runHist T cfg text s1 ops
    (s2, match out with | some o => o :: outs | none => outs)

end SlipVerif.Reader
