import SlipVerif.Model.Lambda
import SlipVerif.Model.LambdaCode
import SlipVerif.Gen.LambdaCall
/- C04 — the code-level machine: `Lambda.Call` of lambda.go executed over the definitions that
   extract/lambdacall.go regenerates from the source on every run (`Gen/LambdaCall.lean`: the
   translated `requiredCount` / `isKeyParam`, the guards with their comparison operators, the two
   pass tables mode × marker → action, the facts of the &rest and &key loops, the &aux rule).
   The machine works like the Go code on the *flat* `FuncDoc.Args` list with a mode, an argument
   index and the map of the new scope; nothing of the structured model (`LL`, `bind`) is used.
   `Theorems/C04Impl.lean` proves that it refines `bind`. Core Lean only (linked into slipmodel). -/
namespace SlipVerif.LambdaImpl
open SlipVerif.Lambda SlipVerif.LambdaCode
open SlipVerif.Gen

inductive ImplErr where
  | tooFew | tooMany
  | missingValue      -- `panic("Missing value for key …")`
  | notKeyword        -- `TypePanic(… "keyword to function" …)`
  | fault             -- an index beyond the argument vector (a Go run-time fault)
  | auxForm           -- an `&aux` initial form outside the modelled fragment, or one that raises
  deriving Repr, DecidableEq

/-- `ss.Vars`: the bindings made by the call, newest first (`Let` overwrites = shadows) -/
abbrev Vars := List (String × Obj)

def getVar (vars : Vars) (n : String) : Option Obj :=
  match vars with
  | [] => none
  | (m, v) :: rest => if m = n then some v else getVar rest n

/-- `boundHere(ss, name)`: presence in the map of the new scope -/
def boundHere (vars : Vars) (n : String) : Bool := (getVar vars n).isSome

def letVar (vars : Vars) (n : String) (v : Obj) : Vars := (n, v) :: vars

/-- the loop state of the first pass besides `mode` -/
structure St where
  ai : Nat := 0
  vars : Vars := []
  rest : List Obj := []
  restSym : String := ""
  deriving Repr, DecidableEq

/-- the `for ai < len(args)` loop of `restMode`: returns the state and the mode it leaves in -/
def restLoop (doc : List DocArg) (args : List Obj) (adName : String) (mode : Nat) : Nat → St → St × Nat
  | 0, st => (st, mode)
  | fuel + 1, st =>
    if LambdaCall.restLoop.cond.op.eval args.length st.ai then
      match args[st.ai]? with
      | none => (st, mode)
      | some a =>
        let stopHere := match a with
          | .kw k => LambdaCall.restLoop.stopOnKnownKey && LambdaCall.isKeyParam doc k
          | _ => false
        if stopHere then (st, LambdaCall.restLoop.nextMode)
        else restLoop doc args adName mode fuel
          { st with ai := if LambdaCall.restLoop.advances then st.ai + 1 else st.ai,
                    restSym := if st.restSym = "" then adName else st.restSym,
                    rest := if LambdaCall.restLoop.appends then st.rest ++ [a] else st.rest }
    else (st, mode)

/-- the `for ai < len(args)` loop of `keyMode` -/
def keyLoop (doc : List DocArg) (args : List Obj) : Nat → St → Except ImplErr St
  | 0, st => .ok st
  | fuel + 1, st =>
    if LambdaCall.keyLoop.cond.op.eval args.length st.ai then
      match args[st.ai]? with
      | none => .ok st
      | some (.kw k) =>
        if LambdaCall.keyLoop.missingValue.op.eval args.length (st.ai + 1) then .error .missingValue
        else
          match args[st.ai + 1]? with
          | none => .error .fault
          | some v =>
            let doBind := (!LambdaCall.keyLoop.knownOnly || LambdaCall.isKeyParam doc k)
              && (!LambdaCall.keyLoop.firstWins || !boundHere st.vars k)
            keyLoop doc args fuel
              { st with ai := st.ai + 2, vars := if doBind then letVar st.vars k v else st.vars }
      | some _ => .error .notKeyword
    else .ok st

/-- first pass: walk the documented arguments while actual arguments are left -/
def pass1 (doc : List DocArg) (args : List Obj) : List DocArg → Nat → St → Except ImplErr St
  | [], _, st => .ok st
  | ad :: ds, mode, st =>
    if LambdaCall.loopExit.op.eval args.length st.ai then .ok st
    else
      match lookupAct LambdaCall.pass1 mode ad.name with
      | .setMode m => pass1 doc args ds m st
      | .stop => .ok st
      | .skip => pass1 doc args ds mode st
      | .bindArg =>
        match args[st.ai]? with
        | some a => pass1 doc args ds mode { st with vars := letVar st.vars ad.name a, ai := st.ai + 1 }
        | none => .error .fault
      | .restLoop =>
        let r := restLoop doc args ad.name mode (args.length + 1) st
        pass1 doc args ds r.2 r.1
      | .keyLoop =>
        match keyLoop doc args (args.length + 1) st with
        | .ok st' => pass1 doc args ds mode st'
        | .error e => .error e
      | .bindDefault | .bindAux => pass1 doc args ds mode st

/-- the fragment of initial forms the model evaluates: constants, parameters bound so far,
    `(quote x)` and `(list form*)` -/
def evalForm (vars : Vars) : Nat → Obj → Except ImplErr Obj
  | 0, _ => .error .auxForm
  | _ + 1, .sym n =>
    match getVar vars n with
    | some v => .ok v
    | none => .error .auxForm
  | _ + 1, .cons (.sym "quote") (.cons x .nil) => .ok x
  | fuel + 1, .cons (.sym "list") as =>
    match as.toList? with
    | none => .error .auxForm
    | some xs =>
      match xs.mapM (evalForm vars fuel) with
      | .ok vs => .ok (Obj.ofList vs)
      | .error e => .error e
  | _ + 1, .cons _ _ => .error .auxForm
  | _ + 1, o => .ok o

/-- value of an `&aux` variable: a list initial form for which the extracted guard holds
    (`1 < len(list)`) is evaluated in the new scope, anything else is bound as it is -/
def auxValue (vars : Vars) (d : Obj) : Except ImplErr Obj :=
  match d with
  | .cons _ _ =>
    match d.toList? with
    | some l =>
      if LambdaCall.auxEvalGuard.op.eval l.length 1 then evalForm vars (Obj.depth d + 1) d else .ok d
    | none => .ok d
  | _ => .ok d

/-- second pass: defaults for what the first pass left unbound, then the &aux variables -/
def pass2 : List DocArg → Nat → Vars → Except ImplErr Vars
  | [], _, vars => .ok vars
  | ad :: ds, mode, vars =>
    match lookupAct LambdaCall.pass2 mode ad.name with
    | .setMode m => pass2 ds m vars
    | .bindDefault =>
      pass2 ds mode (if boundHere vars ad.name then vars else letVar vars ad.name ad.default)
    | .bindAux =>
      match auxValue vars ad.default with
      | .ok v => pass2 ds mode (letVar vars ad.name v)
      | .error e => .error e
    | _ => pass2 ds mode vars

/-- `Lambda.Call`: the bindings of the new scope, or the condition raised -/
def call (doc : List DocArg) (args : List Obj) : Except ImplErr Vars :=
  if LambdaCall.tooFew.op.eval args.length (LambdaCall.requiredCount doc) then .error .tooFew
  else
    match pass1 doc args doc LambdaCall.startMode { ai := LambdaCall.startAi } with
    | .error e => .error e
    | .ok st =>
      if LambdaCall.tooMany.op.eval args.length st.ai then .error .tooMany
      else
        let vars := if LambdaCall.restLet.op.eval st.rest.length 0
          then letVar st.vars st.restSym (Obj.ofList st.rest) else st.vars
        pass2 doc LambdaCall.pass2StartMode vars

/-! ### DefLambda: from the written lambda list to `FuncDoc.Args` -/

inductive DefErr where
  | typeError      -- `TypePanic`: not a list, an element that is neither a symbol nor `(symbol default)`
  deriving Repr, DecidableEq

def docArgOf : Obj → Except DefErr DocArg
  | .sym n => .ok { name := n }
  | .cons (.sym n) (.cons d .nil) => .ok { name := n, default := d }
  | _ => .error .typeError

def docArgsOf : List Obj → Except DefErr (List DocArg)
  | [] => .ok []
  | e :: es =>
    match docArgOf e, docArgsOf es with
    | .ok d, .ok ds => .ok (d :: ds)
    | .error x, _ => .error x
    | _, .error x => .error x

def defLambda (ll : Obj) : Except DefErr (List DocArg) :=
  match ll.toList? with
  | none => .error .typeError
  | some es => docArgsOf es

/-- the parameters of a documented list: every entry that is not a marker -/
def paramNames (doc : List DocArg) : List String :=
  (doc.filter (fun ad => !(decide (0 < ad.name.length) && byteAt ad.name 0 == '&'))).map (·.name)

/-- what a body `(list p1 p2 …)` over all parameters observes -/
def observe (doc : List DocArg) (vars : Vars) : List (String × Option Obj) :=
  (paramNames doc).map (fun n => (n, getVar vars n))

end SlipVerif.LambdaImpl
