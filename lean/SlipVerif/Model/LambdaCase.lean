import SlipVerif.Model.Lambda
/- C04 — lambda-list keywords are symbols and symbols are case insensitive: `&OPTIONAL`, `&Rest`,
   `&kEy` written by the user open their section like the lower-case spelling. The reader keeps a
   symbol as it was typed, so the rule has to be applied wherever a lambda list is read.
   `parseLLci` is the parser the driver runs (entries `ll bind`, `ll chain`, `ll hist`, `ll arity`):
   the written list goes through `foldMarker` first. Core Lean only (linked into slipmodel). -/
namespace SlipVerif.Lambda

/-- ASCII lower-casing of a name -/
def lowerStr (s : String) : String := String.ofList (s.toList.map Char.toLower)

/-- the name starts with `&`: a lambda-list keyword, whatever its case -/
def startsAmp (s : String) : Bool := s.toList.head? == some '&'

/-- a lambda-list keyword is read in lower case however it is written; everything else (parameter
    names, `(name default)` specifiers, defaults, initial forms) is left as it is -/
def foldMarker : Obj → Obj
  | .sym n => if startsAmp n then .sym (lowerStr n) else .sym n
  | o => o

/-- the parser for lambda lists as users write them: markers in any case -/
def parseLLci (o : Obj) : Except LLErr LL :=
  match o.toList? with
  | none => .error .notList
  | some es => parseElems .req {} (es.map foldMarker)

end SlipVerif.Lambda
