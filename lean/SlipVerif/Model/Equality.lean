/-
  C16 — equality predicates of slip on an object universe with identity tokens.

  The universe `Obj` carries an identity token (`id`) on every object whose identity is observable
  with `eq` (numbers, characters, strings, lists, vectors, opaque objects such as packages). Symbols
  and `nil` have no token: `pkg/cl/eq.go` compares symbols by name (case sensitive) and `nil` is the
  nil interface. Two different objects never carry the same token, hence "the same object" is plain
  equality of the token-annotated terms.

  A slip `List` (a Go slice) is a chain of `cons` cells ending in `nil`; the token of the list sits
  on the first cell. A `vec` holds its elements as such a chain.

  The four Lisp predicates mirror pkg/cl/eq.go, eql.go, equal.go, equalp.go as documented
  (numbers by value: `(eql 5 5.0) => t`; `equal` folds case in strings; vectors are compared with
  the per-type `Equal` methods of the root package, here `oeq`). `oeq` mirrors `slip.ObjectEqual`.

  Core Lean only (linked into the `slipmodel` driver).
-/
namespace SlipVerif.Equality

/-- representation of a number: what `type-of` reports; irrelevant for every predicate but `eq`. -/
inductive NumRep where
  | fixnum | bignum | ratio | single | double | long
  deriving DecidableEq, Repr

inductive Obj where
  | nil
  | num (id : Nat) (rep : NumRep) (v : Rat)
  | chr (id : Nat) (c : Nat)
  | str (id : Nat) (s : List Nat)        -- code points
  | sym (name : List Nat)                -- code points; identity is the name
  | cons (id : Nat) (hd tl : Obj)
  | vec (id : Nat) (elems : Obj)
  | other (id : Nat)                     -- package, stream, …: only identity is observable
  deriving DecidableEq, Repr

/-- simple case folding of one code point, the canonical member of its folding orbit, for ASCII,
    Latin-1 (À…Þ), Greek (Α…Ω, final sigma ς with σ) and Cyrillic (А…Я) letters: what Go's
    `strings.EqualFold` identifies. The correspondence only uses an alphabet on which Go's
    `unicode.SimpleFold` orbits are exactly the fibres of this function; the harness verifies that for
    every pair of code points of its alphabet before it emits them (`c16CheckAlphabet`). -/
def foldC (c : Nat) : Nat :=
  if 65 ≤ c ∧ c ≤ 90 then c + 32
  else if 192 ≤ c ∧ c ≤ 222 ∧ c ≠ 215 then c + 32
  else if 913 ≤ c ∧ c ≤ 937 ∧ c ≠ 930 then c + 32
  else if c = 962 then 963
  else if 1040 ≤ c ∧ c ≤ 1071 then c + 32
  else c

/-- `unicode.ToLower` on the same alphabet (what `equalp` applies to characters): the final sigma
    is its own lower case -/
def lowerC (c : Nat) : Nat := if c = 962 then 962 else foldC c

def foldS (s : List Nat) : List Nat := s.map foldC

/-- `eq`: the same object. -/
def eq (x y : Obj) : Bool := decide (x = y)

/-- `eql` (pkg/cl/eql.go): `eq`, or numbers of the same value, or the same character, or strings
    with the same characters (slip follows the CLHS examples for strings). -/
def eql (x y : Obj) : Bool :=
  eq x y ||
  match x, y with
  | .num _ _ v, .num _ _ w => v == w
  | .chr _ c, .chr _ d => c == d
  | .str _ s, .str _ t => s == t
  | _, _ => false

/-- `slip.ObjectEqual` / the per-type `Equal` methods of the root package: numbers by value,
    characters and strings exactly, symbols case-insensitively, lists and vectors element-wise. -/
def oeq : Obj → Obj → Bool
  | .nil, .nil => true
  | .num _ _ v, .num _ _ w => v == w
  | .chr _ c, .chr _ d => c == d
  | .str _ s, .str _ t => s == t
  | .sym a, .sym b => foldS a == foldS b
  | .cons _ a b, .cons _ c d => oeq a c && oeq b d
  | .vec _ e, .vec _ f => oeq e f
  | .other i, .other j => i == j
  | _, _ => false

/-- the structural part of `equal` (pkg/cl/equal.go after the `eq` shortcut) -/
def equalS : Obj → Obj → Bool
  | .nil, .nil => true
  | .num _ _ v, .num _ _ w => v == w
  | .chr _ c, .chr _ d => c == d
  | .str _ s, .str _ t => foldS s == foldS t
  | .sym a, .sym b => a == b
  | .cons _ a b, .cons _ c d => (equalS a c) && (equalS b d)
  | .vec _ e, .vec _ f => oeq e f
  | .other i, .other j => i == j
  | _, _ => false

/-- `equal`: `eq` or structurally the same. -/
def equal (x y : Obj) : Bool := eq x y || equalS x y

/-- the structural part of `equalp` (pkg/cl/equalp.go) -/
def equalpS : Obj → Obj → Bool
  | .nil, .nil => true
  | .num _ _ v, .num _ _ w => v == w
  | .chr _ c, .chr _ d => lowerC c == lowerC d
  | .str _ s, .str _ t => foldS s == foldS t
  | .sym a, .sym b => foldS a == foldS b
  | .cons _ a b, .cons _ c d => (equalpS a c) && (equalpS b d)
  | .vec _ e, .vec _ f => oeq e f
  | .other i, .other j => i == j
  | _, _ => false

def equalp (x y : Obj) : Bool := eq x y || equalpS x y

/-! ### canonical keys (normal forms): `p x y ↔ key_p x = key_p y` is proved in Theorems/C16 -/

/-- normal form of a number: identity and representation erased -/
def numKey (v : Rat) : Obj := .num 0 .fixnum v

def keyEql : Obj → Obj
  | .num _ _ v => numKey v
  | .chr _ c => .chr 0 c
  | .str _ s => .str 0 s
  | x => x

def keyO : Obj → Obj
  | .nil => .nil
  | .num _ _ v => numKey v
  | .chr _ c => .chr 0 c
  | .str _ s => .str 0 s
  | .sym a => .sym (foldS a)
  | .cons _ a b => .cons 0 (keyO a) (keyO b)
  | .vec _ e => .vec 0 (keyO e)
  | .other i => .other i

/-- the canonical key under `equal` -/
def key : Obj → Obj
  | .nil => .nil
  | .num _ _ v => numKey v
  | .chr _ c => .chr 0 c
  | .str _ s => .str 0 (foldS s)
  | .sym a => .sym a
  | .cons _ a b => .cons 0 (key a) (key b)
  | .vec _ e => .vec 0 (keyO e)
  | .other i => .other i

def keyP : Obj → Obj
  | .nil => .nil
  | .num _ _ v => numKey v
  | .chr _ c => .chr 0 (lowerC c)
  | .str _ s => .str 0 (foldS s)
  | .sym a => .sym (foldS a)
  | .cons _ a b => .cons 0 (keyP a) (keyP b)
  | .vec _ e => .vec 0 (keyO e)
  | .other i => .other i

/-! ### the model's sxhash: a function of the canonical key -/

def mixH (a b : Nat) : Nat := (a * 31 + b) % 9223372036854775808

def hashKey : Obj → Nat
  | .nil => 1
  | .num _ _ v => mixH 2 (mixH v.num.natAbs v.den)
  | .chr _ c => mixH 3 c
  | .str _ s => s.foldl mixH 4
  | .sym a => a.foldl mixH 5
  | .cons _ a b => mixH 6 (mixH (hashKey a) (hashKey b))
  | .vec _ e => mixH 7 (hashKey e)
  | .other i => mixH 8 i

def sxhash (x : Obj) : Nat := hashKey (key x)

end SlipVerif.Equality
