import SlipVerif.Model.Reader
import SlipVerif.Gen.ReaderTables
/-
  The reader model's `Tables` instantiated with the tables regenerated from /repo/code.go
  (Gen/ReaderTables.lean). Which *action* an action code stands for is the hand-written part: the
  code constants (`skipByte = 'a'` …) are the generated ones.
-/
namespace SlipVerif.Reader
open SlipVerif.Gen

def genActs : List (Nat × Action) := [
  (ReaderTables.skipNewline, .skipNewline), (ReaderTables.skipByte, .skipByte),
  (ReaderTables.commentByte, .commentByte), (ReaderTables.commentDone, .commentDone),
  (ReaderTables.openParen, .openParen), (ReaderTables.closeParen, .closeParen),
  (ReaderTables.tokenStart, .tokenStart), (ReaderTables.tokenDone, .tokenDone),
  (ReaderTables.doubleQuote, .doubleQuote), (ReaderTables.pipeByte, .pipeByte),
  (ReaderTables.stringByte, .stringByte), (ReaderTables.stringDone, .stringDone),
  (ReaderTables.pipeDone, .pipeDone), (ReaderTables.escByte, .escByte), (ReaderTables.escOne, .escOne),
  (ReaderTables.escUnicode4, .escUnicode4), (ReaderTables.escUnicode8, .escUnicode8),
  (ReaderTables.runeDigit, .runeDigit), (ReaderTables.runeHexA, .runeHexA), (ReaderTables.runeHexa, .runeHexa),
  (ReaderTables.sharpByte, .sharpByte), (ReaderTables.charSlash, .charSlash), (ReaderTables.charFirst, .charFirst), (ReaderTables.charDone, .charDone),
  (ReaderTables.vectorByte, .vectorByte), (ReaderTables.binaryByte, .binaryByte), (ReaderTables.octByte, .octByte),
  (ReaderTables.hexByte, .hexByte), (ReaderTables.intDone, .intDone), (ReaderTables.sharpIntByte, .sharpIntByte),
  (ReaderTables.sharpNumByte, .sharpNumByte), (ReaderTables.radixByte, .radixByte),
  (ReaderTables.sharpComplex, .sharpComplex), (ReaderTables.arrayByte, .arrayByte),
  (ReaderTables.swallowOpen, .swallowOpen), (ReaderTables.singleQuote, .singleQuote),
  (ReaderTables.sharpQuote, .sharpQuote), (ReaderTables.backquoteByte, .backquote),
  (ReaderTables.commaByte, .comma), (ReaderTables.commaAt, .commaAt), (ReaderTables.blockStart, .blockStart),
  (ReaderTables.blockEnd0, .blockEnd0), (ReaderTables.bitVectorByte, .bitVectorByte),
  (ReaderTables.bitVectorDone, .bitVectorDone)]

def genTables : Tables where
  value := ReaderTables.valueMode
  comment := ReaderTables.commentMode
  token := ReaderTables.tokenMode
  string := ReaderTables.stringMode
  symbol := ReaderTables.symbolMode
  esc := ReaderTables.escMode
  rune := ReaderTables.runeMode
  sharp := ReaderTables.sharpMode
  chr := ReaderTables.charMode
  chrStart := ReaderTables.charStartMode
  int := ReaderTables.intMode
  sharpNum := ReaderTables.sharpNumMode
  mustArray := ReaderTables.mustArrayMode
  blockComment := ReaderTables.blockCommentMode
  blockEnd := ReaderTables.blockEndMode
  bitVector := ReaderTables.bitVectorMode
  escMap := ReaderTables.escByteMap
  hexVals := ReaderTables.hexByteValues
  runeMap := ReaderTables.runeMap
  arrayMaxRank := ReaderTables.arrayMaxRank
  acts := genActs

end SlipVerif.Reader
