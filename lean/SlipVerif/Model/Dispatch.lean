/-
  C10 — model of slip's generic-function dispatch (pkg/generic/uax.go, defmethod.go,
  remove-method.go, method.go, whoploc.go).  Core Lean only (linked into the model driver).

  Two layers live here:

  * the *implementation-shaped* layer: `Aux = {methods, cache, dflt}` and `step`, written like the
    Go code — the single-method fast path (`defaultCaller`), the cache probe keyed by the argument
    classes (`buildSpecKey`), the nested hierarchy walk with a key buffer (`collectMethods`), cache
    insert, cache clear + fast-path recomputation on every add/remove (`addMethodCaller`,
    `RemoveMethod.Call`, `updateDefaultCaller`), and the execution of a combined method by
    scanning the combination list for the next `Wrap` (`Method.Call`, `WhopLoc.Continue`,
    `WhopLoc.HasNext`) and the three loops of `Method.InnerCall`;
  * the *specification* layer, written from the property statement: an abstract method table
    `Table = Key → Qual → Option Body` updated by `defmethod`/`remove` only, the lexicographic
    enumeration `keys` of the applicable specializer tuples, and `spec`: all :around most specific
    first, all :before most specific first, the most specific primary, all :after least specific
    first, `call-next-method` walking that order.  No cache, no fast path.

  Theorems/C10.lean proves that every call of the first layer, after any history, equals `spec`
  of the abstract table of that history.
-/
namespace SlipVerif.Dispatch

/-- a class, by number (the harness numbers the class names it uses) -/
abbrev Cls := Nat
/-- a specializer tuple, one class per required argument (Go: class names joined with '|') -/
abbrev Key := List Cls

inductive Qual where
  | primary | before | after | around
  deriving DecidableEq, Repr

/-- What the body of an :around method does after recording that it was entered.
    `guarded`: `(if (next-method-p) (call-next-method …) <own id>)`;
    `direct` : `(call-next-method …)` unconditionally;
    `stop`   : returns its own id without continuing. Ignored for the other qualifiers. -/
inductive Mode where
  | guarded | direct | stop
  deriving DecidableEq, Repr

/-- a method body: the id it records in the trace (and returns) and its continuation mode -/
structure Body where
  id : Nat
  mode : Mode
  deriving DecidableEq, Repr

/-- Go `slip.Combination`: the up to four daemons stored under one specializer tuple -/
structure Combo where
  primary : Option Body
  before : Option Body
  after : Option Body
  wrap : Option Body
  deriving DecidableEq, Repr

def Combo.empty : Combo := ⟨none, none, none, none⟩

def Combo.get (c : Combo) : Qual → Option Body
  | .primary => c.primary
  | .before => c.before
  | .after => c.after
  | .around => c.wrap

def Combo.set (c : Combo) (q : Qual) (b : Option Body) : Combo :=
  match q with
  | .primary => { c with primary := b }
  | .before => { c with before := b }
  | .after => { c with after := b }
  | .around => { c with wrap := b }

def Combo.isEmpty (c : Combo) : Bool :=
  c.primary.isNone && c.before.isNone && c.after.isNone && c.wrap.isNone

/-! ## observable outcome of a call -/

inductive Ev where
  /-- a :before, primary or :after body ran -/
  | run (id : Nat)
  /-- an :around body started; `np` is the value `(next-method-p)` had there -/
  | enter (id : Nat) (np : Bool)
  /-- the :around body returned normally -/
  | leave (id : Nat)
  deriving DecidableEq, Repr

inductive Res where
  /-- the call returned: the id of the body whose value came out (`none` = nil) -/
  | val (v : Option Nat)
  /-- no-applicable-method was signalled -/
  | noApplicable
  /-- no-next-method was signalled (an unguarded call-next-method with nothing left) -/
  | noNext
  /-- not a call (defmethod / remove-method) -/
  | noCall
  deriving DecidableEq, Repr

structure Out where
  trace : List Ev
  res : Res
  deriving DecidableEq, Repr

def Out.nothing : Out := ⟨[], .noCall⟩

/-- The behaviour of one :around body given the value of `next-method-p` at its location and the
    outcome `next` of continuing from there. An error in `next` aborts the body (no `leave`). -/
def runAround (b : Body) (np : Bool) (next : Out) : Out :=
  let proceed : Out :=
    match next.res with
    | .val v => ⟨.enter b.id np :: (next.trace ++ [.leave b.id]), .val v⟩
    | r => ⟨.enter b.id np :: next.trace, r⟩
  match b.mode with
  | .stop => ⟨[.enter b.id np, .leave b.id], .val (some b.id)⟩
  | .guarded => if np then proceed else ⟨[.enter b.id np, .leave b.id], .val (some b.id)⟩
  | .direct => if np then proceed else ⟨[.enter b.id np], .noNext⟩

/-! ## running a combined method, as the Go code does -/

/-- `Method.InnerCall`, first loop: every Before in list order -/
def runBefores : List Combo → List Ev
  | [] => []
  | c :: cs => (match c.before with | some b => [Ev.run b.id] | none => []) ++ runBefores cs

/-- `Method.InnerCall`, second loop: the first Primary, then `break` -/
def firstPrimary : List Combo → Option Body
  | [] => none
  | c :: cs => match c.primary with | some b => some b | none => firstPrimary cs

/-- `Method.InnerCall`, third loop: every After, index running downwards -/
def runAfters : List Combo → List Ev
  | [] => []
  | c :: cs => runAfters cs ++ (match c.after with | some b => [Ev.run b.id] | none => [])

def innerCall (all : List Combo) : Out :=
  let p := firstPrimary all
  ⟨runBefores all ++ (match p with | some b => [Ev.run b.id] | none => []) ++ runAfters all,
   .val (p.map (·.id))⟩

/-- `WhopLoc.HasNext`, second loop: any combination with a Primary, Before or After -/
def hasInner (all : List Combo) : Bool :=
  all.any (fun c => c.primary.isSome || c.before.isSome || c.after.isSome)

/-- `WhopLoc.HasNext`, first loop: a Wrap after the current position -/
def hasWrap (rest : List Combo) : Bool := rest.any (fun c => c.wrap.isSome)

/-- `Method.Call` / `WhopLoc.Continue`: scan the combinations after the current position for the
    next Wrap and run it with a location pointing there; without one, `InnerCall` on the whole
    method. The location is the list of combinations after the current index. -/
def continueFrom (all : List Combo) : List Combo → Out
  | [] => innerCall all
  | c :: rest =>
    match c.wrap with
    | none => continueFrom all rest
    | some b => runAround b (hasWrap rest || hasInner all) (continueFrom all rest)

/-- `Method.Call` on a combined (cached) method -/
def callEff (eff : List Combo) : Out := continueFrom eff eff

/-! ## the method table and the cache: association lists standing for Go maps -/

def lookup {α : Type} : List (Key × α) → Key → Option α
  | [], _ => none
  | (k', v) :: rest, k => if k' = k then some v else lookup rest k

def erase {α : Type} : List (Key × α) → Key → List (Key × α)
  | [], _ => []
  | (k', v) :: rest, k => if k' = k then erase rest k else (k', v) :: erase rest k

def insert {α : Type} (m : List (Key × α)) (k : Key) (v : α) : List (Key × α) := (k, v) :: erase m k

abbrev Methods := List (Key × Combo)

/-- `addMethodCaller`: fetch or create the combination under the key, set the qualifier's slot -/
def addMethod (ms : Methods) (q : Qual) (k : Key) (b : Body) : Methods :=
  match lookup ms k with
  | some c => insert ms k (c.set q (some b))
  | none => insert ms k (Combo.empty.set q (some b))

/-- `RemoveMethod.Call`: clear the slot; drop the key when nothing is left under it -/
def removeMethod (ms : Methods) (q : Qual) (k : Key) : Methods :=
  match lookup ms k with
  | none => ms
  | some c =>
    let c' := c.set q none
    if c'.isEmpty then erase ms k else insert ms k c'

/-- `Aux.collectMethods`: nested walk over each argument's hierarchy filling a key buffer; at the
    last position the key is looked up and the combination appended. -/
def collect (ms : Methods) : List (List Cls) → Key → List Combo
  | [], pre => match lookup ms pre with | some c => [c] | none => []
  | h :: hs, pre => h.flatMap (fun c => collect ms hs (pre ++ [c]))

/-- `updateDefaultCaller`: exactly one key, it is the all-`t` key, and it holds a lone primary -/
def dfltOf (tC : Cls) (n : Nat) (ms : Methods) : Option Body :=
  match ms with
  | [(k, c)] =>
    if k = List.replicate n tC ∧ c.before = none ∧ c.after = none ∧ c.wrap = none then c.primary else none
  | _ => none

/-- Go `generic.Aux` -/
structure Aux where
  methods : Methods
  /-- effective methods keyed by the argument classes of earlier calls -/
  cache : List (Key × List Combo)
  /-- the fast path of `Aux.Call` -/
  dflt : Option Body
  deriving Repr

def Aux.init : Aux := ⟨[], [], none⟩

inductive Op where
  | defmethod (q : Qual) (key : Key) (b : Body)
  | remove (q : Qual) (key : Key)
  /-- a call with arguments whose classes are `cs` -/
  | call (cs : List Cls)
  deriving DecidableEq, Repr

/-- The class table and the generic function's shape: `cpl c` is the class precedence list of
    class `c` (`Hierarchy()` of an argument whose first element is `c`), `tC` the class `t`,
    `n` the number of required arguments. -/
structure Env where
  cpl : Cls → List Cls
  tC : Cls
  n : Nat

/-- One operation on the implementation-shaped state. -/
def step (E : Env) (a : Aux) : Op → Aux × Out
  | .defmethod q k b =>
    let ms := addMethod a.methods q k b
    (⟨ms, [], dfltOf E.tC E.n ms⟩, Out.nothing)
  | .remove q k =>
    match lookup a.methods k with
    | none => (a, Out.nothing)
    | some _ =>
      let ms := removeMethod a.methods q k
      (⟨ms, [], dfltOf E.tC E.n ms⟩, Out.nothing)
  | .call cs =>
    match a.dflt with
    | some b => (a, ⟨[.run b.id], .val (some b.id)⟩)
    | none =>
      match lookup a.cache cs with
      | some eff => (a, callEff eff)
      | none =>
        let eff := collect a.methods (cs.map E.cpl) []
        if eff.isEmpty then (a, ⟨[], .noApplicable⟩)
        else ({ a with cache := insert a.cache cs eff }, callEff eff)

/-- run a history; the outcomes of its operations in order -/
def runOps (E : Env) : Aux → List Op → Aux × List Out
  | a, [] => (a, [])
  | a, op :: ops =>
    let (a', o) := step E a op
    let (a'', os) := runOps E a' ops
    (a'', o :: os)

/-- the state after a history -/
def run (E : Env) (a : Aux) (ops : List Op) : Aux := (runOps E a ops).1

/-! ## the specification (no cache, no fast path) -/

/-- the abstract method table: what is defined under a specializer tuple and qualifier -/
abbrev Table := Key → Qual → Option Body

def Table.empty : Table := fun _ _ => none

def Table.set (t : Table) (k : Key) (q : Qual) (b : Option Body) : Table :=
  fun k' q' => if k' = k ∧ q' = q then b else t k' q'

/-- the table defined by a history: only defmethod and remove-method matter -/
def tableOf : List Op → Table → Table
  | [], t => t
  | .defmethod q k b :: ops, t => tableOf ops (t.set k q (some b))
  | .remove q k :: ops, t => tableOf ops (t.set k q none)
  | .call _ :: ops, t => tableOf ops t

/-- all specializer tuples applicable to arguments with the given precedence lists, most specific
    first: lexicographic over the arguments left to right, each in precedence-list order -/
def keys : List (List Cls) → List Key
  | [] => [[]]
  | h :: hs => h.flatMap (fun c => (keys hs).map (c :: ·))

/-- the methods of one qualifier applicable to the precedence lists, most specific first -/
def applicable (t : Table) (precs : List (List Cls)) (q : Qual) : List Body :=
  (keys precs).filterMap (fun k => t k q)

/-- the part inside all :around methods: befores most specific first, the most specific primary
    (if any), afters least specific first; the value is the primary's -/
def specInner (be : List Body) (pr : Option Body) (af : List Body) : Out :=
  ⟨be.map (fun b => Ev.run b.id) ++ (match pr with | some b => [Ev.run b.id] | none => [])
     ++ af.reverse.map (fun b => Ev.run b.id),
   .val (pr.map (·.id))⟩

/-- the :around chain, most specific first; `next-method-p` holds in an :around method iff a later
    :around method exists or there is something inside -/
def specArounds (inner : Out) (hasInner : Bool) : List Body → Out
  | [] => inner
  | b :: rest => runAround b (!rest.isEmpty || hasInner) (specArounds inner hasInner rest)

/-- running the four ordered method lists -/
def specRun (ar be : List Body) (pr : Option Body) (af : List Body) : Out :=
  specArounds (specInner be pr af) (!be.isEmpty || pr.isSome || !af.isEmpty) ar

/-- The property's statement of a call with arguments of classes `cs` under table `t`. -/
def spec (E : Env) (t : Table) (cs : List Cls) : Out :=
  let precs := cs.map E.cpl
  let ar := applicable t precs .around
  let be := applicable t precs .before
  let pr := applicable t precs .primary
  let af := applicable t precs .after
  if ar.isEmpty && be.isEmpty && pr.isEmpty && af.isEmpty then ⟨[], .noApplicable⟩
  else specRun ar be pr.head? af

/-- the outcomes the specification assigns to the operations of a history -/
def specOuts (E : Env) : List Op → Table → List Out
  | [], _ => []
  | .call cs :: ops, t => spec E t cs :: specOuts E ops t
  | .defmethod q k b :: ops, t => Out.nothing :: specOuts E ops (t.set k q (some b))
  | .remove q k :: ops, t => Out.nothing :: specOuts E ops (t.set k q none)

end SlipVerif.Dispatch
