/-
  C10 — model of slip's generic-function dispatch (pkg/generic/uax.go, defmethod.go,
  remove-method.go, method.go, whoploc.go).  Core Lean only (linked into the model driver).

  Two layers live here:

  * the *implementation-shaped* layer: `Aux = {methods, cache, dflt}` and `step`, written like the
    Go code — the single-method fast path (`defaultCaller`), the cache probe keyed by the argument
    classes (`buildSpecKey`), the nested hierarchy walk with a key buffer (`collectMethods`), cache
    insert, cache clear + fast-path recomputation on every add/remove (`addMethodCaller`,
    `RemoveMethod.Call`, `updateDefaultCaller`), and the execution of a combined method by
    scanning the combination list for the next `Wrap` (`Method.Call`, `WhopLoc.Continue`,
    `WhopLoc.HasNext`) and the three loops of `Method.InnerCall`;
  * the *specification* layer, written from the property statement: an abstract method table
    `Table = Key → Qual → Option Body` updated by `defmethod`/`remove` (and emptied by a re-evaluated `defgeneric`) only, the lexicographic
    enumeration `keys` of the applicable specializer tuples, and `spec`: all :around most specific
    first, all :before most specific first, the most specific primary, all :after least specific
    first, `call-next-method` walking that order.  No cache, no fast path.

  Theorems/C10.lean proves that every call of the first layer, after any history, equals `spec`
  of the abstract table of that history.

  A call carries the class precedence list (`Hierarchy()`) of each required argument, not a class
  name: the applicable methods are a function of those lists, and so is the cache key
  (`buildSpecKey` joins the whole hierarchy of every required argument).  A class that is redefined
  during a history, or instances of the old and of the new definition of one class name living side
  by side, are therefore just calls with different lists.  `compute-applicable-methods`
  (`Aux.compMethList`, a second copy of the nested walk with an accumulator) is modelled too.
-/
namespace SlipVerif.Dispatch

/-- a class, by number (the harness numbers the class names it uses) -/
abbrev Cls := Nat
/-- a specializer tuple, one class per required argument (Go: class names joined with '|') -/
abbrev Key := List Cls

inductive Qual where
  | primary | before | after | around
  deriving DecidableEq, Repr

/-- What the body of an :around method does after recording that it was entered.
    `guarded`: `(if (next-method-p) (call-next-method …) <own id>)`;
    `direct` : `(call-next-method …)` unconditionally;
    `stop`   : returns its own id without continuing. Ignored for the other qualifiers. -/
inductive Mode where
  | guarded | direct | stop
  deriving DecidableEq, Repr

/-- a method body: the id it records in the trace (and returns) and its continuation mode -/
structure Body where
  id : Nat
  mode : Mode
  deriving DecidableEq, Repr

/-- Go `slip.Combination`: the up to four daemons stored under one specializer tuple -/
structure Combo where
  primary : Option Body
  before : Option Body
  after : Option Body
  wrap : Option Body
  deriving DecidableEq, Repr

def Combo.empty : Combo := ⟨none, none, none, none⟩

def Combo.get (c : Combo) : Qual → Option Body
  | .primary => c.primary
  | .before => c.before
  | .after => c.after
  | .around => c.wrap

def Combo.set (c : Combo) (q : Qual) (b : Option Body) : Combo :=
  match q with
  | .primary => { c with primary := b }
  | .before => { c with before := b }
  | .after => { c with after := b }
  | .around => { c with wrap := b }

def Combo.isEmpty (c : Combo) : Bool :=
  c.primary.isNone && c.before.isNone && c.after.isNone && c.wrap.isNone

/-! ## observable outcome of a call -/

inductive Ev where
  /-- a :before, primary or :after body ran -/
  | run (id : Nat)
  /-- an :around body started; `np` is the value `(next-method-p)` had there -/
  | enter (id : Nat) (np : Bool)
  /-- the :around body returned normally -/
  | leave (id : Nat)
  deriving DecidableEq, Repr

inductive Res where
  /-- the call returned: the id of the body whose value came out (`none` = nil) -/
  | val (v : Option Nat)
  /-- no-applicable-method was signalled -/
  | noApplicable
  /-- no-next-method was signalled (an unguarded call-next-method with nothing left) -/
  | noNext
  /-- not a call (defmethod / remove-method) -/
  | noCall
  /-- the list returned by compute-applicable-methods: qualifier and body id of each method -/
  | methods (l : List (Qual × Nat))
  deriving DecidableEq, Repr

structure Out where
  trace : List Ev
  res : Res
  deriving DecidableEq, Repr

def Out.nothing : Out := ⟨[], .noCall⟩

/-- The behaviour of one :around body given the value of `next-method-p` at its location and the
    outcome `next` of continuing from there. An error in `next` aborts the body (no `leave`). -/
def runAround (b : Body) (np : Bool) (next : Out) : Out :=
  let proceed : Out :=
    match next.res with
    | .val v => ⟨.enter b.id np :: (next.trace ++ [.leave b.id]), .val v⟩
    | r => ⟨.enter b.id np :: next.trace, r⟩
  match b.mode with
  | .stop => ⟨[.enter b.id np, .leave b.id], .val (some b.id)⟩
  | .guarded => if np then proceed else ⟨[.enter b.id np, .leave b.id], .val (some b.id)⟩
  | .direct => if np then proceed else ⟨[.enter b.id np], .noNext⟩

/-! ## running a combined method, as the Go code does -/

/-- `Method.InnerCall`, first loop: every Before in list order -/
def runBefores : List Combo → List Ev
  | [] => []
  | c :: cs => (match c.before with | some b => [Ev.run b.id] | none => []) ++ runBefores cs

/-- `Method.InnerCall`, second loop: the first Primary, then `break` -/
def firstPrimary : List Combo → Option Body
  | [] => none
  | c :: cs => match c.primary with | some b => some b | none => firstPrimary cs

/-- `Method.InnerCall`, third loop: every After, index running downwards -/
def runAfters : List Combo → List Ev
  | [] => []
  | c :: cs => runAfters cs ++ (match c.after with | some b => [Ev.run b.id] | none => [])

def innerCall (all : List Combo) : Out :=
  let p := firstPrimary all
  ⟨runBefores all ++ (match p with | some b => [Ev.run b.id] | none => []) ++ runAfters all,
   .val (p.map (·.id))⟩

/-- `WhopLoc.HasNext`, second loop: any combination with a Primary, Before or After -/
def hasInner (all : List Combo) : Bool :=
  all.any (fun c => c.primary.isSome || c.before.isSome || c.after.isSome)

/-- `WhopLoc.HasNext`, first loop: a Wrap after the current position -/
def hasWrap (rest : List Combo) : Bool := rest.any (fun c => c.wrap.isSome)

/-- `Method.Call` / `WhopLoc.Continue`: scan the combinations after the current position for the
    next Wrap and run it with a location pointing there; without one, `InnerCall` on the whole
    method. The location is the list of combinations after the current index. -/
def continueFrom (all : List Combo) : List Combo → Out
  | [] => innerCall all
  | c :: rest =>
    match c.wrap with
    | none => continueFrom all rest
    | some b => runAround b (hasWrap rest || hasInner all) (continueFrom all rest)

/-- `Method.Call` on a combined (cached) method -/
def callEff (eff : List Combo) : Out := continueFrom eff eff

/-! ## the method table and the cache: association lists standing for Go maps -/

def lookup {κ α : Type} [DecidableEq κ] : List (κ × α) → κ → Option α
  | [], _ => none
  | (k', v) :: rest, k => if k' = k then some v else lookup rest k

def erase {κ α : Type} [DecidableEq κ] : List (κ × α) → κ → List (κ × α)
  | [], _ => []
  | (k', v) :: rest, k => if k' = k then erase rest k else (k', v) :: erase rest k

def insert {κ α : Type} [DecidableEq κ] (m : List (κ × α)) (k : κ) (v : α) : List (κ × α) :=
  (k, v) :: erase m k

/-- the class precedence lists (`Hierarchy()`) of the required arguments of a call; also the cache
    key (Go `buildSpecKey`: the names of each hierarchy joined with ' ', the arguments with '|') -/
abbrev Precs := List (List Cls)

abbrev Methods := List (Key × Combo)

/-- `addMethodCaller`: fetch or create the combination under the key, set the qualifier's slot -/
def addMethod (ms : Methods) (q : Qual) (k : Key) (b : Body) : Methods :=
  match lookup ms k with
  | some c => insert ms k (c.set q (some b))
  | none => insert ms k (Combo.empty.set q (some b))

/-- `RemoveMethod.Call`: clear the slot; drop the key when nothing is left under it -/
def removeMethod (ms : Methods) (q : Qual) (k : Key) : Methods :=
  match lookup ms k with
  | none => ms
  | some c =>
    let c' := c.set q none
    if c'.isEmpty then erase ms k else insert ms k c'

/-- `Aux.collectMethods`: nested walk over each argument's hierarchy filling a key buffer; at the
    last position the key is looked up and the combination appended. -/
def collect (ms : Methods) : List (List Cls) → Key → List Combo
  | [], pre => match lookup ms pre with | some c => [c] | none => []
  | h :: hs, pre => h.flatMap (fun c => collect ms hs (pre ++ [c]))

/-- `updateDefaultCaller`: exactly one key, it is the all-`t` key, and it holds a lone primary -/
def dfltOf (tC : Cls) (n : Nat) (ms : Methods) : Option Body :=
  match ms with
  | [(k, c)] =>
    if k = List.replicate n tC ∧ c.before = none ∧ c.after = none ∧ c.wrap = none then c.primary else none
  | _ => none

/-! ### `compute-applicable-methods`: `Aux.compMethList` / `compMeths` -/

/-- Go `methComp`: the accumulator of `compMeths` -/
structure MethComp where
  primary : Option Body
  around : List Body
  before : List Body
  after : List Body
  deriving DecidableEq, Repr

def MethComp.empty : MethComp := ⟨none, [], [], []⟩

/-- the body of the innermost loop of `compMeths` for one stored combination: the first primary
    found is kept (`mc.primary == nil && c.Primary != nil`), the daemons are appended -/
def compStep (mc : MethComp) (c : Combo) : MethComp :=
  { primary := match mc.primary with | some b => some b | none => c.primary
    before := mc.before ++ c.before.toList
    after := mc.after ++ c.after.toList
    around := mc.around ++ c.wrap.toList }

/-- `Aux.compMeths`: the same nested walk as `collectMethods`, threading the accumulator -/
def compMeths (ms : Methods) : List (List Cls) → Key → MethComp → MethComp
  | [], pre, mc => match lookup ms pre with | some c => compStep mc c | none => mc
  | h :: hs, pre, mc => h.foldl (fun mc c => compMeths ms hs (pre ++ [c]) mc) mc

/-- `Aux.compMethList`: arounds, befores, the primary, afters with the index running downwards -/
def compMethList (ms : Methods) (precs : Precs) : List (Qual × Nat) :=
  let mc := compMeths ms precs [] MethComp.empty
  mc.around.map (fun b => (Qual.around, b.id)) ++ mc.before.map (fun b => (Qual.before, b.id))
    ++ mc.primary.toList.map (fun b => (Qual.primary, b.id))
    ++ mc.after.reverse.map (fun b => (Qual.after, b.id))

/-- Go `generic.Aux` -/
structure Aux where
  methods : Methods
  /-- effective methods keyed by the class precedence lists of the arguments of earlier calls -/
  cache : List (Precs × List Combo)
  /-- the fast path of `Aux.Call` -/
  dflt : Option Body
  deriving Repr

def Aux.init : Aux := ⟨[], [], none⟩

inductive Op where
  | defmethod (q : Qual) (key : Key) (b : Body)
  | remove (q : Qual) (key : Key)
  /-- a call with arguments whose class precedence lists (`Hierarchy()`) are `precs` -/
  | call (precs : Precs)
  /-- `(compute-applicable-methods g args)` for arguments with these precedence lists -/
  | methods (precs : Precs)
  /-- `(defgeneric g …)` evaluated again for the existing generic function `g` (same lambda list,
      no `:method` options — those are `defmethod`s following it): `Defgeneric.Call` builds a new
      `Aux` with `NewAux` and `Define` installs it in place of the old one; every method, the cache
      and the fast path of the earlier definition are gone. -/
  | redefine
  deriving DecidableEq, Repr

/-- The generic function's shape: `tC` the class `t`, `n` the number of required arguments. -/
structure Env where
  tC : Cls
  n : Nat

/-- One operation on the implementation-shaped state. -/
def step (E : Env) (a : Aux) : Op → Aux × Out
  | .defmethod q k b =>
    let ms := addMethod a.methods q k b
    (⟨ms, [], dfltOf E.tC E.n ms⟩, Out.nothing)
  | .remove q k =>
    match lookup a.methods k with
    | none => (a, Out.nothing)
    | some _ =>
      let ms := removeMethod a.methods q k
      (⟨ms, [], dfltOf E.tC E.n ms⟩, Out.nothing)
  | .call precs =>
    match a.dflt with
    | some b => (a, ⟨[.run b.id], .val (some b.id)⟩)
    | none =>
      match lookup a.cache precs with
      | some eff => (a, callEff eff)
      | none =>
        let eff := collect a.methods precs []
        if eff.isEmpty then (a, ⟨[], .noApplicable⟩)
        else ({ a with cache := insert a.cache precs eff }, callEff eff)
  | .methods precs => (a, ⟨[], .methods (compMethList a.methods precs)⟩)
  | .redefine => (Aux.init, Out.nothing)

/-- run a history; the outcomes of its operations in order -/
def runOps (E : Env) : Aux → List Op → Aux × List Out
  | a, [] => (a, [])
  | a, op :: ops =>
    let (a', o) := step E a op
    let (a'', os) := runOps E a' ops
    (a'', o :: os)

/-- the state after a history -/
def run (E : Env) (a : Aux) (ops : List Op) : Aux := (runOps E a ops).1

/-! ## the specification (no cache, no fast path) -/

/-- the abstract method table: what is defined under a specializer tuple and qualifier -/
abbrev Table := Key → Qual → Option Body

def Table.empty : Table := fun _ _ => none

def Table.set (t : Table) (k : Key) (q : Qual) (b : Option Body) : Table :=
  fun k' q' => if k' = k ∧ q' = q then b else t k' q'

/-- the table defined by a history: only defmethod, remove-method and a re-evaluated defgeneric
    (which empties it) matter -/
def tableOf : List Op → Table → Table
  | [], t => t
  | .defmethod q k b :: ops, t => tableOf ops (t.set k q (some b))
  | .remove q k :: ops, t => tableOf ops (t.set k q none)
  | .call _ :: ops, t => tableOf ops t
  | .methods _ :: ops, t => tableOf ops t
  | .redefine :: ops, _ => tableOf ops Table.empty

/-- all specializer tuples applicable to arguments with the given precedence lists, most specific
    first: lexicographic over the arguments left to right, each in precedence-list order -/
def keys : List (List Cls) → List Key
  | [] => [[]]
  | h :: hs => h.flatMap (fun c => (keys hs).map (c :: ·))

/-- the methods of one qualifier applicable to the precedence lists, most specific first -/
def applicable (t : Table) (precs : List (List Cls)) (q : Qual) : List Body :=
  (keys precs).filterMap (fun k => t k q)

/-- the part inside all :around methods: befores most specific first, the most specific primary
    (if any), afters least specific first; the value is the primary's -/
def specInner (be : List Body) (pr : Option Body) (af : List Body) : Out :=
  ⟨be.map (fun b => Ev.run b.id) ++ (match pr with | some b => [Ev.run b.id] | none => [])
     ++ af.reverse.map (fun b => Ev.run b.id),
   .val (pr.map (·.id))⟩

/-- the :around chain, most specific first; `next-method-p` holds in an :around method iff a later
    :around method exists or there is something inside -/
def specArounds (inner : Out) (hasInner : Bool) : List Body → Out
  | [] => inner
  | b :: rest => runAround b (!rest.isEmpty || hasInner) (specArounds inner hasInner rest)

/-- running the four ordered method lists -/
def specRun (ar be : List Body) (pr : Option Body) (af : List Body) : Out :=
  specArounds (specInner be pr af) (!be.isEmpty || pr.isSome || !af.isEmpty) ar

/-- The property's statement of a call with arguments whose class precedence lists are `precs`
    under table `t`. -/
def spec (t : Table) (precs : Precs) : Out :=
  let ar := applicable t precs .around
  let be := applicable t precs .before
  let pr := applicable t precs .primary
  let af := applicable t precs .after
  if ar.isEmpty && be.isEmpty && pr.isEmpty && af.isEmpty then ⟨[], .noApplicable⟩
  else specRun ar be pr.head? af

/-- the applicable methods in the order they run: every :around, every :before (most specific
    first), the most specific primary, every :after least specific first -/
def specMethodList (t : Table) (precs : Precs) : List (Qual × Nat) :=
  (applicable t precs .around).map (fun b => (Qual.around, b.id))
    ++ (applicable t precs .before).map (fun b => (Qual.before, b.id))
    ++ (applicable t precs .primary).head?.toList.map (fun b => (Qual.primary, b.id))
    ++ (applicable t precs .after).reverse.map (fun b => (Qual.after, b.id))

/-- the outcomes the specification assigns to the operations of a history -/
def specOuts : List Op → Table → List Out
  | [], _ => []
  | .call precs :: ops, t => spec t precs :: specOuts ops t
  | .methods precs :: ops, t => ⟨[], .methods (specMethodList t precs)⟩ :: specOuts ops t
  | .defmethod q k b :: ops, t => Out.nothing :: specOuts ops (t.set k q (some b))
  | .remove q k :: ops, t => Out.nothing :: specOuts ops (t.set k q none)
  | .redefine :: ops, _ => Out.nothing :: specOuts ops Table.empty

end SlipVerif.Dispatch
