/-
  C17 — linearizability of increment operations on shared counters (slots of synchronized
  instances, hash entries and variables updated under `with-mutex-lock`), core Lean only.

  An *operation* is one `(setq c (1+ c))` together with whatever protects it: it is invoked at
  time `inv` (the routine is about to enter), takes effect at its *point* `pt` (the moment the
  value `v` is read; the harness records it inside the protected region) and has responded at
  `res` (the routine is past the form; `none`: the response was not recorded, the operation is
  pending — e.g. the section was left by an error). Times are positions in the recorded history.

  The sequential specification is the fetch-and-increment counter: an operation on counter `k`
  returns the current value of `k` and adds one.

  `linCheck` decides a recorded list of operations; Theorems/C17Lin.lean proves that an accepted
  history is linearizable: it has a sequential witness — a permutation of its operations that is a
  legal sequential history of the specification and in which no operation comes after one that was
  invoked only after it had responded (real-time order is preserved) — and what that implies
  (no lost update, every value read exactly once).
-/
namespace SlipVerif.Lin

structure Opn where
  t   : Nat          -- thread
  k   : Nat          -- counter
  v   : Nat          -- value read (the operation writes v + 1)
  inv : Nat
  pt  : Nat
  res : Option Nat
deriving DecidableEq, Repr

def upd (f : Nat → Nat) (k v : Nat) : Nat → Nat := fun x => if x = k then v else f x

/-- replay a sequence of operations against fetch-and-increment counters, one after the other -/
def seqRun (st : Nat → Nat) : List Opn → Option (Nat → Nat)
  | [] => some st
  | o :: rest => if st o.k = o.v then seqRun (upd st o.k (o.v + 1)) rest else none

/-- a legal sequential history of counters that all start at 0 -/
def legalSeq (ops : List Opn) : Bool := (seqRun (fun _ => 0) ops).isSome

/-- `a` had responded before `b` was invoked (real-time precedence in the recorded history) -/
def precedes (a b : Opn) : Prop :=
  match a.res with
  | some r => r < b.inv
  | none => False

instance (a b : Opn) : Decidable (precedes a b) := by
  unfold precedes; cases a.res <;> infer_instance

/-- the point of an operation lies between its invocation and its response -/
def timesOk (o : Opn) : Bool :=
  o.inv < o.pt && (match o.res with | some r => o.pt < r | none => true)

/-- strictly increasing points (the list is in point order) -/
def ptSorted : List Opn → Bool
  | [] => true
  | [_] => true
  | a :: b :: rest => a.pt < b.pt && ptSorted (b :: rest)

/-- the checker: the operations, taken in the order of their points, are a legal sequential
    history, and every point lies inside its operation's interval -/
def linCheck (ops : List Opn) : Bool :=
  ops.all timesOk && ptSorted ops && legalSeq ops

/-- `S` preserves the real-time order: nothing in `S` comes after an operation that it precedes -/
def RealTime (S : List Opn) : Prop := S.Pairwise (fun a b => ¬ precedes b a)

/-- a history (list of operations with their times) is linearizable -/
def Linearizable (ops : List Opn) : Prop :=
  ∃ S : List Opn, S.Perm ops ∧ legalSeq S = true ∧ RealTime S

/-! ### from the raw recorded history to operations -/

/-- what the trace primitive records, in trace order -/
inductive HEv where
  | inv (t k : Nat)
  | pt (t k v : Nat)
  | res (t k : Nat)
deriving DecidableEq, Repr

/-- set the response time of the latest operation of `(t, k)` that has none -/
def setRes (t k i : Nat) : List Opn → List Opn
  | [] => []
  | o :: rest =>
      -- the list is kept newest first
      if o.t = t ∧ o.k = k ∧ o.res = none then { o with res := some i } :: rest
      else o :: setRes t k i rest

/-- state: pending invocations ((thread, counter) ↦ time) and the operations so far, newest first.
    `none`: the history is malformed (a point without an invocation, a second invocation of the
    same counter by a thread whose previous one has no point yet). -/
def opsStep (st : List ((Nat × Nat) × Nat) × List Opn) (i : Nat) :
    HEv → Option (List ((Nat × Nat) × Nat) × List Opn)
  | .inv t k =>
      if st.1.any (fun p => p.1 == (t, k)) then none else some (((t, k), i) :: st.1, st.2)
  | .pt t k v =>
      match st.1.find? (fun p => p.1 == (t, k)) with
      | none => none
      | some p => some (st.1.filter (fun q => q.1 != (t, k)),
                        { t := t, k := k, v := v, inv := p.2, pt := i, res := none } :: st.2)
  | .res t k => some (st.1.filter (fun q => q.1 != (t, k)), setRes t k i st.2)

def opsGo (st : List ((Nat × Nat) × Nat) × List Opn) (i : Nat) : List HEv → Option (List Opn)
  | [] => some st.2.reverse
  | e :: rest => match opsStep st i e with
      | none => none
      | some st' => opsGo st' (i + 1) rest

/-- the operations of a recorded history, in the order of their points -/
def opsOf (h : List HEv) : Option (List Opn) := opsGo ([], []) 0 h

/-- index of the first operation at which the sequential replay fails (diagnostics only) -/
def firstBad (st : Nat → Nat) (i : Nat) : List Opn → Option (Nat × Opn)
  | [] => none
  | o :: rest => if st o.k = o.v then firstBad (upd st o.k (o.v + 1)) (i + 1) rest else some (i, o)

end SlipVerif.Lin
