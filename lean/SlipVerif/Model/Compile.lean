/-
  C08 — meaning does not depend on definition order, compilation, or re-evaluation.

  Two evaluators for one small expression language and the machinery that links them.

  * Specification layer — `eval`: a direct evaluator over a *name-keyed* function table `FunTable`
    (what a program means: a call `(f a b)` evaluates its arguments and runs the body that the
    name `f` has *now*).  `run` evaluates a top-level history of forms.

  * Mechanism layer — the transcription of what slip does (function.go `CompileList`,
    `CompileArgs`, `ListToFunc`, `Function.Eval`, `EvalArg`; package.go `Package.DefLambda`;
    lambda.go `Lambda.Compile`; code.go `Code.Compile`): a call site in compiled code holds a
    *reference to a shared cell* (`*Lambda`).  Compiling a call to a name that has no cell yet
    allocates a **placeholder** cell (body = "undefined function") and the call site keeps its
    arguments; `defun` compiles the body first (possibly creating a placeholder for the function
    itself), then **patches the cell in place**, so every call site compiled earlier — or later —
    reaches the new body.  Sub-forms of special forms (`if`, `let`) are not resolved at compile
    time; their call sites stay `late` (looked up by name when evaluated, `ListToFunc`) and the
    implementation caches the resolved function object in place afterwards (`cacheAll`).
    `evalCode` evaluates code against a `Store` of cells; `runC` is the top-level loop.

  Definitions carry a lambda list (`Sig`: required, `&optional`, `&key` with constant defaults) and
  `&aux` variables whose init *forms* are code evaluated on every call (`evalAux`); the mechanism keeps
  them as list forms converted on every call (`embedAux`). `undef f` is `fmakunbound`: the name is
  removed from the table; in the mechanism the name keeps its cell and the cell becomes the placeholder
  again, so callers compiled before, between and after a later `defun` all reach the new definition.

  Global variables (`defvar` / `defparameter` / top-level `setq`): the specification keeps a name-keyed
  table `G` that a free variable of a body is looked up in after the parameters and the captured
  variables. The mechanism keeps *variable cells* (`VarVal`): `Lambda.Compile` replaces a body that is a
  bare symbol naming a variable that does not exist yet by a **pointer to a fresh unbound cell**
  (`Code.gref`), every other reference is looked up by name when evaluated; `Package.Set` stores the
  value **into the cell the name already has**, so a function compiled before the variable existed sees
  every later assignment.

  The theorems (Theorems/C08.lean) show that the mechanism refines the specification for every
  history, and that the specification is independent of definition order.

  Core Lean only (linked into the `slipmodel` driver).
-/
namespace SlipVerif.Compile

/-! ## values and outcomes -/

inductive Val where
  | int (n : Int)
  | nil
  | t
  | sym (s : String)      -- the value of a `defun` form: the function's name
  | kw (k : String)       -- a keyword `:k`
  deriving DecidableEq, Repr

inductive Err where
  | undefinedFunction (f : String)   -- undefined-function
  | unbound (x : String)             -- unbound-variable
  | typeError                        -- type-error (arithmetic on a non-number)
  | arity (f : String)               -- wrong number of arguments
  | noSuchForm (j : Nat)             -- `again j` names a form that was never evaluated (harness error)
  deriving DecidableEq, Repr

inductive Out where
  | val (v : Val)
  | err (e : Err)
  | timeout                          -- fuel exhausted: the model makes no statement
  deriving DecidableEq, Repr

inductive Prim where
  | add | sub | mul | lt | eq
  deriving DecidableEq, Repr

def ofBool (b : Bool) : Val := if b then .t else .nil

def primApply : Prim → Val → Val → Out
  | .add, .int a, .int b => .val (.int (a + b))
  | .sub, .int a, .int b => .val (.int (a - b))
  | .mul, .int a, .int b => .val (.int (a * b))
  | .lt,  .int a, .int b => .val (ofBool (decide (a < b)))
  | .eq,  .int a, .int b => .val (ofBool (decide (a = b)))
  | _, _, _ => .err .typeError

/-! ## source expressions and the direct evaluator (specification) -/

inductive Expr where
  | const (n : Int)
  | kw (k : String)        -- a keyword argument marker `:k` (evaluates to itself)
  | var (x : String)
  | prim (op : Prim) (a b : Expr)
  | ite (c t e : Expr)
  | let1 (x : String) (v body : Expr)
  | call (f : String) (args : List Expr)
  deriving Repr

/-- the lambda list without its `&aux` part: required parameters, `&optional` and `&key` parameters
    with their default *values* (slip stores these defaults unevaluated; generated ones are constants) -/
structure Sig where
  req : List String
  opt : List (String × Val)
  key : List (String × Val)
  deriving DecidableEq, Repr

/-- `&aux (x init)`: the init *forms* are code; they are evaluated on every call, in order, each one
    seeing the parameters and the earlier `&aux` variables -/
structure Lam where
  sig : Sig
  aux : List (String × Expr)
  body : Expr
  /-- the captured variables of a `defun` evaluated inside a `let` (`Lambda.Closure`): a body sees its
      parameters first, then these -/
  env : List (String × Val) := []
  deriving Repr

/-- a definition with required parameters only -/
def Lam.simple (ps : List String) (b : Expr) : Lam := ⟨⟨ps, [], []⟩, [], b, []⟩

/-- name-keyed function table; the newest definition of a name is found first -/
abbrev FunTable := List (String × Lam)
abbrev Env := List (String × Val)

/-! ### function names: symbols are case-insensitive and may carry a package prefix -/

def lowerChar (c : Char) : Char := if 'A' ≤ c ∧ c ≤ 'Z' then Char.ofNat (c.toNat + 32) else c

/-- what follows the last `:` (`pkg:name`, `pkg::name`) -/
def afterColon : List Char → List Char → List Char
  | [], acc => acc.reverse
  | c :: cs, acc => if c = ':' then afterColon cs [] else afterColon cs (c :: acc)

/-- the key under which a function name is defined, looked up, registered as a placeholder and
    removed: lower case, without the package prefix (all generated names live in one package) -/
def norm (s : String) : String := String.ofList (afterColon (s.toList.map lowerChar) [])

/-- the bindings of a `let` around a `defun`: every init form is evaluated in the outer (empty)
    environment -/
def evalBinds {α : Type} (ev : α → Out) : List (String × α) → Except Out (List (String × Val))
  | [] => .ok []
  | (x, a) :: rest =>
    match ev a with
    | .val v =>
      match evalBinds ev rest with
      | .ok env => .ok ((x, v) :: env)
      | .error o => .error o
    | o => .error o

/-! ### binding the argument values of a call (`Lambda.Call`) -/

/-- `&optional` parameters take the remaining positional values one by one, then their defaults -/
def bindOpt : List (String × Val) → List Val → Env × List Val
  | [], vs => ([], vs)
  | (x, d) :: os, [] => ((x, d) :: (bindOpt os []).1, [])
  | (x, _) :: os, v :: vs => ((x, v) :: (bindOpt os vs).1, (bindOpt os vs).2)

/-- what is left must be `:key value` pairs -/
def kwPairs : List Val → Option (List (String × Val))
  | [] => some []
  | .kw k :: v :: rest => (kwPairs rest).map (fun ps => (k, v) :: ps)
  | _ => none

/-- every `&key` parameter gets the first value given for it, else its default; other keywords
    bind nothing -/
def bindKeys (ps : List (String × Val)) : List (String × Val) → Env
  | [] => []
  | (k, d) :: ks =>
    (k, match ps.lookup k with
        | some v => v
        | none => d) :: bindKeys ps ks

/-- `none`: wrong number of arguments or a malformed keyword part -/
def bindArgs (sig : Sig) (vs : List Val) : Option Env :=
  if vs.length < sig.req.length then none
  else
    let envR := sig.req.zip (vs.take sig.req.length)
    let ob := bindOpt sig.opt (vs.drop sig.req.length)
    match kwPairs ob.2 with
    | none => none
    | some ps =>
      if sig.key.isEmpty && !ps.isEmpty then none
      else some (bindKeys ps sig.key ++ ob.1 ++ envR)

/-- evaluate the `&aux` init forms in order, extending the environment -/
def evalAux {α : Type} (ev : Env → α → Out) : Env → List (String × α) → Except Out Env
  | env, [] => .ok env
  | env, (x, a) :: rest =>
    match ev env a with
    | .val v => evalAux ev ((x, v) :: env) rest
    | o => .error o

/-- evaluate a list of argument forms left to right; the first non-value outcome is the result -/
def evalList {α : Type} (ev : α → Out) : List α → Except Out (List Val)
  | [] => .ok []
  | a :: as =>
    match ev a with
    | .val v =>
      match evalList ev as with
      | .ok vs => .ok (v :: vs)
      | .error o => .error o
    | o => .error o

/-- The direct evaluator. `fuel` bounds the nesting depth of evaluation. A function body sees its
    parameters, the variables captured by its definition, then the global variables `G`. -/
def eval (Φ : FunTable) (G : Env) : Nat → Env → Expr → Out
  | 0, _, _ => .timeout
  | n+1, env, e =>
    match e with
    | .const k => .val (.int k)
    | .kw k => .val (.kw k)
    | .var x =>
      match env.lookup x with
      | some v => .val v
      | none =>
        match G.lookup x with        -- a free variable: the global value it has *now*
        | some v => .val v
        | none => .err (.unbound x)
    | .prim op a b =>
      match eval Φ G n env a with
      | .val va =>
        match eval Φ G n env b with
        | .val vb => primApply op va vb
        | o => o
      | o => o
    | .ite c t e =>
      match eval Φ G n env c with
      | .val .nil => eval Φ G n env e
      | .val _ => eval Φ G n env t
      | o => o
    | .let1 x v b =>
      match eval Φ G n env v with
      | .val vv => eval Φ G n ((x, vv) :: env) b
      | o => o
    | .call f args =>
      match Φ.lookup (norm f) with
      | none => .err (.undefinedFunction (norm f))
      | some lam =>
        match evalList (fun a => eval Φ G n env a) args with
        | .error o => o
        | .ok vs =>
          match bindArgs lam.sig vs with
          | none => .err (.arity (norm f))
          | some env₀ =>
            match evalAux (fun env' a => eval Φ G n env' a) (env₀ ++ lam.env) lam.aux with
            | .error o => o
            | .ok env₁ => eval Φ G n env₁ lam.body

/-- how a top-level form gives a global variable its value -/
inductive SetKind where
  | defvar | defparameter | setq
  deriving DecidableEq, Repr

/-- the value of a variable-defining form: `setq` returns the value, the others the symbol -/
def setResult (k : SetKind) (x : String) (v : Val) : Out :=
  match k with
  | .setq => .val v
  | _ => .val (.sym x)

/-- `defvar` of a variable that has a value does nothing (and does not evaluate its init form) -/
def skipSet (k : SetKind) (bound : Bool) : Bool :=
  match k with
  | .defvar => bound
  | _ => false

/-- top-level forms of a history -/
inductive Form where
  | defun (f : String) (binds : List (String × Expr)) (lam : Lam)
      -- `(defun f …)`, or `(let (binds) (defun f …))`: the definition captures the bindings
  | undef (f : String)     -- `(fmakunbound 'f)`
  | setvar (k : SetKind) (x : String) (e : Expr)
      -- `(defvar x e)` (only when `x` is unbound; `e` is not evaluated otherwise),
      -- `(defparameter x e)`, top-level `(setq x e)`
  | expr (e : Expr)
  | again (j : Nat)        -- evaluate once more the j-th expression form evaluated so far
  deriving Repr

/-- the table without any definition of `f` -/
def undefTable (Φ : FunTable) (f : String) : FunTable := Φ.filter (fun p => p.1 != f)

/-- `run`: the meaning of a history. `G` = the global variables, `hist` = the expression forms
    evaluated so far. -/
def run (fuel : Nat) : FunTable → Env → List Expr → List Form → List Out
  | _, _, _, [] => []
  | Φ, G, hist, .defun f binds lam :: rest =>
    match evalBinds (fun e => eval Φ G fuel [] e) binds with
    | .ok env => .val (.sym (norm f)) :: run fuel ((norm f, { lam with env := env }) :: Φ) G hist rest
    | .error o => o :: run fuel Φ G hist rest
  | Φ, G, hist, .undef f :: rest => .val (.sym (norm f)) :: run fuel (undefTable Φ (norm f)) G hist rest
  | Φ, G, hist, .setvar k x e :: rest =>
    if skipSet k (G.lookup x).isSome then .val (.sym x) :: run fuel Φ G hist rest
    else
      match eval Φ G fuel [] e with
      | .val v => setResult k x v :: run fuel Φ ((x, v) :: G) hist rest
      | o => o :: run fuel Φ G hist rest
  | Φ, G, hist, .expr e :: rest => eval Φ G fuel [] e :: run fuel Φ G (hist ++ [e]) rest
  | Φ, G, hist, .again j :: rest =>
    match hist[j]? with
    | some e => eval Φ G fuel [] e :: run fuel Φ G hist rest
    | none => .err (.noSuchForm j) :: run fuel Φ G hist rest

/-! ## compiled code, the store of shared cells, and the code evaluator (mechanism) -/

/-- how a compiled call site reaches its function -/
inductive Ref where
  | late                -- not resolved yet: looked up by name when evaluated (`ListToFunc`)
  | cell (i : Nat)      -- resolved: a pointer to the shared cell (`*Lambda`)
  deriving DecidableEq, Repr

inductive Code where
  | const (n : Int)
  | kw (k : String)
  | var (x : String)
  | prim (op : Prim) (a b : Code)
  | ite (c t e : Code)
  | let1 (x : String) (v body : Code)
  | call (r : Ref) (f : String) (args : List Code)
  | gref (i : Nat) (x : String)
      -- a pointer to the variable cell `i` (`*VarVal` stored in `Lambda.Forms` by `Lambda.Compile`):
      -- evaluated without looking at any scope
  deriving Repr

structure CLam where
  sig : Sig
  aux : List (String × Code)
  body : Code
  env : List (String × Val)
  deriving Repr

/-- `names`: `Package.funcs`/`Package.lambdas` (name → cell); `cells[i] = none` is a placeholder
    whose body is `Undefined(name)`. -/
structure Store where
  names : List (String × Nat)
  cells : List (Option CLam)
  /-- `Package.vars` (name → variable cell); `vcells[i] = none` is the unbound placeholder that
      `Lambda.Compile` registers for a bare symbol naming a variable that does not exist yet -/
  vnames : List (String × Nat)
  vcells : List (Option Val)
  deriving Repr

def Store.empty : Store := ⟨[], [], [], []⟩

def Store.cellOf (σ : Store) (f : String) : Option Nat := σ.names.lookup f

def Store.vcellOf (σ : Store) (x : String) : Option Nat := σ.vnames.lookup x

/-- the content of a variable cell: `none` = unbound -/
def Store.vcellVal (σ : Store) (i : Nat) : Option Val :=
  match σ.vcells[i]? with
  | some (some v) => some v
  | _ => none

/-- the global value of `x` found by name (`CurrentPackage.Get`) -/
def Store.gval (σ : Store) (x : String) : Option Val :=
  match σ.vcellOf x with
  | some i => σ.vcellVal i
  | none => none

/-- the cell a call site reaches -/
def Store.target (σ : Store) (r : Ref) (f : String) : Option Nat :=
  match r with
  | .late => σ.cellOf f
  | .cell i => some i

def evalCode (σ : Store) : Nat → Env → Code → Out
  | 0, _, _ => .timeout
  | n+1, env, c =>
    match c with
    | .const k => .val (.int k)
    | .kw k => .val (.kw k)
    | .var x =>
      match env.lookup x with
      | some v => .val v
      | none =>
        match σ.gval x with
        | some v => .val v
        | none => .err (.unbound x)
    | .gref i x =>
      match σ.vcellVal i with
      | some v => .val v
      | none => .err (.unbound x)
    | .prim op a b =>
      match evalCode σ n env a with
      | .val va =>
        match evalCode σ n env b with
        | .val vb => primApply op va vb
        | o => o
      | o => o
    | .ite c t e =>
      match evalCode σ n env c with
      | .val .nil => evalCode σ n env e
      | .val _ => evalCode σ n env t
      | o => o
    | .let1 x v b =>
      match evalCode σ n env v with
      | .val vv => evalCode σ n ((x, vv) :: env) b
      | o => o
    | .call r f args =>
      match σ.target r (norm f) with
      | none => .err (.undefinedFunction (norm f))
      | some i =>
        match σ.cells[i]? with
        | some (some lam) =>
          match evalList (fun a => evalCode σ n env a) args with
          | .error o => o
          | .ok vs =>
            match bindArgs lam.sig vs with
            | none => .err (.arity (norm f))
            | some env₀ =>
              match evalAux (fun env' a => evalCode σ n env' a) (env₀ ++ lam.env) lam.aux with
              | .error o => o
              | .ok env₁ => evalCode σ n env₁ lam.body
        | _ => .err (.undefinedFunction (norm f))      -- placeholder cell: `Undefined(name)`

/-! ### compilation -/

mutual
/-- the list form as code: every call site `late` (what `ListToFunc` starts from) -/
def embed : Expr → Code
  | .const k => .const k
  | .kw k => .kw k
  | .var x => .var x
  | .prim op a b => .prim op (embed a) (embed b)
  | .ite c t e => .ite (embed c) (embed t) (embed e)
  | .let1 x v b => .let1 x (embed v) (embed b)
  | .call f args => .call .late f (embedList args)
def embedList : List Expr → List Code
  | [] => []
  | a :: as => embed a :: embedList as
end

mutual
/-- names called at compile positions: `CompileList` descends through the arguments of ordinary
    functions (`CompileArgs`), not into the sub-forms of special forms (`SkipEval`) -/
def callees : Expr → List String
  | .const _ => []
  | .kw _ => []
  | .var _ => []
  | .prim _ a b => callees a ++ callees b
  | .ite _ _ _ => []
  | .let1 _ _ _ => []
  | .call f args => norm f :: calleesList args
def calleesList : List Expr → List String
  | [] => []
  | a :: as => callees a ++ calleesList as
end

def refOf (σ : Store) (f : String) : Ref :=
  match σ.cellOf f with
  | some i => .cell i
  | none => .late

mutual
/-- resolve the call sites at compile positions to the cells the names have in `σ` -/
def resolve (σ : Store) : Expr → Code
  | .const k => .const k
  | .kw k => .kw k
  | .var x => .var x
  | .prim op a b => .prim op (resolve σ a) (resolve σ b)
  | .ite c t e => .ite (embed c) (embed t) (embed e)
  | .let1 x v b => .let1 x (embed v) (embed b)
  | .call f args => .call (refOf σ (norm f)) f (resolveList σ args)      -- the arguments are kept
def resolveList (σ : Store) : List Expr → List Code
  | [] => []
  | a :: as => resolve σ a :: resolveList σ as
end

/-- give `f` a cell if it has none: a placeholder (`CompileList`, unknown function) -/
def declare (σ : Store) (f : String) : Store :=
  match σ.cellOf f with
  | some _ => σ
  | none => { σ with names := (f, σ.cells.length) :: σ.names, cells := σ.cells ++ [none] }

def declareAll (σ : Store) (fs : List String) : Store := fs.foldl declare σ

/-- `CompileList`: placeholders for the unknown names, then resolved call sites -/
def compile (σ : Store) (e : Expr) : Code × Store :=
  let σ' := declareAll σ (callees e)
  (resolve σ' e, σ')

/-- the `&aux` init forms are kept as list forms: `Lambda.Call` converts them with `ListToFunc` on
    every call (all call sites `late`) -/
def embedAux : List (String × Expr) → List (String × Code)
  | [] => []
  | (x, a) :: rest => (x, embed a) :: embedAux rest

/-- the variables a body sees before the global ones: the lambda list (with `&aux`) and the
    variables captured by the definition -/
def locals (lam : Lam) : List String :=
  lam.sig.req ++ lam.sig.opt.map (·.1) ++ lam.sig.key.map (·.1) ++ lam.aux.map (·.1) ++ lam.env.map (·.1)

/-- give the variable `x` a cell if it has none: an unbound placeholder -/
def declareVar (σ : Store) (x : String) : Store :=
  match σ.vcellOf x with
  | some _ => σ
  | none => { σ with vnames := (x, σ.vcells.length) :: σ.vnames, vcells := σ.vcells ++ [none] }

/-- `Lambda.Compile`: a body form that is a bare symbol which is neither a variable of the function
    nor a variable the package knows becomes a pointer to a fresh unbound variable cell; a known one
    stays a symbol (looked up by name on every call); a list form is compiled by `CompileList`. -/
def compileBody (σ : Store) (lam : Lam) : Code × Store :=
  match lam.body with
  | .var x =>
    if (locals lam).contains x then (.var x, σ)
    else
      match σ.vcellOf x with
      | some _ => (.var x, σ)
      | none => (.gref σ.vcells.length x, declareVar σ x)
  | e => compile σ e

/-- `Package.Set`: the value is stored **in the cell the name already has** (possibly the unbound
    placeholder a compiled function points to); only an unknown name gets a new cell -/
def setVar (σ : Store) (x : String) (v : Val) : Store :=
  match σ.vcellOf x with
  | some i => { σ with vcells := σ.vcells.set i (some v) }
  | none => { σ with vnames := (x, σ.vcells.length) :: σ.vnames, vcells := σ.vcells ++ [some v] }

/-- `defun`: compile the body (`Lambda.Compile`), then patch the name's cell in place
    (`Package.DefLambda`); a name without a cell gets one. -/
def define (σ : Store) (f : String) (lam : Lam) : Store :=   -- `f`: the normalised name
  let (cb, σ₁) := compileBody σ lam
  let σ₂ := declare σ₁ f
  match σ₂.cellOf f with
  | some i => { σ₂ with cells := σ₂.cells.set i (some ⟨lam.sig, embedAux lam.aux, cb, lam.env⟩) }
  | none => σ₂

/-- `fmakunbound`: the name keeps its cell (call sites compiled earlier point to it, a later `defun`
    patches it); the cell becomes a placeholder again, so every call site — compiled before or after —
    fails as an undefined function until the name is defined again -/
def undefine (σ : Store) (f : String) : Store :=
  match σ.cellOf f with
  | some i => { σ with cells := σ.cells.set i none }
  | none => σ

mutual
/-- the in-place caching done by an evaluation: every `late` call site whose name has a cell is
    replaced by the pointer to that cell (`f.Args[i] = ListToFunc(…)`, `EvalArg`) -/
def cacheAll (σ : Store) : Code → Code
  | .const k => .const k
  | .kw k => .kw k
  | .var x => .var x
  | .prim op a b => .prim op (cacheAll σ a) (cacheAll σ b)
  | .ite c t e => .ite (cacheAll σ c) (cacheAll σ t) (cacheAll σ e)
  | .let1 x v b => .let1 x (cacheAll σ v) (cacheAll σ b)
  | .call r f args =>
    .call (match r with
           | .late => refOf σ (norm f)
           | .cell i => .cell i) f (cacheAllList σ args)
  | .gref i x => .gref i x
def cacheAllList (σ : Store) : List Code → List Code
  | [] => []
  | a :: as => cacheAll σ a :: cacheAllList σ as
end

/-- `runC`: the history evaluated through compilation. `objs` = the code objects of the expression
    forms evaluated so far (they are kept and evaluated again by `again j`, after having been
    rewritten by the caching of the previous evaluation). -/
def runC (fuel : Nat) : Store → List Code → List Form → List Out
  | _, _, [] => []
  | σ, objs, .defun f binds lam :: rest =>
    -- the bindings of the enclosing `let` are list forms evaluated when the form is reached
    match evalBinds (fun e => evalCode σ fuel [] (embed e)) binds with
    | .ok env => .val (.sym (norm f)) :: runC fuel (define σ (norm f) { lam with env := env }) objs rest
    | .error o => o :: runC fuel σ objs rest
  | σ, objs, .undef f :: rest => .val (.sym (norm f)) :: runC fuel (undefine σ (norm f)) objs rest
  | σ, objs, .setvar k x e :: rest =>
    if skipSet k (σ.gval x).isSome then .val (.sym x) :: runC fuel σ objs rest
    else
      let (c, σ') := compile σ e
      match evalCode σ' fuel [] c with
      | .val v => setResult k x v :: runC fuel (setVar σ' x v) objs rest
      | o => o :: runC fuel σ' objs rest
  | σ, objs, .expr e :: rest =>
    let (c, σ') := compile σ e
    evalCode σ' fuel [] c :: runC fuel σ' (objs ++ [cacheAll σ' c]) rest
  | σ, objs, .again j :: rest =>
    match objs[j]? with
    | some c => evalCode σ fuel [] c :: runC fuel σ (objs.set j (cacheAll σ c)) rest
    | none => .err (.noSuchForm j) :: runC fuel σ objs rest

end SlipVerif.Compile
