/-
  C16 — typep / type-of / subtypep over a registry of user defined classes that changes with time
  (defclass, redefinition with other superclasses, make-instance).

  pkg/clos/defclass.go + standard-class.go: a definition records the direct superclasses;
  `mergeSupers` expands them into the `inherit` list (the direct superclasses in order without
  repetition, then what each of them inherits, skipping what is already there); the precedence
  list of an instance (`StandardObject.Hierarchy()`, what typep and type-of consult) is the class,
  the inherit list, the base class `standard-object` and `t`. `subtypep` consults
  `FindClass` and `Class.Inherits` (the inherit list).
  After a redefinition every class that inherits from the redefined class is merged again
  (`classChanged`), so the lists are always those of the *current* definitions: the model computes
  them on demand from the direct superclasses of the current definitions.

  The rule of the language: the answer of typep/type-of/subtypep depends on the current registry
  and the class of the object only (no other state).

  Core Lean only (linked into the `slipmodel` driver).
-/
namespace SlipVerif.ClassReg

/-- a type symbol: a user defined class, the base class `standard-object`, `t`, or a built-in type
    unrelated to every user defined class (`fixnum`). -/
inductive Ty where
  | user (c : Nat) | base | top | alien
  deriving DecidableEq, Repr

/-- the registry: class ↦ direct superclasses of its current definition -/
abbrev Reg := List (Nat × List Nat)

def defined (reg : Reg) (c : Nat) : Bool := (reg.lookup c).isSome

/-- (re)definition: the new definition replaces the old one -/
def define (reg : Reg) (c : Nat) (supers : List Nat) : Reg :=
  (c, supers) :: reg.filter (fun e => e.1 != c)

/-- append the members of `m` that the list does not have yet, in order
    (mergeSupers: `if !c.Inherits(super) { c.inherit = append(c.inherit, super) }`) -/
def appendNew (l : List Nat) : List Nat → List Nat
  | [] => l
  | x :: m => if l.contains x then appendNew l m else appendNew (l ++ [x]) m

/-- the expanded inherit list of class `c` (mergeSupers) -/
def inherit (reg : Reg) : Nat → Nat → List Nat
  | 0, _ => []
  | fuel + 1, c =>
    match reg.lookup c with
    | none => []
    | some ds =>
      let direct := appendNew [] ds
      direct.foldl (fun acc d => appendNew acc (inherit reg fuel d)) direct

/-- fuel that suffices for an acyclic registry: the number of classes -/
def fuelOf (reg : Reg) : Nat := reg.length

/-- the superclass chains are exhausted by the fuel (checked by the driver after every definition;
    it fails exactly when a definition closes a cycle) -/
def stableCheck (reg : Reg) (f : Nat) : Bool :=
  (reg.map (·.1)).all (fun c => (inherit reg (f + 1) c).all (fun x => (inherit reg f c).contains x))

/-- every direct superclass of every definition is defined -/
def closedCheck (reg : Reg) : Bool :=
  reg.all (fun e => e.2.all (fun d => defined reg d))

/-- precedence list of an instance of class `c` (`StandardObject.Hierarchy()`) -/
def precedence (reg : Reg) (c : Nat) : List Ty :=
  .user c :: (inherit reg (fuelOf reg) c).map .user ++ [.base, .top]

/-- `(type-of x)` for an instance of class `c` -/
def typeOf (c : Nat) : Ty := .user c

/-- `(typep x σ)` for an instance of the defined class `c`: typep.go walks `Hierarchy()` -/
def typep (reg : Reg) (c : Nat) (σ : Ty) : Bool := (precedence reg c).contains σ

/-- the symbol designates a class of the registry (`FindClass`). `standard-object` and `t` head no
    class of slip's registry (`(find-class 'standard-object nil)` is nil): they only appear in
    precedence lists, so typep knows them and subtypep does not ("type symbols known to the class
    registry" are the user defined classes and the built-in classes such as fixnum). -/
def tyDefined (reg : Reg) : Ty → Bool
  | .user c => defined reg c
  | .alien => true
  | .base => false
  | .top => false

/-- `Class.Inherits` of a user defined class: the inherit list -/
def inherits (reg : Reg) (c : Nat) : Ty → Bool
  | .user d => (inherit reg (fuelOf reg) c).contains d
  | _ => false

/-- `(subtypep a b)`: both designate classes and `a` is `b` or inherits from it (subtypep.go) -/
def subtypep (reg : Reg) (a b : Ty) : Bool :=
  tyDefined reg a && tyDefined reg b &&
  (a == b ||
   match a with
   | .user c => inherits reg c b
   | _ => false)

/-! ### histories -/

inductive Op where
  | defc (c : Nat) (supers : List Nat)   -- (defclass c (supers…) ())
  | inst (k c : Nat)                     -- instance k := (make-instance 'c)
  | typ (k : Nat) (σ : Ty)               -- (typep instance-k 'σ)
  | sub (a b : Ty)                       -- (subtypep 'a 'b)
  | tof (k : Nat)                        -- (type-of instance-k)

structure State where
  reg : Reg := []
  insts : List (Nat × Nat) := []         -- instance ↦ class

inductive Obs where
  | done | bool (b : Bool) | ty (t : Ty)
  | rejected (why : String)              -- the history leaves the modelled fragment

/-- one step; a definition that refers to an undefined class or closes a cycle, and a question
    about an unknown instance, are rejected explicitly (the harness never sends them) -/
def step (s : State) : Op → State × Obs
  | .defc c supers =>
    let reg' := define s.reg c supers
    if !closedCheck reg' then (s, .rejected "undefined-superclass")
    else if (inherit reg' (fuelOf reg' + 1) c).contains c || !stableCheck reg' (fuelOf reg') then (s, .rejected "cycle")
    else ({ s with reg := reg' }, .done)
  | .inst k c =>
    if defined s.reg c then ({ s with insts := (k, c) :: s.insts }, .done) else (s, .rejected "undefined-class")
  | .typ k σ =>
    match s.insts.lookup k with
    | some c => (s, .bool (typep s.reg c σ))
    | none => (s, .rejected "unknown-instance")
  | .sub a b => (s, .bool (subtypep s.reg a b))
  | .tof k =>
    match s.insts.lookup k with
    | some c => (s, .ty (typeOf c))
    | none => (s, .rejected "unknown-instance")

def run : State → List Op → List Obs
  | _, [] => []
  | s, op :: rest => let (s', o) := step s op; o :: run s' rest

end SlipVerif.ClassReg
