import SlipVerif.Gen.PrinterTables
/-
  C03 — print then read gives back an equal object of the same type.

  The model of slip's printer (printer.go `Printer.Append`, fixnum.go / bignum.go / ratio.go /
  symbol.go / string.go / character.go `Readably`) over a float-free object universe, and a small
  self-contained reader (`read1`) for exactly the syntax the printer emits: integers in a base with
  `#b #o #x #NNr` prefixes and trailing dot, ratios, strings with escapes, |symbols|, characters,
  lists, dotted lists, `#(` vectors and `#nA` arrays.

  Core Lean only (linked into the native driver). Text is `List Char` (Unicode scalar values);
  the driver converts from / to UTF-8.  The byte tables `needPipeMap`, `valueMode`, `tokenMode`,
  `charMode` and the character name tables come from `Gen/PrinterTables.lean`, regenerated from the
  repository on every run.
-/
namespace SlipVerif.Printer
open SlipVerif.Gen

/-! ## objects and configuration -/

/-- `*print-case*`: `:downcase`, `:upcase`, `:capitalize`, or `nil` (no transformation). -/
inductive Case where
  | down | up | cap | none
deriving DecidableEq, Repr

/-- the printer control variables of the property's grid (pretty / right margin: see `Pretty`) -/
structure PCfg where
  base : Nat := 10
  radix : Bool := false
  case : Case := .down
  readably : Bool := true
  array : Bool := true
deriving Repr

/-- the three float formats slip has (`short-float` is `single-float`) -/
inductive FFmt where
  | single | double | long
deriving DecidableEq, Repr

/-- Readable data. Lists are cons chains: `(a b . c)` is `cons a (cons b c)`; `vec elems` holds a
    proper list; `arr rank contents` holds the nested lists slip prints after `#nA`. A finite float
    is the decimal that names it — what the shortest round-trip formatting (`strconv.AppendFloat`
    with precision -1, `big.Float.Append`) writes: sign, significant digits (most significant first,
    no leading or trailing zero, none for zero) and the decimal exponent of the first digit. The
    relation between the binary value and this decimal (formatting is injective, parsing is its left
    inverse) is outside the model: a hypothesis of `float_codec_roundtrip`, checked on the
    implementation by the harness. -/
inductive Obj where
  | nil
  | t
  | int (n : Int)
  | ratio (num : Int) (den : Nat)
  | str (s : List Char)
  | chr (c : Char)
  | sym (name : List Char)
  | flt (f : FFmt) (neg : Bool) (digits : List Nat) (exp : Int)
  | cons (a d : Obj)
  | vec (elems : Obj)
  | arr (rank : Nat) (contents : Obj)
deriving DecidableEq, Repr

/-! ## digits -/

/-- the digit character slip (strconv / math/big) writes for `d < 36` -/
def digitChar (d : Nat) : Char :=
  if d < 10 then Char.ofNat (48 + d) else Char.ofNat (87 + d)

/-- value of a digit character as the reader takes it (lower case only; the reader lower-cases
    tokens before it classifies them) -/
def digitVal (c : Char) : Option Nat :=
  if 48 ≤ c.toNat ∧ c.toNat ≤ 57 then some (c.toNat - 48)
  else if 97 ≤ c.toNat ∧ c.toNat ≤ 122 then some (c.toNat - 87)
  else none

/-- little-endian digits of `n` in base `b` (fuel `n + 1` is always enough for `b ≥ 2`) -/
def digitsLE (b : Nat) : Nat → Nat → List Nat
  | 0, _ => []
  | fuel + 1, n => if n < b then [n] else (n % b) :: digitsLE b fuel (n / b)

def natText (b n : Nat) : List Char :=
  (digitsLE b (n + 1) n).reverse.map digitChar

def intText (b : Nat) (n : Int) : List Char :=
  if n < 0 then '-' :: natText b n.natAbs else natText b n.natAbs

/-- big-endian digit string to number; `none` on a character that is not a digit of base `b` -/
def parseNatAux (b : Nat) : List Char → Nat → Option Nat
  | [], acc => some acc
  | c :: cs, acc =>
    match digitVal c with
    | some d => if d < b then parseNatAux b cs (acc * b + d) else none
    | none => none

def parseNat (b : Nat) (cs : List Char) : Option Nat :=
  match cs with
  | [] => none
  | _ => parseNatAux b cs 0

/-- optional sign, then digits -/
def parseSigned (b : Nat) (cs : List Char) : Option Int :=
  match cs with
  | '-' :: r => (parseNat b r).map (fun n => - (n : Int))
  | '+' :: r => (parseNat b r).map (fun n => (n : Int))
  | _ => (parseNat b cs).map (fun n => (n : Int))

/-! ## case -/

def lowerC (c : Char) : Char :=
  if 65 ≤ c.toNat ∧ c.toNat ≤ 90 then Char.ofNat (c.toNat + 32) else c

def upperC (c : Char) : Char :=
  if 97 ≤ c.toNat ∧ c.toNat ≤ 122 then Char.ofNat (c.toNat - 32) else c

/-- printer.go `caseName` (ASCII letters; names with cased non-ASCII letters are outside the
    correspondence) -/
def caseName (cs : Case) (name : List Char) : List Char :=
  match cs with
  | .down => name.map lowerC
  | .up => name.map upperC
  | .cap =>
    match name.map lowerC with
    | [] => []
    | c :: r => upperC c :: r
  | .none => name

/-! ## tables -/

def tab (t : List Nat) (i : Nat) : Nat := t.getD i 0

/-- UTF-8 bytes of a scalar value -/
def utf8Bytes (c : Char) : List Nat :=
  let n := c.toNat
  if n < 0x80 then [n]
  else if n < 0x800 then [0xC0 + n / 64, 0x80 + n % 64]
  else if n < 0x10000 then [0xE0 + n / 4096, 0x80 + (n / 64) % 64, 0x80 + n % 64]
  else [0xF0 + n / 262144, 0x80 + (n / 4096) % 64, 0x80 + (n / 64) % 64, 0x80 + n % 64]

/-- printer.go: `needPipeMap[b] == 'x'` for some byte of the character -/
def needPipeChar (c : Char) : Bool :=
  (utf8Bytes c).any (fun b => tab PrinterTables.needPipeMap b == 120)

/-- code.go `tokenMode`: every byte of the character continues a token (`'a'`) -/
def tokenChar (c : Char) : Bool :=
  (utf8Bytes c).all (fun b => tab PrinterTables.tokenMode b == 97)

/-- code.go `valueMode`: the first byte starts a token (`'t'`, or `'@'` outside a comma) -/
def tokenStartChar (c : Char) : Bool :=
  match utf8Bytes c with
  | b :: _ => tab PrinterTables.valueMode b == 116 || tab PrinterTables.valueMode b == 64
  | [] => false

/-- code.go `charMode`: every byte continues a `#\` token -/
def charTokChar (c : Char) : Bool :=
  (utf8Bytes c).all (fun b => tab PrinterTables.charMode b == 97)

def ofCodes (l : List Nat) : List Char := l.map Char.ofNat

/-- character.go `specialCharacters`: the printed text of a named character -/
def specialText (c : Char) : Option (List Char) :=
  (PrinterTables.specialCharacters.find? (fun p => p.1 == c.toNat)).map (fun p => ofCodes p.2)

/-- character.go `runeMap`: lower-case name to character -/
def namedChar (name : List Char) : Option Char :=
  (PrinterTables.runeMap.find? (fun p => ofCodes p.1 == name)).map (fun p => Char.ofNat p.2)

/-! ## number-like tokens (code.go `intRxs`, `ratioRxs`, `decimalRegex`, `eFloatRegex` …) -/

def isDigitB (b : Nat) (c : Char) : Bool :=
  match digitVal c with
  | some d => d < b
  | none => false

def stripSign : List Char → List Char
  | '+' :: r => r
  | '-' :: r => r
  | cs => cs

/-- `^[-+]?[digits]+\.?$` -/
def isIntTok (b : Nat) (cs : List Char) : Bool :=
  let body := stripSign cs
  let ds := body.takeWhile (isDigitB b)
  let r := body.dropWhile (isDigitB b)
  !ds.isEmpty && (r == [] || r == ['.'])

/-- `^[-+]?[digits]+/[-+]?[digits]+$` -/
def isRatioTok (b : Nat) (cs : List Char) : Bool :=
  let body := stripSign cs
  let ds := body.takeWhile (isDigitB b)
  match body.dropWhile (isDigitB b) with
  | '/' :: r2 =>
    let d2 := stripSign r2
    !ds.isEmpty && !d2.isEmpty && d2.all (isDigitB b)
  | _ => false

/-- `^[-+]?[0-9]+\.?[0-9]*$` -/
def isDecimalTok (cs : List Char) : Bool :=
  let body := stripSign cs
  let ds := body.takeWhile (isDigitB 10)
  match body.dropWhile (isDigitB 10) with
  | [] => !ds.isEmpty
  | '.' :: fs => !ds.isEmpty && fs.all (isDigitB 10)
  | _ => false

def isExpMarker (c : Char) : Bool :=
  c == 'e' || c == 's' || c == 'f' || c == 'd' || c == 'l'

/-- `^[-+]?[0-9]+\.?[0-9]*[esfdl][-+]?[0-9]+$` -/
def isExpTok (cs : List Char) : Bool :=
  let body := stripSign cs
  let ds := body.takeWhile (isDigitB 10)
  let afterInt := body.dropWhile (isDigitB 10)
  let afterFrac := match afterInt with
    | '.' :: fs => fs.dropWhile (isDigitB 10)
    | r => r
  match afterFrac with
  | m :: e =>
    let ed := stripSign e
    !ds.isEmpty && isExpMarker m && !ed.isEmpty && ed.all (isDigitB 10)
  | [] => false

/-- symbol.go `numberToken` (after the fix): the reader would take the token for a number -/
def numberTok (b : Nat) (name : List Char) : Bool :=
  let s := name.map lowerC
  isIntTok b s || isRatioTok b s || isDecimalTok s || isExpTok s

/-! ## printing leaves -/

def hexDigit (n : Nat) : Char := digitChar (n % 16)

def hex2 (n : Nat) : List Char := [hexDigit (n / 16), hexDigit n]

def radixPrefix (b : Nat) : List Char :=
  if b = 2 then ['#', 'b']
  else if b = 8 then ['#', 'o']
  else if b = 16 then ['#', 'x']
  else '#' :: natText 10 b ++ ['r']

/-- fixnum.go / bignum.go `Readably` -/
def printInt (cfg : PCfg) (n : Int) : List Char :=
  if cfg.radix then
    if cfg.base = 10 then intText 10 n ++ ['.']
    else radixPrefix cfg.base ++ intText cfg.base n
  else intText cfg.base n

/-- ratio.go `Readably` -/
def printRatio (cfg : PCfg) (num : Int) (den : Nat) : List Char :=
  if den = 1 then printInt cfg num
  else (if cfg.radix then radixPrefix cfg.base else []) ++ intText cfg.base num ++ '/' :: natText cfg.base den

/-! floats: singlefloat.go / doublefloat.go / longfloat.go `Readably` -/

/-- the exponent as `strconv` / `big.Float` write it in the `e` format: a sign and at least two digits -/
def expText (e : Int) : List Char :=
  let t := natText 10 e.natAbs
  (if e < 0 then '-' else '+') :: (if t.length < 2 then '0' :: t else t)

/-- the significand in the `e` format: one digit, then the others after a point -/
def mantText : List Nat → List Char
  | [] => ['0']
  | [d] => [digitChar d]
  | d :: r => digitChar d :: '.' :: r.map digitChar

/-- the exponent marker written with `*print-readably*` (`bytes.ReplaceAll(…, 'e', marker)`) -/
def markerOf : FFmt → Char
  | .single => 's'
  | .double => 'd'
  | .long => 'L'

def signText (neg : Bool) : List Char := if neg then ['-'] else []

/-- the `e` format with the shortest digits and the given exponent marker -/
def floatE (marker : Char) (neg : Bool) (ds : List Nat) (e : Int) : List Char :=
  signText neg ++ mantText ds ++ marker :: expText e

/-- the `f` format with the shortest digits (`%g` inside its range) -/
def floatF (neg : Bool) (ds : List Nat) (e : Int) : List Char :=
  signText neg ++
    (match ds with
     | [] => ['0']
     | _ =>
       if e < 0 then '0' :: '.' :: List.replicate (e.natAbs - 1) '0' ++ ds.map digitChar
       else
         let n := e.natAbs + 1
         let ip := (ds.take n ++ List.replicate (n - ds.length) 0).map digitChar
         match ds.drop n with
         | [] => ip
         | fp => ip ++ '.' :: fp.map digitChar)

/-- `Readably` of the float types: with `*print-readably*` the `e` format with the marker of the
    format; otherwise `%g` (`e` format when the exponent is below -4 or at least 6 — the default
    `*print-precision*` -1 asks for the shortest digits —, plain marker `e`) -/
def printFloat (cfg : PCfg) (f : FFmt) (neg : Bool) (ds : List Nat) (e : Int) : List Char :=
  if cfg.readably then floatE (markerOf f) neg ds e
  else if ds ≠ [] ∧ (e < -4 ∨ 6 ≤ e) then floatE 'e' neg ds e
  else floatF neg ds e

/-- ojg `AppendJSONString` (used by string.go `Readably` when `*print-readably*`) -/
def strEsc (c : Char) : List Char :=
  let n := c.toNat
  if c = '"' then ['\\', '"']
  else if c = '\\' then ['\\', '\\']
  else if n = 8 then ['\\', 'b']
  else if n = 9 then ['\\', 't']
  else if n = 10 then ['\\', 'n']
  else if n = 12 then ['\\', 'f']
  else if n = 13 then ['\\', 'r']
  else if n < 32 ∨ n = 127 then '\\' :: 'u' :: '0' :: '0' :: hex2 n
  else if n = 0x2028 then ['\\', 'u', '2', '0', '2', '8']
  else if n = 0x2029 then ['\\', 'u', '2', '0', '2', '9']
  else if n = 0xFFFD then ['\\', 'u', 'f', 'f', 'f', 'd']
  else [c]

def printStr (cfg : PCfg) (s : List Char) : List Char :=
  if cfg.readably then '"' :: s.flatMap strEsc ++ ['"'] else '"' :: s ++ ['"']

/-- character.go `Append` (with `*print-escape*`) -/
def printChr (c : Char) : List Char :=
  match specialText c with
  | some text => text
  | none => if c.toNat < 32 then '#' :: '\\' :: 'u' :: '0' :: '0' :: hex2 c.toNat else ['#', '\\', c]

/-- symbol.go `Readably`: does the name need `|…|`? (`needPipeMap`, except a leading `&`; or the
    name reads as a number in base 10 or in `*print-base*`) -/
def needsBar (base : Nat) (name : List Char) : Bool :=
  (match name with
   | [] => true
   | c :: r => (c != '&' && needPipeChar c) || r.any needPipeChar)
  || numberTok 10 name || (base != 10 && numberTok base name)

/-- symbol.go `appendBarred`: what is written between the bars -/
def barEsc (c : Char) : List Char :=
  if c = '|' ∨ c = '\\' then ['\\', c]
  else if c.toNat < 32 ∧ c.toNat ≠ 9 ∧ c.toNat ≠ 10 ∧ c.toNat ≠ 13 then '\\' :: 'u' :: '0' :: '0' :: hex2 c.toNat
  else [c]

def printSym (cfg : PCfg) (name : List Char) : List Char :=
  if needsBar cfg.base name then '|' :: (caseName cfg.case name).flatMap barEsc ++ ['|']
  else caseName cfg.case name

/-! ## printing objects (printer.go `Printer.Append`, flat) -/

def listLen : Obj → Nat
  | .cons _ d => listLen d + 1
  | _ => 0

/-- dimensions of the nested-list contents of a rank `r` array -/
def dimsOf : Nat → Obj → List Nat
  | 0, _ => []
  | r + 1, o =>
    listLen o :: (match o with
      | .cons a _ => dimsOf r a
      | _ => dimsOf r .nil)

def vecOpaque : List Char := "#<(VECTOR ".toList
def arrOpaque : List Char := "#<(ARRAY T (".toList
def arrOpaque0 : List Char := "#<(ARRAY T NIL)>".toList

def joinSp : List (List Char) → List Char
  | [] => []
  | [x] => x
  | x :: rest => x ++ ' ' :: joinSp rest

mutual
  def printFlat (cfg : PCfg) : Obj → List Char
    | .nil => caseName cfg.case ['n', 'i', 'l']
    | .t => ['t']
    | .int n => printInt cfg n
    | .ratio num den => printRatio cfg num den
    | .str s => printStr cfg s
    | .chr c => printChr c
    | .sym name => printSym cfg name
    | .flt f neg ds e => printFloat cfg f neg ds e
    | .cons a d => '(' :: printFlat cfg a ++ printTail cfg d
    | .vec elems => printVec cfg elems
    | .arr rank contents => printArr cfg rank contents
  /-- the rest of a list after an element: ` e …)`, ` . atom)` or `)` -/
  def printTail (cfg : PCfg) : Obj → List Char
    | .nil => [')']
    | .cons a d => ' ' :: printFlat cfg a ++ printTail cfg d
    | .t => ' ' :: '.' :: ' ' :: 't' :: [')']
    | .int n => ' ' :: '.' :: ' ' :: printInt cfg n ++ [')']
    | .ratio num den => ' ' :: '.' :: ' ' :: printRatio cfg num den ++ [')']
    | .str s => ' ' :: '.' :: ' ' :: printStr cfg s ++ [')']
    | .chr c => ' ' :: '.' :: ' ' :: printChr c ++ [')']
    | .sym name => ' ' :: '.' :: ' ' :: printSym cfg name ++ [')']
    | .flt f neg ds e => ' ' :: '.' :: ' ' :: printFloat cfg f neg ds e ++ [')']
    | .vec elems => ' ' :: '.' :: ' ' :: printVec cfg elems ++ [')']
    | .arr rank contents => ' ' :: '.' :: ' ' :: printArr cfg rank contents ++ [')']
  /-- a vector with the given element list -/
  def printVec (cfg : PCfg) (elems : Obj) : List Char :=
    if cfg.array then
      match elems with
      | .cons a d => '#' :: '(' :: printFlat cfg a ++ printTail cfg d
      | _ => ['#', '(', ')']
    else vecOpaque ++ printInt cfg (listLen elems) ++ [')', '>']
  /-- a multi-dimensional array with the given nested-list contents -/
  def printArr (cfg : PCfg) (rank : Nat) (contents : Obj) : List Char :=
    if cfg.array then
      '#' :: natText 10 rank ++ 'A' :: (match contents with
        | .cons a d => '(' :: printFlat cfg a ++ printTail cfg d
        | _ => caseName cfg.case ['n', 'i', 'l'])
    else if rank = 0 then arrOpaque0
    else arrOpaque ++ joinSp ((dimsOf rank contents).map (fun (d : Nat) => printInt cfg (d : Int))) ++ [')', ')', '>']
end

/-! ## the reader (code.go, the part the printer's output needs) -/

inductive RErr where
  | eof            -- input ended inside an object
  | unexpected     -- a character that cannot start / continue the object
  | closeParen     -- unmatched `)`
  | badEscape
  | badChar        -- `#\…` that names no character
  | badNumber      -- `#b…` that is no number of that base
  | float          -- a float token whose exponent cannot be parsed
  | fuel
deriving DecidableEq, Repr

abbrev R := Except RErr

def mapOk {α β : Type} (f : α → β) : R α → R β
  | .ok a => .ok (f a)
  | .error e => .error e

def isWs (c : Char) : Bool := c == ' ' || c == '\n' || c == '\t' || c == '\r'

/-- characters that end a token, a `#\` token or a `#b…` number -/
def isTerm (c : Char) : Bool := isWs c || c == '(' || c == ')'

def termOrEnd : List Char → Bool
  | [] => true
  | c :: _ => isTerm c

def skipWs : List Char → List Char
  | [] => []
  | c :: cs => if isWs c then skipWs cs else c :: cs

def hexVal (c : Char) : Option Nat :=
  if 48 ≤ c.toNat ∧ c.toNat ≤ 57 then some (c.toNat - 48)
  else if 97 ≤ c.toNat ∧ c.toNat ≤ 102 then some (c.toNat - 87)
  else if 65 ≤ c.toNat ∧ c.toNat ≤ 70 then some (c.toNat - 55)
  else none

def hexNum : List Char → Nat → Option Nat
  | [], acc => some acc
  | c :: cs, acc => match hexVal c with
    | some d => hexNum cs (acc * 16 + d)
    | none => none

/-- Go's `utf8.EncodeRune`: surrogates and values above U+10FFFF become U+FFFD -/
def scalarOf (n : Nat) : Char :=
  if h : n.isValidChar then Char.ofNatAux n h else Char.ofNat 0xFFFD

/-- one escape after a backslash inside a string or |symbol| (code.go `escMode`, `escByteMap`,
    `runeMode`); returns the character and the rest -/
def readEscape : List Char → R (Char × List Char)
  | '"' :: r => .ok ('"', r)
  | '\\' :: r => .ok ('\\', r)
  | '|' :: r => .ok ('|', r)
  | 'b' :: r => .ok (Char.ofNat 8, r)
  | 'f' :: r => .ok (Char.ofNat 12, r)
  | 'n' :: r => .ok (Char.ofNat 10, r)
  | 'r' :: r => .ok (Char.ofNat 13, r)
  | 't' :: r => .ok (Char.ofNat 9, r)
  | 'u' :: a :: b :: c :: d :: r =>
    match hexNum [a, b, c, d] 0 with
    | some n => .ok (scalarOf n, r)
    | none => .error .badEscape
  | 'U' :: a :: b :: c :: d :: e :: f :: g :: h :: r =>
    match hexNum [a, b, c, d, e, f, g, h] 0 with
    | some n => .ok (scalarOf n, r)
    | none => .error .badEscape
  | [] => .error .eof
  | _ => .error .badEscape

/-- raw characters the reader takes inside "…" and |…| (code.go `stringMode` / `symbolMode`) -/
def rawOk (c : Char) : Bool := c.toNat ≥ 32 || c.toNat == 9 || c.toNat == 10 || c.toNat == 13

/-- reads up to the closing delimiter `q` (`"` or `|`); the opening one is already consumed.
    One unit of fuel per source character (an escape is one step). -/
def readDelimited (q : Char) : Nat → List Char → List Char → R (List Char × List Char)
  | 0, _, _ => .error .fuel
  | _ + 1, [], _ => .error .eof
  | fuel + 1, c :: cs, acc =>
    if c = q then .ok (acc.reverse, cs)
    else if c = '\\' then
      match readEscape cs with
      | .ok (ch, rest) => readDelimited q fuel rest (ch :: acc)
      | .error err => .error err
    else if rawOk c then readDelimited q fuel cs (c :: acc)
    else .error .unexpected

/-- code.go `pushChar`: the token after `#\` -/
def charOfToken (tok : List Char) : R Char :=
  match tok with
  | [] => .error .badChar
  | [c] => .ok c
  | c :: rest =>
    match namedChar (tok.map lowerC) with
    | some ch => .ok ch
    | none =>
      if (c = 'u' ∨ c = 'U') ∧ rest.length ≤ 6 then
        match hexNum rest 0 with
        | some n => if n = 0 then .error .badChar else if n ≤ 0x10FFFF then .ok (scalarOf n) else .error .badChar
        | none => .error .badChar
      else .error .badChar

/-- the digits (and sign, `/`) after `#b`, `#o`, `#x`, `#NNr` (code.go `intMode`, `pushInteger`) -/
def radixNumber (b : Nat) (tok : List Char) : R Obj :=
  let low := tok.map lowerC
  match parseSigned b low with
  | some n => .ok (.int n)
  | none =>
    let num := low.takeWhile (fun c => c != '/')
    match low.dropWhile (fun c => c != '/') with
    | '/' :: den =>
      match parseSigned b num, parseSigned b den with
      | some n, some d =>
        if 0 < d then
          let g := Nat.gcd n.natAbs d.natAbs
          .ok (.ratio (n / g) (d.natAbs / g))
        else .error .badNumber
      | _, _ => .error .badNumber
    | _ => .error .badNumber

def intTokChar (c : Char) : Bool :=
  c == '+' || c == '-' || c == '/' || (digitVal (lowerC c)).isSome

/-- `#b…`, `#o…`, `#x…`, `#NNr…`: the number token up to a terminator -/
def readRadix (b : Nat) (r : List Char) : R (Obj × List Char) :=
  let tok := r.takeWhile intTokChar
  let rest := r.dropWhile intTokChar
  if termOrEnd rest then mapOk (fun o => (o, rest)) (radixNumber b tok)
  else .error .unexpected

/-- the format an exponent marker selects (code.go `resolveToken`: `d` double, `s` and `f` single,
    `l` long; `e` or no exponent: `*read-default-float-format*`, here the standard `double-float`) -/
def fmtOfMarker (m : Char) : FFmt :=
  if m = 's' ∨ m = 'f' then .single else if m = 'l' then .long else .double

def dropTrailingZeros (ds : List Nat) : List Nat :=
  (ds.reverse.dropWhile (· == 0)).reverse

/-- a float token (lower case, already matched by `isDecimalTok` or `isExpTok`) as the decimal it
    denotes: the digits without leading and trailing zeros and the exponent of the first one -/
def parseFloatTok (low : List Char) : R Obj :=
  let neg := low.head? == some '-'
  let body := stripSign low
  let ip := body.takeWhile (isDigitB 10)
  let r1 := body.dropWhile (isDigitB 10)
  let fp := match r1 with
    | '.' :: fs => fs.takeWhile (isDigitB 10)
    | _ => []
  let r2 := match r1 with
    | '.' :: fs => fs.dropWhile (isDigitB 10)
    | r => r
  let fx : FFmt × Option Int := match r2 with
    | [] => (.double, some 0)
    | m :: e => (fmtOfMarker m, parseSigned 10 e)
  match fx.2 with
  | none => .error .float
  | some x =>
    let all := (ip ++ fp).map (fun c => c.toNat - 48)
    let k := (all.takeWhile (· == 0)).length
    let ds := dropTrailingZeros (all.dropWhile (· == 0))
    match ds with
    | [] => .ok (.flt fx.1 neg [] 0)
    | _ => .ok (.flt fx.1 neg ds ((ip.length : Int) + x - 1 - (k : Int)))

/-- code.go `resolveToken` (without times) -/
def classifyTok (rbase : Nat) (tok : List Char) : R Obj :=
  let low := tok.map lowerC
  if tok = ['t'] ∨ tok = ['T'] then .ok .t
  else if low = ['n', 'i', 'l'] then .ok .nil
  else if isIntTok rbase low then
    let body := low.takeWhile (fun c => c != '.')
    match parseSigned rbase body with
    | some n => .ok (.int n)
    | none => .ok (.sym tok)
  else if isDecimalTok low || isExpTok low then parseFloatTok low
  else if isRatioTok rbase low then
    let num := low.takeWhile (fun c => c != '/')
    let den := (low.dropWhile (fun c => c != '/')).drop 1
    match parseSigned rbase num, parseSigned rbase den with
    | some n, some d =>
      if 0 < d then
        let g := Nat.gcd n.natAbs d.natAbs
        .ok (.ratio (n / g) (d.natAbs / g))
      else .ok (.sym tok)
    | _, _ => .ok (.sym tok)
  else .ok (.sym tok)

/-- proper list from elements -/
def mkProper : List Obj → Obj
  | [] => .nil
  | x :: xs => .cons x (mkProper xs)

def mkDotted : List Obj → Obj → Obj
  | [], tl => tl
  | x :: xs, tl => .cons x (mkDotted xs tl)

def dotSym : Obj := .sym ['.']

/-- code.go `closeList`: a list of at least three elements whose last but one is the symbol `.`
    is a dotted list (`(a . nil)` is `(a nil)`) -/
def closeList (elems : List Obj) : Obj :=
  match elems.reverse with
  | last :: dot :: r :: rest =>
    if dot = dotSym then
      if last = .nil then mkProper ((r :: rest).reverse ++ [.nil])
      else mkDotted (r :: rest).reverse last
    else mkProper elems
  | _ => mkProper elems

def decDigits : List Char → List Char := fun cs => cs.takeWhile (isDigitB 10)

/-- `#\…`: the character token (the character after `#\` is taken whatever it is) -/
def readCharTok (c : Char) (r : List Char) : R (Obj × List Char) :=
  let tok := c :: r.takeWhile charTokChar
  let rest := r.dropWhile charTokChar
  if termOrEnd rest then mapOk (fun ch => (Obj.chr ch, rest)) (charOfToken tok)
  else .error .unexpected

/-- a bare token: number, `t`, `nil` or symbol -/
def readToken (rbase : Nat) (c : Char) (r : List Char) : R (Obj × List Char) :=
  let tok := c :: r.takeWhile tokenChar
  let rest := r.dropWhile tokenChar
  if termOrEnd rest then mapOk (fun o => (o, rest)) (classifyTok rbase tok)
  else .error .unexpected

mutual
  /-- one object from the front of the text; returns it with the rest of the text -/
  def read1 (rbase : Nat) : Nat → List Char → R (Obj × List Char)
    | 0, _ => .error .fuel
    | fuel + 1, cs =>
      match skipWs cs with
      | [] => .error .eof
      | c :: r =>
        if c = '(' then
          mapOk (fun p => (closeList p.1, p.2)) (readElems rbase fuel r [])
        else if c = ')' then .error .closeParen
        else if c = '"' then
          mapOk (fun p => (Obj.str p.1, p.2)) (readDelimited '"' (r.length + 1) r [])
        else if c = '|' then
          mapOk (fun p => (Obj.sym p.1, p.2)) (readDelimited '|' (r.length + 1) r [])
        else if c = '#' then
          match r with
          | [] => .error .eof
          | c2 :: r2 =>
            if c2 = '\\' then
              match r2 with
              | [] => .error .eof
              | c3 :: r3 => readCharTok c3 r3
            else if c2 = '(' then
              mapOk (fun p => (Obj.vec (mkProper p.1), p.2)) (readElems rbase fuel r2 [])
            else if c2 = 'b' ∨ c2 = 'B' then readRadix 2 r2
            else if c2 = 'o' ∨ c2 = 'O' then readRadix 8 r2
            else if c2 = 'x' ∨ c2 = 'X' then readRadix 16 r2
            else if isDigitB 10 c2 then
              match parseNat 10 (c2 :: decDigits r2), r2.dropWhile (isDigitB 10) with
              | some n, m :: r3 =>
                if m = 'r' ∨ m = 'R' then
                  if 2 ≤ n ∧ n ≤ 36 then readRadix n r3 else .error .badNumber
                else if m = 'A' ∨ m = 'a' then
                  match r3 with
                  | [] => .error .eof
                  | p :: r4 =>
                    if p = '(' then
                      mapOk (fun p => (if n = 1 then Obj.vec (mkProper p.1) else Obj.arr n (mkProper p.1), p.2))
                        (readElems rbase fuel r4 [])
                    else .error .unexpected
                else .error .unexpected
              | _, _ => .error .unexpected
            else .error .unexpected
        else if tokenStartChar c then readToken rbase c r
        else .error .unexpected
  /-- the elements of a list up to the closing parenthesis -/
  def readElems (rbase : Nat) : Nat → List Char → List Obj → R (List Obj × List Char)
    | 0, _, _ => .error .fuel
    | fuel + 1, cs, acc =>
      match skipWs cs with
      | [] => .error .eof
      | c :: r =>
        if c = ')' then .ok (acc.reverse, r)
        else
          match read1 rbase fuel (c :: r) with
          | .ok (o, rest) => readElems rbase fuel rest (o :: acc)
          | .error e => .error e
end

/-- the whole text holds exactly one object (what `slip.Read` returning one object means) -/
def readAll (rbase : Nat) (cs : List Char) : R Obj := do
  let (o, rest) ← read1 rbase (3 * cs.length + 4) cs
  match skipWs rest with
  | [] => pure o
  | _ => .error .unexpected

/-! ## equality of what was read with what was printed

  slip's symbol equality folds case (`Symbol.Equal` is `strings.EqualFold`); `*print-case*`
  changes the case of symbol names. -/

def symEq (a b : List Char) : Bool := a.map lowerC == b.map lowerC

def objEq : Obj → Obj → Bool
  | .nil, .nil => true
  | .t, .t => true
  | .int a, .int b => a == b
  | .ratio a b, .ratio c d => a == c && b == d
  | .str a, .str b => a == b
  | .chr a, .chr b => a == b
  | .sym a, .sym b => symEq a b
  | .flt f n ds e, .flt f' n' ds' e' => f == f' && n == n' && ds == ds' && e == e'
  | .cons a d, .cons a' d' => objEq a a' && objEq d d'
  | .vec a, .vec b => objEq a b
  | .arr r a, .arr r' b => r == r' && objEq a b
  | _, _ => false


/-! ## type-of

  slip's `type-of` of an integer is a function of its value: the reader and the arithmetic normalise
  (`Fixnum` exactly when the value fits 64 bits, else `*Bignum`), so an integer read back equal has
  the same type. -/

inductive TypeOf where
  | null | t | fixnum | bignum | ratio | string | character | symbol | cons | vector | array
  | singleFloat | doubleFloat | longFloat
deriving DecidableEq, Repr

def typeOf : Obj → TypeOf
  | .nil => .null
  | .t => .t
  | .int n => if -9223372036854775808 ≤ n ∧ n ≤ 9223372036854775807 then .fixnum else .bignum
  | .ratio _ _ => .ratio
  | .str _ => .string
  | .chr _ => .character
  | .sym _ => .symbol
  | .flt .single _ _ _ => .singleFloat
  | .flt .double _ _ _ => .doubleFloat
  | .flt .long _ _ _ => .longFloat
  | .cons _ _ => .cons
  | .vec _ => .vector
  | .arr _ _ => .array

/-! ## what the round-trip theorem is about -/

/-- what the reader gives back for a printed object: symbol names in the case they were printed
    in (equal to the original under `objEq`) -/
def recase (cs : Case) : Obj → Obj
  | .sym name => .sym (caseName cs name)
  | .cons a d => .cons (recase cs a) (recase cs d)
  | .vec e => .vec (recase cs e)
  | .arr r c => .arr r (recase cs c)
  | o => o

def isList : Obj → Bool
  | .nil => true
  | .cons _ d => isList d
  | _ => false

/-- the decimal of a finite float in canonical form: decimal digits, no leading or trailing zero;
    zero has no digits and exponent 0 -/
def FloatWF (ds : List Nat) (e : Int) : Prop :=
  (∀ d ∈ ds, d < 10) ∧ ds.head? ≠ some 0 ∧ ds.getLast? ≠ some 0 ∧ (ds = [] → e = 0)

/-- readable data as the round-trip theorem takes it: floats are finite and given by their canonical
    decimal; ratios in lowest terms with a denominator of
    at least 2; not the character with code 0; no symbol spelled `t` or `nil` (they denote the
    constants); no symbol `.` as an element of a list (the reader's `closeList` takes it for the
    dot of a dotted pair); vectors hold proper lists; arrays have rank ≥ 2 and non-empty contents. -/
def WF : Obj → Prop
  | .nil => True
  | .t => True
  | .int _ => True
  | .ratio num den => 2 ≤ den ∧ Nat.gcd num.natAbs den = 1
  | .str _ => True
  | .chr c => c.toNat ≠ 0
  | .sym name => name.map lowerC ≠ ['t'] ∧ name.map lowerC ≠ ['n', 'i', 'l']
  | .flt _ _ ds e => FloatWF ds e
  | .cons a d => WF a ∧ a ≠ dotSym ∧ WF d
  | .vec e => isList e = true ∧ WF e
  | .arr r c => 2 ≤ r ∧ isList c = true ∧ c ≠ .nil ∧ WF c

/-- the settings documented to keep output readable: base 2..36 marked by `*print-radix*` (or the
    reader's base 10), `*print-readably*` and `*print-array*` on; any `*print-case*` -/
structure CfgOK (cfg : PCfg) : Prop where
  base_lo : 2 ≤ cfg.base
  base_hi : cfg.base ≤ 36
  dom : cfg.radix = true ∨ cfg.base = 10
  readably : cfg.readably = true
  array : cfg.array = true

/-- number of constructors (the reader's fuel is measured against it) -/
def osize : Obj → Nat
  | .cons a d => 1 + osize a + osize d
  | .vec e => 1 + osize e
  | .arr _ c => 1 + osize c
  | _ => 1

end SlipVerif.Printer
