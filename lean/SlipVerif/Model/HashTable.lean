/-
  C16 — a hash table as an association list under a test (`eqv`), the reference for
  slip's `HashTable` with gethash / (setf gethash) / remhash / clrhash / maphash /
  hash-table-count. The key of an entry is the key object first stored for its class
  (Common Lisp keeps the old key on overwrite); the order of entries is not observable
  (maphash is compared as a set).

  `spec` is the finite-map semantics stated on the history alone (no table): the value last
  stored under an equivalent key unless a later removal of an equivalent key or a clear happened.
  Theorems/C16 proves `get (run h) k = spec h k` for every history.

  Histories are lists with the MOST RECENT operation first.

  Core Lean only (linked into the `slipmodel` driver).
-/
namespace SlipVerif.HashTable

abbrev Table (K V : Type) := List (K × V)

inductive Op (K V : Type) where
  | put (k : K) (v : V)
  | rem (k : K)
  | clr
  deriving Repr

section
variable {K V : Type} (eqv : K → K → Bool)

def get : Table K V → K → Option V
  | [], _ => none
  | (k', v) :: t, k => if eqv k' k then some v else get t k

def put : Table K V → K → V → Table K V
  | [], k, v => [(k, v)]
  | (k', v') :: t, k, v => if eqv k' k then (k', v) :: t else (k', v') :: put t k v

def rem : Table K V → K → Table K V
  | [], _ => []
  | (k', v') :: t, k => if eqv k' k then t else (k', v') :: rem t k

def clr (_ : Table K V) : Table K V := []

def count (t : Table K V) : Nat := t.length

def keys (t : Table K V) : List K := t.map (·.1)

def step (t : Table K V) : Op K V → Table K V
  | .put k v => put eqv t k v
  | .rem k => rem eqv t k
  | .clr => clr t

/-- the table after a history (most recent operation first) -/
def run : List (Op K V) → Table K V
  | [] => []
  | op :: h => step eqv (run h) op

/-- the finite map a history denotes, with no reference to any table -/
def spec : List (Op K V) → K → Option V
  | [], _ => none
  | .put k' v :: h, k => if eqv k' k then some v else spec h k
  | .rem k' :: h, k => if eqv k' k then none else spec h k
  | .clr :: _, _ => none

end
end SlipVerif.HashTable
