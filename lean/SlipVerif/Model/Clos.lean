/-
  C12 — model of slip's CLOS class machinery (pkg/clos: defclass.go DefStandardClass,
  standard-class.go mergeSupers / makeClassesReady / classChanged / initObjSlots,
  shared-initialize.go, slot readers / writers, StandardObject.IsA / Hierarchy).

  Core Lean only (linked into the native model driver).

  * A class is a name with its direct superclasses *in the order written* and its direct slot
    definitions. The state is the list of classes defined so far, each with its merged
    inheritance list `inh` (`none` = "not ready": some superclass is not defined / not ready yet).
  * slip's rule (mergeSupers): `inherit c = dedup (directs ++ directs.flatMap inherit)` — the
    direct superclasses in the order written followed by theirs, first occurrence kept. It is not
    C3. The precedence list is `c :: inherit c` (slip appends `standard-object t`, the harness
    strips that constant tail).
  * `defclass` = register (or replace) the definition, mark the class and every class that has it
    on its inheritance list "not ready", then run the readiness loop (makeClassesReady) with fuel =
    number of classes. Re-merging the dependants through the readiness loop *is* the re-merge in
    dependency order (classChanged).
  * `makeInstance`: all effective slots start unbound (initObjSlots), supplied initargs are applied
    left to right to every slot that lists the initarg and has not been set yet, then the most
    specific initform fills the slots no initarg reached (shared-initialize).
-/
namespace SlipVerif.Clos

abbrev Name := Nat
abbrev Val := Int

structure SlotDef where
  name : Name
  initargs : List Name
  initform : Option Val
deriving DecidableEq, Repr

structure ClassDef where
  supers : List Name
  slots : List SlotDef
  /-- `(:default-initargs k v …)`: the class's own default initargs (slip consults those of the
      class being instantiated only; the harness does not constrain instances of a class below one
      that has default initargs) -/
  defaults : List (Name × Val) := []
deriving DecidableEq, Repr

structure Entry where
  name : Name
  defn : ClassDef
  inh : Option (List Name)
deriving DecidableEq, Repr

abbrev State := List Entry

/-! ## lookup -/

def find : State → Name → Option Entry
  | [], _ => none
  | e :: s, c => if e.name = c then some e else find s c

def defOf (s : State) (c : Name) : Option ClassDef := (find s c).map (·.defn)

def inhOf (s : State) (c : Name) : Option (List Name) := (find s c).bind (·.inh)

def names (s : State) : List Name := s.map (·.name)

/-! ## the merge rule -/

/-- keep the first occurrence of every element (slip: "append unless already inherited") -/
def dedup : List Name → List Name
  | [] => []
  | x :: xs => x :: (dedup xs).filter (fun y => y ≠ x)

/-- the inheritance lists of `xs` appended in order; `none` when one of them is not available -/
def collect (f : Name → Option (List Name)) : List Name → Option (List Name)
  | [] => some []
  | x :: xs =>
    match f x, collect f xs with
    | some l, some r => some (l ++ r)
    | _, _ => none

/-- mergeSupers: fails (class stays not ready) unless every direct superclass is ready -/
def mergeWith (f : Name → Option (List Name)) (d : ClassDef) : Option (List Name) :=
  (collect f d.supers).map (fun r => dedup (d.supers ++ r))

def mergeSupers (s : State) (d : ClassDef) : Option (List Name) := mergeWith (inhOf s) d

/-! ## the specification: the inheritance list as a function of the class graph alone -/

/-- `spec D n c`: the inheritance list of `c` in the graph `D`, exploring at most `n` levels.
    `none` when `c` or an ancestor is undefined (or the fuel does not reach the roots). -/
def spec (D : Name → Option ClassDef) : Nat → Name → Option (List Name)
  | 0, _ => none
  | n + 1, c =>
    match D c with
    | none => none
    | some d => mergeWith (spec D n) d

/-! ## state updates -/

def setInh (s : State) (c : Name) (v : Option (List Name)) : State :=
  s.map (fun e => if e.name = c then { e with inh := v } else e)

/-- one mergeSupers attempt of a class that is not ready -/
def tryReady (s : State) (c : Name) : State :=
  match find s c with
  | none => s
  | some e =>
    match e.inh with
    | some _ => s
    | none =>
      match mergeSupers s e.defn with
      | some l => setInh s c (some l)
      | none => s

/-- one round of makeClassesReady's loop -/
def pass (s : State) : State := (names s).foldl tryReady s

/-- makeClassesReady with explicit fuel (number of rounds) -/
def loop : Nat → State → State
  | 0, s => s
  | n + 1, s => loop n (pass s)

/-- every class that has `c` on its inheritance list becomes "not ready" -/
def invalidate (s : State) (c : Name) : State :=
  s.map (fun e =>
    match e.inh with
    | some l => if c ∈ l then { e with inh := none } else e
    | none => e)

/-- register or replace the definition of `c` (not ready yet) -/
def upsert : State → Name → ClassDef → State
  | [], c, d => [{ name := c, defn := d, inh := none }]
  | e :: s, c, d =>
    if e.name = c then { name := c, defn := d, inh := none } :: s else e :: upsert s c d

/-- `(defclass c supers slots)` -/
def defclass (s : State) (c : Name) (d : ClassDef) : State :=
  let s1 := upsert (invalidate s c) c d
  loop s1.length s1

/-- a history of defclass forms, evaluated left to right -/
def run (h : List (Name × ClassDef)) : State :=
  h.foldl (fun s p => defclass s p.1 p.2) []

def update (D : Name → Option ClassDef) (c : Name) (d : ClassDef) : Name → Option ClassDef :=
  fun k => if k = c then some d else D k

/-- the definitions in force after a history: the last form for each name -/
def lastDef (h : List (Name × ClassDef)) : Name → Option ClassDef :=
  h.foldl (fun D p => update D p.1 p.2) (fun _ => none)

/-! ## precedence, typep, applicability -/

/-- the class precedence list of a ready class -/
def precOf (s : State) (c : Name) : Option (List Name) := (inhOf s c).map (fun l => c :: l)

/-- StandardObject.IsA: a linear search of the precedence list -/
def isA : List Name → Name → Bool
  | [], _ => false
  | x :: xs, k => if x = k then true else isA xs k

/-- `(typep (make-instance c) k)` -/
def typep (s : State) (c k : Name) : Option Bool := (precOf s c).map (fun p => isA p k)

/-- the classes (among those carrying a method) whose method applies to an instance of `c`, most
    specific first: slip walks the instance's hierarchy and picks the methods keyed by each name -/
def applicable (s : State) (c : Name) (methods : List Name) : Option (List Name) :=
  (precOf s c).map (fun p => p.filter (fun k => methods.contains k))

/-! ## instances -/

/-- slot name ↦ value (`none` = unbound) -/
abbrev Inst := List (Name × Option Val)

/-- the slot definitions seen by an instance, most specific class first -/
def slotDefsOf (s : State) : List Name → List SlotDef
  | [] => []
  | k :: ks =>
    (match defOf s k with
     | some d => d.slots
     | none => []) ++ slotDefsOf s ks

def slotNames (sds : List SlotDef) : List Name := dedup (sds.map (·.name))

/-- every initarg declared for slot `x` by any class of the precedence list -/
def initargsFor : List SlotDef → Name → List Name
  | [], _ => []
  | sd :: sds, x => if sd.name = x then sd.initargs ++ initargsFor sds x else initargsFor sds x

/-- the most specific initform of slot `x` -/
def initformFor : List SlotDef → Name → Option Val
  | [], _ => none
  | sd :: sds, x =>
    if sd.name = x then
      match sd.initform with
      | some v => some v
      | none => initformFor sds x
    else initformFor sds x

def getSlot : Inst → Name → Option (Option Val)
  | [], _ => none
  | (y, w) :: r, x => if y = x then some w else getSlot r x

/-- a slot during initialisation: `set` = "an initarg has filled it" (shared-initialize's nameMap) -/
structure Cell where
  name : Name
  val : Option Val
  set : Bool
deriving DecidableEq, Repr

/-- initObjSlots: every effective slot, unbound -/
def blank (sds : List SlotDef) : List Cell := (slotNames sds).map (fun x => { name := x, val := none, set := false })

/-- one supplied `(initarg value)` pair reaches a slot when the slot lists the initarg and no
    earlier pair has filled it -/
def stepCell (sds : List SlotDef) (k : Name) (v : Val) (c : Cell) : Cell :=
  if (initargsFor sds c.name).contains k && !c.set then { c with val := some v, set := true } else c

/-- the supplied pairs, left to right; each pair is offered to every slot -/
def applyArgs (sds : List SlotDef) (args : List (Name × Val)) (cells : List Cell) : List Cell :=
  args.foldl (fun cs a => cs.map (stepCell sds a.1 a.2)) cells

/-- the initform pass of shared-initialize: slots no initarg reached get their most specific
    initform, if any -/
def formCell (sds : List SlotDef) (c : Cell) : Name × Option Val :=
  if c.set then (c.name, c.val)
  else match initformFor sds c.name with
    | some v => (c.name, some v)
    | none => (c.name, c.val)

inductive Err where
  | notReady      -- class undefined or with undefined superclasses
  | badInitarg    -- a supplied initarg that no slot of the class declares
deriving DecidableEq, Repr

def validArg (sds : List SlotDef) (k : Name) : Bool := sds.any (fun sd => sd.initargs.contains k)

/-- instance construction from the slot definitions in precedence order -/
def build (sds : List SlotDef) (args : List (Name × Val)) : Inst :=
  (applyArgs sds args (blank sds)).map (formCell sds)

/-- the default initargs of the class being instantiated -/
def defaultsOf (s : State) (c : Name) : List (Name × Val) :=
  match defOf s c with
  | some d => d.defaults
  | none => []

/-- `(make-instance c k1 v1 …)`: the supplied initargs must be declared; the class's default
    initargs are offered after them (a slot an earlier pair filled is not filled again), then the
    initforms -/
def makeInstance (s : State) (c : Name) (args : List (Name × Val)) : Except Err Inst :=
  match precOf s c with
  | none => .error .notReady
  | some p =>
    let sds := slotDefsOf s p
    if args.all (fun a => validArg sds a.1) then .ok (build sds (args ++ defaultsOf s c)) else .error .badInitarg

/-! ## which initforms are evaluated (extension round 4)

  An initform is a *form*: evaluating it may have effects and yields a fresh value per instance.
  `build` evaluates, for every effective slot that no supplied / default initarg reached, the most
  specific initform of that slot — and no other form. -/

/-- the direct slot definitions of class `k` (none when `k` is not defined) -/
def ownSlots (s : State) (k : Name) : List SlotDef :=
  match defOf s k with
  | some d => d.slots
  | none => []

/-- the class whose initform for slot `x` is used: the first class of the precedence list whose own
    definition of `x` carries an initform -/
def formOwner (s : State) : List Name → Name → Option Name
  | [], _ => none
  | k :: ks, x => if (initformFor (ownSlots s k) x).isSome then some k else formOwner s ks x

def evalCell (sds : List SlotDef) (c : Cell) : Option (Name × Val) :=
  if c.set then none else (initformFor sds c.name).map (fun v => (c.name, v))

/-- the initforms evaluated while building an instance: (slot, value of the form) -/
def evaluated (sds : List SlotDef) (args : List (Name × Val)) : List (Name × Val) :=
  (applyArgs sds args (blank sds)).filterMap (evalCell sds)

/-- the forms evaluated by `(make-instance c args…)`, each with the class that owns the form -/
def evaluatedBy (s : State) (c : Name) (args : List (Name × Val)) : Option (List (Name × Name × Val)) :=
  match precOf s c with
  | none => none
  | some p =>
    let sds := slotDefsOf s p
    if args.all (fun a => validArg sds a.1) then
      some ((evaluated sds (args ++ defaultsOf s c)).filterMap
        (fun xv => (formOwner s p xv.1).map (fun k => (k, xv.1, xv.2))))
    else none

/-- the order in which `:after` methods (initialize-instance, shared-initialize) specialised on the
    classes `methods` run for an instance of `c`: least specific first, i.e. the applicable methods
    in reverse precedence order -/
def afterOrder (s : State) (c : Name) (methods : List Name) : Option (List Name) :=
  (applicable s c methods).map List.reverse

/-- two different supplied initargs reach the same slot: the property does not say which wins
    (slip signals an error, Common Lisp takes the leftmost); the harness accepts either -/
def ambiguous (sds : List SlotDef) (args : List (Name × Val)) : Bool :=
  (slotNames sds).any (fun x =>
    ((args.map (·.1)).filter (fun k => (initargsFor sds x).contains k)).eraseDups.length > 1)

/-- a slot writer / `(setf (accessor obj) v)` / `(setf (slot-value obj 'x) v)` -/
def writeSlot : Inst → Name → Val → Inst
  | [], _, _ => []
  | (y, w) :: r, x, v => (if y = x then (y, some v) else (y, w)) :: writeSlot r x v

/-- slot-makunbound -/
def unbindSlot : Inst → Name → Inst
  | [], _ => []
  | (y, w) :: r, x => (if y = x then (y, none) else (y, w)) :: unbindSlot r x

/-! ## class objects and instances that exist across a redefinition

  slip's documented behaviour (defclass): "If the named class already exists it is over-written but
  existing objects continue to reference the original class." A `defclass` of a name creates a new
  class *object*; the object it replaces is no longer registered, is never merged again and keeps
  the precedence list it had. Subclasses are not replaced: their objects are re-merged in place, so
  their existing instances follow the new precedence list. An instance keeps its slots.

  A class object is identified by its name and *generation* (how many forms for that name had been
  evaluated when it was created). -/

/-- a superseded class object, frozen -/
structure Dead where
  name : Name
  gen : Nat
  inh : Option (List Name)
deriving Repr

structure World where
  st : State
  gens : Name → Nat
  dead : List Dead

def World.empty : World := { st := [], gens := fun _ => 0, dead := [] }

/-- `(defclass c …)` at the level of class objects -/
def defclassW (w : World) (c : Name) (d : ClassDef) : World :=
  { st := defclass w.st c d,
    gens := fun k => if k = c then w.gens c + 1 else w.gens k,
    dead := match find w.st c with
      | some e => { name := c, gen := w.gens c, inh := e.inh } :: w.dead
      | none => w.dead }

def runW (h : List (Name × ClassDef)) : World :=
  h.foldl (fun w p => defclassW w p.1 p.2) World.empty

/-- an instance: the class object it references and its slots -/
structure Obj where
  cls : Name
  gen : Nat
  slots : Inst
deriving Repr

/-- make-instance: the new instance references the class object registered now -/
def makeObj (w : World) (c : Name) (args : List (Name × Val)) : Except Err Obj :=
  match makeInstance w.st c args with
  | .ok i => .ok { cls := c, gen := w.gens c, slots := i }
  | .error e => .error e

def deadInh : List Dead → Name → Nat → Option (Option (List Name))
  | [], _, _ => none
  | d :: ds, c, g => if d.name = c ∧ d.gen = g then some d.inh else deadInh ds c g

/-- `(eq (class-of o) (find-class name))`: the instance's class object is the registered one -/
def objIsCurrent (w : World) (o : Obj) : Bool := o.gen = w.gens o.cls

/-- the inheritance list of the instance's own class object -/
def objInh (w : World) (o : Obj) : Option (List Name) :=
  if o.gen = w.gens o.cls then inhOf w.st o.cls
  else match deadInh w.dead o.cls o.gen with
    | some i => i
    | none => none

/-- `(class-precedence (class-of o))` = `o.Hierarchy()` -/
def objPrec (w : World) (o : Obj) : Option (List Name) := (objInh w o).map (fun l => o.cls :: l)

/-- `(typep o k)` -/
def objTypep (w : World) (o : Obj) (k : Name) : Option Bool := (objPrec w o).map (fun p => isA p k)

/-- the methods applicable to `o`, most specific first -/
def objApplicable (w : World) (o : Obj) (methods : List Name) : Option (List Name) :=
  (objPrec w o).map (fun p => p.filter (fun k => methods.contains k))

end SlipVerif.Clos
