/-
  C03 — swank wire framing (pkg/swank/wire.go): a message travels as 6 hexadecimal digits giving
  the payload's length in bytes (`%06X`), then the payload; the reader refuses payloads longer than
  `maxMessageSize` (1 MiB). Core Lean only.
-/
namespace SlipVerif.Wire6

def maxMessageSize : Nat := 1048576

/-- upper-case hexadecimal digit (`%X`) -/
def hexUp (d : Nat) : Char :=
  if d < 10 then Char.ofNat (48 + d) else Char.ofNat (55 + d)

/-- `strconv.ParseUint(_, 16, 32)` on one digit: either case -/
def hexVal (c : Char) : Option Nat :=
  if 48 ≤ c.toNat ∧ c.toNat ≤ 57 then some (c.toNat - 48)
  else if 65 ≤ c.toNat ∧ c.toNat ≤ 70 then some (c.toNat - 55)
  else if 97 ≤ c.toNat ∧ c.toNat ≤ 102 then some (c.toNat - 87)
  else none

/-- `fmt.Sprintf("%06X", n)` for `n < 16^6` -/
def header (n : Nat) : List Char :=
  [hexUp (n / 1048576 % 16), hexUp (n / 65536 % 16), hexUp (n / 4096 % 16), hexUp (n / 256 % 16),
   hexUp (n / 16 % 16), hexUp (n % 16)]

def parseHex : List Char → Nat → Option Nat
  | [], acc => some acc
  | c :: cs, acc => match hexVal c with
    | some d => parseHex cs (acc * 16 + d)
    | none => none

/-- a framed message: the header characters, then the payload bytes -/
structure Framed where
  head : List Char
  body : List Nat

def frame (payload : List Nat) : Framed := { head := header payload.length, body := payload }

/-- `ReadWireMessage`: parse the 6 header digits, refuse more than `maxMessageSize`, take that many
    bytes of what follows; returns the payload and the bytes after it -/
def unframe (head : List Char) (stream : List Nat) : Option (List Nat × List Nat) :=
  if head.length = 6 then
    match parseHex head 0 with
    | some n =>
      if n ≤ maxMessageSize ∧ n ≤ stream.length then some (stream.take n, stream.drop n) else none
    | none => none
  else none

/-! a connection: messages one after another on one byte stream -/

/-- the bytes of one message as they travel: the header characters, then the payload -/
def wireBytes (payload : List Nat) : List Nat := (header payload.length).map Char.toNat ++ payload

/-- `ReadWireMessage` on a byte stream: `io.ReadFull` of 6 bytes, then of as many bytes as they say -/
def readMessage (stream : List Nat) : Option (List Nat × List Nat) :=
  if stream.length < 6 then none else unframe ((stream.take 6).map Char.ofNat) (stream.drop 6)

def writeAll : List (List Nat) → List Nat
  | [] => []
  | p :: ps => wireBytes p ++ writeAll ps

/-- read `n` messages; the stream must be used up -/
def readMessages : Nat → List Nat → Option (List (List Nat))
  | 0, s => if s.isEmpty then some [] else none
  | n + 1, s =>
    match readMessage s with
    | some (p, rest) => (readMessages n rest).map (fun ps => p :: ps)
    | none => none

end SlipVerif.Wire6
