import SlipVerif.Gen.FormatTables
/-! C15 — the renderers behind the format directives (core Lean only).

Text is a list of bytes (`List Nat`): slip's `control` works on bytes, and `Nat` literals keep
`decide +kernel` over the regenerated tables cheap.

* `renderInt`  : ~D ~B ~O ~X ~nR  (mincol, padchar, commachar, comma-interval, `:` and `@`)
* `roman`      : ~@R / ~:@R over the regenerated tables `romanNumerals` / `oldRomanNumerals`
* `cardinal` / `ordinal` : ~R / ~:R over the regenerated word tables
* `convCase`   : ~( ~) in its four modes
-/
namespace SlipVerif.Format

abbrev Txt := List Nat

/-- rejected inputs are explicit error outcomes -/
inductive Err where
  | args      -- no argument left / cursor moved outside the argument list
  | type      -- argument (or `v` parameter) of the wrong type
  | syntax    -- malformed control string
  | range     -- parameter or argument outside the range the directive is defined for
  | table     -- a regenerated table has no entry where the renderer needs one
  | fuel      -- evaluation budget exhausted (never a verdict)
  | unsupported -- construct outside the modelled subset
  deriving Repr, DecidableEq

def Err.name : Err → String
  | .args => "args" | .type => "type" | .syntax => "syntax" | .range => "range"
  | .table => "table" | .fuel => "fuel" | .unsupported => "unsupported"

/-! ## digits -/

/-- little-endian digits of `n` in base `b` (`[0]` for 0); base < 2 is treated as "one digit". -/
def digitsLE (b : Nat) (n : Nat) : List Nat :=
  if _h : 2 ≤ b ∧ b ≤ n then n % b :: digitsLE b (n / b) else [n]
termination_by n
decreasing_by exact Nat.div_lt_self (by omega) (by omega)

/-- digit → character, lower case above 9 (slip prints `ff`) -/
def digitChar (d : Nat) : Nat := if d < 10 then 48 + d else 87 + d

/-- character → digit value (either case) -/
def digitVal? (c : Nat) : Option Nat :=
  if 48 ≤ c ∧ c ≤ 57 then some (c - 48)
  else if 97 ≤ c ∧ c ≤ 122 then some (c - 87)
  else if 65 ≤ c ∧ c ≤ 90 then some (c - 55)
  else none

/-- an independent big-endian reader of digit strings in base `b` (Horner); `none` on a
    character that is no digit of that base or on the empty string. -/
def parseDigitsFrom (b : Nat) : Nat → Txt → Option Nat
  | acc, [] => some acc
  | acc, c :: cs =>
    match digitVal? c with
    | some d => if d < b then parseDigitsFrom b (acc * b + d) cs else none
    | none => none

def parseDigits (b : Nat) (cs : Txt) : Option Nat :=
  if cs = [] then none else parseDigitsFrom b 0 cs

/-- insert `comma` after every `k` characters of a little-endian digit string; `i` counts the
    characters emitted since the last comma. -/
def groupLE (comma k : Nat) : Nat → Txt → Txt
  | _, [] => []
  | i, c :: cs => if i = k then comma :: c :: groupLE comma k 1 cs else c :: groupLE comma k (i + 1) cs

structure IntFmt where
  mincol : Nat := 0
  pad : Nat := 32
  comma : Nat := 44
  interval : Nat := 3
  colon : Bool := false
  atm : Bool := false
  deriving Repr

def signOf (atm : Bool) (n : Int) : Txt :=
  if n < 0 then [45] else if atm then [43] else []

/-- digits of |n| (most significant first), grouped when `:` is given -/
def intBody (base : Nat) (f : IntFmt) (n : Int) : Txt :=
  let ds := (digitsLE base n.natAbs).map digitChar
  (if f.colon then groupLE f.comma f.interval 0 ds else ds).reverse

def padLeft (mincol pad : Nat) (s : Txt) : Txt := List.replicate (mincol - s.length) pad ++ s

/-- ~mincol,padchar,commachar,comma-intervalD (and B O X, ~radix,…R) on an integer -/
def renderInt (base : Nat) (f : IntFmt) (n : Int) : Txt :=
  padLeft f.mincol f.pad (signOf f.atm n ++ intBody base f n)

def showInt (n : Int) : Txt := renderInt 10 {} n

/-! ## integers under the printer variables `*print-base*` / `*print-radix*` (what ~A ~S princ prin1 print) -/

/-- the radix prefix: `#b` `#o` `#x`, nothing for decimal (which gets a trailing dot), else `#<base>r` -/
def radixPrefix (base : Nat) : Txt :=
  if base = 2 then [35, 98] else if base = 8 then [35, 111] else if base = 16 then [35, 120]
  else if base = 10 then [] else 35 :: ((digitsLE 10 base).map digitChar).reverse ++ [114]

def radixSuffix (base : Nat) : Txt := if base = 10 then [46] else []

/-- an integer as princ / prin1 print it when `*print-base*` = `base` and `*print-radix*` = `radix`:
    the sign follows the prefix (`#x-ff`) -/
def showIntEnv (base : Nat) (radix : Bool) (n : Int) : Txt :=
  if radix then radixPrefix base ++ renderInt base {} n ++ radixSuffix base else renderInt base {} n

/-! ## characters: UTF-8 -/

/-- a Unicode scalar value (what a character object can hold) -/
def isScalar (c : Nat) : Bool := c < 0x110000 && !(0xD800 ≤ c && c ≤ 0xDFFF)

/-- the UTF-8 encoding of a code point (1–4 bytes) -/
def utf8Enc (c : Nat) : Txt :=
  if c < 0x80 then [c]
  else if c < 0x800 then [0xC0 + c / 64, 0x80 + c % 64]
  else if c < 0x10000 then [0xE0 + c / 4096, 0x80 + c / 64 % 64, 0x80 + c % 64]
  else [0xF0 + c / 262144, 0x80 + c / 4096 % 64, 0x80 + c / 64 % 64, 0x80 + c % 64]

def isCont (b : Nat) : Bool := 0x80 ≤ b && b < 0xC0

/-- an independent strict UTF-8 decoder (one scalar value from the front of a byte string): rejects
    stray continuation bytes, truncated and overlong forms, surrogates and values above U+10FFFF -/
def utf8Dec : Txt → Option (Nat × Txt)
  | [] => none
  | b0 :: rest =>
    if b0 < 0x80 then some (b0, rest)
    else if b0 < 0xC0 then none
    else if b0 < 0xE0 then
      match rest with
      | b1 :: r =>
        let v := (b0 - 0xC0) * 64 + (b1 - 0x80)
        if isCont b1 ∧ 0x80 ≤ v then some (v, r) else none
      | _ => none
    else if b0 < 0xF0 then
      match rest with
      | b1 :: b2 :: r =>
        let v := (b0 - 0xE0) * 4096 + (b1 - 0x80) * 64 + (b2 - 0x80)
        if isCont b1 ∧ isCont b2 ∧ 0x800 ≤ v ∧ isScalar v then some (v, r) else none
      | _ => none
    else if b0 < 0xF8 then
      match rest with
      | b1 :: b2 :: b3 :: r =>
        let v := (b0 - 0xF0) * 262144 + (b1 - 0x80) * 4096 + (b2 - 0x80) * 64 + (b3 - 0x80)
        if isCont b1 ∧ isCont b2 ∧ isCont b3 ∧ 0x10000 ≤ v ∧ isScalar v then some (v, r) else none
      | _ => none
    else none

/-- decode a whole byte string into its characters (`none` = not well-formed UTF-8) -/
def utf8DecAll : Nat → Txt → Option (List Nat)
  | _, [] => some []
  | 0, _ => none
  | f + 1, bs =>
    match utf8Dec bs with
    | some (c, r) => (utf8DecAll f r).map (c :: ·)
    | none => none

/-! ## Roman numerals -/

def tableAt (tbl : List (List Txt)) (row col : Nat) : Except Err Txt :=
  match tbl[row]? with
  | some r => match r[col]? with
    | some w => .ok w
    | none => .error .table
  | none => .error .table

/-- 1..3999 through the digit table (units row first), as slip's dirR does -/
def roman (tbl : List (List Txt)) (n : Int) : Except Err Txt :=
  if n < 1 ∨ 3999 < n then .error .range else
  let m := n.toNat
  do
    let a ← tableAt tbl 3 (m / 1000)
    let b ← tableAt tbl 2 (m / 100 % 10)
    let c ← tableAt tbl 1 (m / 10 % 10)
    let d ← tableAt tbl 0 (m % 10)
    pure (a ++ b ++ c ++ d)

def romanVal (c : Nat) : Nat :=
  if c = 73 then 1 else if c = 86 then 5 else if c = 88 then 10 else if c = 76 then 50
  else if c = 67 then 100 else if c = 68 then 500 else if c = 77 then 1000 else 0

/-- independent reader of Roman numerals (additive, with the subtractive rule): a symbol that is
    smaller than its successor is subtracted. Symbols outside IVXLCDM make the result `none`. -/
def romanParse : Txt → Option Nat
  | [] => some 0
  | [c] => if romanVal c = 0 then none else some (romanVal c)
  | c :: d :: rest =>
    if romanVal c = 0 then none else
    match romanParse (d :: rest) with
    | none => none
    | some v => if romanVal c < romanVal d then (if v < romanVal c then none else some (v - romanVal c)) else some (v + romanVal c)

/-! ## English cardinals and ordinals -/

structure EnglishTables where
  periods : List Txt      -- "", thousand, million, …
  ones : List Txt         -- "", one … nine
  teens : List Txt        -- ten … nineteen
  tens : List Txt         -- twenty … ninety
  ordOnes : List Txt      -- "", first … ninth
  ordTeens : List Txt     -- tenth … nineteenth
  /-- the printer variables the directives read: `*print-base*` and `*print-radix*` (the context of one
      format call: constant during the call, whatever the directives do) -/
  printBase : Nat := 10
  printRadix : Bool := false

def genTables : EnglishTables :=
  { periods := Gen.FormatTables.cardinalTriples, ones := Gen.FormatTables.cardinalOne,
    teens := Gen.FormatTables.cardinalTeen, tens := Gen.FormatTables.cardinalTen,
    ordOnes := Gen.FormatTables.ordinalOne, ordTeens := Gen.FormatTables.ordinalTeen }

def wHundred : Txt := [104, 117, 110, 100, 114, 101, 100]
def wNegative : Txt := [110, 101, 103, 97, 116, 105, 118, 101]
def wZero : Txt := [122, 101, 114, 111]
def wZeroth : Txt := [122, 101, 114, 111, 116, 104]

def wordAt (tbl : List Txt) (i : Nat) : Except Err Txt :=
  match tbl[i]? with
  | some w => .ok w
  | none => .error .table

/-- words of 1..99 (empty for 0) -/
def below100 (T : EnglishTables) (n : Nat) : Except Err (List Txt) :=
  if n = 0 then .ok []
  else if n < 10 then do pure [← wordAt T.ones n]
  else if n < 20 then do pure [← wordAt T.teens (n - 10)]
  else do
    let t ← wordAt T.tens (n / 10 - 2)
    if n % 10 = 0 then pure [t] else pure [t, ← wordAt T.ones (n % 10)]

/-- words of 1..999 (empty for 0) -/
def below1000 (T : EnglishTables) (n : Nat) : Except Err (List Txt) := do
  let lo ← below100 T (n % 100)
  if n / 100 = 0 then pure lo else pure ([← wordAt T.ones (n / 100), wHundred] ++ lo)

/-- words of the little-endian base-1000 digits `ts`, starting at period index `i` -/
def periodWords (T : EnglishTables) : Nat → List Nat → Except Err (List Txt)
  | _, [] => .ok []
  | i, t :: ts => do
    let hi ← periodWords T (i + 1) ts
    if t = 0 then pure hi else
    let w ← below1000 T t
    if i = 0 then pure (hi ++ w) else pure (hi ++ w ++ [← wordAt T.periods i])

def cardinalWords (T : EnglishTables) (n : Nat) : Except Err (List Txt) :=
  if n = 0 then .ok [wZero] else
  let ts := digitsLE 1000 n
  if T.periods.length < ts.length then .error .range else periodWords T 0 ts

def joinWords : List Txt → Txt
  | [] => []
  | [w] => w
  | w :: ws => w ++ 32 :: joinWords ws

def cardinal (T : EnglishTables) (n : Int) : Except Err Txt := do
  let ws ← cardinalWords T n.natAbs
  pure (joinWords (if n < 0 then wNegative :: ws else ws))

def indexOf? (tbl : List Txt) (w : Txt) : Option Nat :=
  let i := tbl.findIdx (· == w)
  if i < tbl.length then some i else none

/-- the ordinal form of a cardinal word: table entries for one…nineteen, `-y` → `-ieth` for the
    tens, `-th` for hundred and the period names -/
def ordinalWord (T : EnglishTables) (w : Txt) : Except Err Txt :=
  if w = wZero then .ok wZeroth else
  match (if w = [] then none else indexOf? T.ones w) with
  | some i => wordAt T.ordOnes i
  | none =>
    match indexOf? T.teens w with
    | some i => wordAt T.ordTeens i
    | none =>
      match indexOf? T.tens w with
      | some _ => .ok (w.dropLast ++ [105, 101, 116, 104])
      | none => .ok (w ++ [116, 104])

/-- the cardinal with its last word replaced by the ordinal form -/
def ordinalWords (T : EnglishTables) (n : Nat) : Except Err (List Txt) := do
  let ws ← cardinalWords T n
  match ws.getLast? with
  | none => .error .table
  | some l => pure (ws.dropLast ++ [← ordinalWord T l])

def ordinal (T : EnglishTables) (n : Int) : Except Err Txt := do
  let ws ← ordinalWords T n.natAbs
  pure (joinWords (if n < 0 then wNegative :: ws else ws))

/-! ### an independent reader of English number words -/

def splitWords : Txt → List Txt
  | [] => [[]]
  | c :: cs =>
    match splitWords cs with
    | [] => [[c]]
    | w :: ws => if c = 32 then [] :: w :: ws else (c :: w) :: ws

/-- reader state: `total` = value of the periods closed so far, `cur` = value of the open group -/
structure RdSt where
  total : Nat
  cur : Nat
  deriving Repr, DecidableEq

/-- one word: one…nine / ten…nineteen / twenty…ninety add to the open group, "hundred" multiplies
    it, a period name closes it. Unknown words are rejected. -/
def readWord (T : EnglishTables) (s : RdSt) (w : Txt) : Option RdSt :=
  if w = [] then none
  else if w = wHundred then some { s with cur := s.cur * 100 }
  else match indexOf? T.ones w with
    | some i => some { s with cur := s.cur + i }
    | none => match indexOf? T.teens w with
      | some i => some { s with cur := s.cur + 10 + i }
      | none => match indexOf? T.tens w with
        | some i => some { s with cur := s.cur + 10 * (i + 2) }
        | none => match indexOf? T.periods w with
          | some i => some { total := s.total + s.cur * 1000 ^ i, cur := 0 }
          | none => none

def readWords (T : EnglishTables) : RdSt → List Txt → Option RdSt
  | s, [] => some s
  | s, w :: ws => match readWord T s w with
    | some s' => readWords T s' ws
    | none => none

/-- reads "zero", "[negative] <words>" back to the integer -/
def readCardinal (T : EnglishTables) (txt : Txt) : Option Int :=
  match splitWords txt with
  | [w] => if w = wZero then some 0 else (readWords T ⟨0, 0⟩ [w]).map (fun s => ((s.total + s.cur : Nat) : Int))
  | w :: ws =>
    if w = wNegative then (readWords T ⟨0, 0⟩ ws).map (fun s => -((s.total + s.cur : Nat) : Int))
    else (readWords T ⟨0, 0⟩ (w :: ws)).map (fun s => ((s.total + s.cur : Nat) : Int))
  | [] => none

/-! ## case conversion ~( ~) -/

def isUpper (c : Nat) : Bool := 65 ≤ c && c ≤ 90
def isLower (c : Nat) : Bool := 97 ≤ c && c ≤ 122
def isAlnum (c : Nat) : Bool := isUpper c || isLower c || (48 ≤ c && c ≤ 57)
def toLower (c : Nat) : Nat := if isUpper c then c + 32 else c
def toUpper (c : Nat) : Nat := if isLower c then c - 32 else c

/-- capitalize every word (a word = a maximal run of alphanumerics): first character up, rest down -/
def capWords : Bool → Txt → Txt
  | _, [] => []
  | inWord, c :: cs =>
    if isAlnum c then (if inWord then toLower c else toUpper c) :: capWords true cs
    else c :: capWords false cs

/-- capitalize the first word only, everything else lower case. `seen` = the first word has started;
    `done` = it has ended. -/
def capFirst : Bool → Bool → Txt → Txt
  | _, _, [] => []
  | seen, done, c :: cs =>
    if done then toLower c :: capFirst seen done cs
    else if isAlnum c then (if seen then toLower c else toUpper c) :: capFirst true false cs
    else c :: capFirst seen seen cs

inductive CaseMode where
  | lower | capAll | capOne | upper
  deriving Repr, DecidableEq

def caseMode (colon atm : Bool) : CaseMode :=
  match colon, atm with
  | false, false => .lower
  | true, false => .capAll
  | false, true => .capOne
  | true, true => .upper

def convCase : CaseMode → Txt → Txt
  | .lower, s => s.map toLower
  | .upper, s => s.map toUpper
  | .capAll, s => capWords false s
  | .capOne, s => capFirst false false s

end SlipVerif.Format
