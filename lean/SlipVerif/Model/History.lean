/-
  C20 — model of the REPL's durable state (pkg/repl/history.go, stash.go, form.go, linereader.go,
  repl.go updateConfigFile / SetConfigDir).

  * A form is a list of lines, a line a list of Unicode scalars (Go `Form = [][]rune`).
  * A file's content is a list of Unicode scalars: files are written as UTF-8 of valid runes, and the
    only bytes the code inspects (tab, newline, blanks) are scalars of their own, so UTF-8 is a
    bijection that the harness applies when it compares bytes.
  * The file system is a record name ↦ optional content. Every operation is the in-memory update plus
    a SEQUENCE of atomic file-system steps (open-create/append, open-truncate, write, close, rename);
    `crashAt k steps fs` is the file system a process death after the first `k` steps leaves behind.
  * `load fs` is `History.Load`: complete lines only (LineReader drops an unterminated tail), each
    line trimmed of Unicode white space, blank lines skipped, split on tabs.

  Core Lean only (linked into the slipmodel driver).
-/
namespace SlipVerif.History

abbrev Line := List Char
abbrev Form := List Line
abbrev Content := List Char

def TAB : Char := '\t'
def NL : Char := '\n'

/-! ## Form.TabAppend / Form.Append / Form.Empty -/

/-- the lines of a form joined by tabs -/
def joinTab : Form → Content
  | [] => []
  | [l] => l
  | l :: l' :: ls => l ++ TAB :: joinTab (l' :: ls)

/-- `Form.TabAppend(nil)`: one line per form, tabs standing for line breaks; nothing for a form
without lines -/
def tabAppend (f : Form) : Content :=
  match f with
  | [] => []
  | _ :: _ => joinTab f ++ [NL]

/-- `Form.Append(nil)`: every line followed by a newline -/
def expand (f : Form) : Content := f.flatMap (fun l => l ++ [NL])

/-- `Form.Empty`: nothing but U+0020 -/
def isEmptyForm (f : Form) : Bool := f.all (fun l => l.all (fun c => c == ' '))

/-! ## reading back: LineReader, bytes.TrimSpace, bytes.Split -/

/-- `unicode.IsSpace` (what `bytes.TrimSpace` removes) -/
def isSpace (c : Char) : Bool :=
  let n := c.toNat
  (9 ≤ n && n ≤ 13) || n == 32 || n == 0x85 || n == 0xA0 || n == 0x1680 ||
  (0x2000 ≤ n && n ≤ 0x200A) || n == 0x2028 || n == 0x2029 || n == 0x202F || n == 0x205F || n == 0x3000

/-- the complete (newline-terminated) lines of a file; an unterminated tail is dropped, as
`LineReader.ReadLine` returns it together with `io.EOF` and both loaders stop there -/
def lines : Content → List Content
  | [] => []
  | c :: cs =>
    if c = NL then [] :: lines cs
    else match lines cs with
      | [] => []
      | l :: ls => (c :: l) :: ls

/-- split at every `sep`: first piece and the remaining pieces (`bytes.Split` never returns less
than one piece) -/
def splitOn (sep : Char) : Content → Content × List Content
  | [] => ([], [])
  | c :: cs =>
    let r := splitOn sep cs
    if c = sep then ([], r.1 :: r.2) else (c :: r.1, r.2)

def pieces (sep : Char) (s : Content) : List Content := (splitOn sep s).1 :: (splitOn sep s).2

def trimLeft (s : Content) : Content := s.dropWhile isSpace
def trimRight (s : Content) : Content := (s.reverse.dropWhile isSpace).reverse
def trim (s : Content) : Content := trimRight (trimLeft s)

/-- one line of the history file → a form, or nothing for a blank line -/
def decodeLine (l : Content) : Option Form :=
  match trim l with
  | [] => none
  | c :: cs => some (pieces TAB (c :: cs))

/-- `History.Load` on the content of the history file -/
def decode (c : Content) : List Form := (lines c).filterMap decodeLine

/-- The guard the encoding imposes: a form is stored and read back unchanged iff no line contains a
tab or a newline, the first line starts with a non-blank and the last line ends with a non-blank
(blank = `unicode.IsSpace`). -/
def lineOK (l : Line) : Bool := l.all (fun c => c != TAB && c != NL)

def headOK (f : Form) : Bool :=
  match f with
  | (c :: _) :: _ => !isSpace c
  | _ => false

def lastOK (f : Form) : Bool :=
  match f.getLast? with
  | some l => (match l.getLast? with
      | some c => !isSpace c
      | none => false)
  | none => false

def storable (f : Form) : Bool := f.all lineOK && headOK f && lastOK f

/-! ## file system -/

inductive Name
  | hist | tmp | stash
  deriving DecidableEq, Repr

structure FS where
  hist : Option Content
  tmp : Option Content
  stash : Option Content
  deriving DecidableEq, Repr

def FS.get (fs : FS) : Name → Option Content
  | .hist => fs.hist
  | .tmp => fs.tmp
  | .stash => fs.stash

def FS.set (fs : FS) (n : Name) (v : Option Content) : FS :=
  match n with
  | .hist => { fs with hist := v }
  | .tmp => { fs with tmp := v }
  | .stash => { fs with stash := v }

/-- one atomic file-system call. Every descriptor the code writes through is opened `O_APPEND`. -/
inductive Step
  | openAppend (n : Name)                 -- O_APPEND|O_CREATE|O_WRONLY
  | openTrunc (n : Name)                  -- O_TRUNC|O_APPEND|O_CREATE|O_WRONLY
  | write (n : Name) (data : Content)
  | close (n : Name)
  | rename (src dst : Name)
  deriving DecidableEq, Repr

def step (fs : FS) : Step → FS
  | .openAppend n =>
    match fs.get n with
    | none => fs.set n (some [])
    | some _ => fs
  | .openTrunc n => fs.set n (some [])
  | .write n d =>
    match fs.get n with
    | none => fs                           -- the name is gone: the data goes to an unlinked file
    | some c => fs.set n (some (c ++ d))
  | .close _ => fs
  | .rename s d =>
    match fs.get s with
    | none => fs                           -- rename of a missing file fails, nothing changes
    | some c => (fs.set d (some c)).set s none

def runSteps (fs : FS) (steps : List Step) : FS := steps.foldl step fs

/-- the file system left behind by a process death after the first `k` steps -/
def crashAt (k : Nat) (steps : List Step) (fs : FS) : FS := runSteps fs (steps.take k)

/-- a fresh `History.Load` on the directory -/
def load (fs : FS) : List Form :=
  match fs.hist with
  | none => []
  | some c => decode c

/-! ## History -/

structure Hist where
  forms : List Form
  limit : Nat
  deriving DecidableEq, Repr

/-- `h.max = limit + limit/10` -/
def Hist.max (h : Hist) : Nat := h.limit + h.limit / 10

inductive Op
  | add (f : Form)
  | clear (start stop : Int)
  | setLimit (n : Nat)
  deriving DecidableEq, Repr

/-- how compaction opens `<file>.tmp`: `tmpTrunc = true` is the repaired code (O_TRUNC);
`false` is the code as found (O_APPEND|O_CREATE only), kept to state what goes wrong. -/
structure Cfg where
  tmpTrunc : Bool
  deriving DecidableEq, Repr

def fixed : Cfg := ⟨true⟩
def asFound : Cfg := ⟨false⟩

/-- `Stash.clear(start, end)`: remove the forms `start..end` (inclusive, clamped), counted back from
the most recent form (the numbering of `Nth`); nothing happens for an empty stash, `start` beyond
the last index or an empty range. -/
def clearRange (forms : List Form) (start stop : Int) : List Form :=
  let n := forms.length
  if n = 0 ∨ (n : Int) ≤ start then forms
  else
    let s : Nat := start.toNat
    let e : Nat := if stop < 0 ∨ (n : Int) ≤ stop then n - 1 else stop.toNat
    if s ≤ e then forms.take (n - 1 - e) ++ forms.drop (n - s) else forms

def writeAll (n : Name) (forms : List Form) : List Step :=
  forms.map (fun f => Step.write n (tabAppend f))

def openTmp (cfg : Cfg) : Step := if cfg.tmpTrunc then .openTrunc .tmp else .openAppend .tmp

/-- the forms kept by a compaction: the most recent `limit` -/
def keepRecent (limit : Nat) (all : List Form) : List Form := all.drop (all.length - limit)

/-- one operation: new in-memory state and the file-system steps it performs, in order -/
def perform (cfg : Cfg) (h : Hist) : Op → Hist × List Step
  | .setLimit n => ({ h with limit := n }, [])
  | .clear a b =>
    let kept := clearRange h.forms a b
    ({ h with forms := kept }, Step.openTrunc .hist :: (writeAll .hist kept ++ [Step.close .hist]))
  | .add f =>
    if h.limit = 0 ∨ isEmptyForm f = true then (h, [])
    else if h.forms.getLast? = some f then (h, [])
    else
      let all := h.forms ++ [f]
      if h.max ≤ all.length then
        let kept := keepRecent h.limit all
        ({ h with forms := kept },
          openTmp cfg :: (writeAll .tmp kept ++ [Step.close .tmp, Step.rename .tmp .hist]))
      else
        ({ h with forms := all },
          [Step.openAppend .hist, Step.write .hist (tabAppend f), Step.close .hist])

/-! ## sessions: operations, process deaths, restarts -/

structure World where
  mem : Hist
  fs : FS
  deriving DecidableEq, Repr

/-- start of a session: `SetLimit(limit)` then `Load` -/
def boot (limit : Nat) (fs : FS) : World := ⟨⟨load fs, limit⟩, fs⟩

inductive Event
  | op (o : Op)
  | crash (o : Op) (k : Nat) (limit : Nat)  -- the process dies after `k` FS steps of `o`, then restarts
  | restart (limit : Nat)
  deriving DecidableEq, Repr

def World.apply (cfg : Cfg) (w : World) : Event → World
  | .op o => ⟨(perform cfg w.mem o).1, runSteps w.fs (perform cfg w.mem o).2⟩
  | .crash o k limit => boot limit (crashAt k (perform cfg w.mem o).2 w.fs)
  | .restart limit => boot limit w.fs

def World.run (cfg : Cfg) (w : World) (evs : List Event) : World := evs.foldl (World.apply cfg) w

/-- the forms handed to `Add` by the events, in order (whether or not they were recorded) -/
def entered : List Event → List Form
  | [] => []
  | .op (.add f) :: es => f :: entered es
  | .crash (.add f) _ _ :: es => f :: entered es
  | _ :: es => entered es

/-! ## Stash -/

/-- `Stash.Add` writes the form expanded, followed by an empty line -/
def stashEnc (f : Form) : Content := expand f ++ [NL]

/-- completeness of the text read so far, as `fullForm` decides it with the Lisp reader, on the
alphabet the generator is restricted to (atoms, blanks, parentheses): `some true` complete,
`some false` a list is still open (`PartialPanic`), `none` any other reader error (the loader panics). -/
def parenDepth : Nat → Content → Option Nat
  | d, [] => some d
  | d, c :: cs =>
    if c = '(' then parenDepth (d + 1) cs
    else if c = ')' then (match d with
      | 0 => none
      | d' + 1 => parenDepth d' cs)
    else parenDepth d cs

def full (buf : Content) : Option Bool := (parenDepth 0 buf).map (fun d => d == 0)

structure LoadSt where
  buf : Content
  form : Form
  out : List Form
  deriving DecidableEq, Repr

/-- one line of `Stash.LoadExpanded` -/
def leLine (st : LoadSt) (line : Content) : Option LoadSt :=
  match line with
  | [] => some st
  | _ :: _ =>
    let subs := pieces TAB line
    let buf := st.buf ++ expand subs
    let form := st.form ++ subs
    match full buf with
    | none => none
    | some true => some ⟨[], [], st.out ++ [form]⟩
    | some false => some ⟨buf, form, st.out⟩

def leLines : LoadSt → List Content → Option LoadSt
  | st, [] => some st
  | st, l :: ls =>
    match leLine st l with
    | none => none
    | some st' => leLines st' ls

/-- `Stash.LoadExpanded` on the content of the stash file (`none` = the loader panics) -/
def decodeExpanded (c : Content) : Option (List Form) :=
  (leLines ⟨[], [], []⟩ (lines c)).map (fun st => st.out)

def loadStash (fs : FS) : Option (List Form) :=
  match fs.stash with
  | none => some []
  | some c => decodeExpanded c

inductive SOp
  | add (f : Form)
  | clear (start stop : Int)
  deriving DecidableEq, Repr

/-- `Stash.Add` / `Stash.Clear` with a file name set -/
def sperform (forms : List Form) : SOp → List Form × List Step
  | .add f =>
    if isEmptyForm f = true then (forms, [])
    else if forms.getLast? = some f then (forms, [])
    else (forms ++ [f], [Step.openAppend .stash, Step.write .stash (stashEnc f), Step.close .stash])
  | .clear a b =>
    let kept := clearRange forms a b
    (kept, Step.openTrunc .stash :: (writeAll .stash kept ++ [Step.close .stash]))

/-- the guard of the expanded encoding: lines non-empty without tab/newline, the whole form is a
complete text and no proper prefix of its lines is -/
def stashOK (f : Form) : Bool :=
  f.all (fun l => !l.isEmpty && lineOK l) && !f.isEmpty && full (expand f) == some true &&
  (List.range f.length).all (fun k => k == 0 || full (expand (f.take k)) == some false)

/-! ## settings (config.lisp) -/

/-- the variables written to config.lisp with their printed values, sorted by name -/
abbrev Settings := List (String × String)

/-- insert before the first greater key (the file is written with `sort.Strings` order) -/
def insertKV (k v : String) : Settings → Settings
  | [] => [(k, v)]
  | (k', v') :: rest => if k < k' then (k, v) :: (k', v') :: rest else (k', v') :: insertKV k v rest

/-- `setq` of a watched variable: the key is marked modified (once) with its current value and the
file rewritten -/
def setVar (m : Settings) (k v : String) : Settings := insertKV k v (m.filter (fun kv => kv.1 != k))

def lookup (m : Settings) (k : String) : Option String :=
  match m with
  | [] => none
  | (k', v') :: rest => if k = k' then some v' else lookup rest k

/-- `SetConfigDir`: evaluate the `(setq k v)` forms of the file in order over the defaults -/
def loadSettings (file : Settings) (defaults : Settings) : Settings :=
  file.foldl (fun m kv => setVar m kv.1 kv.2) defaults

/-- the text `updateConfigFile` writes after the header -/
def configBody (m : Settings) : String :=
  String.join (m.map (fun kv => "(setq " ++ kv.1 ++ " " ++ kv.2 ++ ")\n"))

/-! ### several configuration directories in one process (round 4, seeded mutant C20-10)

`modifiedVars` and the values of the variables belong to the PROCESS; `configFilename` is the
directory of the current session; the files belong to the directories. `(repl "dir")`,
`SetConfigDir` called again and tests switch directories inside one process, and somebody else may
remove / recreate / replace a `config.lisp` between two sessions. -/

/-- the variables marked modified in this process with their current values, the directory
`config.lisp` is written to, and `config.lisp` of every directory (`none` = no file; `some s` = the
header followed by the setqs `s`) -/
structure CfgProc where
  mods : Settings
  dir  : Option Nat
  disk : Nat → Option Settings

inductive CfgEvent where
  /-- `[ZeroMods;] SetConfigDir d`: a file that exists is evaluated (every setq marks its variable),
  a missing one is created with the header only -/
  | start (d : Nat) (zero : Bool)
  /-- the set hook: mark, rewrite the file of the current directory from all marked variables -/
  | setq (k v : String)
  /-- somebody else removes (`none`), recreates (`some []`) or replaces `config.lisp` of `d` -/
  | ext (d : Nat) (c : Option Settings)
  /-- the process ends; the next one starts with nothing marked and no directory -/
  | exit

def CfgProc.put (p : CfgProc) (d : Nat) (c : Option Settings) : Nat → Option Settings :=
  fun d' => if d' = d then c else p.disk d'

def CfgProc.apply (p : CfgProc) : CfgEvent → CfgProc
  | .start d z =>
    let m := if z then [] else p.mods
    match p.disk d with
    | some file => { p with mods := loadSettings file m, dir := some d }
    | none => { mods := m, dir := some d, disk := p.put d (some []) }
  | .setq k v =>
    let m := setVar p.mods k v
    match p.dir with
    | some d => { p with mods := m, disk := p.put d (some m) }
    | none => { p with mods := m }
  | .ext d c => { p with disk := p.put d c }
  | .exit => { p with mods := [], dir := none }

def CfgProc.run (p : CfgProc) (es : List CfgEvent) : CfgProc := es.foldl CfgProc.apply p

def CfgProc.init : CfgProc := { mods := [], dir := none, disk := fun _ => none }

end SlipVerif.History
