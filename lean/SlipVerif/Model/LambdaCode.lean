import SlipVerif.Model.Lambda
/- C04 — vocabulary of the *code-level* description of slip's `Lambda.Call` (lambda.go).
   `Gen/LambdaCall.lean` (regenerated from lambda.go / argcounterror.go / funcdoc.go by
   extract/lambdacall.go on every run) is written in these terms; `Model/LambdaImpl.lean` is the
   machine that executes them. Core Lean only. -/
namespace SlipVerif.LambdaCode
open SlipVerif.Lambda

/-- one `*DocArg` of a `FuncDoc.Args` list: a parameter name or a lambda-list marker, with the
    default `DefLambda` stored (Go `nil` = `.nil`) -/
structure DocArg where
  name : String
  default : Obj := .nil
  deriving Repr, DecidableEq

/-- ASCII lower-casing (`strings.ToLower` on the names that occur: the reader folds symbols) -/
def lowerS (s : String) : String := String.ofList (s.toList.map Char.toLower)

/-- `strings.EqualFold` -/
def eqFold (a b : String) : Bool := lowerS a == lowerS b

/-- `s[i]` compared with a character literal (`0 < len(s)` is checked by the caller in the code) -/
def byteAt (s : String) (i : Nat) : Char := s.toList.getD i (Char.ofNat 0)

/-- comparison operator of a guard in the code, normalised so that the left operand is fixed -/
inductive Cmp where
  | lt | le | gt | ge | eq | ne
  deriving Repr, DecidableEq

def Cmp.eval : Cmp → Nat → Nat → Bool
  | .lt, a, b => decide (a < b)
  | .le, a, b => decide (a ≤ b)
  | .gt, a, b => decide (a > b)
  | .ge, a, b => decide (a ≥ b)
  | .eq, a, b => decide (a = b)
  | .ne, a, b => decide (a ≠ b)

/-- a guard `lhs op rhs` of the code; the operand names are recorded so that an obligation can pin
    *what* is compared, the operator is what the machine evaluates -/
structure Guard where
  lhs : String
  op : Cmp
  rhs : String
  deriving Repr, DecidableEq

/-- what one `case` arm of the mode machine does with the current `*DocArg` -/
inductive Act where
  | setMode (m : Nat)   -- `mode = <const>`
  | stop                -- `break <label of the range loop>`
  | skip                -- empty arm
  | bindArg             -- `ss.Let(Symbol(ad.Name), args[ai]); ai++`
  | restLoop            -- the `for ai < len(args)` loop that collects the &rest list
  | keyLoop             -- the `for ai < len(args)` loop that consumes keyword/value pairs
  | bindDefault         -- `if !boundHere(ss, ad.Name) { ss.Let(Symbol(ad.Name), ad.Default) }`
  | bindAux             -- `&aux`: evaluate a list initial form in the new scope, then `ss.Let`
  deriving Repr, DecidableEq

/-- one arm: in `mode`, for a `*DocArg` whose name is one of `markers` (`[]` = the `default:` arm) -/
structure Row where
  mode : Nat
  markers : List String
  act : Act
  deriving Repr, DecidableEq

/-- facts about the &rest collecting loop -/
structure RestFacts where
  cond : Guard                -- loop condition
  kwChar : Char               -- first byte that makes a symbol a keyword
  stopOnKnownKey : Bool       -- the loop leaves at a keyword for which `isKeyParam` holds …
  nextMode : Nat              -- … switching to this mode
  advances : Bool             -- `ai++` for every collected argument
  appends : Bool              -- `rest = append(rest, a)`: arguments are collected in call order
  deriving Repr, DecidableEq

/-- facts about the keyword/value loop -/
structure KeyFacts where
  cond : Guard
  kwChar : Char
  missingValue : Guard        -- the test that raises "Missing value for key"
  knownOnly : Bool            -- binding is guarded by `isKeyParam`
  firstWins : Bool            -- binding is guarded by `!boundHere` (a repeated keyword: first wins)
  nonKeywordRaises : Bool     -- a non-keyword in key position ends in `TypePanic`
  deriving Repr, DecidableEq

/-- first arm of `tbl` for `mode` that names `name`, else the `default:` arm of that mode, else
    nothing happens (Go: a `switch` without matching `case` and without `default`) -/
def lookupAct (tbl : List Row) (mode : Nat) (name : String) : Act :=
  match tbl.find? (fun r => r.mode == mode && r.markers.contains name) with
  | some r => r.act
  | none =>
    match tbl.find? (fun r => r.mode == mode && r.markers.isEmpty) with
    | some r => r.act
    | none => .skip

end SlipVerif.LambdaCode
