import SlipVerif.Model.Printer
/-
  C03 — pretty printing (printer.go `createTree` / `appendTree`): the same tokens as the flat
  rendering with the single spaces replaced by a space or by a newline and an indentation, chosen
  from the node sizes and `*print-right-margin*`. Core Lean only.

  A rendering is a list of pieces: token texts and separators. `flatPieces` is the flat rendering
  (`renderPieces (flatPieces cfg x) = printFlat cfg x`), `prettyPieces` the pretty one.
-/
namespace SlipVerif.Printer

inductive Piece where
  | tok (text : List Char)
  | sep (ws : List Char)
deriving DecidableEq, Repr

namespace Piece
def text : Piece → List Char
  | tok t => t
  | sep w => w
def tok? : Piece → Option (List Char)
  | tok t => some t
  | sep _ => none
def isSep : Piece → Bool
  | tok _ => false
  | sep _ => true
/-- a separator is made of blanks only and is not empty; a token piece is unconstrained -/
def wsOnly : Piece → Bool
  | tok _ => true
  | sep w => !w.isEmpty && w.all (fun c => c == ' ' || c == '\n')
end Piece

/-- length in UTF-8 bytes (slip's node sizes are byte counts) -/
def byteLen (cs : List Char) : Nat := cs.foldl (fun n c => n + (utf8Bytes c).length) 0

def renderPieces (ps : List Piece) : List Char := ps.flatMap Piece.text

def nilText (cfg : PCfg) : List Char := caseName cfg.case ['n', 'i', 'l']

/-- the prefix of a vector / array before its parenthesis -/
def arrPrefix (rank : Nat) : List Char := '#' :: natText 10 rank ++ ['A']

/-- a vector around the pieces of its element list -/
def vecWrap (cfg : PCfg) (e : Obj) (inner : List Piece) : List Piece :=
  if cfg.array then
    match e with
    | .cons _ _ => .tok ['#'] :: inner
    | _ => [.tok ['#', '(', ')']]
  else [.tok (printVec cfg e)]

/-- an array around the pieces of its contents -/
def arrWrap (cfg : PCfg) (r : Nat) (c : Obj) (inner : List Piece) : List Piece :=
  if cfg.array then
    match c with
    | .cons _ _ => .tok (arrPrefix r) :: inner
    | _ => [.tok (arrPrefix r ++ nilText cfg)]
  else [.tok (printArr cfg r c)]

mutual
  /-- the flat rendering as pieces -/
  def flatPieces (cfg : PCfg) : Obj → List Piece
    | .cons a d => .tok ['('] :: flatPieces cfg a ++ flatTail cfg d
    | .vec e => vecWrap cfg e (flatPieces cfg e)
    | .arr r c => arrWrap cfg r c (flatPieces cfg c)
    | .nil => [.tok (nilText cfg)]
    | .t => [.tok ['t']]
    | .int n => [.tok (printInt cfg n)]
    | .ratio n d => [.tok (printRatio cfg n d)]
    | .str s => [.tok (printStr cfg s)]
    | .chr c => [.tok (printChr c)]
    | .sym name => [.tok (printSym cfg name)]
    | .flt f neg ds e => [.tok (printFloat cfg f neg ds e)]
  def flatTail (cfg : PCfg) : Obj → List Piece
    | .nil => [.tok [')']]
    | .cons a d => .sep [' '] :: flatPieces cfg a ++ flatTail cfg d
    | .t => [.sep [' '], .tok ['.'], .sep [' '], .tok ['t'], .tok [')']]
    | .int n => [.sep [' '], .tok ['.'], .sep [' '], .tok (printInt cfg n), .tok [')']]
    | .ratio n d => [.sep [' '], .tok ['.'], .sep [' '], .tok (printRatio cfg n d), .tok [')']]
    | .str s => [.sep [' '], .tok ['.'], .sep [' '], .tok (printStr cfg s), .tok [')']]
    | .chr c => [.sep [' '], .tok ['.'], .sep [' '], .tok (printChr c), .tok [')']]
    | .sym name => [.sep [' '], .tok ['.'], .sep [' '], .tok (printSym cfg name), .tok [')']]
    | .flt f neg ds e => [.sep [' '], .tok ['.'], .sep [' '], .tok (printFloat cfg f neg ds e), .tok [')']]
    | .vec e => .sep [' '] :: .tok ['.'] :: .sep [' '] :: vecWrap cfg e (flatPieces cfg e) ++ [.tok [')']]
    | .arr r c => .sep [' '] :: .tok ['.'] :: .sep [' '] :: arrWrap cfg r c (flatPieces cfg c) ++ [.tok [')']]
end

/-- number of nodes `createTree` makes for the rest of a list (the dot of a dotted list is a node) -/
def tailNodes : Obj → Nat
  | .nil => 0
  | .cons _ d => 1 + tailNodes d
  | _ => 2

/-- number of slip list elements in the rest of a list (a `Tail` is one element) -/
def tailCount : Obj → Nat
  | .nil => 0
  | .cons _ d => 1 + tailCount d
  | _ => 1

/-- the separator before a node that is not the first (`appendTree`): a space when the node still
    fits on the line, else a newline and `off` spaces; returns (separator, offset for the node, new position) -/
def chooseSep (margin off pos size t : Nat) : List Char × Nat × Nat :=
  if pos + size + t + 1 ≤ margin then ([' '], 0, pos + size + t + 1)
  else ('\n' :: List.replicate off ' ', off, off + size + 1)

/-- ` . atom)`: the dot node (size 1, never last) and the final node (last) -/
def dottedTail (margin off pos closes size : Nat) (atom : List Piece) : List Piece :=
  let ch1 := chooseSep margin off pos 1 0
  let ch2 := chooseSep margin off ch1.2.2 size (closes + 1)
  [.sep ch1.1, .tok ['.'], .sep ch2.1] ++ atom ++ [.tok [')']]

mutual
  /-- `node.size` of `createTree` -/
  def nodeSize (cfg : PCfg) (margin : Nat) : Obj → Nat
    | .cons a d => 1 + (1 + tailCount d) + nodeSize cfg margin a + tailSize cfg margin d
    | .vec e => byteLen (renderPieces (vecWrap cfg e (prettyPieces cfg margin 0 0 e)))
    | .arr r c => byteLen (renderPieces (arrWrap cfg r c (prettyPieces cfg margin 0 0 c)))
    | .nil => byteLen (nilText cfg)
    | .t => 1
    | .int n => byteLen (printInt cfg n)
    | .ratio n d => byteLen (printRatio cfg n d)
    | .str s => byteLen (printStr cfg s)
    | .chr c => byteLen (printChr c)
    | .sym name => byteLen (printSym cfg name)
    | .flt f neg ds e => byteLen (printFloat cfg f neg ds e)
  /-- size of the second node of a list: the next element, or the dot (size 1) -/
  def headSize (cfg : PCfg) (margin : Nat) : Obj → Nat
    | .cons b _ => nodeSize cfg margin b
    | _ => 1
  def tailSize (cfg : PCfg) (margin : Nat) : Obj → Nat
    | .nil => 0
    | .cons a d => nodeSize cfg margin a + tailSize cfg margin d
    | .t => 1
    | .int n => byteLen (printInt cfg n)
    | .ratio n d => byteLen (printRatio cfg n d)
    | .str s => byteLen (printStr cfg s)
    | .chr c => byteLen (printChr c)
    | .sym name => byteLen (printSym cfg name)
    | .flt f neg ds e => byteLen (printFloat cfg f neg ds e)
    | .vec e => byteLen (renderPieces (vecWrap cfg e (prettyPieces cfg margin 0 0 e)))
    | .arr r c => byteLen (renderPieces (arrWrap cfg r c (prettyPieces cfg margin 0 0 c)))
  /-- `appendTree` for one object starting at column `offset`, with `closes` parentheses to follow -/
  def prettyPieces (cfg : PCfg) (margin offset closes : Nat) : Obj → List Piece
    | .cons a d =>
      match d with
      | .nil => .tok ['('] :: prettyPieces cfg margin (offset + 1) (closes + 1) a ++ [.tok [')']]
      | _ =>
        -- two or more nodes
        let s0 := nodeSize cfg margin a
        let s1 := headSize cfg margin d
        let t2 := if 1 + tailNodes d = 2 then closes + 1 else 0
        let off := if offset + 1 + s0 + s1 + t2 + 1 ≤ margin then offset + 1 + s0 + 1 else offset + 1
        .tok ['('] :: prettyPieces cfg margin off 0 a ++ prettyTail cfg margin off (offset + 1 + s0) closes d
    -- a vector is one buffer made by a nested `Append`: its list is laid out from column 0
    | .vec e => vecWrap cfg e (prettyPieces cfg margin 0 0 e)
    | .arr r c => arrWrap cfg r c (prettyPieces cfg margin 0 0 c)
    | .nil => [.tok (nilText cfg)]
    | .t => [.tok ['t']]
    | .int n => [.tok (printInt cfg n)]
    | .ratio n d => [.tok (printRatio cfg n d)]
    | .str s => [.tok (printStr cfg s)]
    | .chr c => [.tok (printChr c)]
    | .sym name => [.tok (printSym cfg name)]
    | .flt f neg ds e => [.tok (printFloat cfg f neg ds e)]
  /-- the nodes after the first, at indentation `off`, current position `pos` -/
  def prettyTail (cfg : PCfg) (margin off pos closes : Nat) : Obj → List Piece
    | .nil => [.tok [')']]
    | .cons a d =>
      let t := match d with
        | .nil => closes + 1
        | _ => 0
      let ch := chooseSep margin off pos (nodeSize cfg margin a) t
      .sep ch.1 :: prettyPieces cfg margin ch.2.1 t a ++ prettyTail cfg margin off ch.2.2 closes d
    | .t => dottedTail margin off pos closes 1 [.tok ['t']]
    | .int n => dottedTail margin off pos closes (byteLen (printInt cfg n)) [.tok (printInt cfg n)]
    | .ratio n d => dottedTail margin off pos closes (byteLen (printRatio cfg n d)) [.tok (printRatio cfg n d)]
    | .str s => dottedTail margin off pos closes (byteLen (printStr cfg s)) [.tok (printStr cfg s)]
    | .chr c => dottedTail margin off pos closes (byteLen (printChr c)) [.tok (printChr c)]
    | .sym name => dottedTail margin off pos closes (byteLen (printSym cfg name)) [.tok (printSym cfg name)]
    | .flt f neg ds e => dottedTail margin off pos closes (byteLen (printFloat cfg f neg ds e)) [.tok (printFloat cfg f neg ds e)]
    | .vec e =>
      let inner := vecWrap cfg e (prettyPieces cfg margin 0 0 e)
      dottedTail margin off pos closes (byteLen (renderPieces inner)) inner
    | .arr r c =>
      let inner := arrWrap cfg r c (prettyPieces cfg margin 0 0 c)
      dottedTail margin off pos closes (byteLen (renderPieces inner)) inner
end

/-- the pretty text (`Printer.Append` with `*print-pretty*`): lists, vectors and arrays are laid
    out from column 0; everything else is the flat text -/
def printPretty (cfg : PCfg) (margin : Nat) (x : Obj) : List Char :=
  renderPieces (prettyPieces cfg margin 0 0 x)

end SlipVerif.Printer
