/- C04 — lambda lists: parsing, arity and argument binding, written from the language rule
   (required positionally; &optional with defaults when absent; &rest collects everything after
   the positional parameters, in order; &key by name from that same tail, first occurrence wins,
   defaults when absent, an odd tail / a non-keyword in key position / an unknown key (unless
   &allow-other-keys) is an error; &aux last; too few / too many arguments are errors).
   Core Lean only: linked into the slipmodel driver. -/
namespace SlipVerif.Lambda

/-- argument / default values: constants and proper lists of them are all the model needs -/
inductive Obj where
  | nil
  | int (i : Int)
  | sym (name : String)
  | kw (name : String)          -- keyword symbol, name without the colon
  | str (s : String)
  | cons (a d : Obj)
  deriving Repr, DecidableEq, Inhabited

namespace Obj
def ofList : List Obj → Obj
  | [] => .nil
  | x :: xs => .cons x (ofList xs)

/-- elements of a proper list (`none` for atoms other than nil and for dotted lists) -/
def toList? : Obj → Option (List Obj)
  | .nil => some []
  | .cons a d => (toList? d).map (a :: ·)
  | _ => none
end Obj

structure Param where
  name : String
  default : Obj := .nil
  deriving Repr, DecidableEq

/-- a parsed lambda list -/
structure LL where
  req : List String := []
  opt : List Param := []
  rest : Option String := none
  hasKey : Bool := false          -- `&key` present (possibly with no key parameter)
  keys : List Param := []
  aok : Bool := false             -- `&allow-other-keys`
  aux : List Param := []
  deriving Repr, DecidableEq

inductive LLErr where
  | notList | badElem | misplaced (marker : String) | restNeedsVar
  deriving Repr, DecidableEq

/-- section of the lambda list the parser is in -/
inductive Sect where
  | req | opt | restVar | afterRest | key | afterAok | aux
  deriving Repr, DecidableEq

def isMarker (s : String) : Bool :=
  s = "&optional" || s = "&rest" || s = "&body" || s = "&key" || s = "&aux" || s = "&allow-other-keys"

/-- a parameter specifier: `name` or `(name default)` -/
def parseParam : Obj → Option Param
  | .sym n => if isMarker n then none else some { name := n }
  | .cons (.sym n) (.cons d .nil) => if isMarker n then none else some { name := n, default := d }
  | _ => none

/-- the mode machine over the elements of a lambda list; markers must come in the order
    &optional, &rest|&body, &key, &allow-other-keys, &aux, each at most once -/
def parseElems : Sect → LL → List Obj → Except LLErr LL
  | .restVar, _, [] => .error .restNeedsVar
  | _, ll, [] => .ok ll
  | sect, ll, e :: es =>
    match e with
    | .sym "&optional" =>
      match sect with
      | .req => parseElems .opt ll es
      | _ => .error (.misplaced "&optional")
    | .sym "&rest" | .sym "&body" =>
      match sect with
      | .req | .opt => parseElems .restVar ll es
      | _ => .error (.misplaced "&rest")
    | .sym "&key" =>
      match sect with
      | .req | .opt | .afterRest => parseElems .key { ll with hasKey := true } es
      | _ => .error (.misplaced "&key")
    | .sym "&allow-other-keys" =>
      match sect with
      | .key => parseElems .afterAok { ll with aok := true } es
      | _ => .error (.misplaced "&allow-other-keys")
    | .sym "&aux" =>
      match sect with
      | .restVar => .error .restNeedsVar
      | .aux => .error (.misplaced "&aux")
      | _ => parseElems .aux ll es
    | e =>
      match sect, parseParam e with
      | _, none => .error .badElem
      | .req, some p =>
        if p.default = .nil ∧ e = .sym p.name then parseElems .req { ll with req := ll.req ++ [p.name] } es
        else .error .badElem
      | .opt, some p => parseElems .opt { ll with opt := ll.opt ++ [p] } es
      | .restVar, some p =>
        if e = .sym p.name then parseElems .afterRest { ll with rest := some p.name } es
        else .error .badElem
      | .afterRest, some _ => .error .badElem
      | .key, some p => parseElems .key { ll with keys := ll.keys ++ [p] } es
      | .afterAok, some _ => .error .badElem
      | .aux, some p => parseElems .aux { ll with aux := ll.aux ++ [p] } es

/-- parse a lambda list given as an object (a proper list of parameter specifiers) -/
def parseLL (o : Obj) : Except LLErr LL :=
  match o.toList? with
  | none => .error .notList
  | some es => parseElems .req {} es

/-- number of positional parameters -/
def LL.npos (ll : LL) : Nat := ll.req.length + ll.opt.length

/-- accepted argument counts `(min, max)`; `none` = no upper bound (a &rest or &key tail) -/
def arity (ll : LL) : Nat × Option Nat :=
  (ll.req.length, if ll.rest.isSome || ll.hasKey then none else some ll.npos)

/-- the bound on the argument count when every key parameter is supplied at most once and no
    other key is passed (how a documented `&key` list bounds a call without duplicates) -/
def arityNoDup (ll : LL) : Nat × Option Nat :=
  (ll.req.length,
   if ll.rest.isSome || (ll.hasKey && ll.aok) then none
   else some (ll.npos + (if ll.hasKey then 2 * ll.keys.length else 0)))

def inArity (a : Nat × Option Nat) (n : Nat) : Bool :=
  a.1 ≤ n && (match a.2 with | none => true | some m => n ≤ m)

inductive BindErr where
  | tooFew | tooMany | oddKeys | badKey | unknownKey
  deriving Repr, DecidableEq

/-- optional parameters against the arguments left after the required ones -/
def bindOpt : List Param → List Obj → List (String × Obj)
  | [], _ => []
  | p :: ps, [] => (p.name, p.default) :: bindOpt ps []
  | p :: ps, a :: as => (p.name, a) :: bindOpt ps as

/-- the key tail as (name, value) pairs, in argument order -/
def keyPairs : List Obj → Except BindErr (List (String × Obj))
  | [] => .ok []
  | [_] => .error .oddKeys
  | .kw k :: v :: rest =>
    match keyPairs rest with
    | .ok ps => .ok ((k, v) :: ps)
    | .error e => .error e
  | _ :: _ :: _ => .error .badKey

/-- first value supplied for key `k` -/
def firstVal (k : String) : List (String × Obj) → Option Obj
  | [] => none
  | (k', v) :: ps => if k' = k then some v else firstVal k ps

def bindKey (pairs : List (String × Obj)) (p : Param) : String × Obj :=
  match firstVal p.name pairs with
  | some v => (p.name, v)
  | none => (p.name, p.default)

def knownKey (ll : LL) (k : String) : Bool := ll.keys.any (fun p => p.name = k)

def bindKeys (ll : LL) (tail : List Obj) : Except BindErr (List (String × Obj)) :=
  match keyPairs tail with
  | .error e => .error e
  | .ok pairs =>
    if ll.aok || pairs.all (fun kv => knownKey ll kv.1) then .ok (ll.keys.map (bindKey pairs))
    else .error .unknownKey

def bindAux (ps : List Param) : List (String × Obj) := ps.map (fun p => (p.name, p.default))

/-- the `&rest` parameter (when there is one) gets the whole tail as a list -/
def bindRest (rest : Option String) (tail : List Obj) : List (String × Obj) :=
  match rest with
  | some r => [(r, Obj.ofList tail)]
  | none => []

/-- bindings, in lambda-list order: required, optional, rest, key, aux -/
def bind (ll : LL) (args : List Obj) : Except BindErr (List (String × Obj)) :=
  if args.length < ll.req.length then .error .tooFew
  else
    let tail := args.drop ll.npos
    if !ll.rest.isSome && !ll.hasKey && ll.npos < args.length then .error .tooMany
    else
      let front := ll.req.zip args ++ bindOpt ll.opt (args.drop ll.req.length)
      let restB := bindRest ll.rest tail
      if ll.hasKey then
        match bindKeys ll tail with
        | .error e => .error e
        | .ok kb => .ok (front ++ restB ++ kb ++ bindAux ll.aux)
      else .ok (front ++ restB ++ bindAux ll.aux)

/-! ### initial forms of `&aux` variables

    `&optional`/`&key` defaults are *values* in slip ("a list of a symbol and a default value",
    documentation of defun): `bind` takes them as they are written. The initial form of an `&aux`
    variable is evaluated when the function is called, left to right, each in the scope of all
    parameters and of the `&aux` variables before it. The fragment of forms the model evaluates:
    constants, variables, `(quote x)`, `(list form*)`. -/

inductive InitErr where
  | unbound (name : String)     -- a variable that no earlier parameter binds
  | unsupported                 -- a form outside the modelled fragment
  deriving Repr, DecidableEq

def lookupB (env : List (String × Obj)) (n : String) : Option Obj :=
  match env with
  | [] => none
  | (m, v) :: rest => if m = n then some v else lookupB rest n

def evalInit (env : List (String × Obj)) : Nat → Obj → Except InitErr Obj
  | 0, _ => .error .unsupported
  | _ + 1, .sym n =>
    match lookupB env n with
    | some v => .ok v
    | none => .error (.unbound n)
  | _ + 1, .cons (.sym "quote") (.cons x .nil) => .ok x
  | fuel + 1, .cons (.sym "list") as =>
    match as.toList? with
    | none => .error .unsupported
    | some xs =>
      match xs.mapM (evalInit env fuel) with
      | .ok vs => .ok (Obj.ofList vs)
      | .error e => .error e
  | _ + 1, .cons _ _ => .error .unsupported
  | _ + 1, o => .ok o

def Obj.depth : Obj → Nat
  | .cons a d => max (Obj.depth a) (Obj.depth d) + 1
  | _ => 1

/-- the `&aux` variables one after the other; `env` = every binding made so far -/
def evalAuxSeq (env : List (String × Obj)) : List Param → Except InitErr (List (String × Obj))
  | [] => .ok []
  | p :: ps =>
    match evalInit env (Obj.depth p.default + 1) p.default with
    | .error e => .error e
    | .ok v =>
      match evalAuxSeq (env ++ [(p.name, v)]) ps with
      | .error e => .error e
      | .ok bs => .ok ((p.name, v) :: bs)

inductive CallErr where
  | bind (e : BindErr)
  | init (e : InitErr)
  deriving Repr, DecidableEq

/-- `bind` with the `&aux` initial forms evaluated: the parameter bindings of `bind` (everything
    before the `&aux` entries) followed by the evaluated `&aux` variables -/
def bindE (ll : LL) (args : List Obj) : Except CallErr (List (String × Obj)) :=
  match bind ll args with
  | .error e => .error (.bind e)
  | .ok b =>
    let params := b.take (b.length - ll.aux.length)
    match evalAuxSeq params ll.aux with
    | .error e => .error (.init e)
    | .ok xs => .ok (params ++ xs)

/-! ### method combination: which arguments the next method sees

    `steps[i] = some as`: the i-th method of the chain (`:around` methods, whoppers, then the
    primary method) calls `(call-next-method as…)` / `(continue-whopper as…)`; `none`: it calls
    `(call-next-method)` without arguments, which passes on the arguments it was called with. -/
def chainArgs : List (Option (List Obj)) → List Obj → List (List Obj)
  | [], cur => [cur]
  | s :: ss, cur => cur :: chainArgs ss (s.getD cur)

/-! ### documented lambda lists of built-ins (names only) -/

/-- a documented lambda list: argument names with the & markers in between -/
def docLL (names : List String) : Except LLErr LL :=
  parseElems .req {} (names.map Obj.sym)

/-- does the checked `(min, max)` of a built-in agree with its documented lambda list?
    `max` must be the language-rule bound, or — for `&key` lists — the bound without duplicate
    keys (positional + 2 × number of keys), which is what a fixed-size check can express. -/
def docConsistent (names : List String) (min : Nat) (max : Option Nat) : Bool :=
  match docLL names with
  | .error _ => false
  | .ok ll => (min, max) = arity ll || (min, max) = arityNoDup ll

/-! ### histories: definitions, redefinitions and calls

    The only state a call may depend on is the latest definition of the called name: no earlier
    definition, no earlier call (of any function, with any keywords) may influence a binding. -/

inductive Op where
  | define (name : String) (ll : LL)
  | call (name : String) (args : List Obj)
  deriving Repr, DecidableEq

inductive CallResult where
  | undefined
  | bound (r : Except BindErr (List (String × Obj)))
  deriving Repr

/-- the definitions in force, newest first -/
abbrev Env := List (String × LL)

def Env.find (env : Env) (name : String) : Option LL :=
  match env with
  | [] => none
  | (n, ll) :: rest => if n = name then some ll else Env.find rest name

def callResult (d : Option LL) (args : List Obj) : CallResult :=
  match d with
  | none => .undefined
  | some ll => .bound (bind ll args)

/-- run a history; one result per call, in order -/
def runHist : Env → List Op → List CallResult
  | _, [] => []
  | env, .define n ll :: ops => runHist ((n, ll) :: env) ops
  | env, .call n args :: ops => callResult (env.find n) args :: runHist env ops

end SlipVerif.Lambda
