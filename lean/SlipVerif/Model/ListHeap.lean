/-
  C06 — lists keep value semantics.

  (B) value level: the result of every list operation as a pure function on `List Val`.
  (A) heap level : a cons-cell heap (`Nat`-addressed cells, address = index into the cell list);
      every operation is a heap transformer as the language defines it (what is allocated, which
      cells are shared with the arguments, which cells a destructive operation writes).  The heap
      level is what decides which other lists MAY change when an operation runs (`footprint`).

  Elements are integers (the harness only builds flat lists of small integers); lists are proper
  (slip has no circular lists: an operation that would create one is the explicit error
  `Err.circular`).  Every traversal takes explicit fuel; running out of fuel (or meeting a dangling
  address) is the explicit outcome `none` / `Err.fuel`, never a default value.

  Core Lean only (this file is linked into the `slipmodel` driver).
-/
namespace SlipVerif.ListHeap

abbrev Val := Int

inductive Err where
  | type       -- e.g. rplaca of nil
  | range      -- index outside the list
  | circular   -- the operation would build a circular list (not representable in slip)
  | fuel       -- traversal did not end (cyclic or dangling heap); never happens on heaps built by `run`
  deriving DecidableEq, Repr

/-! ## (B) value level -/

inductive Pred where
  | eq (v : Val)
  | even
  | odd
  | lt (v : Val)        -- element < v   (`:test '>` with item v)
  | gt (v : Val)        -- v < element   (`:test '<` with item v)
  deriving DecidableEq, Repr

def Pred.test : Pred → Val → Bool
  | .eq v, x => x == v
  | .even, x => x % 2 == 0
  | .odd, x => x % 2 != 0
  | .lt v, x => decide (x < v)
  | .gt v, x => decide (v < x)

inductive Fn where
  | inc
  | dbl
  | neg
  deriving DecidableEq, Repr

def Fn.app : Fn → Val → Val
  | .inc, x => x + 1
  | .dbl, x => x * 2
  | .neg, x => -x

def vNthcdr (n : Nat) (xs : List Val) : List Val := xs.drop n
def vLast (n : Nat) (xs : List Val) : List Val := xs.drop (xs.length - n)
def vButlast (n : Nat) (xs : List Val) : List Val := xs.take (xs.length - n)
def vSubseq (s : Nat) (e : Option Nat) (xs : List Val) : Except Err (List Val) :=
  let e' := e.getD xs.length
  if s ≤ e' ∧ e' ≤ xs.length then .ok ((xs.drop s).take (e' - s)) else .error .range
/-- `:key` (none = identity) -/
def keyApp (key : Option Fn) (x : Val) : Val :=
  match key with
  | none => x
  | some f => f.app x

/-- the keyword arguments of `remove delete remove-if delete-if remove-duplicates delete-duplicates` -/
structure RemSpec where
  pred : Pred                    -- item with its :test, or the predicate of the -if variants
  key : Option Fn := none        -- :key
  start : Nat := 0               -- :start
  stop : Option Nat := none      -- :end
  count : Option Nat := none     -- :count
  fromEnd : Bool := false        -- :from-end
  dups : Bool := false           -- the -duplicates variants (pred is not used)
  deriving Repr

/-- keep only the first `n` `true`s -/
def limitFirst : Nat → List Bool → List Bool
  | _, [] => []
  | n, false :: bs => false :: limitFirst n bs
  | 0, true :: bs => false :: limitFirst 0 bs
  | n + 1, true :: bs => true :: limitFirst n bs

/-- positions (from index `i` on) inside `[start, stop)` whose key satisfies the test -/
def candidates (sp : RemSpec) (stop : Nat) : Nat → List Val → List Bool
  | _, [] => []
  | i, x :: xs => (decide (sp.start ≤ i) && decide (i < stop) && sp.pred.test (keyApp sp.key x))
      :: candidates sp stop (i + 1) xs

/-- `remove-duplicates`: an element goes when an equal one follows it -/
def dupLater : List Val → List Bool
  | [] => []
  | x :: xs => xs.contains x :: dupLater xs

/-- `remove-duplicates :from-end t`: an element goes when an equal one precedes it -/
def dupEarlier (seen : List Val) : List Val → List Bool
  | [] => []
  | x :: xs => seen.contains x :: dupEarlier (x :: seen) xs

/-- which positions `remove`/`delete` take out (`true` = removed); same length as the list -/
def maskOf (sp : RemSpec) (xs : List Val) : List Bool :=
  if sp.dups then (if sp.fromEnd then dupEarlier [] xs else dupLater xs)
  else
    let c := candidates sp (sp.stop.getD xs.length) 0 xs
    match sp.count with
    | none => c
    | some n => if sp.fromEnd then (limitFirst n c.reverse).reverse else limitFirst n c

/-- drop the positions marked `true` (a mask shorter than the list keeps the rest) -/
def applyMask {α : Type} : List Bool → List α → List α
  | _, [] => []
  | m, x :: xs => if m.head? = some true then applyMask m.tail xs else x :: applyMask m.tail xs

def vRemove (sp : RemSpec) (xs : List Val) : List Val := applyMask (maskOf sp xs) xs
def vMember (p : Pred) (key : Option Fn) (xs : List Val) : List Val :=
  xs.dropWhile (fun x => !p.test (keyApp key x))
def vMapcar (f : Fn) (xs : List Val) : List Val := xs.map f.app
def vMapcar2 (xs ys : List Val) : List Val := List.zipWith (· + ·) xs ys

/-- the sort key of an element: `:key`, negated for the predicate `>` -/
def rank (desc : Bool) (key : Option Fn) (x : Val) : Int :=
  if desc then -(keyApp key x) else keyApp key x

def insertSorted (rk : Val → Int) (v : Val) : List Val → List Val
  | [] => [v]
  | x :: xs => if rk v ≤ rk x then v :: x :: xs else x :: insertSorted rk v xs
def vSort (desc : Bool) (key : Option Fn) (xs : List Val) : List Val :=
  xs.foldr (insertSorted (rank desc key)) []

/-- fresh-result functions of ONE list argument (value level) -/
inductive Fn1 where
  | copy          -- copy-seq, copy-tree on a flat list, (apply #'list x), (multiple-value-list (values-list x)),
                  -- (mapcar #'identity x), (map 'list #'identity x), (maplist #'car x), (coerce (coerce x 'vector) 'list)
  | dedup         -- (union x nil): the elements of x without repetitions (first occurrence kept)
  | subst (new old : Val)          -- (substitute new old x): a fresh list (the code shares nsubstitute's loop)
  | substIf (new : Val) (p : Pred) -- (substitute-if new p x)
  deriving DecidableEq, Repr

def Fn1.app : Fn1 → List Val → List Val
  | .copy, xs => xs
  | .dedup, xs => xs.eraseDups
  | .subst new old, xs => xs.map (fun x => if x = old then new else x)
  | .substIf new p, xs => xs.map (fun x => if p.test x then new else x)

/-- the elements of two lists taken alternately, as far as both lists reach -/
def interleave : List Val → List Val → List Val
  | x :: xs, y :: ys => x :: y :: interleave xs ys
  | _, _ => []

/-- fresh-result functions of TWO list arguments (value level) -/
inductive Fn2 where
  | interleave    -- (mapcan (lambda (&rest p) p) x y), (mapcan #'list x y): x0 y0 x1 y1 …
  | firstPair     -- the &rest list a two-list map hands to its function at the first step: (x0 y0)
  | lastPair      -- … at the last step
  | takeMin       -- (mapcar (lambda (&rest p) (car p)) x y): the first min(|x|,|y|) elements of x
  | union         -- (union x y) as slip orders it: x then y, first occurrences only
  deriving DecidableEq, Repr

def Fn2.app : Fn2 → List Val → List Val → List Val
  | .interleave, xs, ys => SlipVerif.ListHeap.interleave xs ys
  | .firstPair, x :: _, y :: _ => [x, y]
  | .firstPair, _, _ => []
  | .lastPair, xs, ys =>
      match (xs.take (min xs.length ys.length)).getLast?, (ys.take (min xs.length ys.length)).getLast? with
      | some x, some y => [x, y]
      | _, _ => []
  | .takeMin, xs, ys => xs.take (min xs.length ys.length)
  | .union, xs, ys => (xs ++ ys).eraseDups

def vSetNth (n : Nat) (v : Val) (xs : List Val) : Except Err (List Val) :=
  if n < xs.length then .ok (xs.set n v) else .error .range
def vRplaca (v : Val) : List Val → Except Err (List Val)
  | [] => .error .type
  | _ :: xs => .ok (v :: xs)
def vRplacd (ys : List Val) : List Val → Except Err (List Val)
  | [] => .error .type
  | x :: _ => .ok (x :: ys)

/-- overwrite the front of `xs` with `vs`, as far as both reach (`replace`) -/
def replaceFrom : List Val → List Val → List Val
  | [], _ => []
  | x :: xs, [] => x :: xs
  | _ :: xs, v :: vs => v :: replaceFrom xs vs

/-- destructive functions that overwrite ELEMENTS and keep the structure of the list (value level):
    the new elements as a function of the old ones -/
inductive FnD where
  | fill (v : Val)                          -- (fill x v)
  | subst (new old : Val)                   -- (nsubstitute new old x)
  | substIf (new : Val) (p : Pred)          -- (nsubstitute-if new p x)
  | mapInto (f : Fn)                        -- (map-into x f x)
  | addNth (n : Nat) (d : Val)              -- (incf (nth n x) d), (incf (car x) d), decf = negative d
  | replaceAt (s : Nat) (vs : List Val)     -- (replace x (list vs…) :start1 s)
  deriving Repr

def FnD.app : FnD → List Val → Except Err (List Val)
  | .fill v, xs => .ok (xs.map (fun _ => v))
  | .subst new old, xs => .ok (xs.map (fun x => if x = old then new else x))
  | .substIf new p, xs => .ok (xs.map (fun x => if p.test x then new else x))
  | .mapInto f, xs => .ok (xs.map f.app)
  | .addNth n d, xs =>
      match xs[n]? with
      | some x => .ok (xs.set n (x + d))
      | none => .error .type                -- (nth n x) is nil there: not a number
  | .replaceAt s vs, xs =>
      if s ≤ xs.length then .ok (xs.take s ++ replaceFrom (xs.drop s) vs) else .error .range

/-! ## (A) the cons-cell heap -/

inductive Ref where
  | nil
  | cell (a : Nat)
  deriving DecidableEq, Repr, Inhabited

structure Cell where
  car : Val
  cdr : Ref
  deriving DecidableEq, Repr

abbrev Heap := List Cell

/-- addresses of the cells of the list starting at `r`, in order; `none` when the traversal meets a
    dangling address or does not end within `fuel` cells -/
def chain (h : Heap) : Nat → Ref → Option (List Nat)
  | _, .nil => some []
  | 0, .cell _ => none
  | n + 1, .cell a =>
    match h[a]? with
    | none => none
    | some c => (chain h n c.cdr).map (a :: ·)

/-- the cars stored at the given addresses -/
def carsOf (h : Heap) (as : List Nat) : List Val := as.filterMap (fun a => (h[a]?).map (·.car))

/-- the list value denoted by `r` -/
def contents (h : Heap) (fuel : Nat) (r : Ref) : Option (List Val) := (chain h fuel r).map (carsOf h)

/-- the fuel every operation uses: more than the number of cells, enough for every acyclic list -/
def stdFuel (h : Heap) : Nat := h.length + 1

def chainOf (h : Heap) (r : Ref) : Except Err (List Nat) :=
  match chain h (stdFuel h) r with
  | some as => .ok as
  | none => .error .fuel

/-- the cell reference at which an address list starts -/
def refOf : List Nat → Ref
  | [] => .nil
  | a :: _ => .cell a

/-- allocate a fresh list holding `vs` whose last cdr is `tail`: one `cons` per element, from the
    last element backwards (so every new cell points at an older address or at `tail`) -/
def allocList (h : Heap) : List Val → Ref → Heap × Ref
  | [], tail => (h, tail)
  | v :: vs, tail =>
    let (h1, r) := allocList h vs tail
    (h1 ++ [⟨v, r⟩], .cell h1.length)

def setCar (h : Heap) (a : Nat) (v : Val) : Heap :=
  match h[a]? with
  | none => h
  | some c => h.set a { c with car := v }

def setCdr (h : Heap) (a : Nat) (r : Ref) : Heap :=
  match h[a]? with
  | none => h
  | some c => h.set a { c with cdr := r }

/-- write `vs` into the cars of the cells `as`, position by position -/
def writeCars (h : Heap) : List Nat → List Val → Heap
  | a :: as, v :: vs => writeCars (setCar h a v) as vs
  | _, _ => h

/-- relink the cells `ks` into one list (each cdr := the next address, the last := nil) -/
def linkCells (h : Heap) : List Nat → Heap
  | [] => h
  | [a] => setCdr h a .nil
  | a :: b :: ks => linkCells (setCdr h a (.cell b)) (b :: ks)

/-- a list operation with its arguments resolved to references -/
inductive Op where
  | lit (vs : List Val)
  | alias (x : Ref)                      -- (setq d a)
  | cons (v : Val) (x : Ref)             -- also push
  | listStar (v w : Val) (x : Ref)
  | append (x y : Ref)
  | nthcdr (n : Nat) (x : Ref)           -- cdr, rest = nthcdr 1; pop
  | last (n : Nat) (x : Ref)
  | member (p : Pred) (key : Option Fn) (x : Ref)   -- member (:test :key), member-if
  | butlast (n : Nat) (x : Ref)
  | subseq (s : Nat) (e : Option Nat) (x : Ref)
  | copyList (x : Ref)
  | reverse (x : Ref)
  | remove (sp : RemSpec) (x : Ref)      -- remove remove-if remove-duplicates with their keywords
  | mapcar (f : Fn) (x : Ref)
  | mapcar2 (x y : Ref)                  -- (mapcar '+ x y)
  | concat (x y : Ref)                   -- (concatenate 'list x y): a fresh list, shares with neither
  | fresh1 (f : Fn1) (x : Ref)           -- copy-seq copy-tree (apply #'list x) (multiple-value-list (values-list x)) …
  | fresh2 (f : Fn2) (x y : Ref)         -- lists built from argument lists by the mapping functions, union
  | revappend (x y : Ref)                -- (revappend x y): fresh reversed copy of x in front of y (shares y)
  | rplaca (x : Ref) (v : Val)           -- also (setf (car x) v)
  | setNth (n : Nat) (x : Ref) (v : Val) -- (setf (nth n x) v), (setf (elt x n) v)
  | rplacd (x y : Ref)
  | nconc (x y : Ref)
  | add (x : Ref) (vs : List Val)
  | nreverse (x : Ref)
  | sort (desc : Bool) (key : Option Fn) (x : Ref)   -- (sort x '< / '> [:key f])
  | delete (sp : RemSpec) (x : Ref)
  | carmap (f : FnD) (x : Ref)           -- fill nsubstitute map-into replace, incf/decf of an element place
  | nbutlast (n : Nat) (x : Ref)         -- the list is cut after its first (length - n) cells
  deriving Repr

/-- documented as destructive (may write existing cells) -/
def Op.destructive : Op → Bool
  | .rplaca .. | .setNth .. | .rplacd .. | .nconc .. | .add .. | .nreverse .. | .sort .. | .delete ..
  | .carmap .. | .nbutlast .. => true
  | _ => false

/-- operations that only extend a list (never overwrite an element) -/
def Op.extending : Op → Bool
  | .cons .. | .listStar .. | .append .. | .add .. | .nconc .. | .revappend .. => true
  | _ => false

/-- the list arguments of an operation -/
def Op.listArgs : Op → List Ref
  | .lit _ => []
  | .alias x | .cons _ x | .listStar _ _ x | .nthcdr _ x | .last _ x | .member _ _ x | .butlast _ x
  | .subseq _ _ x | .copyList x | .reverse x | .remove _ x | .mapcar _ x | .rplaca x _ | .setNth _ x _
  | .add x _ | .nreverse x | .sort _ _ x | .delete _ x | .fresh1 _ x | .carmap _ x | .nbutlast _ x => [x]
  | .append x y | .rplacd x y | .nconc x y | .mapcar2 x y | .concat x y | .fresh2 _ x y | .revappend x y => [x, y]

/-- `remove` on the cells `as` of the argument, `m` marking the positions to take out: as soon as
    nothing further is to be removed the remaining cells are shared (the language allows the result
    to share a tail with the argument, and to be the argument itself when nothing is removed);
    before that, kept elements are copied into fresh cells. -/
def removeCells (h0 : Heap) : List Bool → List Nat → Heap × Ref
  | _, [] => (h0, .nil)
  | m, a :: as =>
    if m.any id then
      let (h1, r) := removeCells h0 m.tail as
      if m.head? = some true then (h1, r)
      else match h0[a]? with
        | some c => (h1 ++ [⟨c.car, r⟩], .cell h1.length)
        | none => (h1, r)
    else (h0, .cell a)

/-- the heap transformer of each operation: new heap and the reference of the result -/
def run (h : Heap) : Op → Except Err (Heap × Ref)
  | .lit vs => .ok (allocList h vs .nil)
  | .alias x => .ok (h, x)
  | .cons v x => .ok (h ++ [⟨v, x⟩], .cell h.length)
  | .listStar v w x => .ok (allocList h [v, w] x)
  | .append x y => do
      let as ← chainOf h x
      let _ ← chainOf h y
      .ok (allocList h (carsOf h as) y)
  | .nthcdr n x => do
      let as ← chainOf h x
      .ok (h, refOf (as.drop n))
  | .last n x => do
      let as ← chainOf h x
      .ok (h, refOf (as.drop (as.length - n)))
  | .member p key x => do
      let as ← chainOf h x
      .ok (h, refOf (as.drop ((carsOf h as).takeWhile (fun c => !p.test (keyApp key c))).length))
  | .butlast n x => do
      let as ← chainOf h x
      .ok (allocList h (vButlast n (carsOf h as)) .nil)
  | .subseq s e x => do
      let as ← chainOf h x
      let vs ← vSubseq s e (carsOf h as)
      .ok (allocList h vs .nil)
  | .copyList x => do
      let as ← chainOf h x
      .ok (allocList h (carsOf h as) .nil)
  | .reverse x => do
      let as ← chainOf h x
      .ok (allocList h (carsOf h as).reverse .nil)
  | .remove sp x => do
      let as ← chainOf h x
      .ok (removeCells h (maskOf sp (carsOf h as)) as)
  | .mapcar f x => do
      let as ← chainOf h x
      .ok (allocList h (vMapcar f (carsOf h as)) .nil)
  | .mapcar2 x y => do
      let as ← chainOf h x
      let bs ← chainOf h y
      .ok (allocList h (vMapcar2 (carsOf h as) (carsOf h bs)) .nil)
  | .concat x y => do
      let as ← chainOf h x
      let bs ← chainOf h y
      .ok (allocList h (carsOf h as ++ carsOf h bs) .nil)
  | .fresh1 f x => do
      let as ← chainOf h x
      .ok (allocList h (f.app (carsOf h as)) .nil)
  | .fresh2 f x y => do
      let as ← chainOf h x
      let bs ← chainOf h y
      .ok (allocList h (f.app (carsOf h as) (carsOf h bs)) .nil)
  | .revappend x y => do
      let as ← chainOf h x
      let _ ← chainOf h y
      .ok (allocList h (carsOf h as).reverse y)
  | .rplaca x v => do
      let as ← chainOf h x
      match as with
      | [] => .error .type
      | a :: _ => .ok (setCar h a v, x)
  | .setNth n x v => do
      let as ← chainOf h x
      match as[n]? with
      | none => .error .range
      | some a => .ok (setCar h a v, x)
  | .rplacd x y => do
      let as ← chainOf h x
      let bs ← chainOf h y
      match as with
      | [] => .error .type
      | a :: _ => if bs.contains a then .error .circular else .ok (setCdr h a y, x)
  | .nconc x y => do
      let as ← chainOf h x
      let bs ← chainOf h y
      match as.getLast?, y with
      | none, _ => .ok (h, y)
      | some _, .nil => .ok (h, x)
      | some l, .cell _ => if as.any (fun a => bs.contains a) then .error .circular else .ok (setCdr h l y, x)
  | .add x vs => do
      let as ← chainOf h x
      let (h1, nw) := allocList h vs .nil
      match as.getLast? with
      | none => .ok (h1, nw)
      | some l => .ok (setCdr h1 l nw, x)
  | .nreverse x => do
      let as ← chainOf h x
      .ok (writeCars h as (carsOf h as).reverse, x)
  | .sort desc key x => do
      let as ← chainOf h x
      .ok (writeCars h as (vSort desc key (carsOf h as)), x)
  | .delete sp x => do
      let as ← chainOf h x
      let ks := applyMask (maskOf sp (carsOf h as)) as
      .ok (linkCells h ks, refOf ks)
  | .carmap f x => do
      let as ← chainOf h x
      let vs ← f.app (carsOf h as)
      .ok (writeCars h as vs, x)
  | .nbutlast n x => do
      let as ← chainOf h x
      let ks := as.take (as.length - n)
      .ok (linkCells h ks, refOf ks)

/-- the cells a destructive operation may write: everything reachable from its list arguments.
    (Non-destructive operations write no existing cell at all.) -/
def footprint (h : Heap) (op : Op) : List Nat :=
  if op.destructive then
    op.listArgs.flatMap (fun r => match chainOf h r with | .ok as => as | .error _ => [])
  else []

/-- The permission the correspondence check uses: may the list at `r` change when `op` runs?
    `regs` assigns a region to every cell (cells entangled by earlier destructive operations share
    a region; a cell without entry counts as entangled with everything).  `r` may change when one of
    its cells lies in the region of a footprint cell. -/
def mayChange (regs : List Nat) (h : Heap) (op : Op) (r : Ref) : Bool :=
  let fpRegs := (footprint h op).filterMap (fun a => regs[a]?)
  match chainOf h r with
  | .ok as => as.any (fun a => match regs[a]? with
      | some g => fpRegs.contains g
      | none => true)
  | .error _ => true

/-- the value-level result of each operation, from the values of its list arguments -/
def valueOf (op : Op) (xs ys : List Val) : Except Err (List Val) :=
  match op with
  | .lit vs => .ok vs
  | .alias _ => .ok xs
  | .cons v _ => .ok (v :: xs)
  | .listStar v w _ => .ok (v :: w :: xs)
  | .append .. => .ok (xs ++ ys)
  | .nthcdr n _ => .ok (vNthcdr n xs)
  | .last n _ => .ok (vLast n xs)
  | .member p key _ => .ok (vMember p key xs)
  | .butlast n _ => .ok (vButlast n xs)
  | .subseq s e _ => vSubseq s e xs
  | .copyList _ => .ok xs
  | .reverse _ => .ok xs.reverse
  | .remove sp _ => .ok (vRemove sp xs)
  | .mapcar f _ => .ok (vMapcar f xs)
  | .mapcar2 .. => .ok (vMapcar2 xs ys)
  | .concat .. => .ok (xs ++ ys)
  | .fresh1 f _ => .ok (f.app xs)
  | .fresh2 f .. => .ok (f.app xs ys)
  | .revappend .. => .ok (xs.reverse ++ ys)
  | .rplaca _ v => vRplaca v xs
  | .setNth n _ v => vSetNth n v xs
  | .rplacd .. => vRplacd ys xs
  | .nconc .. => .ok (xs ++ ys)
  | .add _ vs => .ok (xs ++ vs)
  | .nreverse _ => .ok xs.reverse
  | .sort desc key _ => .ok (vSort desc key xs)
  | .delete sp _ => .ok (vRemove sp xs)
  | .carmap f _ => f.app xs
  | .nbutlast n _ => .ok (vButlast n xs)

/-- Region bookkeeping of the correspondence driver: every region of `group` is merged into `blob`
    (what a destructive step does to everything it could reach). -/
def mergeRegs (regs group : List Nat) (blob : Nat) : List Nat :=
  regs.map (fun g => if group.contains g then blob else g)

end SlipVerif.ListHeap
