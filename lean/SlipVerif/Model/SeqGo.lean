import SlipVerif.Model.Seq
/-
  C14 — the Go side of the tie: index loops in the shape the sequence functions of pkg/cl/*.go
  are written in, parameterised by the loop skeleton that `extract/seqloops.go` translates from
  the Go source on every run (`Gen/SeqLoops.lean`: first index, continuation test, step, guard of
  the leading `if … { keep; continue }`, end defaulting, window re-slicing).

  `goDelete`, `goCount`, `goPosition` run those skeletons over a list with an explicit index, an
  explicit element fetch (`xs[i]?`: an index outside the slice is a Go fault = `none`) and fuel
  (`none` when the fuel runs out; the theorems show `length + 1` suffices).
  `Theorems/C14.lean` proves: for every skeleton that is extensionally equal to the reference
  skeleton (`GoLoop.IsDeleteFwd` …) the Go loop computes the Spec function for all in-range
  bounds. `Theorems/GenC14.lean` proves that the skeletons extracted from the current source are
  extensionally equal to the reference ones and instantiates the theorems with them.
  Core Lean only.
-/
namespace SlipVerif.Seq
variable {α : Type}

/-- `for i := init n s e; cond i n s e; i += step { if skip i n s e lim cnt { keep; continue }; … }` -/
structure GoLoop where
  init : (n s e : Int) → Int
  cond : (i n s e : Int) → Bool
  step : Int
  skip : (i n s e lim cnt : Int) → Bool

/-- Go's `math.MaxInt` (the default of `sfv.count`) -/
def goMaxInt : Int := 9223372036854775807

/-- run `for i := i0; L.cond i; i += L.step { st = body i st }`; `none` = fault in the body or out of fuel -/
def goFor {σ : Type} (L : GoLoop) (n s e : Int) (body : Int → σ → Option σ) : Nat → Int → σ → Option σ
  | 0, _, _ => none
  | fuel + 1, i, st =>
    if L.cond i n s e then
      match body i st with
      | none => none
      | some st' => goFor L n s e body fuel (i + L.step) st'
    else some st

/-- `seq[i]` of Go: a fault outside `0 ≤ i < len` -/
def goIndex (xs : List α) (i : Int) : Option α := if i < 0 then none else xs[i.toNat]?

/-- body of the loops of delete.go `inList` / `inString` / `inOctets`:
    `if skip { list = append(list, seq[i]); continue }; if match { count++; continue }; list = append(list, seq[i])` -/
def goDeleteBody (L : GoLoop) (p : α → Bool) (xs : List α) (n s e lim : Int) (i : Int) (st : Int × List α) :
    Option (Int × List α) :=
  match goIndex xs i with
  | none => none
  | some x =>
    if L.skip i n s e lim st.1 then some (st.1, st.2 ++ [x])
    else if p x then some (st.1 + 1, st.2)
    else some (st.1, st.2 ++ [x])

/-- the value the keyword parser leaves in `sfv.end` / `sfv.count` -/
def goEndArg : Option Nat → Int
  | none => -1
  | some e => e

def goCountArg : Option Int → Int
  | none => goMaxInt
  | some c => c

/-- delete.go: `normEnd` is the end defaulting statement, `fwd` / `bwd` the two loops; the backward
    loop's result is reversed. `nb` = what `len(seq)` is in the end defaulting (the byte length for a
    Go string, else the number of elements). -/
def goDelete (fwd bwd : GoLoop) (normEnd : (n nb e : Int) → Int) (nb : Int) (p : α → Bool) (start : Nat)
    (stop : Option Nat) (count : Option Int) (fromEnd : Bool) (xs : List α) : Option (List α) :=
  let n : Int := xs.length
  let e := normEnd n nb (goEndArg stop)
  let lim := goCountArg count
  if fromEnd then
    (goFor bwd n start e (goDeleteBody bwd p xs n start e lim) (xs.length + 1) (bwd.init n start e) (0, [])).map
      (fun st => st.2.reverse)
  else
    (goFor fwd n start e (goDeleteBody fwd p xs n start e lim) (xs.length + 1) (fwd.init n start e) (0, [])).map
      (fun st => st.2)

/-- body of the loops of count.go: `if match { count++ }` -/
def goCountBody (p : α → Bool) (xs : List α) (i : Int) (cnt : Nat) : Option Nat :=
  match goIndex xs i with
  | none => none
  | some x => some (if p x then cnt + 1 else cnt)

/-- count.go `inList` / `inString` -/
def goCount (fwd bwd : GoLoop) (normEnd : (n nb e : Int) → Int) (nb : Int) (p : α → Bool) (start : Nat)
    (stop : Option Nat) (fromEnd : Bool) (xs : List α) : Option Nat :=
  let n : Int := xs.length
  let e := normEnd n nb (goEndArg stop)
  let L := if fromEnd then bwd else fwd
  goFor L n start e (goCountBody p xs) (xs.length + 1) (L.init n start e) 0

/-- position.go / find.go: the window `seq[lo:hi]` the loops run over
    (`if early { return nil }; if cut { seq = seq[lo1:hi1] } else { seq = seq[lo2:] }`) -/
structure GoWindow where
  early : (n nb s e : Int) → Bool
  cut : (n nb s e : Int) → Bool
  lo1 : (n s e : Int) → Int
  hi1 : (n s e : Int) → Int
  lo2 : (n s e : Int) → Int

/-- Go's `seq[lo:hi]`: a fault unless `0 ≤ lo ≤ hi ≤ len` -/
def goSlice (xs : List α) (lo hi : Int) : Option (List α) :=
  if 0 ≤ lo ∧ lo ≤ hi ∧ hi ≤ xs.length then some ((xs.drop lo.toNat).take (hi.toNat - lo.toNat)) else none

/-- a loop that returns from the function at the first index whose body yields a value
    (`for … { if match { return v } }; return nil`): `none` = fault / out of fuel, `some none` = loop ran to its end -/
def goForFind {ρ : Type} (L : GoLoop) (n s e : Int) (body : Int → Option (Option ρ)) : Nat → Int → Option (Option ρ)
  | 0, _ => none
  | fuel + 1, i =>
    if L.cond i n s e then
      match body i with
      | none => none
      | some (some r) => some (some r)
      | some none => goForFind L n s e body fuel (i + L.step)
    else some none

/-- the loop body of position.go: a match at window index `i` returns `ret i s` (`sfv.start + i`) -/
def goPositionBody (p : α → Bool) (w : List α) (ret : (i s : Int) → Int) (s : Int) (i : Int) : Option (Option Int) :=
  match goIndex w i with
  | none => none
  | some x => some (if p x then some (ret i s) else none)

/-- position.go `inList` / `inString` / `inOctets`: forward loop unless `:from-end`, else backward loop;
    answer `ret i s` for a match at window index `i` -/
def goPosition (W : GoWindow) (fwd bwd : GoLoop) (ret : (i s : Int) → Int) (p : α → Bool) (start : Nat)
    (stop : Option Nat) (fromEnd : Bool) (xs : List α) : Option (Option Int) :=
  let n : Int := xs.length
  let e := goEndArg stop
  if W.early n n start e then some none else
  let win := if W.cut n n start e then goSlice xs (W.lo1 n start e) (W.hi1 n start e) else goSlice xs (W.lo2 n start e) n
  match win with
  | none => none
  | some w =>
    let m : Int := w.length
    let L := if fromEnd then bwd else fwd
    goForFind L m start e (goPositionBody p w ret start) (w.length + 1) (L.init m start e)

/-! ### the reference skeletons (what the loops of the unchanged tree are) -/

/-- delete.go forward: `for i := 0; i < len(seq); i++ { if i < start || end <= i || count <= cnt { keep } … }` -/
structure GoLoop.IsDeleteFwd (L : GoLoop) : Prop where
  init : ∀ n s e, L.init n s e = 0
  cond : ∀ i n s e, L.cond i n s e = decide (i < n)
  step : L.step = 1
  skip : ∀ i n s e lim cnt, L.skip i n s e lim cnt = decide (i < s ∨ e ≤ i ∨ lim ≤ cnt)

/-- delete.go backward: `for i := len(seq) - 1; 0 <= i; i-- { same guard }` -/
structure GoLoop.IsDeleteBwd (L : GoLoop) : Prop where
  init : ∀ n s e, L.init n s e = n - 1
  cond : ∀ i n s e, L.cond i n s e = decide (0 ≤ i)
  step : L.step = -1
  skip : ∀ i n s e lim cnt, L.skip i n s e lim cnt = decide (i < s ∨ e ≤ i ∨ lim ≤ cnt)

/-- delete-duplicates.go forward: every index, elements outside `[start, end)` kept without a look -/
structure GoLoop.IsGuardFwd (L : GoLoop) : Prop where
  init : ∀ n s e, L.init n s e = 0
  cond : ∀ i n s e, L.cond i n s e = decide (i < n)
  step : L.step = 1
  skip : ∀ i n s e lim cnt, L.skip i n s e lim cnt = decide (i < s ∨ e ≤ i)

/-- delete-duplicates.go backward -/
structure GoLoop.IsGuardBwd (L : GoLoop) : Prop where
  init : ∀ n s e, L.init n s e = n - 1
  cond : ∀ i n s e, L.cond i n s e = decide (0 ≤ i)
  step : L.step = -1
  skip : ∀ i n s e lim cnt, L.skip i n s e lim cnt = decide (i < s ∨ e ≤ i)

/-- count.go forward: `for i := start; i < end; i++` -/
structure GoLoop.IsRangeFwd (L : GoLoop) : Prop where
  init : ∀ n s e, L.init n s e = s
  cond : ∀ i n s e, L.cond i n s e = decide (i < e)
  step : L.step = 1

/-- count.go backward: `for i := end - 1; start <= i; i--` -/
structure GoLoop.IsRangeBwd (L : GoLoop) : Prop where
  init : ∀ n s e, L.init n s e = e - 1
  cond : ∀ i n s e, L.cond i n s e = decide (s ≤ i)
  step : L.step = -1

/-- position.go forward: every index of the window, ascending (`for i, x := range seq`) -/
structure GoLoop.IsAllFwd (L : GoLoop) : Prop where
  init : ∀ n s e, L.init n s e = 0
  cond : ∀ i n s e, L.cond i n s e = decide (i < n)
  step : L.step = 1

/-- position.go backward: `for i := len(seq) - 1; 0 <= i; i--` -/
structure GoLoop.IsAllBwd (L : GoLoop) : Prop where
  init : ∀ n s e, L.init n s e = n - 1
  cond : ∀ i n s e, L.cond i n s e = decide (0 ≤ i)
  step : L.step = -1

/-- the end defaulting where the end bounds the loop itself (count.go, substitute.go:
    `for i := start; i < end; i++`): an absent end (-1) becomes the number of elements, an in-range end is kept.
    `nb` is the byte length of a Go string, which is not the number of its characters. -/
def IsNormEnd (norm : (n nb e : Int) → Int) : Prop :=
  ∀ n nb e : Int, 0 ≤ n → n ≤ nb → (norm n nb (-1) = n ∧ (0 ≤ e → e ≤ n → norm n nb e = e))

/-- the end defaulting where the end only occurs in the guard `end <= i` of a loop over every index
    (delete.go, delete-duplicates.go): an absent end becomes something not below the number of elements -/
def IsNormEndAtLeast (norm : (n nb e : Int) → Int) : Prop :=
  ∀ n nb e : Int, 0 ≤ n → n ≤ nb → (n ≤ norm n nb (-1) ∧ (0 ≤ e → e ≤ n → norm n nb e = e))

/-- the window of position / find is `[start, end)` for in-range bounds, and an early `nil` only
    happens when that window is empty -/
structure GoWindow.IsRange (W : GoWindow) : Prop where
  early : ∀ n nb s e, W.early n nb s e = decide (n ≤ s)
  cut : ∀ n nb s e, W.cut n nb s e = decide (0 ≤ e ∧ e < n)
  lo1 : ∀ n s e, W.lo1 n s e = s
  hi1 : ∀ n s e, W.hi1 n s e = e
  lo2 : ∀ n s e, W.lo2 n s e = s

end SlipVerif.Seq
