/-
  C06 — the slice level: a small imperative language for the list branches of slip's list functions,
  and its semantics.

  `extract/listprogs.go` TRANSLATES the Go source of the list functions (pkg/cl/cdr.go, nthcdr.go,
  last.go, butlast.go, subseq.go, copy-list.go, cons.go, rplaca.go, … — the `Call` method, the path
  taken for list arguments) into terms of `Stmt` on every run (`Gen/ListProgs.lean`).
  `Theorems/GenC06.lean` proves, for ALL argument lists and index arguments, that each translated
  program computes the value the hand model (`SlipVerif.ListHeap`, level B) gives and has the
  sharing class level (A) gives: a fresh result, a tail of the argument, or the argument written in
  place — so the theorems are re-checked against what the code says now.

  Semantics.  A Go slice is described by its elements and by where its storage comes from
  (`Origin`): allocated by this call (`fresh`: make, a composite literal, append onto fresh storage),
  a window of the storage of argument `i` (`arg i lo toEnd`: starts `lo` elements into the argument
  and, when `toEnd`, ends where the argument ends — a tail in the Lisp sense; `toEnd = false` is a
  window whose spare capacity covers later elements of the argument), or the result of Go's `append`
  onto storage of argument `i` (`grown i`: extended in place when the capacity allows, a fresh copy
  otherwise).  Every store through a slice that is not `fresh` is recorded in `wrote` (the argument
  whose storage may have been written).  Local variables have value semantics; the translator
  guarantees that this is adequate (it reconciles local aliases and rejects what it cannot express).

  Core Lean only.
-/
namespace SlipVerif.SliceProg

abbrev Val := Int

/-- where the storage of a slice comes from -/
inductive Origin where
  | fresh
  | arg (i : Nat) (lo : Nat) (toEnd : Bool)
  | grown (i : Nat)
  deriving DecidableEq, Repr

structure Sl where
  vals : List Val
  org : Origin
  deriving DecidableEq, Repr

/-- what a variable of type slip.Object can hold in the modelled universe -/
inductive Obj where
  | nil
  | lst (s : Sl)
  | int (v : Int)
  | other
  deriving DecidableEq, Repr

/-- the list value an object denotes (nil = the empty list) -/
def Obj.vals : Obj → List Val
  | .lst s => s.vals
  | _ => []

/-- nil and lists as slices (`var l slip.List` is a nil slice: appending to it allocates) -/
def Obj.asSl : Obj → Option Sl
  | .nil => some ⟨[], .fresh⟩
  | .lst s => some s
  | _ => none

/-- the argument whose storage a slice may share -/
def Origin.argOf : Origin → List Nat
  | .fresh => []
  | .arg i _ _ => [i]
  | .grown i => [i]

inductive IExp where
  | const (c : Int)
  | ivar (k : Nat)
  | len (v : Nat)                 -- len(v) of an object variable holding a list (0 for nil)
  | argc                          -- len(args)
  | intArg (k : Nat)              -- the integer value of args[k]
  | add (a b : IExp)
  | sub (a b : IExp)
  | half (a : IExp)               -- a / 2 (Go: truncated division)
  deriving Repr

inductive BExp where
  | tt
  | lt (a b : IExp)
  | le (a b : IExp)
  | eq (a b : IExp)
  | not (a : BExp)
  | and (a b : BExp)
  | or (a b : BExp)
  | isNil (v : Nat)               -- the object variable holds nil
  | isList (v : Nat)              -- … holds a slip.List
  | isIntArg (k : Nat)            -- args[k] is an integer
  | isNilArg (k : Nat)            -- args[k] == nil
  | isTail (v : Nat) (i : IExp)   -- element i of the list in v is a slip.Tail (never: lists are proper)
  deriving Repr

inductive OExp where
  | nil
  | ovar (v : Nat)
  | arg (k : Nat)
  | slice (v : Nat) (lo hi : Option IExp)
  | make (n : IExp)
  | lit1 (e : OExp)                                   -- slip.List{e}
  | append (base ext : OExp)                          -- append(base, ext...)
  | argAt (i : IExp)                                  -- args[i]
  | argsList (lo hi : Option IExp)                    -- args[lo:hi] (the argument vector itself: storage of the call)
  | index (v : Nat) (i : IExp)
  | opaque                                            -- a value outside the modelled universe
  deriving Repr

inductive Stmt where
  | skip
  | seq (a b : Stmt)
  | assignI (k : Nat) (e : IExp)
  | assignO (v : Nat) (e : OExp)
  | ite (c : BExp) (t e : Stmt)
  | copy (dst : Nat) (src : OExp)
  | setIdx (v : Nat) (i : IExp) (e : OExp)
  | swap (v : Nat) (i j : IExp)
  | forDown (k : Nat) (init : IExp) (body : Stmt)     -- for k := init; 0 <= k; k-- { body }
  | forArgs (a : Nat) (down : Bool) (body : Stmt)     -- for _, a := range args (down: from the last to the first)
  | ret (e : OExp)
  | setPlace (e : OExp)                               -- s.Set(place, e) / placer.Place(…, e)
  | panic                                             -- a Lisp condition is signalled
  deriving Repr

inductive Halt where
  | ret (r : Obj)
  | cond        -- a condition was signalled (TypePanic, ErrorPanic)
  | fault       -- Go run-time fault (index or slice bounds out of range)
  deriving DecidableEq, Repr

structure St where
  args : List Obj
  iv : Nat → Int
  ov : Nat → Obj
  wrote : List Nat
  place : Option Obj
  halt : Option Halt

def upd {α : Type} (f : Nat → α) (k : Nat) (v : α) : Nat → α := fun j => if j = k then v else f j

@[simp] theorem upd_same {α : Type} (f : Nat → α) (k : Nat) (v : α) : upd f k v k = v := by simp [upd]
theorem upd_other {α : Type} (f : Nat → α) {k j : Nat} (v : α) (h : j ≠ k) : upd f k v j = f j := by simp [upd, h]

def evalI (s : St) : IExp → Int
  | .const c => c
  | .ivar k => s.iv k
  | .len v => ((s.ov v).vals.length : Int)
  | .argc => (s.args.length : Int)
  | .intArg k => match s.args[k]? with
      | some (.int v) => v
      | _ => 0
  | .add a b => evalI s a + evalI s b
  | .sub a b => evalI s a - evalI s b
  | .half a => Int.tdiv (evalI s a) 2

def evalB (s : St) : BExp → Bool
  | .tt => true
  | .lt a b => decide (evalI s a < evalI s b)
  | .le a b => decide (evalI s a ≤ evalI s b)
  | .eq a b => decide (evalI s a = evalI s b)
  | .not a => !(evalB s a)
  | .and a b => evalB s a && evalB s b
  | .or a b => evalB s a || evalB s b
  | .isNil v => match s.ov v with
      | .nil => true
      | _ => false
  | .isList v => match s.ov v with
      | .lst _ => true
      | _ => false
  | .isIntArg k => match s.args[k]? with
      | some (.int _) => true
      | _ => false
  | .isNilArg k => match s.args[k]? with
      | some .nil => true
      | _ => false
  | .isTail _ _ => false

/-- the origin of `s[lo:hi]` -/
def sliceOrg (o : Origin) (lo : Nat) (toEnd : Bool) : Origin :=
  match o with
  | .fresh => .fresh
  | .arg i l e => .arg i (l + lo) (e && toEnd)
  | .grown i => .grown i

/-- Go's append(base, xs...): nothing to append returns base; fresh storage stays fresh; storage of
    an argument is extended in place when its capacity allows (a possible write), copied otherwise -/
def goAppend (base : Sl) (xs : List Val) : Sl × List Nat :=
  if xs = [] then (base, [])
  else match base.org with
    | .fresh => (⟨base.vals ++ xs, .fresh⟩, [])
    | .arg i _ _ => (⟨base.vals ++ xs, .grown i⟩, [i])
    | .grown i => (⟨base.vals ++ xs, .grown i⟩, [i])

/-- the leading integer elements of a part of the argument vector (the universe has integer elements
    only: what follows the first non-integer is not represented) -/
def intsOf : List Obj → List Val
  | .int v :: rest => v :: intsOf rest
  | _ => []

/-- do all slice bounds and indices of the expression lie in range?  (`false` = Go run-time fault) -/
def okO (s : St) : OExp → Bool
  | .nil => true
  | .ovar _ => true
  | .arg k => decide (k < s.args.length)
  | .slice v lo hi =>
      match (s.ov v).asSl with
      | none => false
      | some sl =>
        let n : Int := sl.vals.length
        let l : Int := match lo with | some e => evalI s e | none => 0
        let h : Int := match hi with | some e => evalI s e | none => n
        decide (0 ≤ l ∧ l ≤ h ∧ h ≤ n)
  | .make n => decide (0 ≤ evalI s n)
  | .lit1 e => okO s e
  | .append base ext => okO s base && okO s ext
  | .argAt i => decide (0 ≤ evalI s i ∧ (evalI s i).toNat < s.args.length)
  | .argsList lo hi =>
      let n : Int := s.args.length
      let l : Int := match lo with | some e => evalI s e | none => 0
      let h : Int := match hi with | some e => evalI s e | none => n
      decide (0 ≤ l ∧ l ≤ h ∧ h ≤ n)
  | .index v i =>
      match s.ov v with
      | .lst sl => decide (0 ≤ evalI s i ∧ (evalI s i).toNat < sl.vals.length)
      | _ => false
  | .opaque => true

/-- value of an object expression and the arguments whose storage the evaluation may have written
    (total: meaningful when `okO` holds) -/
def evalO (s : St) : OExp → Obj × List Nat
  | .nil => (.nil, [])
  | .ovar v => (s.ov v, [])
  | .arg k => (s.args.getD k .nil, [])
  | .slice v lo hi =>
      match (s.ov v).asSl with
      | none => (.other, [])
      | some sl =>
        let n : Int := sl.vals.length
        let l : Int := match lo with | some e => evalI s e | none => 0
        let h : Int := match hi with | some e => evalI s e | none => n
        (.lst ⟨(sl.vals.drop l.toNat).take (h - l).toNat, sliceOrg sl.org l.toNat (decide (h = n))⟩, [])
  | .make n => (.lst ⟨List.replicate (evalI s n).toNat 0, .fresh⟩, [])
  | .lit1 e =>
      match evalO s e with
      | (.int v, w) => (.lst ⟨[v], .fresh⟩, w)
      | (_, w) => (.other, w)
  | .append base ext =>
      match evalO s base, evalO s ext with
      | (b, w1), (x, w2) =>
        match b.asSl, x.asSl with
        | some bs, some xs => (.lst (goAppend bs xs.vals).1, w1 ++ w2 ++ (goAppend bs xs.vals).2)
        | _, _ => (.other, w1 ++ w2)
  | .argAt i => (s.args.getD (evalI s i).toNat .nil, [])
  | .argsList lo hi =>
      let n : Int := s.args.length
      let l : Int := match lo with | some e => evalI s e | none => 0
      let h : Int := match hi with | some e => evalI s e | none => n
      (.lst ⟨intsOf ((s.args.drop l.toNat).take (h - l).toNat), .fresh⟩, [])
  | .index v i =>
      match s.ov v with
      | .lst sl => (.int (sl.vals.getD (evalI s i).toNat 0), [])
      | _ => (.other, [])
  | .opaque => (.other, [])

def fault (s : St) : St := { s with halt := some .fault }

/-- the loop `for k := i; 0 <= k; k-- { body }` with `n` iterations left -/
def loopDown (body : St → St) (k : Nat) : Nat → Int → St → St
  | 0, _, s => s
  | n + 1, i, s =>
    if s.halt.isSome then s
    else loopDown body k n (i - 1) (body { s with iv := upd s.iv k i })

/-- `for _, a := range xs { body }` -/
def loopArgs (body : St → St) (a : Nat) : List Obj → St → St
  | [], s => s
  | x :: rest, s =>
    if s.halt.isSome then s
    else loopArgs body a rest (body { s with ov := upd s.ov a x })

/-- copy(dst, src) on element lists -/
def copyVals (d o : List Val) : List Val := o.take d.length ++ d.drop o.length

/-- copy(dst, src), bounds already checked -/
def copyStep (dst : Nat) (src : OExp) (s : St) : St :=
  match s.ov dst with
  | .lst d =>
    { s with ov := upd s.ov dst (.lst ⟨copyVals d.vals (evalO s src).1.vals, d.org⟩),
             wrote := s.wrote ++ (evalO s src).2 ++ (if min d.vals.length (evalO s src).1.vals.length = 0 then [] else d.org.argOf) }
  | .nil => { s with wrote := s.wrote ++ (evalO s src).2 }     -- copy into a nil slice copies nothing
  | _ => fault s

/-- `v[i] = e`: is the index in range (and the stored value an integer of the universe)? -/
def setIdxOk (v : Nat) (i : IExp) (e : OExp) (s : St) : Bool :=
  match s.ov v, (evalO s e).1 with
  | .lst d, .int _ => okO s e && decide (0 ≤ evalI s i ∧ (evalI s i).toNat < d.vals.length)
  | _, _ => false

def setIdxStep (v : Nat) (i : IExp) (e : OExp) (s : St) : St :=
  match s.ov v, (evalO s e).1 with
  | .lst d, .int x =>
    { s with ov := upd s.ov v (.lst ⟨d.vals.set (evalI s i).toNat x, d.org⟩), wrote := s.wrote ++ (evalO s e).2 ++ d.org.argOf }
  | _, _ => s

/-- `v[i], v[j] = v[j], v[i]` -/
def swapOk (v : Nat) (i j : IExp) (s : St) : Bool :=
  match s.ov v with
  | .lst d => decide (0 ≤ evalI s i ∧ (evalI s i).toNat < d.vals.length ∧ 0 ≤ evalI s j ∧ (evalI s j).toNat < d.vals.length)
  | _ => false

def swapVals (l : List Val) (a b : Nat) : List Val := (l.set a (l.getD b 0)).set b (l.getD a 0)

def swapStep (v : Nat) (i j : IExp) (s : St) : St :=
  match s.ov v with
  | .lst d =>
    { s with ov := upd s.ov v (.lst ⟨swapVals d.vals (evalI s i).toNat (evalI s j).toNat, d.org⟩), wrote := s.wrote ++ d.org.argOf }
  | _ => s

def exec : Stmt → St → St
  | .skip, s => s
  | .seq a b, s =>
    let s1 := exec a s
    if s1.halt.isSome then s1 else exec b s1
  | .assignI k e, s => { s with iv := upd s.iv k (evalI s e) }
  | .assignO v e, s =>
    if okO s e then { s with ov := upd s.ov v (evalO s e).1, wrote := s.wrote ++ (evalO s e).2 }
    else fault s
  | .ite c t e, s => if evalB s c then exec t s else exec e s
  | .copy dst src, s => if okO s src then copyStep dst src s else fault s
  | .setIdx v i e, s => if setIdxOk v i e s then setIdxStep v i e s else fault s
  | .swap v i j, s => if swapOk v i j s then swapStep v i j s else fault s
  | .forDown k init body, s =>
    loopDown (exec body) k (evalI s init + 1).toNat (evalI s init) s
  | .forArgs a down body, s =>
    loopArgs (exec body) a (if down then s.args.reverse else s.args) s
  | .ret e, s =>
    if okO s e then { s with wrote := s.wrote ++ (evalO s e).2, halt := some (.ret (evalO s e).1) }
    else fault s
  | .setPlace e, s =>
    if okO s e then { s with wrote := s.wrote ++ (evalO s e).2, place := some (evalO s e).1 }
    else fault s
  | .panic, s => { s with halt := some .cond }

structure Outcome where
  res : Option Halt          -- `none`: the program ended without returning (never for translated programs)
  place : Option Obj         -- the value stored back into the place (push / pop)
  wrote : List Nat           -- arguments whose storage may have been written
  deriving DecidableEq, Repr

def init (args : List Obj) : St :=
  { args := args, iv := fun _ => 0, ov := fun _ => .nil, wrote := [], place := none, halt := none }

def run (p : Stmt) (args : List Obj) : Outcome :=
  let s := exec p (init args)
  ⟨s.halt, s.place, s.wrote⟩

/-- list argument number `i`: nil, or a slice that is the whole storage window of the argument -/
def listArg (i : Nat) (xs : List Val) (asNil : Bool) : Obj :=
  if asNil then .nil else .lst ⟨xs, .arg i 0 true⟩

/-- sharing classes of a result with respect to list argument `i` holding `xs` -/
def Obj.isFresh : Obj → Bool
  | .nil => true
  | .lst s => decide (s.org = .fresh)
  | _ => false

/-- the result is a tail of argument `i` (`xs.drop lo`, ending where the argument ends), or fresh, or nil -/
def Obj.isTailOf (i : Nat) (xs : List Val) : Obj → Bool
  | .nil => true
  | .lst s => match s.org with
      | .fresh => true
      | .arg j lo e => decide (j = i) && e && decide (s.vals = xs.drop lo)
      | .grown _ => false
  | _ => false

end SlipVerif.SliceProg
