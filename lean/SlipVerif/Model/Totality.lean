/- C09 — totality models (core Lean only; linked into the slipmodel driver).

   Three small models of code whose control flow is table driven, parametric in the tables that
   /verif/extract regenerates from the sources on every run (Gen/C09Reader.lean, Gen/C09Format.lean):

   * the reader step `switch r.mode[b]` of (*reader).read in code.go,
   * the directive prefix scanner (*control).readDir / readParam of pkg/cl/control.go,
   * the digit grouping arithmetic of (*control).dirInt (`~:D`).

   A Go fault the models can exhibit is an explicit outcome (`indexFault`, `retryLoop`,
   `outOfFuel`): the theorems in Theorems/C09.lean show these outcomes are unreachable when the
   tables satisfy a decidable condition, and Theorems/GenC09.lean decides that condition for the
   tables of the current sources. -/
namespace SlipVerif.Totality

/-! ## Reader step -/

/-- What the extractor reads off code.go. `tables` are the byte mode tables in declaration order
    (a mode is its index), codes are the byte values of the action constants. -/
structure ReaderTables where
  tables : List (List Nat)
  /-- action codes that have a clause in the switch -/
  handled : List Nat
  /-- action codes whose clause ends in `goto Retry` -/
  retry : List Nat
  /-- (code, modes assigned to r.mode somewhere in the clause); 1000 stands for r.nextMode -/
  targets : List (Nat × List Nat)
  /-- (code, mode) for clauses that end in that mode on every path -/
  uncond : List (Nat × Nat)
  /-- (code, mode) for clauses that assign r.nextMode -/
  nextAssign : List (Nat × Nat)
  /-- the mode the Read entry points start in -/
  initial : Nat
  /-- the default clause raises a parse error on every path -/
  defaultRaises : Bool

/-- the table entry for "no action": the switch falls to its default clause -/
def dot : Nat := 46
/-- stands for `r.nextMode` in `targets` / `uncond` -/
def nextMarker : Nat := 1000

/-- `r.mode[b]` — `none` is Go's index out of range panic -/
def lookup (t : ReaderTables) (mode b : Nat) : Option Nat :=
  match t.tables[mode]? with
  | some tbl => tbl[b]?
  | none => none

inductive Step where
  | indexFault
  | parseError
  | action (code : Nat)
deriving DecidableEq, Repr

/-- one evaluation of `switch r.mode[b]` -/
def classify (t : ReaderTables) (mode b : Nat) : Step :=
  match lookup t mode b with
  | none => .indexFault
  | some c => if t.handled.contains c then .action c else .parseError

structure RState where
  mode : Nat
  nextMode : Nat
deriving DecidableEq, Repr

def resolve (s : RState) (x : Nat) : Nat := if x = nextMarker then s.nextMode else x

/-- the modes the reader can be in after the clause of `code` ran in state `s`: the one mode of
    an unconditional clause, else the current mode or any mode the clause assigns -/
def succModes (t : ReaderTables) (s : RState) (code : Nat) : List Nat :=
  match t.uncond.lookup code with
  | some m => [resolve s m]
  | none => s.mode :: ((t.targets.lookup code).getD []).map (resolve s)

def succNext (t : ReaderTables) (s : RState) (code : Nat) : Nat :=
  (t.nextAssign.lookup code).getD s.nextMode

inductive R where
  | st (s : RState)
  | raise
  | indexFault
  | retryLoop
deriving DecidableEq, Repr

/-- the reader on one byte: dispatch, and dispatch again (same byte) after a `goto Retry`
    clause. `fuel` bounds the number of dispatches; running out is the outcome `retryLoop`. -/
def stepFuel (t : ReaderTables) : Nat → RState → Nat → List R
  | 0, _, _ => [.retryLoop]
  | fuel + 1, s, b =>
    match classify t s.mode b with
    | .indexFault => [.indexFault]
    | .parseError => [.raise]
    | .action c =>
      let succs := (succModes t s c).map (fun m => ({ mode := m, nextMode := succNext t s c } : RState))
      if t.retry.contains c then succs.flatMap (fun s' => stepFuel t fuel s' b)
      else succs.map R.st

/-- two dispatches per byte are what the theorems show to be enough -/
def stepByte (t : ReaderTables) (s : RState) (b : Nat) : List R := stepFuel t 2 s b

def R.isFault : R → Bool
  | .indexFault => true
  | .retryLoop => true
  | _ => false

def R.state? : R → Option RState
  | .st s => some s
  | _ => none

/-- remove duplicates (keeps the last occurrence) -/
def dedup : List RState → List RState
  | [] => []
  | x :: xs => if (dedup xs).contains x then dedup xs else x :: dedup xs

inductive Run where
  /-- every possible path raised a parse error at byte index `pos` -/
  | mustRaise (pos : Nat)
  /-- some path reaches the end of the input in one of these states -/
  | mayPass (states : List RState)
  | fault (pos : Nat)
deriving DecidableEq, Repr

/-- all bytes, tracking the set of states the reader can be in -/
def runFrom (t : ReaderTables) : List RState → Nat → List Nat → Run
  | states, _, [] => .mayPass states
  | states, pos, b :: rest =>
    let rs := states.flatMap (fun s => stepByte t s b)
    if rs.any R.isFault then .fault pos
    else
      let next := dedup (rs.filterMap R.state?)
      if next.isEmpty then .mustRaise pos else runFrom t next (pos + 1) rest

def initState (t : ReaderTables) : RState := { mode := t.initial, nextMode := t.initial }

def run (t : ReaderTables) (bytes : List Nat) : Run := runFrom t [initState t] 0 bytes

/-! ### The decidable condition on the tables -/

def validMode (t : ReaderTables) (m : Nat) : Bool := decide (m < t.tables.length)

def validTarget (t : ReaderTables) (x : Nat) : Bool := x == nextMarker || validMode t x

/-- every (mode, byte) entry exists and names a handled action or is the "no action" entry -/
def tablesTotal (t : ReaderTables) : Bool :=
  (List.range t.tables.length).all fun m =>
    (List.range 256).all fun b =>
      match lookup t m b with
      | some c => t.handled.contains c || c == dot
      | none => false

/-- every mode a clause can assign is one of the tables -/
def targetsValid (t : ReaderTables) : Bool :=
  t.targets.all (fun p => p.2.all (validTarget t)) &&
  t.uncond.all (fun p => validTarget t p.2) &&
  t.nextAssign.all (fun p => validMode t p.2) &&
  validMode t t.initial &&
  -- the marker for r.nextMode is not itself a mode
  decide (t.tables.length ≤ nextMarker)

/-- every retry clause ends in the initial mode unconditionally, and the initial mode has no
    retry action for any byte: the second dispatch of a byte is never a retry -/
def retryOK (t : ReaderTables) : Bool :=
  t.retry.all (fun c => t.uncond.lookup c == some t.initial) &&
  (List.range 256).all fun b =>
    match lookup t t.initial b with
    | some c => !t.retry.contains c
    | none => false

def ReaderOK (t : ReaderTables) : Bool :=
  tablesTotal t && targetsValid t && retryOK t && t.defaultRaises

def validState (t : ReaderTables) (s : RState) : Bool := validMode t s.mode && validMode t s.nextMode

/-! ## Format directive prefix scanner -/

structure FormatTables where
  /-- dirScanMap: 120 ('x') marks a byte that ends a parameter scan -/
  scanMap : List Nat
  directives : List Nat
  continues : List Nat
  params : List Nat
  stepBack : List Nat
  /-- characters whose clause takes exactly the next rune as a quoted character parameter -/
  quotes : List Nat
  defaultRaises : Bool

def xMark : Nat := 120

inductive ScanOut where
  /-- the switch dispatched directive byte `b`; `rest` follows it -/
  | directive (b : Nat) (rest : List Nat)
  /-- default clause: invalidDir raises -/
  | raise
  /-- the control string ended among modifiers / parameters -/
  | finished
  | outOfFuel
  | indexFault
  /-- a quoted character parameter that is not ASCII: the rune decoding is outside the model -/
  | unmodelled
deriving DecidableEq, Repr

/-- readParam: skip bytes until one is marked; `none` is `dirScanMap[b]` out of range -/
def skipParam (f : FormatTables) : List Nat → Option (List Nat)
  | [] => some []
  | b :: rest =>
    match f.scanMap[b]? with
    | none => none
    | some m => if m = xMark then some (b :: rest) else skipParam f rest

/-- the loop of readDir after the `~`; every iteration costs one unit of fuel -/
def scanDir (f : FormatTables) : Nat → List Nat → ScanOut
  | 0, _ => .outOfFuel
  | _ + 1, [] => .finished
  | fuel + 1, b :: rest =>
    if f.directives.contains b then .directive b rest
    else if f.continues.contains b then
      if f.quotes.contains b then
        -- the next rune is the parameter; at the end of the string the clause raises
        match rest with
        | [] => .raise
        | c :: rest' => if c < 128 then scanDir f fuel rest' else .unmodelled
      else if f.params.contains b then
        match skipParam f (if f.stepBack.contains b then b :: rest else rest) with
        | none => .indexFault
        | some rest' => scanDir f fuel rest'
      else scanDir f fuel rest
    else .raise

/-- the scanner applied to the text after a `~`, with the fuel the theorems show to suffice -/
def scanDirective (f : FormatTables) (s : List Nat) : ScanOut := scanDir f (s.length + 1) s

def FormatOK (f : FormatTables) : Bool :=
  decide (256 ≤ f.scanMap.length) &&
  -- a parameter that starts with its own first byte must consume it
  f.stepBack.all (fun b => decide (b < 256) && !(f.scanMap[b]? == some xMark)) &&
  -- a parameter scan stops at every directive byte
  f.directives.all (fun b => f.scanMap[b]? == some xMark) &&
  f.defaultRaises

/-! ## Digit grouping of `~:D` (dirInt) -/

/-- the loop `for ; i < len(out); i += commaint { out[prev:i] …; prev = i }` followed by
    `out[prev:]`: the list of slices `(lo, hi)` taken from `out` (n = len(out)) -/
def groupLoop (n commaint : Nat) : Nat → Nat → Nat → List (Nat × Nat)
  | 0, prev, _ => [(prev, n)]
  | fuel + 1, prev, i =>
    if i < n then (prev, i) :: groupLoop n commaint fuel i (i + commaint) else [(prev, n)]

/-- n = len(out) ≥ 1 + signLen, signLen = 1 when out[0] is '-' or '+' -/
def groupCuts (n signLen commaint : Nat) : List (Nat × Nat) :=
  let dlen := n - 1 - signLen
  groupLoop n commaint n 0 (n - dlen / commaint * commaint)

/-- the expanded text: the slices joined by the comma character -/
def groupText (out : List Char) (signLen commaint : Nat) (comma : List Char) : List Char :=
  let cuts := groupCuts out.length signLen commaint
  (cuts.map (fun c => (out.drop c.1).take (c.2 - c.1))).intersperse comma |>.flatten

end SlipVerif.Totality
