/-
  C11 — flavors: component order decides, whatever the history.

  Two layers, both core Lean only (this file is linked into the `slipmodel` driver):

  * the INCREMENTAL layer transcribes what slip does when forms are evaluated one after the other
    (pkg/flavors/flavor.go `inheritFlavor`, pkg/flavors/defflavor.go `DefFlavor`,
    pkg/generic/defmethod.go `DefClassMethod` / `insertMethod`, method.go `Method.Call` /
    `InnerCall`, whoploc.go `WhopLoc.Continue`): every flavor carries a denormalised, ordered
    table of method combinations per message, a flattened inherit list and merged slot
    (instance variable default / init keyword) tables. `defflavor` COPIES from the components'
    tables, `defmethod`/`defwhopper` SPLICE a new combination into the table of every flavor that
    already inherits from the flavor the method is defined on.

  * the SPECIFICATION layer computes the same things from the set of forms alone:
    `precR` (the flavor itself, then its components depth-first as written, first occurrence
    wins; vanilla-flavor last), `daemonR` (the method a flavor defines for a message and daemon
    kind) and `specCombosR = (flatten fl).filterMap (combination of that flavor)`.

  Theorems/C11.lean proves that the two layers agree for every valid history.

  Names: flavors, messages, slots (instance variables and init keywords share one name space)
  and method bodies are natural numbers; flavor 0 is vanilla-flavor, method id 0 is "a built-in
  vanilla-flavor method". Accessor methods (:gettable/:settable-instance-variables) are ordinary
  primary methods defined together with the flavor (the harness emits them as `defmethod` forms
  right after the `defflavor`, which is what `processFlavorOptions` does with `DefMethod`).
-/
namespace SlipVerif.Flavors

abbrev Name := Nat
abbrev Msg := Nat
abbrev Slot := Nat
abbrev Mid := Nat

/-- vanilla-flavor: inherited last by every flavor -/
def vanilla : Name := 0

inductive Kind where
  | primary | before | after | whopper
  deriving DecidableEq, Repr

/-- slip.Combination: the daemons one flavor contributes to one message -/
structure Combo where
  src : Name
  primary : Option Mid := none
  before : Option Mid := none
  after : Option Mid := none
  whopper : Option Mid := none
  deriving DecidableEq, Repr

def Combo.get (c : Combo) : Kind → Option Mid
  | .primary => c.primary
  | .before => c.before
  | .after => c.after
  | .whopper => c.whopper

def Combo.set (c : Combo) (k : Kind) (id : Mid) : Combo :=
  match k with
  | .primary => { c with primary := some id }
  | .before => { c with before := some id }
  | .after => { c with after := some id }
  | .whopper => { c with whopper := some id }

inductive Form where
  /-- `(defflavor name (slots…) (comps…))`; a slot is an instance variable or init keyword with
      an optional default -/
  | defflavor (name : Name) (comps : List Name) (slots : List (Slot × Option Int))
  /-- `(defmethod (fl kind msg) …)`, `(defwhopper (fl msg) …)` for kind = whopper -/
  | defmethod (fl : Name) (kind : Kind) (msg : Msg) (id : Mid)
  deriving DecidableEq, Repr

inductive Err where
  | undefinedFlavor   -- class-not-found / type-error: the flavor named by the form does not exist
  | alreadyDefined    -- error: Flavor … already defined
  | noMethod          -- invalid-method-error: the flavor has no method for the message
  deriving DecidableEq, Repr

/-! ## incremental layer -/

/-- all flavors at once; the fields are total functions (undefined flavors have empty entries) -/
structure State where
  defd : Name → Bool
  /-- Go `Flavor.inherit`: the flattened components, vanilla-flavor last -/
  inh : Name → List Name
  /-- Go `Flavor.methods[msg].Combinations` -/
  tab : Name → Msg → List Combo
  /-- Go `Flavor.defaultVars` / `Flavor.keywords`: `none` = not a slot of the flavor,
      `some none` = slot without default -/
  slots : Name → Slot → Option (Option Int)

/-- the flavor being built by `DefFlavor` (Go `nf`) -/
structure Acc where
  inh : List Name
  tab : Msg → List Combo
  slots : Slot → Option (Option Int)

/-- last binding of a slot in the list written in the defflavor form (Go assigns into a map) -/
def lookupSlot (l : List (Slot × Option Int)) (s : Slot) : Option (Option Int) :=
  l.foldl (fun acc p => if p.1 = s then some p.2 else acc) none

/-- the built-in methods of vanilla-flavor are primaries with method id 0 -/
def vanillaTab (vm : List Msg) (m : Msg) : List Combo :=
  if m ∈ vm then [{ src := vanilla, primary := some 0 }] else []

def init (vm : List Msg) : State where
  defd := fun n => n == vanilla
  inh := fun _ => []
  tab := fun n m => if n = vanilla then vanillaTab vm m else []
  slots := fun _ _ => none

/-- append the combinations of `other` whose flavor has no combination in `own` yet
    (`inheritFlavor`: `if !m.HasMethodFromClass(ic.From.Name())`). Combinations of vanilla-flavor
    are not taken from a component: vanilla-flavor is inherited last (see `defflavor`). -/
def mergeCombos (own other : List Combo) : List Combo :=
  other.foldl (fun acc c => if c.src = vanilla ∨ c.src ∈ acc.map (·.src) then acc else acc ++ [c]) own

/-- first supplier wins (`if _, has := obj.defaultVars[k]; !has`) -/
def mergeSlot (own other : Option (Option Int)) : Option (Option Int) :=
  match own with
  | some v => some v
  | none => other

/-- one flavor merged into the flavor being built (the body of `inheritFlavor`) -/
def addOne (st : State) (a : Acc) (f : Name) : Acc :=
  if f ∈ a.inh then a
  else
    { inh := a.inh ++ [f]
      tab := fun m => mergeCombos (a.tab m) (st.tab f m)
      slots := fun s => mergeSlot (a.slots s) (st.slots f s) }

/-- `inheritFlavor`: the component, then the flavors on its (already flat) inherit list except
    vanilla-flavor. Nothing happens when the component is already inherited. -/
def inheritFlavor (st : State) (a : Acc) (cf : Name) : Acc :=
  if cf ∈ a.inh then a
  else ((st.inh cf).filter (· ≠ vanilla)).foldl (addOne st) (addOne st a cf)

def install (st : State) (n : Name) (a : Acc) : State where
  defd := fun g => if g = n then true else st.defd g
  inh := fun g => if g = n then a.inh else st.inh g
  tab := fun g => if g = n then a.tab else st.tab g
  slots := fun g => if g = n then a.slots else st.slots g

/-- `DefFlavor`: own slots, components in the order written, vanilla-flavor last -/
def defflavor (st : State) (n : Name) (comps : List Name) (sl : List (Slot × Option Int)) : State :=
  let a0 : Acc := { inh := [], tab := fun _ => [], slots := lookupSlot sl }
  let a1 := comps.foldl (inheritFlavor st) a0
  install st n { a1 with inh := a1.inh ++ [vanilla], tab := fun m => a1.tab m ++ st.tab vanilla m }

/-- `insertMethod` (repaired): walk the precedence list of the inheriting flavor (itself, then
    its inherit list) in step with its combination list and put the new combination where the
    walk reaches the flavor the method was defined on. -/
def splice (super : Name) (c : Combo) : List Name → List Combo → List Combo
  | [], cs => c :: cs
  | f :: fs, cs =>
    if f = super then c :: cs
    else match cs with
      | [] => [c]
      | x :: xs => if x.src = f then x :: splice super c fs xs else splice super c fs (x :: xs)

/-- `DefClassMethod`. A flavor that already has a combination for the message (it is the first
    of its own table) gets the daemon stored into that combination, which is shared by pointer
    with every inheriting flavor; otherwise a new combination is put in front of the flavor's own
    table and spliced into the table of every flavor that inherits from it. -/
def defmethod (st : State) (fl : Name) (k : Kind) (msg : Msg) (id : Mid) : State :=
  if ((st.tab fl msg).head?.map (·.src)) = some fl then
    { st with tab := fun g m =>
        if m = msg then (st.tab g m).map (fun c => if c.src = fl then c.set k id else c)
        else st.tab g m }
  else
    let c : Combo := Combo.set { src := fl } k id
    { st with tab := fun g m =>
        if m = msg ∧ (g = fl ∨ fl ∈ st.inh g) then splice fl c (g :: st.inh g) (st.tab g m)
        else st.tab g m }

def step (st : State) : Form → Except Err State
  | .defflavor n cs sl =>
    if st.defd n then .error .alreadyDefined
    else if cs.all st.defd then .ok (defflavor st n cs sl)
    else .error .undefinedFlavor
  | .defmethod fl k m id =>
    if st.defd fl then .ok (defmethod st fl k m id) else .error .undefinedFlavor

/-- run the forms one after the other, starting from `st`; stops at the first rejected form -/
def runFrom (st : State) : List Form → Except Err State
  | [] => .ok st
  | f :: rest =>
    match step st f with
    | .ok st' => runFrom st' rest
    | .error e => .error e

/-- run a history (chronological order) in a fresh world that only has vanilla-flavor -/
def run (vm : List Msg) (h : List Form) : Except Err State := runFrom (init vm) h

/-! ### sending a message -/

inductive Ev where
  | whopIn (id : Mid)    -- whopper body before (continue-whopper)
  | whopOut (id : Mid)   -- whopper body after (continue-whopper) returned
  | before (id : Mid)
  | primary (id : Mid)
  | after (id : Mid)
  deriving DecidableEq, Repr

/-- `Method.InnerCall`: every :before in table order, the first primary, every :after in
    reverse table order -/
def innerCall (cs : List Combo) : List Ev :=
  (cs.filterMap (·.before)).map Ev.before
    ++ ((cs.filterMap (·.primary)).head?.toList.map Ev.primary)
    ++ ((cs.filterMap (·.after)).reverse.map Ev.after)

/-- `Method.Call` / `WhopLoc.Continue`: the first whopper at or after the current position wraps
    the rest; every whopper body calls `(continue-whopper)` exactly once -/
def callFrom (all : List Combo) : List Combo → List Ev
  | [] => innerCall all
  | c :: rest =>
    match c.whopper with
    | some w => Ev.whopIn w :: (callFrom all rest ++ [Ev.whopOut w])
    | none => callFrom all rest

def sendTrace (cs : List Combo) : List Ev := callFrom cs cs

/-- the value of the send: the value of the first primary (whoppers pass it through) -/
def sendResult (cs : List Combo) : Option Mid := (cs.filterMap (·.primary)).head?

def send (st : State) (fl : Name) (msg : Msg) : Except Err (List Ev × Option Mid) :=
  if st.defd fl = false then .error .undefinedFlavor
  else match st.tab fl msg with
    | [] => .error .noMethod
    | cs => .ok (sendTrace cs, sendResult cs)

/-! ### sending with an argument; whopper bodies that continue zero, one or several times;
    the default handler -/

/-- what a whopper body does: one entry per `(continue-whopper …)` call it makes, in the order of
    the calls; the entry is added to the argument the body received to give the argument it
    passes on. `[0]` is the body that continues once with its own argument, `[]` never continues,
    `[1, 2]` continues twice. -/
abbrev WhopBody := Mid → List Int

/-- events that also record the argument the daemon was called with -/
inductive EvA where
  | whopIn (id : Mid) (arg : Int)
  | whopOut (id : Mid) (arg : Int)
  | before (id : Mid) (arg : Int)
  | primary (id : Mid) (arg : Int)
  | after (id : Mid) (arg : Int)
  deriving DecidableEq, Repr

def EvA.erase : EvA → Ev
  | .whopIn id _ => .whopIn id
  | .whopOut id _ => .whopOut id
  | .before id _ => .before id
  | .primary id _ => .primary id
  | .after id _ => .after id

/-- the value of a send -/
inductive Res where
  | none                              -- no primary ran (nil)
  | primary (id : Mid) (arg : Int)    -- the value of primary `id` called with `arg`
  | whopper (id : Mid)                -- the own value of a whopper body that never continued
  deriving DecidableEq, Repr

/-- `Method.InnerCall` with the arguments it was given -/
def innerCallA (cs : List Combo) (a : Int) : List EvA :=
  (cs.filterMap (·.before)).map (EvA.before · a)
    ++ ((cs.filterMap (·.primary)).head?.toList.map (EvA.primary · a))
    ++ ((cs.filterMap (·.after)).reverse.map (EvA.after · a))

def innerResA (cs : List Combo) (a : Int) : Res :=
  match (cs.filterMap (·.primary)).head? with
  | some p => .primary p a
  | none => .none

/-- `Method.Call` / `WhopLoc.Continue`: the first whopper at or after the current position runs;
    every `(continue-whopper x)` of its body starts again behind that whopper (the location is
    not advanced by a continue, so a second continue runs the same rest a second time) -/
def callFromA (wb : WhopBody) (all : List Combo) : List Combo → Int → List EvA
  | [], a => innerCallA all a
  | c :: rest, a =>
    match c.whopper with
    | some w =>
      EvA.whopIn w a :: ((wb w).flatMap (fun d => callFromA wb all rest (a + d)) ++ [EvA.whopOut w a])
    | none => callFromA wb all rest a

/-- the value: a whopper body returns what its last `(continue-whopper …)` returned -/
def resFromA (wb : WhopBody) (all : List Combo) : List Combo → Int → Res
  | [], a => innerResA all a
  | c :: rest, a =>
    match c.whopper with
    | some w =>
      match (wb w).getLast? with
      | some d => resFromA wb all rest (a + d)
      | none => .whopper w
    | none => resFromA wb all rest a

/-- the slot that holds a flavor's `:default-handler` (inherited like every slot: the first
    flavor in precedence order that declares one supplies it) -/
def handlerSlot : Slot := 20

inductive Outcome where
  | ran (trace : List EvA) (value : Res)
  | handled (handler : Int)           -- no method: the default handler got the message
  | noMethod                          -- no method and no default handler: invalid-method-error
  | undefinedFlavor
  deriving DecidableEq, Repr

/-- `Instance.Receive`: `(send inst msg a)` -/
def sendA (wb : WhopBody) (st : State) (fl : Name) (msg : Msg) (a : Int) : Outcome :=
  if st.defd fl = false then .undefinedFlavor
  else match st.tab fl msg with
    | [] =>
      match st.slots fl handlerSlot with
      | some (some hd) => .handled hd
      | _ => .noMethod
    | cs => .ran (callFromA wb cs cs a) (resFromA wb cs cs a)

/-! ## specification layer (functions of the forms; histories newest first) -/

/-- keep the first occurrence of every name -/
def dedup : List Name → List Name
  | [] => []
  | x :: xs => x :: (dedup xs).filter (· ≠ x)

/-- names of the flavors defined by the forms -/
def definedR : List Form → List Name
  | [] => []
  | .defflavor n _ _ :: older => n :: definedR older
  | .defmethod .. :: older => definedR older

/-- precedence without vanilla-flavor: the flavor itself, then its components depth-first as
    written, first occurrence wins. (Components are defined by older forms.) -/
def precR : List Form → Name → List Name
  | [], _ => []
  | .defflavor n cs _ :: older, fl =>
    if fl = n then n :: dedup (cs.flatMap (fun c => precR older c)) else precR older fl
  | .defmethod .. :: older, fl => precR older fl

/-- the full precedence list: vanilla-flavor last -/
def flattenR (h : List Form) (fl : Name) : List Name := precR h fl ++ [vanilla]

/-- the method flavor `g` itself defines for (kind, msg): the newest such form -/
def daemonR : List Form → Name → Kind → Msg → Option Mid
  | [], _, _, _ => none
  | .defmethod fl k m id :: older, g, k', m' =>
    if fl = g ∧ k = k' ∧ m = m' then some id else daemonR older g k' m'
  | .defflavor .. :: older, g, k', m' => daemonR older g k' m'

/-- the slot `g` itself declares -/
def ownSlotR : List Form → Name → Slot → Option (Option Int)
  | [], _, _ => none
  | .defflavor n _ sl :: older, g, s => if g = n then lookupSlot sl s else ownSlotR older g s
  | .defmethod .. :: older, g, s => ownSlotR older g s

/-- the combination flavor `g` contributes to message `m`, if it defines any daemon for it -/
def comboR (vm : List Msg) (h : List Form) (m : Msg) (g : Name) : Option Combo :=
  if g = vanilla then (vanillaTab vm m).head?
  else
    let c : Combo := { src := g, primary := daemonR h g .primary m, before := daemonR h g .before m,
                       after := daemonR h g .after m, whopper := daemonR h g .whopper m }
    if c.primary = none ∧ c.before = none ∧ c.after = none ∧ c.whopper = none then none else some c

/-- `specCombos fl msg = (flatten fl).filter hasDaemon`, each entry carrying its daemons -/
def specCombosR (vm : List Msg) (h : List Form) (fl : Name) (m : Msg) : List Combo :=
  (flattenR h fl).filterMap (comboR vm h m)

/-- slot value: the first flavor in precedence order that declares the slot supplies it -/
def specSlotR (h : List Form) (fl : Name) (s : Slot) : Option (Option Int) :=
  (precR h fl).findSome? (fun g => ownSlotR h g s)

/-- validity of a history (newest first): fresh flavor names, components defined before users,
    methods on defined flavors, vanilla-flavor neither redefined, named as a component nor given
    methods -/
def validR : List Form → Bool
  | [] => true
  | .defflavor n cs _ :: older =>
    validR older && decide (n ≠ vanilla) && decide (n ∉ definedR older)
      && cs.all (fun c => decide (c ≠ vanilla) && decide (c ∈ definedR older))
  | .defmethod fl _ _ _ :: older =>
    validR older && decide (fl ≠ vanilla) && decide (fl ∈ definedR older)

/-- the daemon of kind `k` flavor `g` supplies for message `m`; vanilla-flavor supplies its
    built-in primaries (method id 0) -/
def daemonVR (vm : List Msg) (h : List Form) (m : Msg) (k : Kind) (g : Name) : Option Mid :=
  if g = vanilla then (if k = .primary ∧ m ∈ vm then some 0 else none) else daemonR h g k m

/-- all daemons of kind `k` for message `m` an instance of `fl` has, in precedence order -/
def daemonsR (vm : List Msg) (h : List Form) (fl : Name) (m : Msg) (k : Kind) : List Mid :=
  (flattenR h fl).filterMap (daemonVR vm h m k)

/-- the order the property demands: whoppers outermost first, every :before in precedence order,
    the first primary, every :after in reverse precedence order, the whoppers unwinding -/
def specTraceR (vm : List Msg) (h : List Form) (fl : Name) (m : Msg) : List Ev :=
  (daemonsR vm h fl m .whopper).map Ev.whopIn
    ++ (daemonsR vm h fl m .before).map Ev.before
    ++ ((daemonsR vm h fl m .primary).head?.toList.map Ev.primary)
    ++ ((daemonsR vm h fl m .after).reverse.map Ev.after)
    ++ ((daemonsR vm h fl m .whopper).reverse.map Ev.whopOut)

/-- whoppers wrapped around an inner call: outermost first; every continue of a body runs the
    remaining whoppers and the inner call once more, with the argument the body passes on -/
def wrapA (wb : WhopBody) (inner : Int → List EvA) : List Mid → Int → List EvA
  | [], a => inner a
  | w :: ws, a =>
    EvA.whopIn w a :: ((wb w).flatMap (fun d => wrapA wb inner ws (a + d)) ++ [EvA.whopOut w a])

def wrapRes (wb : WhopBody) (inner : Int → Res) : List Mid → Int → Res
  | [], a => inner a
  | w :: ws, a =>
    match (wb w).getLast? with
    | some d => wrapRes wb inner ws (a + d)
    | none => .whopper w

/-- the daemons inside the whoppers, in the order the property demands, called with `a` -/
def specInnerAR (vm : List Msg) (h : List Form) (fl : Name) (m : Msg) (a : Int) : List EvA :=
  (daemonsR vm h fl m .before).map (EvA.before · a)
    ++ ((daemonsR vm h fl m .primary).head?.toList.map (EvA.primary · a))
    ++ ((daemonsR vm h fl m .after).reverse.map (EvA.after · a))

def specInnerResR (vm : List Msg) (h : List Form) (fl : Name) (m : Msg) (a : Int) : Res :=
  match (daemonsR vm h fl m .primary).head? with
  | some p => .primary p a
  | none => .none

def specTraceAR (wb : WhopBody) (vm : List Msg) (h : List Form) (fl : Name) (m : Msg) (a : Int) : List EvA :=
  wrapA wb (specInnerAR vm h fl m) (daemonsR vm h fl m .whopper) a

def specResAR (wb : WhopBody) (vm : List Msg) (h : List Form) (fl : Name) (m : Msg) (a : Int) : Res :=
  wrapRes wb (specInnerResR vm h fl m) (daemonsR vm h fl m .whopper) a

/-- the (flavor, kind, message) keys of the method forms -/
def methodKeysR : List Form → List (Name × Kind × Msg)
  | [] => []
  | .defmethod fl k m _ :: older => (fl, k, m) :: methodKeysR older
  | .defflavor .. :: older => methodKeysR older

/-- the chronological-order versions used in the theorem statements -/
def defined (h : List Form) : List Name := definedR h.reverse
def valid (h : List Form) : Bool := validR h.reverse
/-- precedence without vanilla-flavor -/
def prec (h : List Form) (fl : Name) : List Name := precR h.reverse fl
/-- precedence: the flavor, its components depth-first as written (first occurrence wins),
    vanilla-flavor last -/
def flatten (h : List Form) (fl : Name) : List Name := flattenR h.reverse fl
def methodKeys (h : List Form) : List (Name × Kind × Msg) := methodKeysR h.reverse
def daemon (h : List Form) (g : Name) (k : Kind) (m : Msg) : Option Mid := daemonR h.reverse g k m
def specCombos (vm : List Msg) (h : List Form) (fl : Name) (m : Msg) : List Combo :=
  specCombosR vm h.reverse fl m
def specSlot (h : List Form) (fl : Name) (s : Slot) : Option (Option Int) := specSlotR h.reverse fl s
def ownSlot (h : List Form) (g : Name) (s : Slot) : Option (Option Int) := ownSlotR h.reverse g s
def daemons (vm : List Msg) (h : List Form) (fl : Name) (m : Msg) (k : Kind) : List Mid :=
  daemonsR vm h.reverse fl m k
def specTrace (vm : List Msg) (h : List Form) (fl : Name) (m : Msg) : List Ev := specTraceR vm h.reverse fl m

def specTraceA (wb : WhopBody) (vm : List Msg) (h : List Form) (fl : Name) (m : Msg) (a : Int) : List EvA :=
  specTraceAR wb vm h.reverse fl m a
def specResA (wb : WhopBody) (vm : List Msg) (h : List Form) (fl : Name) (m : Msg) (a : Int) : Res :=
  specResAR wb vm h.reverse fl m a

end SlipVerif.Flavors
