/-
  C18 — several bags on one tree.

  A bag instance holds a Go value (`Instance.Any`).  `(bag-get b path t)`, `:get-all`, `bag-walk`
  with as-bag, `bag-scan` and `(bag-set outer inner-bag path)` hand out / store the *same* Go map
  or slice, so several bags can look at one tree.  The model: a heap of trees (`trees`) and bags as
  views `(root, path)` into one of them; a read through a bag is a read of the subtree its view
  selects, a write through a bag is a write at the absolute location in the root tree.

  The heap picture and Go agree as long as nothing detaches a view: Go slices are (pointer,
  length) *values*, so changing the length of an array that a bag holds directly, or replacing a
  subtree another bag sits in, leaves that bag with the old storage.  `clear` states the domain;
  operations outside it answer `unsafe` (the harness never performs them).

  Core Lean only (linked into the `slipmodel` driver).
-/
import SlipVerif.Model.Json

namespace SlipVerif.Json
open J

/-- a bag as a view: which tree, and where in it (keys and non-negative indices only) -/
structure View where
  root : Nat
  path : Path
  deriving Repr, Inhabited

structure Heap where
  trees : List J := []
  views : List View := []
  deriving Inhabited

inductive AErr where
  | noBag            -- unknown bag handle
  | dangling         -- the view selects nothing (excluded by `clear`; a machinery error if seen)
  | absent           -- child: the path selects nothing or null: the implementation returns nil, no bag
  | outside          -- the operation is outside the domain in which Go sharing is heap sharing
  | path (e : Err)   -- the path operation itself is rejected
  deriving Repr

def isPrefix : Path → Path → Bool
  | [], _ => true
  | _ :: _, [] => false
  | a :: p, b :: q => decide (a = b) && isPrefix p q

/-- a step that names one child whatever the tree looks like -/
def plainStep : Step → Bool
  | .key _ => true
  | .idx i => decide (0 ≤ i)
  | _ => false

def plain (p : Path) : Bool := p.all plainStep

namespace Heap

/-- the tree a view shows -/
def tree (h : Heap) (v : View) : Option J := (h.trees[v.root]?).bind (get v.path)

/-- the tree a bag (by handle) shows -/
def bagTree (h : Heap) (b : Nat) : Option J := (h.views[b]?).bind h.tree

/-- a new bag with a tree of its own (`make-bag`, a parse) -/
def newBag (h : Heap) (j : J) : Heap :=
  { trees := h.trees ++ [j], views := h.views ++ [⟨h.trees.length, []⟩] }

/-- no bag sits at or below the location `abs` of tree `root` -/
def clear (h : Heap) (root : Nat) (abs : Path) : Bool :=
  h.views.all (fun u => u.root != root || !isPrefix abs u.path)

/-- `(bag-get b p t)`, an element of `:get-all`, the argument of a `bag-walk` function, a node of
    `bag-scan`: a new bag on the node the path selects. A container is shared, a scalar is a value. -/
def child (h : Heap) (b : Nat) (p : Path) : Except AErr Heap :=
  match h.views[b]? with
  | none => .error .noBag
  | some v =>
    if !plain p then .error .outside else
    match h.tree v with
    | none => .error .dangling
    | some t =>
      match get p t with
      | none => .error .absent
      | some .null => .error .absent
      | some c =>
        if c.isContainer then .ok { h with views := h.views ++ [⟨v.root, v.path ++ p⟩] }
        else .ok (h.newBag c)

/-- `bag-set` through bag `b` at the relative path `p` -/
def setVia (h : Heap) (b : Nat) (p : Path) (x : J) : Except AErr Heap :=
  match h.views[b]? with
  | none => .error .noBag
  | some v =>
    if p.isEmpty || !plain p || !h.clear v.root (v.path ++ p) then .error .outside else
    match h.trees[v.root]? with
    | none => .error .dangling
    | some t =>
      match set x (v.path ++ p) t with
      | .ok t' => .ok { h with trees := h.trees.set v.root t' }
      | .error e => .error (.path e)

/-- is a remove through view `v` at `p` inside the domain: a member of an object, or an element of
    an array that is reached through its parent and that nobody holds (the length of a Go slice is
    part of the holder) -/
def removeOk (h : Heap) (v : View) (p : Path) : Bool :=
  match splitLast p with
  | none => false
  | some (_, .key _) => plain p && h.clear v.root (v.path ++ p)
  | some (pre, _) => plain p && !pre.isEmpty && h.clear v.root (v.path ++ pre)

/-- `bag-remove` through bag `b` -/
def removeVia (h : Heap) (b : Nat) (p : Path) : Except AErr Heap :=
  match h.views[b]? with
  | none => .error .noBag
  | some v =>
    if !h.removeOk v p then .error .outside else
    match h.trees[v.root]? with
    | none => .error .dangling
    | some t =>
      match remove (v.path ++ p) t with
      | .ok t' => .ok { h with trees := h.trees.set v.root t' }
      | .error e => .error (.path e)

/-- `(bag-set outer inner p)` with a bag as the value: the tree of `inner` (a bag that owns its
    tree) becomes part of `outer`'s tree, and every bag that looked at it now looks into `outer`. -/
def storeBag (h : Heap) (outer : Nat) (p : Path) (inner : Nat) : Except AErr Heap :=
  match h.views[outer]?, h.views[inner]? with
  | some vo, some vi =>
    if p.isEmpty || !plain p || !vi.path.isEmpty || vi.root == vo.root
        || !h.clear vo.root (vo.path ++ p) then .error .outside else
    match h.trees[vo.root]?, h.trees[vi.root]? with
    | some t, some ti =>
      match set ti (vo.path ++ p) t with
      | .ok t' =>
        let views := if ti.isContainer
          then h.views.map (fun u => if u.root == vi.root then ⟨vo.root, vo.path ++ p ++ u.path⟩ else u)
          else h.views
        .ok { trees := h.trees.set vo.root t', views := views }
      | .error e => .error (.path e)
    | _, _ => .error .dangling
  | _, _ => .error .noBag

/-- a parse / read / set without a path: the bag gets a tree of its own; bags that shared the old
    one keep it -/
def resetBag (h : Heap) (b : Nat) (j : J) : Except AErr Heap :=
  match h.views[b]? with
  | none => .error .noBag
  | some _ => .ok { trees := h.trees ++ [j], views := h.views.set b ⟨h.trees.length, []⟩ }

end Heap

end SlipVerif.Json
