/-
  C19 — definitions and data saved as source code reload to an equal world.

  Data layer.  `Obj` is a slip data object of the modelled kinds (numbers, strings, characters,
  symbols, conses/lists, vectors, arrays, hash tables).  Code is data: a load form is again an
  `Obj` (a list whose head is a symbol).  `loadForm` is the constructor form slip builds for an
  object (`LoadForm()` in list.go, array.go, hash-table.go, symbol/number/string: themselves),
  `eval` is a small evaluator of exactly the construction forms `loadForm` can emit
  (quote / list / cons / append / make-array with :initial-contents / the hash table fill
  `(let ((table (make-hash-table))) (setf (gethash k table) v) … table)`).

  Snapshot layer.  A definition (flavor, class, package) is a `Node` = its name and the *set of
  everything it inherits* (slip keeps the flattened list: Flavor.inherit, Class precedence,
  Package.Uses closure).  `snapshotOrder` is the order in which the snapshot must write
  definitions: ascending by (number of inherited definitions, name).  `insertionSortBy` is the
  algorithm sort.Slice runs on fewer than 12 elements, parameterised by the comparator, so that
  the comparator the unrepaired snapshot used ("b inherits a") can be executed on a witness.

  Core Lean only (this file is linked into the `slipmodel` driver).
-/
namespace SlipVerif.LoadForm

/-- slip data objects; lists are cons chains (a proper list ends in `nil`), as the reader builds
    them: `(a b . c)` is `cons a (cons b c)`. -/
inductive Obj where
  | nil
  | t
  | int (i : Int)                    -- fixnum or bignum, by value
  | ratio (num : Int) (den : Nat)
  | flt (fmt : Nat) (bits : Nat)     -- IEEE bits, opaque: self-evaluating
  | str (s : String)
  | chr (code : Nat)
  | sym (name : String)              -- includes keywords (name starts with ':')
  | cons (a d : Obj)
  | vec (adj : Bool) (elems : Obj)   -- elems: proper list; adj: adjustable
  | arr (adj : Bool) (dims : Obj) (contents : Obj) -- dims: proper list of ints, contents: nested lists
  | hash (entries : Obj)             -- proper list of (key . value) conses, keys distinct
  deriving DecidableEq, Repr, Inhabited

namespace Obj

def S (s : String) : Obj := .sym s

/-- `(f a)` -/
def call1 (f : String) (a : Obj) : Obj := .cons (S f) (.cons a .nil)
/-- `(f a b)` -/
def call2 (f : String) (a b : Obj) : Obj := .cons (S f) (.cons a (.cons b .nil))

def quoteF (x : Obj) : Obj := call1 "quote" x

/-- number of conses of a chain -/
def len : Obj → Nat
  | .cons _ d => len d + 1
  | _ => 0

/-- the terminator of a chain (`nil` for a proper list) -/
def tailOf : Obj → Obj
  | .cons _ d => tailOf d
  | x => x

def isProper (x : Obj) : Bool := tailOf x == .nil

def isCons : Obj → Bool
  | .cons _ _ => true
  | _ => false

def ofBool (b : Bool) : Obj := if b then .t else .nil

/-- `(make-array 'dims :element-type t :initial-contents 'contents :adjustable adj)`; make-array
    makes adjustable arrays unless told otherwise, so the flag is always written -/
def makeArrayF (dims contents : Obj) (adj : Bool) : Obj :=
  .cons (S "make-array") (.cons (quoteF dims) (.cons (S ":element-type") (.cons .t
    (.cons (S ":initial-contents") (.cons (quoteF contents)
      (.cons (S ":adjustable") (.cons (ofBool adj) .nil)))))))

/-- `(setf (gethash k table) v)` -/
def setfF (k v : Obj) : Obj := call2 "setf" (call2 "gethash" k (S "table")) v

/-- the bindings of the hash table construction form: `((table (make-hash-table)))` -/
def tableBindings : Obj := .cons (call1 "table" (.cons (S "make-hash-table") .nil)) .nil

/-- `(let ((table (make-hash-table))) fills… table)` -/
def letTableF (fills : Obj) : Obj := .cons (S "let") (.cons tableBindings fills)

end Obj

open Obj

/-- keywords evaluate to themselves -/
def isKeyword (s : String) : Bool := s.toList.head? == some ':'

/-! ### the load form -/

mutual
  /-- the construction form slip builds for a data object -/
  def loadForm : Obj → Obj
    | .nil => .nil
    | .t => .t
    | .int i => .int i
    | .ratio n d => .ratio n d
    | .flt f b => .flt f b
    | .str s => .str s
    | .chr c => .chr c
    | .sym s => if isKeyword s then .sym s else quoteF (.sym s)
    | .cons a d =>
      if isProper d then .cons (S "list") (.cons (loadForm a) (lfElems d))
      else if isCons d then
        call2 "append" (.cons (S "list") (.cons (loadForm a) (lfInit d))) (lfLast d)
      else call2 "cons" (loadForm a) (loadForm d)
    | .vec adj es => makeArrayF (.cons (.int (len es)) .nil) es adj
    | .arr adj dims c => makeArrayF dims c adj
    | .hash es => letTableF (lfFills es)
  /-- load forms of the elements of a chain -/
  def lfElems : Obj → Obj
    | .cons a d => .cons (loadForm a) (lfElems d)
    | _ => .nil
  /-- load forms of all elements but the last of a dotted chain -/
  def lfInit : Obj → Obj
    | .cons a d => if isCons d then .cons (loadForm a) (lfInit d) else .nil
    | _ => .nil
  /-- `(cons last tail)` of a dotted chain -/
  def lfLast : Obj → Obj
    | .cons a d => if isCons d then lfLast d else call2 "cons" (loadForm a) (loadForm d)
    | _ => .nil
  /-- the `(setf (gethash k table) v)` forms followed by the final `table` -/
  def lfFills : Obj → Obj
    | .cons (.cons k v) r => .cons (setfF (loadForm k) (loadForm v)) (lfFills r)
    | _ => .cons (S "table") .nil
end

/-! ### the evaluator of construction forms -/

inductive Err where
  | unbound        -- a symbol evaluated as a variable (unbound-variable)
  | undefined      -- a form this evaluator does not know (undefined-function / malformed)
  | typeErr        -- wrong kind of argument (append of a non-list, bad dimensions)
  deriving DecidableEq, Repr

/-- `hput k v es`: replace the value of key `k` or append a new entry at the end -/
def hput (k v : Obj) : Obj → Obj
  | .cons (.cons k' v') r => if k' = k then .cons (.cons k v) r else .cons (.cons k' v') (hput k v r)
  | _ => .cons (.cons k v) .nil

/-- `append` of a proper chain and anything -/
def appendChain : Obj → Obj → Except Err Obj
  | .cons a d, y => (appendChain d y).map (.cons a)
  | .nil, y => .ok y
  | _, _ => .error .typeErr

/-- the dimensions as naturals, if `dims` is a proper list of non-negative integers -/
def dimsOf : Obj → Option (List Nat)
  | .nil => some []
  | .cons (.int i) d => if 0 ≤ i then (dimsOf d).map (i.toNat :: ·) else none
  | _ => none

/-- every element of a chain satisfies p -/
def allElems (p : Obj → Bool) : Obj → Bool
  | .cons a d => p a && allElems p d
  | _ => true

/-- `contents` is a nested proper list of exactly the shape `dims` -/
def shapeOk : List Nat → Obj → Bool
  | [], _ => true
  | n :: rest, c => isProper c && len c == n && allElems (fun e => shapeOk rest e) c

/-- `(make-array 'dims :element-type t :initial-contents 'contents)`: one dimension gives a vector -/
def makeArray (dims contents : Obj) (adj : Bool) : Except Err Obj :=
  match dimsOf dims with
  | none => .error .typeErr
  | some ds =>
    if shapeOk ds contents then
      (if ds.length = 1 then .ok (.vec adj contents) else .ok (.arr adj dims contents))
    else .error .typeErr

/-- the operand of `(quote x)` -/
def quoteArg : Obj → Except Err Obj
  | .cons x .nil => .ok x
  | _ => .error .undefined

def toBool : Obj → Option Bool
  | .t => some true
  | .nil => some false
  | _ => none

/-- the operands of `(make-array 'dims :element-type t :initial-contents 'contents :adjustable adj)` -/
def makeArrayArgs : Obj → Option (Obj × Obj × Obj)
  | .cons (.cons (.sym "quote") (.cons dims .nil)) (.cons (.sym ":element-type") (.cons .t
      (.cons (.sym ":initial-contents") (.cons (.cons (.sym "quote") (.cons c .nil))
        (.cons (.sym ":adjustable") (.cons a .nil)))))) =>
    some (dims, c, a)
  | _ => none

mutual
  def eval : Obj → Except Err Obj
    | .nil => .ok .nil
    | .t => .ok .t
    | .int i => .ok (.int i)
    | .ratio n d => .ok (.ratio n d)
    | .flt f b => .ok (.flt f b)
    | .str s => .ok (.str s)
    | .chr c => .ok (.chr c)
    | .vec a es => .ok (.vec a es)
    | .arr a d c => .ok (.arr a d c)
    | .hash es => .ok (.hash es)
    | .sym s => if isKeyword s then .ok (.sym s) else .error .unbound
    | .cons (.sym f) args =>
      if f = "quote" then quoteArg args
      else if f = "list" then evalArgs args
      else if f = "cons" then evalTwo args >>= fun (x, y) => .ok (.cons x y)
      else if f = "append" then evalTwo args >>= fun (x, y) => appendChain x y
      else if f = "make-array" then
        match makeArrayArgs args with
        | some (dims, c, a) =>
          match toBool a with
          | some adj => makeArray dims c adj
          | none => .error .typeErr
        | none => .error .undefined
      else if f = "let" then evalLet args
      else .error .undefined
    | .cons _ _ => .error .undefined
  /-- evaluate the elements of an argument list, left to right -/
  def evalArgs : Obj → Except Err Obj
    | .cons a d => eval a >>= fun x => evalArgs d >>= fun r => .ok (.cons x r)
    | .nil => .ok .nil
    | _ => .error .undefined
  /-- exactly two operands, evaluated left to right -/
  def evalTwo : Obj → Except Err (Obj × Obj)
    | .cons a (.cons b .nil) => eval a >>= fun x => eval b >>= fun y => .ok (x, y)
    | _ => .error .undefined
  /-- `(let ((table (make-hash-table))) fills… table)` -/
  def evalLet : Obj → Except Err Obj
    | .cons b fills => if b = tableBindings then evalFills fills .nil else .error .undefined
    | _ => .error .undefined
  /-- run the `(setf (gethash k table) v)` forms on the table built so far; the last form must be
      the variable `table` -/
  def evalFills : Obj → Obj → Except Err Obj
    | .cons (.sym "table") .nil, acc => .ok (.hash acc)
    | .cons (.cons (.sym "setf") (.cons (.cons (.sym "gethash") (.cons k (.cons (.sym "table") .nil)))
        (.cons v .nil))) r, acc =>
      eval k >>= fun k' => eval v >>= fun v' => evalFills r (hput k' v' acc)
    | _, _ => .error .undefined
end

/-! ### well-formed data objects (what the reader / constructors of slip can produce) -/

/-- the keys of an entry list -/
def keysOf : Obj → List Obj
  | .cons (.cons k _) r => k :: keysOf r
  | _ => []

def entriesShape : Obj → Bool
  | .cons (.cons _ _) r => entriesShape r
  | .nil => true
  | _ => false

mutual
  def wf : Obj → Bool
    | .cons a d => wf a && wf d
    | .vec _ es => isProper es
    | .arr _ dims c =>
      match dimsOf dims with
      | some ds => ds.length != 1 && shapeOk ds c
      | none => false
    | .hash es => entriesShape es && wfEntries es && decide ((keysOf es).Nodup)
    | _ => true
  def wfEntries : Obj → Bool
    | .cons (.cons k v) r => wf k && wf v && wfEntries r
    | _ => true
end

/-! ### snapshot order -/

structure Node where
  name : String
  inherits : List String     -- everything the definition inherits, transitively, no duplicates
  deriving DecidableEq, Repr

/-- snapshot key: fewer inherited definitions first, then by name -/
def keyLe (a b : Node) : Bool :=
  a.inherits.length < b.inherits.length ||
    (a.inherits.length == b.inherits.length && decide (a.name ≤ b.name))

def insertBy (le : Node → Node → Bool) (x : Node) : List Node → List Node
  | [] => [x]
  | y :: ys => if le x y then x :: y :: ys else y :: insertBy le x ys

def sortBy (le : Node → Node → Bool) : List Node → List Node
  | [] => []
  | x :: xs => insertBy le x (sortBy le xs)

/-- the order of definitions in a snapshot -/
def snapshotOrder (ns : List Node) : List Node := sortBy keyLe ns

/-- every definition occurs after everything it inherits (restricted to what is in the list) -/
def topoOk (ns : List Node) : Bool :=
  let rec go (seen : List String) (all : List String) : List Node → Bool
    | [] => true
    | n :: rest => n.inherits.all (fun i => !all.contains i || seen.contains i) && go (n.name :: seen) all rest
  go [] (ns.map (·.name)) ns

/-- loading flavor definitions in the given order: defflavor demands that every inherited flavor
    is already defined (`defined` = names defined so far); the result is the names in the order
    they were defined, or the first flavor that could not be defined -/
def loadFlavors : List Node → List String → Except String (List String)
  | [], defined => .ok defined
  | n :: rest, defined =>
    if n.inherits.all (fun i => defined.contains i) then loadFlavors rest (defined ++ [n.name])
    else .error n.name

/-- Go's `insertionSortLessFunc` (what sort.Slice runs for n < 12): for i = 1..n-1, swap element
    j with j-1 while `less j (j-1)`.  `sinkLeft less x revPrefix` inserts x into the already
    processed prefix (held reversed, nearest neighbour first). -/
def sinkLeft (less : Node → Node → Bool) (x : Node) : List Node → List Node
  | [] => [x]
  | y :: ys => if less x y then y :: sinkLeft less x ys else x :: y :: ys

def goInsertionSort (less : Node → Node → Bool) (xs : List Node) : List Node :=
  (xs.foldl (fun revPrefix x => sinkLeft less x revPrefix) []).reverse

/-- the comparator of the unrepaired snapshot: `less a b := b inherits a` -/
def inheritsLess (a b : Node) : Bool := b.inherits.contains a.name

/-- the transitive inheritance sets of a history of definitions with *direct* components, each
    naming only earlier definitions (as defflavor/defclass/defpackage demand): own components
    first, then what they inherit, without duplicates — how slip flattens. -/
def addUnique (acc : List String) (x : String) : List String := if acc.contains x then acc else acc ++ [x]

/-- one component `d` of a new definition: `d` itself, then everything `d` inherits -/
def inhStep (done : List Node) (acc : List String) (d : String) : List String :=
  match done.find? (·.name == d) with
  | some n => n.inherits.foldl addUnique (addUnique acc d)
  | none => acc

def closeHistory : List (String × List String) → List Node → List Node
  | [], done => done
  | (name, direct) :: rest, done =>
    closeHistory rest (done ++ [{ name := name, inherits := direct.foldl (inhStep done) [] }])


/-! ### instances: slot states and the operations of an instance load form -/

/-- the state of one slot of an instance -/
inductive Slot where
  | unbound
  | bound (v : Obj)
  deriving DecidableEq, Repr

/-- one operation of an instance load form: `(setf (slot-value inst 's) form)` or
    `(slot-makunbound inst 's)` -/
inductive SlotOp where
  | set (form : Obj)
  | makunbound
  deriving DecidableEq, Repr

def lookupS {α : Type} (k : String) : List (String × α) → Option α
  | [] => none
  | (k', x) :: rest => if k' = k then some x else lookupS k rest

/-- the operation the load form needs for a slot in state `st` when make-instance leaves the slot
    in state `fresh` (the default of the class, or unbound): a bound slot — nil included — is set
    to the load form of its value whatever the default is; an unbound slot must be made unbound
    when the class gives it a default -/
def slotOpFor (fresh : Option Slot) : Slot → Option SlotOp
  | .bound v => some (.set (loadForm v))
  | .unbound =>
    match fresh with
    | some (.bound _) => some .makunbound
    | _ => none

/-- the load form of an instance: for every slot the operation it needs (possibly none) -/
def instanceLoadOps (fresh slots : List (String × Slot)) : List (String × Option SlotOp) :=
  slots.map fun (s, st) => (s, slotOpFor (lookupS s fresh) st)

/-- the variant that leaves out slots holding nil (as if a fresh instance had nil there) -/
def instanceLoadOpsSkipNil (fresh slots : List (String × Slot)) : List (String × Option SlotOp) :=
  slots.map fun (s, st) => (s, if st = .bound .nil then none else slotOpFor (lookupS s fresh) st)

def opOf (ops : List (String × Option SlotOp)) (s : String) : Option SlotOp :=
  match lookupS s ops with
  | some o => o
  | none => none

/-- the effect of the operations on one slot of a fresh instance -/
def rebuildSlot (init : Slot) : Option SlotOp → Except Err Slot
  | none => .ok init
  | some .makunbound => .ok .unbound
  | some (.set form) => (eval form).map .bound

/-- evaluate an instance load form on a fresh instance -/
def rebuildInstance (fresh : List (String × Slot)) (ops : List (String × Option SlotOp)) :
    Except Err (List (String × Slot)) :=
  fresh.mapM fun (s, init) => (rebuildSlot init (opOf ops s)).map fun st => (s, st)

/-! ### flavors: effective defaults and the instance variables of a flavor load form -/

/-- a defined flavor: everything it inherits in precedence order (flattened) and its EFFECTIVE
    default of every instance variable (own declarations and inherited ones) -/
structure Flav where
  name : String
  inherits : List String
  defaults : List (String × Obj)
  deriving DecidableEq, Repr

def findFlav (w : List Flav) (n : String) : Option Flav := w.find? (·.name == n)

/-- add the entries of `more` whose variable is not yet present (Flavor.inheritFlavor) -/
def mergeMissing (acc : List (String × Obj)) : List (String × Obj) → List (String × Obj)
  | [] => acc
  | (v, d) :: rest =>
    match lookupS v acc with
    | some _ => mergeMissing acc rest
    | none => mergeMissing (acc ++ [(v, d)]) rest

/-- the defaults of the inherited flavor `n` (none when it is not defined) -/
def flavDefaults (w : List Flav) (n : String) : List (String × Obj) :=
  match findFlav w n with
  | some f => f.defaults
  | none => []

/-- effective defaults of a flavor declared with `own` that inherits `inh` (precedence order) -/
def effective (w : List Flav) (own : List (String × Obj)) (inh : List String) : List (String × Obj) :=
  inh.foldl (fun acc n => mergeMissing acc (flavDefaults w n)) own

/-- what inheritance alone gives for a variable: the default of the FIRST inherited flavor, in
    precedence order, that has the variable -/
def inheritedDefault (w : List Flav) : List String → String → Option Obj
  | [], _ => none
  | n :: rest, v =>
    match lookupS v (flavDefaults w n) with
    | some d => some d
    | none => inheritedDefault w rest v

/-- the instance variables written in the load form of a flavor: the entries of its effective
    defaults that differ from what inheritance alone would give -/
def flavorLoadVars (w : List Flav) (f : Flav) : List (String × Obj) :=
  f.defaults.filter fun (v, d) => inheritedDefault w f.inherits v != some d

/-- the variant "some inherited flavor has an equal default" -/
def anyAncestorEqual (w : List Flav) (inh : List String) (v : String) (d : Obj) : Bool :=
  inh.any fun n => lookupS v (flavDefaults w n) == some d

def flavorLoadVarsAny (w : List Flav) (f : Flav) : List (String × Obj) :=
  f.defaults.filter fun (v, d) => !anyAncestorEqual w f.inherits v d

/-- defflavor: flatten the direct components (the component, then what it inherits) and compute
    the effective defaults -/
def flattenFlavs (w : List Flav) (direct : List String) : List String :=
  direct.foldl (fun acc d =>
    match findFlav w d with
    | some f => f.inherits.foldl addUnique (addUnique acc d)
    | none => acc) []

def defFlavor (w : List Flav) (name : String) (own : List (String × Obj)) (direct : List String) : Flav :=
  let inh := flattenFlavs w direct
  { name := name, inherits := inh, defaults := effective w own inh }

/-- a session of defflavor forms -/
def defFlavors : List (String × List (String × Obj) × List String) → List Flav → List Flav
  | [], w => w
  | (name, own, direct) :: rest, w => defFlavors rest (w ++ [defFlavor w name own direct])

/-- reload: every flavor defined again, in the order of the world, from its load form (instance
    variables = `vars o f`, computed in the original world `o` of the flavors before `f`;
    components = the flattened inherit list). `w` is the world rebuilt so far. -/
def reloadFlavors (vars : List Flav → Flav → List (String × Obj)) :
    List Flav → List Flav → List Flav → List Flav
  | _, w, [] => w
  | o, w, f :: rest =>
    reloadFlavors vars (o ++ [f])
      (w ++ [{ name := f.name, inherits := f.inherits, defaults := effective w (vars o f) f.inherits }]) rest

/-! ## the accessor and init options of a flavor (round 4)

`:gettable-instance-variables`, `:settable-instance-variables` and `:inittable-instance-variables`
are each absent, bare (= EVERY variable the flavor has when it is defined, inherited ones included)
or a list of variables. A load form may abbreviate a selection to the bare option; it has to decide
that per option, against all the variables of the flavor. -/

inductive Sel where
  | absent
  | bare
  | listed (names : List String)
  deriving DecidableEq, Repr

/-- what defflavor makes of an option for a flavor with the variables `vars` -/
def Sel.names (vars : List String) : Sel → List String
  | .absent => []
  | .bare => vars
  | .listed ns => vars.filter (fun v => ns.contains v)

/-- how a load form writes the selection `sel`, judged against `count` variables (the repaired
    Flavor.LoadForm: `count` = number of all variables of the flavor) -/
def writeSelBy (count : Nat) (sel : List String) : Sel :=
  if sel.isEmpty then .absent else if sel.length == count then .bare else .listed sel

def writeSel (vars sel : List String) : Sel := writeSelBy vars.length sel

/-- the three options of a flavor -/
structure FlavOpts where
  gets : List String
  sets : List String
  inits : List String
  deriving DecidableEq, Repr

/-- the options after defining the flavor again from a load form that writes them with `w` -/
def reloadOpts (w : FlavOpts → List String → Sel) (vars : List String) (o : FlavOpts) : FlavOpts :=
  { gets := (w o o.gets).names vars, sets := (w o o.sets).names vars, inits := (w o o.inits).names vars }

/-- the seeded rule (copy of the gettable block): every option is abbreviated when the GETTABLE
    selection is complete -/
def writeSelGetsRule (vars : List String) (o : FlavOpts) (sel : List String) : Sel :=
  if sel.isEmpty then .absent else if o.gets.length == vars.length then .bare else .listed sel

end SlipVerif.LoadForm
