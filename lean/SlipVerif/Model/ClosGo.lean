import SlipVerif.Model.Clos
/-
  C12 — the target language of the Go → Lean translator `extract/closcode.go`.

  `Gen/ClosCode.lean` is produced on every run from the *current* text of pkg/clos/standard-class.go,
  standard-object.go, defclass.go, shared-initialize.go …: each translated Go function becomes a
  Lean definition built from the combinators below, statement by statement (assignments become
  `let s := { s with f := … }`, `for … range` becomes `forRange`, `for { }` becomes `forEver` with
  fuel, `if` / `continue` / `break` / `return` become `Ctl` outcomes sequenced with `Ctl.seq`).
  `Theorems/GenC12.lean` proves that the translated definitions compute what the hand model
  (`Model/Clos.lean`) says.  Core Lean only.

  Representation of the Go data (the trusted part of the translation, see notes/C12.md):
  * a class object (`*StandardClass`, `slip.Class`) is referred to by its *name*; `nil` is a name
    with no class in the heap; a field read through a pointer reads the object registered under
    that name (`Heap.inheritOf`, `Heap.precOf` …, total with empty defaults);
  * the package's class table is a `Heap` = list of class objects in *some* order (Go map order:
    the theorems hold for every order);
  * Go maps keyed by slot / initarg names are association lists (`AList`), `m[k] = v` replaces or
    appends, iteration is in list order (theorems about lookups do not depend on it);
  * symbols on a precedence list are `Sym` (a class name, `standard-object` or `t`).
-/
namespace SlipVerif.ClosGo
open SlipVerif.Clos

/-! ## control -/

/-- the outcome of a (block of) Go statement(s) run in state `s` -/
inductive Ctl (σ ρ : Type) where
  | next (s : σ)          -- fell through to the next statement
  | cont (s : σ)          -- `continue`
  | brk (s : σ)           -- `break`
  | ret (s : σ) (r : ρ)   -- `return r`

/-- `a; rest` -/
def Ctl.seq {σ ρ : Type} (c : Ctl σ ρ) (k : σ → Ctl σ ρ) : Ctl σ ρ :=
  match c with
  | .next s => k s
  | o => o

/-- `for _, x := range xs { body }` -/
def forRange {α σ ρ : Type} (xs : List α) (body : α → σ → Ctl σ ρ) (s : σ) : Ctl σ ρ :=
  match xs with
  | [] => .next s
  | x :: xs =>
    match body x s with
    | .next s' => forRange xs body s'
    | .cont s' => forRange xs body s'
    | .brk s' => .next s'
    | .ret s' r => .ret s' r

/-- `for { body }` with explicit fuel (number of iterations allowed) -/
def forEver {σ ρ : Type} (fuel : Nat) (body : σ → Ctl σ ρ) (s : σ) : Ctl σ ρ :=
  match fuel with
  | 0 => .next s
  | n + 1 =>
    match body s with
    | .next s' => forEver n body s'
    | .cont s' => forEver n body s'
    | .brk s' => .next s'
    | .ret s' r => .ret s' r

/-- the state a function call leaves behind -/
def Ctl.state {σ ρ : Type} : Ctl σ ρ → σ
  | .next s => s
  | .cont s => s
  | .brk s => s
  | .ret s _ => s

/-- the value a function call returns (`d` when it falls off its end) -/
def Ctl.value {σ ρ : Type} (d : ρ) : Ctl σ ρ → ρ
  | .ret _ r => r
  | _ => d

/-! ## data -/

/-- a symbol on a precedence list -/
inductive Sym where
  | cls (n : Name)
  | standardObject
  | t
deriving DecidableEq, Repr

/-- Go map with string keys: association list, first entry for a key counts -/
abbrev AList (β : Type) := List (Name × β)

def AList.get? {β : Type} : AList β → Name → Option β
  | [], _ => none
  | (k, v) :: r, x => if k = x then some v else AList.get? r x

/-- `m[k] = v` -/
def AList.set {β : Type} : AList β → Name → β → AList β
  | [], x, v => [(x, v)]
  | (k, w) :: r, x, v => if k = x then (k, v) :: r else (k, w) :: AList.set r x v

def AList.has {β : Type} (m : AList β) (x : Name) : Bool := (m.get? x).isSome

/-- a slot definition as the Go code sees it (`*SlotDef`) -/
structure GSlot where
  name : Name
  initargs : List Name
  initform : Option Val        -- `none` = slip.Unbound
  classStore : Bool := false
deriving DecidableEq, Repr

/-- `*StandardClass` (the fields the translated functions touch) -/
structure GClass where
  name : Name
  supers : List Name
  slotDefs : AList GSlot := []                -- map[string]*SlotDef
  baseClass : Option Sym := some .standardObject
  inherit : List Name := []                   -- []slip.Class, by name
  precedence : List Sym := []                 -- []slip.Symbol
  initArgs : AList (List GSlot) := []         -- map[string][]*SlotDef
  initForms : AList GSlot := []               -- map[string]*SlotDef
  defaultInitArgs : AList Val := []           -- map[string]slip.Object (forms, written as their values)
deriving Repr

/-- `*StandardObject`: the instance's own slots (`none` = slip.Unbound); its class object
    (`obj.Type`) is a context parameter of the translated methods -/
structure GObj where
  vars : AList (Option Val) := []
deriving Repr

/-- the Lisp object nil as a slot value (the harness writes it -1) -/
def nilVal : Val := -1

/-- the class table of the package, in some order -/
abbrev Heap := List GClass

def Heap.get? : Heap → Name → Option GClass
  | [], _ => none
  | g :: h, c => if g.name = c then some g else Heap.get? h c

/-- dereference of a class pointer (an empty class of that name when there is none) -/
def Heap.getD (h : Heap) (c : Name) : GClass :=
  match h.get? c with
  | some g => g
  | none => { name := c, supers := [] }

/-- `x == nil` for a class pointer -/
def Heap.isNil (h : Heap) (c : Name) : Bool := (h.get? c).isNone

def Heap.inheritOf (h : Heap) (c : Name) : List Name :=
  match h.get? c with
  | some g => g.inherit
  | none => []

def Heap.precOf (h : Heap) (c : Name) : List Sym :=
  match h.get? c with
  | some g => g.precedence
  | none => []

def Heap.slotDefsOf (h : Heap) (c : Name) : AList GSlot :=
  match h.get? c with
  | some g => g.slotDefs
  | none => []

/-- replace the object registered under the name of `g` (a method with a pointer receiver that
    lives in the table has mutated it) -/
def Heap.put : Heap → GClass → Heap
  | [], _ => []
  | g :: h, g' => if g.name = g'.name then g' :: h else g :: Heap.put h g'

/-- `slip.RegisterClass(name, c)`: replace or add -/
def Heap.register : Heap → GClass → Heap
  | [], g' => [g']
  | g :: h, g' => if g.name = g'.name then g' :: h else g :: Heap.register h g'

/-- `p.AllClasses()` -/
def Heap.allClasses (h : Heap) : List Name := h.map (·.name)

end SlipVerif.ClosGo
