import SlipVerif.Model.JsonText
/-
  C18 — the two data bridges.

  * bag ⇄ native Lisp: `toLisp` is what `bag-native` / `bag-get` build from a bag's tree
    (`slip.SimpleObject`), `ofLisp` is what `make-bag` / `bag-set` build from a Lisp value
    (`bag.ObjectToBag`).  The mapping is documented as lossy: Lisp has no boolean false and no
    empty-container values, so `false`, `[]`, `{}` all arrive as `nil`, which comes back as `null`.
  * plain Go values ⇄ Lisp objects: `simpleObject` (`slip.SimpleObject`) and `simplify`
    (`Object.Simplify`).

  Core Lean only.
-/
namespace SlipVerif.Json

open J

/-- the Lisp objects the bridges produce -/
inductive L where
  | nil
  | t
  | int (i : Int)            -- fixnum or bignum
  | oct (n : Nat)            -- octet
  | sflo (tok : String)      -- single-float (opaque token of its exact value)
  | dflo (tok : String)      -- double-float
  | str (s : String)
  | sym (s : String)
  | time (tok : String)
  | list (xs : List L)
  | tail (v : L)             -- the cdr of a dotted pair: ("k" . v) is `list [str k, tail v]`
  deriving Repr, Inhabited

inductive LErr where
  | assocItem      -- an element of an assoc list is not a pair
  | assocKey       -- the car of an assoc pair is neither a string nor a symbol
  | unsupported    -- a value a bag cannot hold (in this model: a bare tail)
  deriving DecidableEq, Repr

namespace L
mutual
def beq : L → L → Bool
  | nil, nil => true
  | t, t => true
  | int a, int b => a == b
  | oct a, oct b => a == b
  | sflo a, sflo b => a == b
  | dflo a, dflo b => a == b
  | str a, str b => a == b
  | sym a, sym b => a == b
  | time a, time b => a == b
  | list a, list b => beqL a b
  | tail a, tail b => beq a b
  | _, _ => false
def beqL : List L → List L → Bool
  | [], [] => true
  | x :: xs, y :: ys => beq x y && beqL xs ys
  | _, _ => false
end
end L

/-! ### bag → native (`slip.SimpleObject` on a bag tree) -/

mutual
def toLisp : J → L
  | null => .nil
  | .bool true => .t
  | .bool false => .nil
  | int i => .int i
  | flo t => .dflo t
  | str s => .str s
  | .time t => .time t
  | arr xs => .list (toLispL xs)
  | obj kvs => .list (toLispM kvs)
def toLispL : List J → List L
  | [] => []
  | x :: xs => toLisp x :: toLispL xs
def toLispM : Members → List L
  | [] => []
  | (k, v) :: kvs => .list [.str k, .tail (toLisp v)] :: toLispM kvs
end

/-! ### plain Go values -/

inductive G where
  | nil
  | bool (b : Bool)
  | int (bits : Nat) (v : Int)     -- int8 / int16 / int32 / int64 / int
  | uint (bits : Nat) (v : Nat)    -- uint8 / uint16 / uint32 / uint64 / uint
  | f32 (tok : String)
  | f64 (tok : String)
  | str (s : String)
  | time (tok : String)
  | slice (xs : List G)
  | map (kvs : List (String × G))
  deriving Repr, Inhabited

namespace G
mutual
def beq : G → G → Bool
  | nil, nil => true
  | bool a, bool b => a == b
  | int w a, int w' b => w == w' && a == b
  | uint w a, uint w' b => w == w' && a == b
  | f32 a, f32 b => a == b
  | f64 a, f64 b => a == b
  | str a, str b => a == b
  | time a, time b => a == b
  | slice a, slice b => beqL a b
  | map a, map b => beqM a b
  | _, _ => false
def beqL : List G → List G → Bool
  | [], [] => true
  | x :: xs, y :: ys => beq x y && beqL xs ys
  | _, _ => false
def beqM : List (String × G) → List (String × G) → Bool
  | [], [] => true
  | (k, x) :: xs, (l, y) :: ys => k == l && beq x y && beqM xs ys
  | _, _ => false
end
end G

mutual
/-- `slip.SimpleObject`: an integer keeps its value whatever its Go width -/
def simpleObject : G → L
  | .nil => .nil
  | .bool true => .t
  | .bool false => .nil
  | .int _ v => .int v
  | .uint bits v => if bits = 8 then .oct v else .int v
  | .f32 t => .sflo t
  | .f64 t => .dflo t
  | .str s => .str s
  | .time t => .time t
  | .slice xs => .list (simpleObjectL xs)
  | .map kvs => .list (simpleObjectM kvs)
def simpleObjectL : List G → List L
  | [] => []
  | x :: xs => simpleObject x :: simpleObjectL xs
def simpleObjectM : List (String × G) → List L
  | [] => []
  | (k, v) :: kvs => .list [.str k, .tail (simpleObject v)] :: simpleObjectM kvs
end

def fitsInt64 (i : Int) : Bool := decide (-9223372036854775808 ≤ i) && decide (i ≤ 9223372036854775807)

mutual
/-- `Object.Simplify`: integers become int64 (a bignum outside int64 becomes its decimal text),
    floats float64, a list a slice; a dotted pair is a two element list, so it becomes a slice. -/
def simplify : L → G
  | .nil => .nil
  | .t => .bool true
  | .int i => if fitsInt64 i then .int 64 i else .str (String.ofList (intChars i))
  | .oct n => .int 64 n
  | .sflo t => .f64 t
  | .dflo t => .f64 t
  | .str s => .str s
  | .sym s => .str s
  | .time t => .time t
  | .list xs => .slice (simplifyL xs)
  | .tail v => simplify v
def simplifyL : List L → List G
  | [] => []
  | x :: xs => simplify x :: simplifyL xs
end

mutual
/-- the same data after the documented widening (every integer an int64, every float a float64) -/
def widen : G → G
  | .int _ v => .int 64 v
  | .uint _ v => .int 64 v
  | .f32 t => .f64 t
  | .slice xs => .slice (widenL xs)
  | g => g
def widenL : List G → List G
  | [] => []
  | x :: xs => widen x :: widenL xs
end

mutual
/-- the plain values that come back as the same data: no `false`, no map (an assoc list
    simplifies to a list of pairs), integers inside int64 -/
def GFaithful : G → Bool
  | .nil => true
  | .bool b => b
  | .int _ v => fitsInt64 v
  | .uint _ v => fitsInt64 v
  | .f32 _ => true
  | .f64 _ => true
  | .str _ => true
  | .time _ => true
  | .slice xs => GFaithfulL xs
  | .map _ => false
def GFaithfulL : List G → Bool
  | [] => true
  | x :: xs => GFaithful x && GFaithfulL xs
end

/-! ### plain Go data into a bag: `bag.ObjectToBag (slip.SimpleObject v)` -/

mutual
/-- the bag tree that holds the same data as a plain Go value (every integer by its value, both
    float widths a float, a string-keyed map an object) -/
def gToJ : G → J
  | .nil => null
  | .bool b => J.bool b
  | .int _ v => int v
  | .uint _ v => int v
  | .f32 t => flo t
  | .f64 t => flo t
  | .str s => str s
  | .time t => J.time t
  | .slice xs => arr (gToJL xs)
  | .map kvs => obj (gToJM kvs)
def gToJL : List G → List J
  | [] => []
  | x :: xs => gToJ x :: gToJL xs
def gToJM : List (String × G) → Members
  | [] => []
  | (k, v) :: kvs => (k, gToJ v) :: gToJM kvs
end

mutual
/-- the plain values that reach a bag unchanged: no `false`, no empty slice or map (Lisp has
    neither), map keys unique (a Go map has no others) -/
def GBag : G → Bool
  | .bool b => b
  | .slice [] => false
  | .slice (x :: xs) => GBag x && GBagL xs
  | .map [] => false
  | .map ((k, v) :: kvs) => GBag v && GBagM kvs && distinctKeys (k :: kvs.map (·.1))
  | _ => true
def GBagL : List G → Bool
  | [] => true
  | x :: xs => GBag x && GBagL xs
def GBagM : List (String × G) → Bool
  | [] => true
  | (_, v) :: kvs => GBag v && GBagM kvs
end

/-! ### native → bag (`bag.ObjectToBag`) -/

def lower (s : String) : String := String.ofList (s.toList.map Char.toLower)

/-- is the element a dotted pair `(a . b)`: a two element list whose second element is a tail -/
def isPair : L → Bool
  | .list [_, .tail _] => true
  | _ => false

mutual
def ofLisp : L → Except LErr J
  | .nil => .ok null
  | .t => .ok (.bool true)
  | .int i => .ok (int i)
  | .oct n => .ok (int n)
  | .sflo t => .ok (flo t)
  | .dflo t => .ok (flo t)
  | .str s => .ok (str s)
  | .sym s => if lower s = ":false" then .ok (.bool false) else .ok (str s)
  | .time t => .ok (.time t)
  | .tail v => .ok (gToJ (simplify v))   -- a tail that is not the cdr of an assoc pair: its value's own Simplify
  | .list [] => .ok null
  | .list (x :: xs) =>
      if isPair x then do
        let kvs ← ofLispA (x :: xs)
        .ok (obj (mkMembers kvs))
      else do
        let ys ← ofLispL (x :: xs)
        .ok (arr ys)
def ofLispL : List L → Except LErr (List J)
  | [] => .ok []
  | x :: xs => do
      let y ← ofLisp x
      let ys ← ofLispL xs
      .ok (y :: ys)
/-- the elements of an assoc list: every element must be a two element list with a string or
    symbol first; a tail as the second element stands for its value -/
def ofLispA : List L → Except LErr Members
  | [] => .ok []
  | .list [k, c] :: rest => do
      let key ← (match k with
        | .str s => .ok s
        | .sym s => .ok s
        | _ => .error .assocKey : Except LErr String)
      let v ← (match c with
        | .tail v => ofLisp v
        | c => ofLisp c)
      let kvs ← ofLispA rest
      .ok ((key, v) :: kvs)
  | _ :: _ => .error .assocItem
end

/-! ### the guard of the native round trip -/

mutual
/-- no `false`, no empty array, no empty object anywhere (root included), object keys unique -/
def Faithful : J → Bool
  | null => true
  | .bool b => b
  | int _ => true
  | flo _ => true
  | str _ => true
  | .time _ => true
  | arr [] => false
  | arr (x :: xs) => Faithful x && FaithfulL xs
  | obj [] => false
  | obj ((k, v) :: kvs) => Faithful v && FaithfulM kvs && distinctKeys (k :: keys kvs)
def FaithfulL : List J → Bool
  | [] => true
  | x :: xs => Faithful x && FaithfulL xs
def FaithfulM : Members → Bool
  | [] => true
  | (_, v) :: kvs => Faithful v && FaithfulM kvs
end

end SlipVerif.Json
