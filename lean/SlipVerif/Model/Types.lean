import SlipVerif.Gen.Hierarchies
/-
  C16 — type membership. Two tables regenerated from the sources on every run
  (`Gen/Hierarchies.lean`): the literal returned by each `Hierarchy()` method of the root package
  (what `typep`/`type-of` consult, pkg/cl/typep.go, type-of.go) and the built-in class table of
  pkg/clos/built-in.go (what `subtypep` consults through `Class.Inherits`).

  All functions take the tables as arguments; `Theorems/GenC16.lean` states the coherence
  obligations over the regenerated tables.

  Core Lean only (linked into the `slipmodel` driver).
-/
namespace SlipVerif.Types

abbrev HierTable := List (String × List String)   -- (Go receiver, Hierarchy() literal)
abbrev ClassTable := List (String × String)        -- (class, direct superclass or "")

/-- the Hierarchy() literal whose first symbol (the `type-of`) is `ty` -/
def hierOf (tbl : HierTable) (ty : String) : Option (List String) :=
  (tbl.find? (fun e => e.2.head? == some ty)).map (·.2)

/-- `(typep x σ)` for an object whose `type-of` is `ty` -/
def typep (tbl : HierTable) (ty σ : String) : Bool :=
  match hierOf tbl ty with
  | some h => h.contains σ
  | none => false

def registered (cls : ClassTable) (c : String) : Bool := (cls.lookup c).isSome

/-- the class and its superclasses, following `inherit` (`buildPrecedence` without the final `t`) -/
def supers (cls : ClassTable) : Nat → String → List String
  | 0, _ => []
  | fuel + 1, c =>
    match cls.lookup c with
    | none => []
    | some s => if s = "" then [c] else c :: supers cls fuel s

def precedence (cls : ClassTable) (c : String) : List String := supers cls cls.length c

/-- `(subtypep a b)` on class names: both registered and `a` is `b` or inherits from it -/
def subtypep (cls : ClassTable) (a b : String) : Bool :=
  registered cls a && registered cls b && (precedence cls a).contains b

def classNames (cls : ClassTable) : List String := cls.map (·.1)

/-- `l` is a (not necessarily contiguous) sublist of `m` -/
def isSublist : List String → List String → Bool
  | [], _ => true
  | _ :: _, [] => false
  | a :: l, b :: m => if a = b then isSublist l m else isSublist (a :: l) m

/-- the part of a hierarchy literal from `s` on -/
def fromSym (s : String) : List String → List String
  | [] => []
  | a :: l => if a = s then a :: l else fromSym s l

/-- every listed supertype that has a literal of its own: that literal is an order-compatible
    sublist of the rest of the list -/
def closedEntry (tbl : HierTable) (h : List String) : Bool :=
  h.all (fun s => tbl.all (fun e => !(e.2.head? == some s) || isSublist e.2 (fromSym s h)))

/-- two literals with the same first symbol are the same list (so `hierOf` loses nothing) -/
def headDetermines (tbl : HierTable) : Bool :=
  tbl.all (fun e => tbl.all (fun e' => !(e.2.head? == e'.2.head?) || e.2 == e'.2))

/-- result types `coerce` may produce for a target type (coerce.go:63-165, the modelled targets):
    the `type-of` symbols of the objects the per-target converters construct. -/
def coerceResults : List (String × List String) := [
  ("list", ["list", "cons"]),
  ("string", ["string"]),
  ("vector", ["vector", "string", "octets", "bit-vector"]),
  ("character", ["character"]),
  ("integer", ["fixnum", "bignum", "octet", "signed-byte", "unsigned-byte", "bit"]),
  ("fixnum", ["fixnum"]),
  ("octet", ["octet"]),
  ("octets", ["octets"]),
  ("bignum", ["bignum"]),
  ("float", ["single-float", "double-float", "long-float"]),
  ("single-float", ["single-float"]),
  ("double-float", ["double-float"]),
  ("long-float", ["long-float"]),
  ("rational", ["fixnum", "bignum", "ratio", "octet", "signed-byte", "unsigned-byte", "bit"]),
  ("ratio", ["ratio"]),
  ("complex", ["complex"]),
  ("symbol", ["symbol"]),
  ("hash-table", ["hash-table"]),
  ("bit-vector", ["bit-vector"]),
  ("signed-byte", ["signed-byte", "unsigned-byte", "bit"]),
  ("unsigned-byte", ["unsigned-byte", "bit"]),
  ("bit", ["bit"])
]

def coerceAllowed (target : String) : Option (List String) := coerceResults.lookup target

/-! ### compound type specifiers (the List branch of coerce.go:63-165 and of subtypep's designatedType) -/

inductive Bound where
  | star
  | val (v : Rat)
  deriving DecidableEq, Repr

/-- compound specifiers `coerce` accepts: `(integer lo hi)` … for the numeric heads, `(vector elem n)`,
    `(bit-vector n)`, `(signed-byte n)`, `(unsigned-byte n)`; `atom` is a plain type symbol -/
inductive Spec where
  | atom (name : String)
  | range (head : String) (lo hi : Bound)
  | vector (elem : Option String) (n : Option Nat)
  | sized (head : String) (n : Option Nat)
  deriving DecidableEq, Repr

def Spec.head : Spec → String
  | .atom n => n
  | .range h _ _ => h
  | .vector _ _ => "vector"
  | .sized h _ => h

/-- what the property can observe of an object: its `type-of`, its exact value when it is a real
    number, its length when it is a sequence -/
structure Obs where
  ty : String
  val : Option Rat
  len : Option Nat
  deriving DecidableEq, Repr

def loOK : Bound → Rat → Bool
  | .star, _ => true
  | .val b, v => decide (b ≤ v)

def hiOK : Bound → Rat → Bool
  | .star, _ => true
  | .val b, v => decide (v ≤ b)

def lenOK : Option Nat → Option Nat → Bool
  | none, _ => true
  | some n, some l => n == l
  | some _, none => false

/-- the size restriction of `(signed-byte n)` / `(unsigned-byte n)` as coerce.go applies it:
    magnitude below 2^n (and not negative for unsigned-byte) -/
def bitsOK (head : String) : Option Nat → Option Rat → Bool
  | none, _ => true
  | some _, none => false
  | some n, some v =>
    if head = "unsigned-byte" then decide (0 ≤ v) && decide (v < (2 ^ n : Nat))
    else decide (-((2 ^ n : Nat) : Rat) < v) && decide (v < (2 ^ n : Nat))

/-- the object belongs to the type the specifier denotes -/
def member (tbl : HierTable) (o : Obs) : Spec → Bool
  | .atom n => typep tbl o.ty n
  | .range h lo hi =>
    typep tbl o.ty h && (match o.val with
      | some v => loOK lo v && hiOK hi v
      | none => false)
  | .vector _ n => typep tbl o.ty "vector" && lenOK n o.len
  | .sized h n =>
    typep tbl o.ty h && (if h = "bit-vector" then lenOK n o.len else bitsOK h n o.val)

/-- `coerce` to a compound specifier: convert to the head type (the result `r` of the atomic
    conversion), then the restriction of the specifier is checked; nothing else changes. -/
def coerceSpec (tbl : HierTable) (s : Spec) (r : Obs) : Option Obs :=
  if member tbl r s then some r else none

/-- `subtypep` on two-element specifiers `(base elem)`, e.g. `(vector fixnum)` (subtypep.go) -/
structure TSpec where
  base : String
  elem : Option String
  deriving DecidableEq, Repr

def specSub (cls : ClassTable) (s t : TSpec) : Bool :=
  subtypep cls s.base t.base &&
  match t.elem with
  | none => true
  | some eb =>
    match s.elem with
    | none => false
    | some ea => subtypep cls ea eb

def specRegistered (cls : ClassTable) (s : TSpec) : Bool :=
  registered cls s.base && (match s.elem with | none => true | some e => registered cls e)

end SlipVerif.Types
