import SlipVerif.Gen.Hierarchies
/-
  C16 — type membership. Two tables regenerated from the sources on every run
  (`Gen/Hierarchies.lean`): the literal returned by each `Hierarchy()` method of the root package
  (what `typep`/`type-of` consult, pkg/cl/typep.go, type-of.go) and the built-in class table of
  pkg/clos/built-in.go (what `subtypep` consults through `Class.Inherits`).

  All functions take the tables as arguments; `Theorems/GenC16.lean` states the coherence
  obligations over the regenerated tables.

  Core Lean only (linked into the `slipmodel` driver).
-/
namespace SlipVerif.Types

abbrev HierTable := List (String × List String)   -- (Go receiver, Hierarchy() literal)
abbrev ClassTable := List (String × String)        -- (class, direct superclass or "")

/-- the Hierarchy() literal whose first symbol (the `type-of`) is `ty` -/
def hierOf (tbl : HierTable) (ty : String) : Option (List String) :=
  (tbl.find? (fun e => e.2.head? == some ty)).map (·.2)

/-- `(typep x σ)` for an object whose `type-of` is `ty` -/
def typep (tbl : HierTable) (ty σ : String) : Bool :=
  match hierOf tbl ty with
  | some h => h.contains σ
  | none => false

def registered (cls : ClassTable) (c : String) : Bool := (cls.lookup c).isSome

/-- the class and its superclasses, following `inherit` (`buildPrecedence` without the final `t`) -/
def supers (cls : ClassTable) : Nat → String → List String
  | 0, _ => []
  | fuel + 1, c =>
    match cls.lookup c with
    | none => []
    | some s => if s = "" then [c] else c :: supers cls fuel s

def precedence (cls : ClassTable) (c : String) : List String := supers cls cls.length c

/-- `(subtypep a b)` on class names: both registered and `a` is `b` or inherits from it -/
def subtypep (cls : ClassTable) (a b : String) : Bool :=
  registered cls a && registered cls b && (precedence cls a).contains b

def classNames (cls : ClassTable) : List String := cls.map (·.1)

/-- `l` is a (not necessarily contiguous) sublist of `m` -/
def isSublist : List String → List String → Bool
  | [], _ => true
  | _ :: _, [] => false
  | a :: l, b :: m => if a = b then isSublist l m else isSublist (a :: l) m

/-- the part of a hierarchy literal from `s` on -/
def fromSym (s : String) : List String → List String
  | [] => []
  | a :: l => if a = s then a :: l else fromSym s l

/-- every listed supertype that has a literal of its own: that literal is an order-compatible
    sublist of the rest of the list -/
def closedEntry (tbl : HierTable) (h : List String) : Bool :=
  h.all (fun s => tbl.all (fun e => !(e.2.head? == some s) || isSublist e.2 (fromSym s h)))

/-- two literals with the same first symbol are the same list (so `hierOf` loses nothing) -/
def headDetermines (tbl : HierTable) : Bool :=
  tbl.all (fun e => tbl.all (fun e' => !(e.2.head? == e'.2.head?) || e.2 == e'.2))

/-- result types `coerce` may produce for a target type (coerce.go:63-165, the modelled targets):
    the `type-of` symbols of the objects the per-target converters construct. -/
def coerceResults : List (String × List String) := [
  ("list", ["list", "cons"]),
  ("string", ["string"]),
  ("vector", ["vector", "string", "octets", "bit-vector"]),
  ("character", ["character"]),
  ("integer", ["fixnum", "bignum", "octet", "signed-byte", "unsigned-byte", "bit"]),
  ("fixnum", ["fixnum"]),
  ("octet", ["octet"]),
  ("octets", ["octets"]),
  ("bignum", ["bignum"]),
  ("float", ["single-float", "double-float", "long-float"]),
  ("single-float", ["single-float"]),
  ("double-float", ["double-float"]),
  ("long-float", ["long-float"]),
  ("rational", ["fixnum", "bignum", "ratio", "octet", "signed-byte", "unsigned-byte", "bit"]),
  ("ratio", ["ratio"]),
  ("complex", ["complex"]),
  ("symbol", ["symbol"]),
  ("hash-table", ["hash-table"]),
  ("bit-vector", ["bit-vector"]),
  ("signed-byte", ["signed-byte", "unsigned-byte", "bit"]),
  ("unsigned-byte", ["unsigned-byte", "bit"]),
  ("bit", ["bit"])
]

def coerceAllowed (target : String) : Option (List String) := coerceResults.lookup target

end SlipVerif.Types
