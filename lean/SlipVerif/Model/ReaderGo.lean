/-
  C02 — the state and the primitives of the code `extract/readercode.go` translates from code.go
  (Gen/ReaderCode.lean): the storage side of the Go reader (`tokenStart`, `pos`, `carry`, `buf`,
  `mode` …) as a record, byte slices as `List Nat`, Go ints as `Int`. Calls the translator does not
  look into are recorded, in execution order, in `eff`. Core Lean only.
-/
namespace SlipVerif.ReaderGo

structure R where
  tokenStart : Int := 0
  pos : Int := 0
  base : Int := 0
  rbase : Int := 10
  sharpNum : Int := 0
  rn : Int := 0
  rcnt : Int := 0
  line : Int := 0
  lineStart : Int := 0
  carry : List Nat := []
  buf : List Nat := []
  /-- the mode tables are numbered by the generator (`Gen.ReaderCode.m_valueMode` …) -/
  mode : Nat := 0
  nextMode : Nat := 0
  more : Bool := false
  one : Bool := false
  /-- `len(r.code)`, `len(r.stack)`, `len(r.starts)` -/
  codeLen : Int := 0
  stackLen : Int := 0
  startsLen : Int := 0
  /-- the bytes of the last object made (`String(…)`, `Symbol(…)`) -/
  obj : List Nat := []
  /-- a returned byte slice -/
  ret : List Nat := []
  /-- calls / appends the translator does not look into, in execution order -/
  eff : List String := []

/-- `x[a:b]` (no bounds panic: out of range bounds give the bytes that exist) -/
def sl (x : List Nat) (a b : Int) : List Nat := (x.drop a.toNat).take (b.toNat - a.toNat)

def len (x : List Nat) : Int := x.length

/-- `make([]byte, n)` -/
def zeros (n : Int) : List Nat := List.replicate n.toNat 0

/-- `copy(dst[k:], src)` -/
def copyTo (dst : List Nat) (k : Int) (src : List Nat) : List Nat :=
  let room := dst.length - k.toNat
  let n := min room src.length
  dst.take k.toNat ++ src.take n ++ dst.drop (k.toNat + n)

/-- `x[i]` (0 when out of range) -/
def byteAt (x : List Nat) (i : Int) : Int := (x.getD i.toNat 0 : Nat)

/-- an int stored into a byte -/
def byteOf (i : Int) : Nat := (i % 256).toNat

end SlipVerif.ReaderGo
