/-
  C17 — a channel that is closed by its producers and drained by `(range fn channel)` consumers,
  with bounded or unbounded buffer and with environment sends (time channels), core Lean only.

  Model/Conc.lean covers push / pop / select on channels that stay open; this model adds what
  `channel-close` and `range` need: a `closed` flag, consumers that keep receiving until the
  channel is closed *and* empty, and sends that come from outside the program (`time-ticker`: the
  runtime sends whenever it likes and drops the tick when the buffer is full).

  A schedule is any list of actions; an action that is not enabled leaves the state unchanged.
  Theorems/C17Close.lean proves for every schedule: conservation, nothing received that was not
  sent, a range returns only when the channel is closed and drained and then everything sent has
  been received exactly once in sending order, the capacity bound, and that the variant whose
  range receives without the closed check (the shape of seeded mutant C17-8) breaks this.
-/
namespace SlipVerif.Close

/-- who sent it and what -/
structure Item where
  src : Nat
  val : Nat
deriving DecidableEq, Repr

/-- the sender id of the environment (time channels) -/
def envSrc : Nat := 1000000

/-- what a receive without the closed check delivers from a closed, empty channel (Go: the zero
    value, slip: nil) — an object nobody sent -/
def nilItem : Item := ⟨2000000, 0⟩

inductive Act where
  /-- producer `p` pushes `v` (blocked while the buffer is full or the channel is closed) -/
  | push (p v : Nat)
  /-- the environment sends `v` (a ticker: dropped when the buffer is full) -/
  | tick (v : Nat)
  | close
  /-- consumer `c`'s range receives the next item and calls its function -/
  | recv (c : Nat)
  /-- consumer `c`'s range returns -/
  | fin (c : Nat)
deriving DecidableEq, Repr

structure St where
  queue  : List Item
  closed : Bool
  /-- ghost: everything that entered the channel, in order -/
  sent   : List Item
  /-- ghost: (consumer, item) in the order of the receives -/
  recvd  : List (Nat × Item)
  ended  : List Nat

def init : St := { queue := [], closed := false, sent := [], recvd := [], ended := [] }

/-- room for one more item; `cap = none`: unbounded, `some 0` (unbuffered) hands over through one slot -/
def hasRoom (cap : Option Nat) (st : St) : Bool :=
  match cap with
  | none => true
  | some n => st.queue.length < max n 1

def enqueue (st : St) (it : Item) : St := { st with queue := st.queue ++ [it], sent := st.sent ++ [it] }

/-- one action. `unchecked = true` is the implementation variant whose range receives without
    looking at the closed state: from a closed and empty channel it "receives" `nilItem`. -/
def step (cap : Option Nat) (unchecked : Bool) (st : St) : Act → Option St
  | .push p v => if !st.closed && hasRoom cap st then some (enqueue st ⟨p, v⟩) else none
  | .tick v =>
      if st.closed then none
      else if hasRoom cap st then some (enqueue st ⟨envSrc, v⟩) else some st
  | .close => if st.closed then none else some { st with closed := true }
  | .recv c =>
      if st.ended.contains c then none
      else match st.queue with
        | it :: rest => some { st with queue := rest, recvd := st.recvd ++ [(c, it)] }
        | [] =>
            if unchecked && st.closed then some { st with recvd := st.recvd ++ [(c, nilItem)] } else none
  | .fin c =>
      if !st.ended.contains c && st.closed && st.queue.isEmpty then some { st with ended := c :: st.ended }
      else none

def stepOrStay (cap : Option Nat) (unchecked : Bool) (st : St) (a : Act) : St :=
  match step cap unchecked st a with
  | some st' => st'
  | none => st

def run (cap : Option Nat) (unchecked : Bool) (st : St) : List Act → St
  | [] => st
  | a :: rest => run cap unchecked (stepOrStay cap unchecked st a) rest

/-- the items consumer `c` received, in its order -/
def got (st : St) (c : Nat) : List Item := (st.recvd.filter (fun p => p.1 == c)).map (·.2)

/-- all received items in the order of the receives -/
def received (st : St) : List Item := st.recvd.map (·.2)

end SlipVerif.Close
