import SlipVerif.Model.JsonText
/-
  C18 — the options of `bag-write` / `:write` (pkg/bag/write.go `writeBag`): the writer's settings
  before any keyword is read, what every keyword does to them, and which of the three writers
  produces the text.  Tied to the source by Theorems/GenC18 (`gen_writer_branch`,
  `gen_write_defaults`, `gen_write_keywords`).

  Core Lean only.
-/
namespace SlipVerif.Json

/-- the value that follows a keyword -/
inductive KwVal where
  | nil
  | t
  | fix (n : Int)
  | str (s : String)
  | other                 -- any other object (a symbol, a float, a list …)
  deriving DecidableEq, Repr

def KwVal.notNil : KwVal → Bool
  | .nil => false
  | _ => true

/-- the settings `writeBag` collects -/
structure WOpts where
  prty : Bool            -- *print-pretty* unless :pretty is given
  maxDepth : Int         -- 4 unless :depth is given
  indent : Int           -- 2; 0 once a :depth ≤ 0 was seen
  sen : Bool             -- true unless :json non-nil
  color : Bool
  width : Int            -- *print-right-margin* unless :right-margin is given
  sort : Bool            -- keys sorted: switched on by :pretty (whatever its value)
  timeFormat : Option String   -- none: the package's *bag-time-format*
  timeWrap : Option String
  deriving DecidableEq, Repr

def WOpts.init (printPretty : Bool) (rightMargin : Int) : WOpts :=
  { prty := printPretty, maxDepth := 4, indent := 2, sen := true, color := false, width := rightMargin,
    sort := false, timeFormat := none, timeWrap := none }

/-- one keyword with its value; `none` = a condition is raised (unknown keyword, wrong value type) -/
def applyKw (kw : String) (v : KwVal) (w : WOpts) : Option WOpts :=
  if kw = ":pretty" then some { w with prty := v.notNil, sort := true }
  else if kw = ":depth" then
    match v with
    | .fix n => some { w with maxDepth := n, indent := if n ≤ 0 then 0 else w.indent }
    | _ => none
  else if kw = ":right-margin" then
    match v with
    | .fix n => some { w with width := n }
    | _ => none
  else if kw = ":time-format" then
    match v with
    | .nil => some { w with timeFormat := some "" }
    | .str s => some { w with timeFormat := some s }
    | _ => none
  else if kw = ":time-wrap" then
    match v with
    | .nil => some { w with timeWrap := some "" }
    | .str s => some { w with timeWrap := some s }
    | _ => none
  else if kw = ":json" then some { w with sen := !v.notNil }
  else if kw = ":color" then some { w with color := v.notNil }
  else none

def applyKws : List (String × KwVal) → WOpts → Option WOpts
  | [], w => some w
  | (k, v) :: rest, w => (applyKw k v w).bind (applyKws rest)

/-- the three writers of ojg `writeBag` chooses from -/
inductive Writer where
  | pretty     -- pretty.Writer.Encode: fills lines up to the width, nests to maxDepth
  | sen        -- sen.Bytes
  | json       -- oj.JSON
  deriving DecidableEq, Repr

def writerOf (w : WOpts) : Writer :=
  if w.prty && decide (1 < w.maxDepth) then .pretty else if w.sen then .sen else .json

/-- the name the harness uses for the branch (`steps=` of the text family's signatures) -/
def modeName (w : WOpts) : String :=
  (if writerOf w = .pretty then "pretty-" else "plain-") ++ (if w.sen then "sen" else "json")

/-- is the text SEN (bare words, no commas) or JSON -/
def textIsSen (w : WOpts) : Bool := w.sen

end SlipVerif.Json
