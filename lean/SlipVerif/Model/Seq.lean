/-
  C14 — sequence functions honour their keyword arguments on lists, vectors and strings.

  The model has three layers, all core Lean, all total and computable:

  * `Spec`  : every function over `List α` with explicit bounds `s e` (the bounding index designators
              after defaulting), a match predicate `p : α → Bool` (item, test, test-not, key and the -if, -if-not variants are
              folded into `p` by `Kw.matcher`), an optional `:count` and the `:from-end` flag.
  * `Impl`  : the scan loops of pkg/cl/delete.go, substitute.go, position.go and count.go transcribed
              (forward scan; backward scan with a countdown and a final reversal for `:from-end`).
              `Theorems/C14.lean` proves them equal to the Spec.
  * `Seq`   : lists, vectors and strings as `⟨kind, elems⟩`; every sequence function is the list
              function conjugated by `toList / ofList` (`seq_type_uniform`).

  Deviation of slip that the model mirrors because slip documents it: the default `:test` is `equal`
  (FuncDoc of find/position/count/remove…: "The default is _equal_").
-/
namespace SlipVerif.Seq

/-- the objects that occur as elements, items and results in the property's quantifier:
    small integers, symbols, characters and pairs (for `:key car`), plus `nil`/`t`. Proper lists
    (results of `list`, `cons`) are `cons` chains ending in `nil`. -/
inductive Obj where
  | nil
  | t
  | int (i : Int)
  | sym (s : String)
  | chr (c : Nat)
  | cons (a d : Obj)
  deriving DecidableEq, Repr, Inhabited

inductive Err where
  | bounds   -- bounding indices not in range (outside the property's quantifier)
  | type     -- e.g. a non-character put into a string
  | arg      -- malformed call (odd keyword list, missing argument)
  deriving DecidableEq, Repr

def truthy : Obj → Bool
  | .nil => false
  | _ => true

def ofBool (b : Bool) : Obj := if b then .t else .nil

/-- a proper Lisp list as a cons chain -/
def Obj.ofList : List Obj → Obj
  | [] => .nil
  | x :: xs => .cons x (Obj.ofList xs)

/-! ## Spec layer — generic over the element type -/
section Spec
variable {α β : Type}

/-- the bounded part `[s, e)` of a sequence -/
def mid (s e : Nat) (xs : List α) : List α := (xs.drop s).take (e - s)

/-- apply `f` to the bounded part, leave the rest untouched -/
def onRange (s e : Nat) (f : List α → List α) (xs : List α) : List α :=
  xs.take s ++ f (mid s e xs) ++ xs.drop e

/-- index of the first element satisfying `p` -/
def idxFirst (p : α → Bool) : List α → Option Nat
  | [] => none
  | x :: xs => if p x then some 0 else (idxFirst p xs).map (· + 1)

/-- index of the last element satisfying `p` -/
def idxLast (p : α → Bool) : List α → Option Nat
  | [] => none
  | x :: xs =>
    match idxLast p xs with
    | some i => some (i + 1)
    | none => if p x then some 0 else none

/-- `position` / `position-if` / `position-if-not` -/
def position (p : α → Bool) (s e : Nat) (fromEnd : Bool) (xs : List α) : Option Nat :=
  ((if fromEnd then idxLast p else idxFirst p) (mid s e xs)).map (· + s)

/-- `find` / `find-if` / `find-if-not` -/
def find (p : α → Bool) (s e : Nat) (fromEnd : Bool) (xs : List α) : Option α :=
  if fromEnd then (mid s e xs).reverse.find? p else (mid s e xs).find? p

/-- `count` / `count-if` / `count-if-not` (`:from-end` has no effect on the value) -/
def count (p : α → Bool) (s e : Nat) (xs : List α) : Nat := (mid s e xs).countP p

/-- drop the first `n` elements satisfying `p`, keep everything else in order -/
def dropFirstN (p : α → Bool) : Nat → List α → List α
  | 0, xs => xs
  | _, [] => []
  | n + 1, x :: xs => if p x then dropFirstN p n xs else x :: dropFirstN p (n + 1) xs

/-- replace the first `n` elements satisfying `p` by `new` -/
def replFirstN (new : α) (p : α → Bool) : Nat → List α → List α
  | 0, xs => xs
  | _, [] => []
  | n + 1, x :: xs => if p x then new :: replFirstN new p n xs else x :: replFirstN new p (n + 1) xs

/-- the number of matches a `:count` argument allows: absent = no limit, negative = 0 -/
def limit (count : Option Int) (len : Nat) : Nat :=
  match count with
  | none => len
  | some c => c.toNat

/-- from the front, or from the back when `:from-end` -/
def directed (fromEnd : Bool) (f : List α → List α) (l : List α) : List α :=
  if fromEnd then (f l.reverse).reverse else f l

/-- `remove` / `delete` and the -if / -if-not variants -/
def remove (p : α → Bool) (s e : Nat) (count : Option Int) (fromEnd : Bool) (xs : List α) : List α :=
  onRange s e (fun m => directed fromEnd (dropFirstN p (limit count m.length)) m) xs

/-- `substitute` / `nsubstitute` and the -if / -if-not variants -/
def substitute (new : α) (p : α → Bool) (s e : Nat) (count : Option Int) (fromEnd : Bool)
    (xs : List α) : List α :=
  onRange s e (fun m => directed fromEnd (replFirstN new p (limit count m.length)) m) xs

/-- keep an element iff no later element matches it (`test earlier later`) -/
def dedupKeepLast (eqv : α → α → Bool) : List α → List α
  | [] => []
  | x :: xs => if xs.any (fun y => eqv x y) then dedupKeepLast eqv xs else x :: dedupKeepLast eqv xs

/-- keep an element iff no earlier element matches it (`test earlier later`) -/
def dedupKeepFirst (eqv : α → α → Bool) (l : List α) : List α :=
  (dedupKeepLast (fun a b => eqv b a) l.reverse).reverse

/-- `remove-duplicates` / `delete-duplicates` -/
def removeDuplicates (eqv : α → α → Bool) (s e : Nat) (fromEnd : Bool) (xs : List α) : List α :=
  onRange s e (fun m => if fromEnd then dedupKeepFirst eqv m else dedupKeepLast eqv m) xs

/-- `member` / `member-if`: the tail starting at the first match -/
def member (p : α → Bool) : List α → List α
  | [] => []
  | x :: xs => if p x then x :: xs else member p xs

/-- `subseq` -/
def subseq (s e : Nat) (xs : List α) : List α := mid s e xs

/-- `fill` -/
def fill (item : α) (s e : Nat) (xs : List α) : List α :=
  onRange s e (fun m => m.map (fun _ => item)) xs

/-- `replace`: copy `ys[s2, e2)` over `xs[s1, e1)`, the shorter region decides -/
def replace (s1 e1 s2 e2 : Nat) (xs ys : List α) : List α :=
  let n := min (e1 - s1) (e2 - s2)
  xs.take s1 ++ (mid s2 e2 ys).take n ++ xs.drop (s1 + n)

/-- does `sub` match at the front of `l` (element-wise `eqv sub_i l_i`)? -/
def matchAt (eqv : α → α → Bool) : List α → List α → Bool
  | [], _ => true
  | _ :: _, [] => false
  | a :: as, b :: bs => eqv a b && matchAt eqv as bs

/-- leftmost offset at which `sub` matches in `l` -/
def searchFirst (eqv : α → α → Bool) (sub : List α) : List α → Option Nat
  | [] => if matchAt eqv sub [] then some 0 else none
  | b :: bs => if matchAt eqv sub (b :: bs) then some 0 else (searchFirst eqv sub bs).map (· + 1)

/-- rightmost offset at which `sub` matches in `l` -/
def searchLast (eqv : α → α → Bool) (sub : List α) : List α → Option Nat
  | [] => if matchAt eqv sub [] then some 0 else none
  | b :: bs =>
    match searchLast eqv sub bs with
    | some i => some (i + 1)
    | none => if matchAt eqv sub (b :: bs) then some 0 else none

/-- `search`: keys are taken of both sequences; the answer is an index into sequence-2 -/
def search (eqv : α → α → Bool) (s1 e1 s2 e2 : Nat) (fromEnd : Bool) (xs ys : List α) : Option Nat :=
  ((if fromEnd then searchLast eqv (mid s1 e1 xs) else searchFirst eqv (mid s1 e1 xs)) (mid s2 e2 ys)).map
    (· + s2)

/-- length of the longest common prefix under `eqv`, or `none` when the sequences match entirely -/
def mismatchFwd (eqv : α → α → Bool) : List α → List α → Option Nat
  | [], [] => none
  | [], _ :: _ => some 0
  | _ :: _, [] => some 0
  | a :: as, b :: bs => if eqv a b then (mismatchFwd eqv as bs).map (· + 1) else some 0

/-- `mismatch`: an index into sequence-1; with `:from-end` one plus the index of the rightmost
    differing position -/
def mismatch (eqv : α → α → Bool) (s1 e1 s2 e2 : Nat) (fromEnd : Bool) (xs ys : List α) : Option Nat :=
  if fromEnd then
    (mismatchFwd eqv (mid s1 e1 xs).reverse (mid s2 e2 ys).reverse).map (fun k => e1 - k)
  else
    (mismatchFwd eqv (mid s1 e1 xs) (mid s2 e2 ys)).map (· + s1)

/-- the order `le a b := ¬ lt (key b) (key a)` a strict predicate induces; `sort`, `stable-sort` and
    `merge` are defined with it so that on ties the earlier / first-sequence element comes first -/
def leOf (lt : β → β → Bool) (key : α → β) (a b : α) : Bool := !lt (key b) (key a)

/-- `stable-sort` (and the reference result for `sort`) -/
def stableSort (lt : β → β → Bool) (key : α → β) (xs : List α) : List α :=
  xs.mergeSort (leOf lt key)

/-- `merge` -/
def merge (lt : β → β → Bool) (key : α → β) (xs ys : List α) : List α :=
  List.merge xs ys (leOf lt key)

/-- all pairs `(a before b)` satisfy `r a b` -/
def pairwiseB (r : α → α → Bool) : List α → Bool
  | [] => true
  | x :: xs => xs.all (r x) && pairwiseB r xs

/-- `union`: every element of the first list, then the elements of the second that match nothing
    already taken -/
def union (eqv : α → α → Bool) (xs ys : List α) : List α :=
  ys.foldl (fun acc y => if acc.any (fun a => eqv a y) then acc else acc ++ [y]) xs

/-- `intersection`: the elements of the first list that match something in the second -/
def intersection (eqv : α → α → Bool) (xs ys : List α) : List α :=
  xs.filter (fun x => ys.any (fun y => eqv x y))

/-- `set-difference`: the elements of the first list that match nothing in the second -/
def setDifference (eqv : α → α → Bool) (xs ys : List α) : List α :=
  xs.filter (fun x => !ys.any (fun y => eqv x y))

/-- `subsetp` -/
def subsetp (eqv : α → α → Bool) (xs ys : List α) : Bool :=
  xs.all (fun x => ys.any (fun y => eqv x y))

/-- argument tuples for `every`/`some`/`map`/`mapcar`: the i-th elements, up to the shortest -/
def tuples : List (List α) → List (List α)
  | [] => []
  | [l] => l.map (fun x => [x])
  | l :: ls => List.zipWith (fun x t => x :: t) l (tuples ls)

/-- `reduce`; `f0` is the value of calling the function with no arguments (used only for an empty
    subsequence without `:initial-value`) -/
def reduce (f : α → α → α) (f0 : α) (init : Option α) (fromEnd : Bool) (l : List α) : α :=
  match fromEnd, init with
  | false, some z => l.foldl f z
  | true, some z => l.foldr f z
  | false, none =>
    match l with
    | [] => f0
    | x :: r => r.foldl f x
  | true, none =>
    match l.reverse with
    | [] => f0
    | x :: r => r.foldl (fun acc y => f y acc) x

end Spec

/-! ## relation checkers (for results the language leaves partly open) -/
section Check
variable {α β : Type} [DecidableEq α]

/-- `sort`: a permutation of the input that is ordered by the predicate on the keys -/
def sortOk (lt : β → β → Bool) (key : α → β) (input result : List α) : Bool :=
  result.isPerm input && pairwiseB (leOf lt key) result

/-- `union` as a set: nothing foreign, everything represented -/
def unionOk (eqv : α → α → Bool) (xs ys result : List α) : Bool :=
  result.all (fun r => decide (r ∈ xs ++ ys)) && (xs ++ ys).all (fun z => result.any (fun r => eqv r z))

/-- `union`, duplicates between the lists: "if there is a duplication between list-1 and list-2, only one of
    the duplicate instances is in the result" (duplicates inside one list may or may not be repeated): the
    result holds no more elements matching `z` than the list that has most of them -/
def unionTight (eqv : α → α → Bool) (xs ys result : List α) : Bool :=
  (xs ++ ys).all (fun z => decide (result.countP (eqv z) ≤ max (xs.countP (eqv z)) (ys.countP (eqv z))))

/-- `intersection` as a set: only elements of the first list that match something in the second;
    every such element is in the result or represented there by an element matching it
    (duplicates under the test may or may not be repeated) -/
def intersectionOk (eqv : α → α → Bool) (xs ys result : List α) : Bool :=
  result.all (fun r => decide (r ∈ xs) && ys.any (fun y => eqv r y)) &&
    xs.all (fun x => !ys.any (fun y => eqv x y) || result.any (fun r => decide (r = x) || eqv r x))

/-- `set-difference` as a set -/
def setDifferenceOk (eqv : α → α → Bool) (xs ys result : List α) : Bool :=
  result.all (fun r => decide (r ∈ xs) && !ys.any (fun y => eqv r y)) &&
    xs.all (fun x => ys.any (fun y => eqv x y) || result.any (fun r => decide (r = x) || eqv r x))

end Check

/-! ## Impl layer — the scan loops of the Go code, transcribed -/
section Impl
variable {α : Type}

/-- pkg/cl/delete.go `inList`, forward branch: `for i := 0; i < len(seq); i++`, with
    `if i < start || end <= i || count <= cnt { keep }` and `cnt++` on a match. `i` is the index
    of the head of the remaining list, `cnt` the matches so far, `lim` the `:count` limit. -/
def deleteFwdLoop (p : α → Bool) (s e lim : Nat) : Nat → Nat → List α → List α
  | _, _, [] => []
  | i, cnt, x :: xs =>
    if i < s ∨ e ≤ i ∨ lim ≤ cnt then x :: deleteFwdLoop p s e lim (i + 1) cnt xs
    else if p x then deleteFwdLoop p s e lim (i + 1) (cnt + 1) xs
    else x :: deleteFwdLoop p s e lim (i + 1) cnt xs

/-- pkg/cl/delete.go `inList`, `:from-end` branch: `for i := len(seq)-1; 0 <= i; i--` appending the
    kept elements, then reversing. `rev` is the reversed remaining list, `n` the number of elements
    left (so the head of `rev` has index `n - 1`). -/
def deleteBwdLoop (p : α → Bool) (s e lim : Nat) : Nat → List α → List α
  | _, [] => []
  | cnt, x :: rev =>
    let i := rev.length
    if i < s ∨ e ≤ i ∨ lim ≤ cnt then x :: deleteBwdLoop p s e lim cnt rev
    else if p x then deleteBwdLoop p s e lim (cnt + 1) rev
    else x :: deleteBwdLoop p s e lim cnt rev

def deleteImpl (p : α → Bool) (s e : Nat) (count : Option Int) (fromEnd : Bool) (xs : List α) : List α :=
  let lim := limit count xs.length
  if fromEnd then (deleteBwdLoop p s e lim 0 xs.reverse).reverse else deleteFwdLoop p s e lim 0 0 xs

/-- pkg/cl/position.go `inList`, forward branch over the re-sliced `seq[start:end]` -/
def positionFwdLoop (p : α → Bool) (s : Nat) : Nat → List α → Option Nat
  | _, [] => none
  | i, x :: xs => if p x then some (s + i) else positionFwdLoop p s (i + 1) xs

/-- pkg/cl/position.go `inList`, backward branch: `for i := len(seq)-1; 0 <= i; i--` -/
def positionBwdLoop (p : α → Bool) (s : Nat) : List α → Option Nat
  | [] => none
  | x :: rev => if p x then some (s + rev.length) else positionBwdLoop p s rev

def positionImpl (p : α → Bool) (s e : Nat) (fromEnd : Bool) (xs : List α) : Option Nat :=
  let seq := (xs.drop s).take (e - s)
  if fromEnd then positionBwdLoop p s seq.reverse else positionFwdLoop p s 0 seq

/-- pkg/cl/count.go `inList`: `for i := start; i < end; i++ { if match { count++ } }` -/
def countLoop (p : α → Bool) : Nat → List α → Nat
  | c, [] => c
  | c, x :: xs => countLoop p (if p x then c + 1 else c) xs

def countImpl (p : α → Bool) (s e : Nat) (xs : List α) : Nat := countLoop p 0 ((xs.drop s).take (e - s))

end Impl

/-! ## function designators: the keys, tests, predicates and mapped functions of the harness -/

def optObj' : Option Obj → Obj
  | none => .nil
  | some o => o

def optNat' : Option Nat → Obj
  | none => .nil
  | some n => .int n

inductive Fn where
  | car | cdr | charCode | succ | neg | mod2 | upcase          -- unary, value
  | evenp | oddp | plusp | null | consp                        -- unary, boolean
  | eqTo (o : Obj) | ltThan (n : Int)                          -- (lambda (x) (equal x 'o)), (lambda (x) (< x n))
  | eq | eql | equal | lt | le | gt | ge | numEq | charEq | charLt  -- binary, boolean
  | sameParity                                                 -- (lambda (a b) (= (mod a 2) (mod b 2)))
  -- a test that treats its arguments differently (for the set functions; first list over 0..9, second over
  -- 10..19): (lambda (a b) (if (< a 10) (if (< b 10) (= a b) (= (+ a 10) b)) (if (< b 10) nil (= a b))))
  | dir10
  | add | sub | cons | list | max                              -- n-ary, value
  -- user lambdas that themselves call sequence functions (re-entrancy through other forms), on
  -- elements that are proper lists: (lambda (x) (count 'o x)), (find 'o x), (position 'o x),
  -- (remove 'o x), (remove-duplicates x), (reverse x), (length x), (reduce '+ x), (member 'o x)
  | seqCount (o : Obj) | seqFind (o : Obj) | seqPosition (o : Obj) | seqRemove (o : Obj)
  | seqDedup | seqReverse | seqLength | seqSum | seqMember (o : Obj)
  | seqMin                                 -- (lambda (x) (first (sort (reverse x) '<))): a nested sort
  -- (lambda (a b) (subsetp a b)), (search a b), (and (subsetp a b) (subsetp b a)),
  -- (= (count 'o a) (count 'o b)), (< (length a) (length b))
  | seqSubsetp | seqSearch | seqSameSet | seqSameCount (o : Obj) | seqShorter
  deriving DecidableEq, Repr

def atomic : Obj → Bool
  | .cons _ _ => false
  | _ => true

/-- the elements of a proper list object (`nil` = the empty list); `none` for atoms and dotted lists -/
def Obj.toList? : Obj → Option (List Obj)
  | .nil => some []
  | .cons a d => (Obj.toList? d).map (fun l => a :: l)
  | _ => none

def structEq (a b : Obj) : Bool := decide (a = b)

def intsOf (l : List Obj) : Option (List Int) :=
  l.mapM (fun o => match o with
    | .int i => some i
    | _ => none)

/-- application; `none` = outside the function's domain (the harness never generates that) -/
def Fn.call : Fn → List Obj → Option Obj
  | .car, [.cons a _] => some a
  | .car, [.nil] => some .nil
  | .cdr, [.cons _ d] => some d
  | .cdr, [.nil] => some .nil
  | .charCode, [.chr c] => some (.int c)
  | .succ, [.int i] => some (.int (i + 1))
  | .neg, [.int i] => some (.int (-i))
  | .mod2, [.int i] => some (.int (i % 2))
  | .upcase, [.chr c] => some (.chr (if 97 ≤ c ∧ c ≤ 122 then c - 32 else c))
  | .evenp, [.int i] => some (ofBool (i % 2 = 0))
  | .oddp, [.int i] => some (ofBool (i % 2 ≠ 0))
  | .plusp, [.int i] => some (ofBool (0 < i))
  | .null, [x] => some (ofBool (x = .nil))
  | .consp, [x] => some (ofBool (!atomic x))
  | .eqTo o, [x] => some (ofBool (x = o))
  | .ltThan n, [.int i] => some (ofBool (i < n))
  | .eq, [a, b] => if atomic a && atomic b then some (ofBool (a = b)) else none
  | .eql, [a, b] => if atomic a && atomic b then some (ofBool (a = b)) else none
  | .equal, [a, b] => some (ofBool (a = b))
  | .lt, [.int a, .int b] => some (ofBool (a < b))
  | .le, [.int a, .int b] => some (ofBool (a ≤ b))
  | .gt, [.int a, .int b] => some (ofBool (a > b))
  | .ge, [.int a, .int b] => some (ofBool (a ≥ b))
  | .numEq, [.int a, .int b] => some (ofBool (a = b))
  | .charEq, [.chr a, .chr b] => some (ofBool (a = b))
  | .charLt, [.chr a, .chr b] => some (ofBool (a < b))
  | .sameParity, [.int a, .int b] => some (ofBool (a % 2 = b % 2))
  | .dir10, [.int a, .int b] => some (ofBool (
      if a < 10 then (if b < 10 then decide (a = b) else decide (a + 10 = b))
      else (if b < 10 then false else decide (a = b))))
  | .add, [] => some (.int 0)
  | .add, [.int a] => some (.int a)
  | .add, [.int a, .int b] => some (.int (a + b))
  | .sub, [.int a] => some (.int (-a))
  | .sub, [.int a, .int b] => some (.int (a - b))
  | .cons, [a, b] => some (.cons a b)
  | .list, xs => some (Obj.ofList xs)
  | .max, [.int a] => some (.int a)
  | .max, [.int a, .int b] => some (.int (if a ≤ b then b else a))
  | .seqCount o, [x] => x.toList?.map (fun l => .int (count (structEq o) 0 l.length l))
  | .seqFind o, [x] => x.toList?.map (fun l => optObj' (find (structEq o) 0 l.length false l))
  | .seqPosition o, [x] => x.toList?.map (fun l => optNat' (position (structEq o) 0 l.length false l))
  | .seqRemove o, [x] => x.toList?.map (fun l => Obj.ofList (remove (structEq o) 0 l.length none false l))
  | .seqDedup, [x] => x.toList?.map (fun l => Obj.ofList (removeDuplicates structEq 0 l.length false l))
  | .seqReverse, [x] => x.toList?.map (fun l => Obj.ofList l.reverse)
  | .seqLength, [x] => x.toList?.map (fun l => .int l.length)
  | .seqSum, [x] => (x.toList?.bind intsOf).map (fun is => .int (is.foldl (· + ·) 0))
  | .seqMember o, [x] => x.toList?.map (fun l => Obj.ofList (member (structEq o) l))
  | .seqMin, [x] => (x.toList?.bind intsOf).map (fun is =>
      match stableSort (fun a b : Int => decide (a < b)) id is.reverse with
      | [] => .nil
      | m :: _ => .int m)
  | .seqSubsetp, [a, b] => do
      let la ← a.toList?
      let lb ← b.toList?
      pure (ofBool (subsetp structEq la lb))
  | .seqSearch, [a, b] => do
      let la ← a.toList?
      let lb ← b.toList?
      pure (optNat' (search structEq 0 la.length 0 lb.length false la lb))
  | .seqSameSet, [a, b] => do
      let la ← a.toList?
      let lb ← b.toList?
      pure (ofBool (subsetp structEq la lb && subsetp structEq lb la))
  | .seqSameCount o, [a, b] => do
      let la ← a.toList?
      let lb ← b.toList?
      pure (ofBool (count (structEq o) 0 la.length la = count (structEq o) 0 lb.length lb))
  | .seqShorter, [a, b] => do
      let la ← a.toList?
      let lb ← b.toList?
      pure (ofBool (la.length < lb.length))
  | _, _ => none

/-- total application used after the driver has checked the domain -/
def Fn.app (f : Fn) (args : List Obj) : Obj :=
  match f.call args with
  | some v => v
  | none => .nil

def Fn.app1 (f : Option Fn) (x : Obj) : Obj :=
  match f with
  | none => x
  | some f => f.app [x]

def Fn.test2 (f : Fn) (a b : Obj) : Bool := truthy (f.app [a, b])
def Fn.pred1 (f : Fn) (a : Obj) : Bool := truthy (f.app [a])

/-! ## user functions that re-enter the enclosing call

  `(lambda (x) (if (consp x) (funcall f x) (base x)))` where `f` is the function whose body is the
  very call being evaluated: on a nested list the enclosing call `F` runs again (with the same user
  function one level down), on an atom the base function. `fuel` bounds the nesting depth of the
  data; the driver supplies more fuel than the data is deep. `none` = outside the domain. -/

def selfApply (F : (Obj → Option Obj) → List Obj → Option Obj) (base : Obj → Option Obj) :
    Nat → Obj → Option Obj
  | 0, x => if atomic x then base x else none
  | n + 1, x =>
    if atomic x then base x
    else match x.toList? with
      | some l => F (selfApply F base n) l
      | none => none

/-- a `:test` function of a one-sequence function that re-enters the call on both of its arguments:
    `(lambda (a b) (if (and (consp a) (consp b)) (equal (funcall f a) (funcall f b)) (equal a b)))` -/
def selfApplyT (F : (Obj → Obj → Option Obj) → List Obj → Option Obj) : Nat → Obj → Obj → Option Obj
  | 0, a, b => if atomic a || atomic b then some (ofBool (a = b)) else none
  | n + 1, a, b =>
    if atomic a || atomic b then some (ofBool (a = b))
    else match a.toList?, b.toList? with
      | some la, some lb =>
        match F (selfApplyT F n) la, F (selfApplyT F n) lb with
        | some ra, some rb => some (ofBool (ra = rb))
        | _, _ => none
      | _, _ => none

/-- the two-argument form for `:test` functions of the two-sequence functions:
    `(lambda (a b) (if (and (consp a) (consp b)) (funcall f a b) (base a b)))` -/
def selfApply2 (F : (Obj → Obj → Option Obj) → List Obj → List Obj → Option Obj)
    (base : Obj → Obj → Option Obj) : Nat → Obj → Obj → Option Obj
  | 0, a, b => if atomic a || atomic b then base a b else none
  | n + 1, a, b =>
    if atomic a || atomic b then base a b
    else match a.toList?, b.toList? with
      | some la, some lb => F (selfApply2 F base n) la lb
      | _, _ => none

/-! ## keyword record and sequences of the three kinds -/

/-- what the element is compared with: an item (through `:test`/`:test-not`) or a predicate -/
inductive Target where
  | item (x : Obj)
  | pred (p : Obj → Bool)

/-- the keyword arguments of the property statement. `test` is the function given as `:test` or
    as `:test-not`; `negate` says it came as `:test-not` (or that the function is an -if-not). -/
structure Kw where
  start : Nat := 0
  stop : Option Nat := none
  key : Obj → Obj := id
  test : Obj → Obj → Bool := fun a b => decide (a = b)
  negate : Bool := false
  count : Option Int := none
  fromEnd : Bool := false

/-- the match predicate on elements that the keywords denote -/
def Kw.matcher (kw : Kw) : Target → Obj → Bool
  | .item x, y => kw.negate != kw.test x (kw.key y)
  | .pred p, y => kw.negate != p (kw.key y)

/-- the two-element test on keys (remove-duplicates, search, mismatch, set functions) -/
def Kw.eqv (kw : Kw) (a b : Obj) : Bool := kw.negate != kw.test (kw.key a) (kw.key b)

/-- bounding index designators: in range means `start ≤ end ≤ length`; anything else is rejected -/
def bounds (start : Nat) (stop : Option Nat) (len : Nat) : Except Err (Nat × Nat) :=
  let e := match stop with
    | none => len
    | some e => e
  if start ≤ e ∧ e ≤ len then .ok (start, e) else .error .bounds

inductive Kind where
  | list | vector | string
  | octets     -- slip's byte vectors (`(coerce … 'octets)`): elements are integers 0..255
  deriving DecidableEq, Repr

structure Seq where
  kind : Kind
  elems : List Obj
  deriving DecidableEq, Repr

def isChr : Obj → Bool
  | .chr _ => true
  | _ => false

def Seq.toList (s : Seq) : List Obj := s.elems

def isOctet : Obj → Bool
  | .int i => decide (0 ≤ i ∧ i < 256)
  | _ => false

/-- what a sequence of a kind can hold: anything in a list or a vector, characters in a string,
    integers 0..255 in an octets vector -/
def elemOk : Kind → Obj → Bool
  | .string, o => isChr o
  | .octets, o => isOctet o
  | _, _ => true

/-- a string holds characters only, an octets vector octets only -/
def Seq.ofList (k : Kind) (l : List Obj) : Except Err Seq :=
  if l.all (elemOk k) = false then .error .type else .ok ⟨k, l⟩

def optObj : Option Obj → Obj
  | none => .nil
  | some o => o

def optNat : Option Nat → Obj
  | none => .nil
  | some n => .int n


def positionS (kw : Kw) (tg : Target) (s : Seq) : Except Err Obj := do
  let (a, b) ← bounds kw.start kw.stop s.elems.length
  pure (optNat (position (kw.matcher tg) a b kw.fromEnd s.toList))

def findS (kw : Kw) (tg : Target) (s : Seq) : Except Err Obj := do
  let (a, b) ← bounds kw.start kw.stop s.elems.length
  pure (optObj (find (kw.matcher tg) a b kw.fromEnd s.toList))

def countS (kw : Kw) (tg : Target) (s : Seq) : Except Err Obj := do
  let (a, b) ← bounds kw.start kw.stop s.elems.length
  pure (.int (count (kw.matcher tg) a b s.toList))

def removeS (kw : Kw) (tg : Target) (s : Seq) : Except Err Seq := do
  let (a, b) ← bounds kw.start kw.stop s.elems.length
  Seq.ofList s.kind (remove (kw.matcher tg) a b kw.count kw.fromEnd s.toList)

def substituteS (new : Obj) (kw : Kw) (tg : Target) (s : Seq) : Except Err Seq := do
  let (a, b) ← bounds kw.start kw.stop s.elems.length
  Seq.ofList s.kind (substitute new (kw.matcher tg) a b kw.count kw.fromEnd s.toList)

def removeDuplicatesS (kw : Kw) (s : Seq) : Except Err Seq := do
  let (a, b) ← bounds kw.start kw.stop s.elems.length
  Seq.ofList s.kind (removeDuplicates kw.eqv a b kw.fromEnd s.toList)

def subseqS (start : Nat) (stop : Option Nat) (s : Seq) : Except Err Seq := do
  let (a, b) ← bounds start stop s.elems.length
  Seq.ofList s.kind (subseq a b s.toList)

def fillS (item : Obj) (start : Nat) (stop : Option Nat) (s : Seq) : Except Err Seq := do
  let (a, b) ← bounds start stop s.elems.length
  Seq.ofList s.kind (fill item a b s.toList)

def replaceS (start1 : Nat) (stop1 : Option Nat) (start2 : Nat) (stop2 : Option Nat) (s1 s2 : Seq) :
    Except Err Seq := do
  let (a1, b1) ← bounds start1 stop1 s1.elems.length
  let (a2, b2) ← bounds start2 stop2 s2.elems.length
  Seq.ofList s1.kind (replace a1 b1 a2 b2 s1.toList s2.toList)

def reverseS (s : Seq) : Except Err Seq := Seq.ofList s.kind s.toList.reverse

def searchS (kw : Kw) (start1 : Nat) (stop1 : Option Nat) (start2 : Nat) (stop2 : Option Nat) (s1 s2 : Seq) :
    Except Err Obj := do
  let (a1, b1) ← bounds start1 stop1 s1.elems.length
  let (a2, b2) ← bounds start2 stop2 s2.elems.length
  pure (optNat (search kw.eqv a1 b1 a2 b2 kw.fromEnd s1.toList s2.toList))

def mismatchS (kw : Kw) (start1 : Nat) (stop1 : Option Nat) (start2 : Nat) (stop2 : Option Nat) (s1 s2 : Seq) :
    Except Err Obj := do
  let (a1, b1) ← bounds start1 stop1 s1.elems.length
  let (a2, b2) ← bounds start2 stop2 s2.elems.length
  pure (optNat (mismatch kw.eqv a1 b1 a2 b2 kw.fromEnd s1.toList s2.toList))

def stableSortS (lt : Obj → Obj → Bool) (key : Obj → Obj) (s : Seq) : Except Err Seq :=
  Seq.ofList s.kind (stableSort lt key s.toList)

def mergeS (rtype : Kind) (lt : Obj → Obj → Bool) (key : Obj → Obj) (s1 s2 : Seq) : Except Err Seq :=
  Seq.ofList rtype (merge lt key s1.toList s2.toList)

def concatenateS (rtype : Kind) (ss : List Seq) : Except Err Seq :=
  Seq.ofList rtype (ss.flatMap Seq.toList)

def mapS (rtype : Kind) (f : List Obj → Obj) (ss : List Seq) : Except Err Seq :=
  Seq.ofList rtype ((tuples (ss.map Seq.toList)).map f)

def reduceS (f : Obj → Obj → Obj) (f0 : Obj) (key : Obj → Obj) (init : Option Obj) (fromEnd : Bool)
    (start : Nat) (stop : Option Nat) (s : Seq) : Except Err Obj := do
  let (a, b) ← bounds start stop s.elems.length
  pure (reduce f f0 init fromEnd ((mid a b s.toList).map key))


/-! list-only functions (member, assoc, rassoc, set functions, every…) work on `List Obj` directly. -/

/-- `assoc` / `assoc-if` / `assoc-if-not`: the first non-nil entry whose car matches; `nil` entries
    are skipped as the language says -/
def assoc (p : Obj → Bool) (alist : List Obj) : Option Obj :=
  alist.find? (fun entry => match entry with
    | .cons a _ => p a
    | _ => false)

/-- `rassoc` / `rassoc-if` -/
def rassoc (p : Obj → Bool) (alist : List Obj) : Option Obj :=
  alist.find? (fun entry => match entry with
    | .cons _ d => p d
    | _ => false)

/-- `every` -/
def every (f : List Obj → Obj) (seqs : List (List Obj)) : Obj :=
  ofBool ((tuples seqs).all (fun tup => truthy (f tup)))

/-- the value of the first tuple on which the function is true; `nil` when there is none -/
def firstTruthy (f : List Obj → Obj) : List (List Obj) → Obj
  | [] => .nil
  | t :: ts => if truthy (f t) then f t else firstTruthy f ts

/-- `some`: "returns the first non-nil value which is returned by an invocation of predicate" -/
def some' (f : List Obj → Obj) (seqs : List (List Obj)) : Obj := firstTruthy f (tuples seqs)

/-- `notany` -/
def notany (f : List Obj → Obj) (seqs : List (List Obj)) : Obj :=
  ofBool ((tuples seqs).all (fun tup => !truthy (f tup)))

/-- `notevery` -/
def notevery (f : List Obj → Obj) (seqs : List (List Obj)) : Obj :=
  ofBool ((tuples seqs).any (fun tup => !truthy (f tup)))

/-- `mapcar` -/
def mapcar (f : List Obj → Obj) (lists : List (List Obj)) : List Obj := (tuples lists).map f

/-! ## the calls a function with side effects observes (where the language fixes them)

  every / some / notany / notevery: "the predicate is first applied to the elements with index 0 of
  each of the sequences, and possibly then to the elements with index 1, and so on", stopping at
  the first decisive value. map / mapcar: every argument tuple, in order. reduce: the combination
  order is the (left- or right-associative) one the result reveals. -/

/-- the calls made until (and including) the first one for which `stop` holds -/
def callsUntil (stop : List Obj → Bool) : List (List Obj) → List (List Obj)
  | [] => []
  | t :: ts => if stop t then [t] else t :: callsUntil stop ts

/-- every, notevery stop at the first false value; some, notany at the first true value -/
def everyTrace (f : List Obj → Obj) (seqs : List (List Obj)) : List (List Obj) :=
  callsUntil (fun t => !truthy (f t)) (tuples seqs)

def someTrace (f : List Obj → Obj) (seqs : List (List Obj)) : List (List Obj) :=
  callsUntil (fun t => truthy (f t)) (tuples seqs)

/-- map, mapcar: every tuple, in order -/
def mapTrace (seqs : List (List Obj)) : List (List Obj) := tuples seqs

/-- the calls `(f acc x)` of a left fold, in order -/
def foldlTrace (f : Obj → Obj → Obj) : Obj → List Obj → List (List Obj)
  | _, [] => []
  | acc, x :: xs => [acc, x] :: foldlTrace f (f acc x) xs

/-- `reduce`: left to right `(f acc x)`; with `:from-end` right to left `(f x acc)` -/
def reduceTrace (f : Obj → Obj → Obj) (init : Option Obj) (fromEnd : Bool) (l : List Obj) : List (List Obj) :=
  match fromEnd, init with
  | false, some z => foldlTrace f z l
  | true, some z => (foldlTrace (fun acc y => f y acc) z l.reverse).map List.reverse
  | false, none =>
    match l with
    | [] => [[]]
    | x :: r => foldlTrace f x r
  | true, none =>
    match l.reverse with
    | [] => [[]]
    | x :: r => (foldlTrace (fun acc y => f y acc) x r).map List.reverse

end SlipVerif.Seq
