import SlipVerif.Model.JsonText
/-
  C18 — SEN text (ojg's "simple encoding notation", the default text form of bags: `make-bag`,
  `:parse`, `bag-parse`, `bag-read` read it, `bag-write` writes it unless `:json t`).

  SEN is JSON with the noise removed: commas are optional (they count as white space), a string
  that is a plain word needs no quotes (as a value and as a member key), everything JSON is SEN.
  The model has a SEN writer of its own (quotes dropped only for words of letters, digits and
  underscores that start with a letter or an underscore and are not `null` / `true` / `false`;
  items separated by a blank) and a SEN reader (a bare token runs up to the next delimiter; a token
  that starts with a digit or a sign must be a number).

  Core Lean only.
-/
namespace SlipVerif.Json

open J

/-! ### characters -/

/-- characters that end a bare token -/
def isDelim (c : Char) : Bool :=
  isWs c || c == ',' || c == ':' || c == '[' || c == ']' || c == '{' || c == '}' || c == '"'

/-- white space between items: SEN counts a comma as white space -/
def isSep (c : Char) : Bool := isWs c || c == ','

def skipSep : List Char → List Char
  | [] => []
  | c :: rest => if isSep c then skipSep rest else c :: rest

/-- a maximal run of characters that are not delimiters -/
def spanTok : List Char → List Char × List Char
  | [] => ([], [])
  | c :: rest =>
    if isDelim c then ([], c :: rest)
    else
      let (tok, r) := spanTok rest
      (c :: tok, r)

def isAlpha (c : Char) : Bool := (65 ≤ c.toNat && c.toNat ≤ 90) || (97 ≤ c.toNat && c.toNat ≤ 122) || c == '_'

def isWordChar (c : Char) : Bool := isAlpha c || isDig c

def kwNull : List Char := ['n', 'u', 'l', 'l']
def kwTrue : List Char := ['t', 'r', 'u', 'e']
def kwFalse : List Char := ['f', 'a', 'l', 's', 'e']

/-- strings the model's SEN writer leaves without quotes -/
def bareOk (cs : List Char) : Bool :=
  (match cs with
   | c :: _ => isAlpha c
   | [] => false) &&
  cs.all isWordChar && !decide (cs = kwNull) && !decide (cs = kwTrue) && !decide (cs = kwFalse)

/-- the value of a bare token -/
def tokValue (tok : List Char) : Except PErr J :=
  if tok = kwNull then .ok null
  else if tok = kwTrue then .ok (J.bool true)
  else if tok = kwFalse then .ok (J.bool false)
  else match tok with
    | [] => .error .badChar
    | c :: _ =>
      if isDig c || c == '-' || c == '+' then classify tok
      else .ok (str (String.ofList tok))

/-! ### writer -/

def writeSenStr (s : String) : List Char := if bareOk s.toList then s.toList else writeStr s

mutual
/-- items are separated by a blank (and the layout's line break), members are `key:value` -/
def writeSenV (lay : Layout) (d : Nat) : J → List Char
  | null => kwNull
  | .bool true => kwTrue
  | .bool false => kwFalse
  | int i => intChars i
  | flo t => t.toList
  | str s => writeSenStr s
  | .time t => t.toList
  | arr xs => '[' :: writeSenL lay d xs
  | obj kvs => '{' :: writeSenM lay d kvs
/-- the items of an array at depth `d` and the closing bracket -/
def writeSenL (lay : Layout) (d : Nat) : List J → List Char
  | [] => lay.nl d ++ [']']
  | x :: xs => lay.nl (d + 1) ++ (writeSenV lay (d + 1) x ++ (' ' :: writeSenL lay d xs))
def writeSenM (lay : Layout) (d : Nat) : Members → List Char
  | [] => lay.nl d ++ ['}']
  | (k, v) :: kvs =>
      lay.nl (d + 1) ++ (writeSenStr k ++ (':' :: (lay.colon ++ (writeSenV lay (d + 1) v ++ (' ' :: writeSenM lay d kvs)))))
end

def writeSen (lay : Layout) (j : J) : String := String.ofList (writeSenV lay 0 j)

/-! ### reader -/

mutual
def parseSenValue : Nat → List Char → Except PErr (J × List Char)
  | 0, _ => .error .fuel
  | fuel + 1, cs =>
    match skipSep cs with
    | [] => .error .eof
    | c :: rest =>
      if c == '"' then
        match readStr rest with
        | .ok (s, r) => .ok (str (String.ofList s), r)
        | .error e => .error e
      else if c == '[' then
        match parseSenElems fuel rest with
        | .ok (xs, r) => .ok (arr xs, r)
        | .error e => .error e
      else if c == '{' then
        match parseSenMembers fuel rest with
        | .ok (kvs, r) => .ok (obj (mkMembers kvs), r)
        | .error e => .error e
      else if isDelim c then .error .badChar
      else
        match tokValue (spanTok (c :: rest)).1 with
        | .ok j => .ok (j, (spanTok (c :: rest)).2)
        | .error e => .error e
def parseSenElems : Nat → List Char → Except PErr (List J × List Char)
  | 0, _ => .error .fuel
  | fuel + 1, cs =>
    match skipSep cs with
    | [] => .error .eof
    | c :: rest =>
      if c == ']' then .ok ([], rest)
      else
        match parseSenValue fuel (c :: rest) with
        | .ok (x, r) =>
          match parseSenElems fuel r with
          | .ok (xs, r') => .ok (x :: xs, r')
          | .error e => .error e
        | .error e => .error e
def parseSenMembers : Nat → List Char → Except PErr (Members × List Char)
  | 0, _ => .error .fuel
  | fuel + 1, cs =>
    match skipSep cs with
    | [] => .error .eof
    | c :: rest =>
      if c == '}' then .ok ([], rest)
      else
        -- the key: quoted, or a bare token
        let key : Except PErr (List Char × List Char) :=
          if c == '"' then readStr rest
          else if isDelim c then .error .badChar
          else .ok (spanTok (c :: rest))
        match key with
        | .error e => .error e
        | .ok (k, r1) =>
          match skipWs r1 with
          | ':' :: r2 =>
            match parseSenValue fuel r2 with
            | .ok (v, r3) =>
              match parseSenMembers fuel r3 with
              | .ok (kvs, r4) => .ok ((String.ofList k, v) :: kvs, r4)
              | .error e => .error e
            | .error e => .error e
          | _ => .error .badChar
end

/-- parse a whole SEN text: one value, then only white space and commas -/
def parseSenChars (cs : List Char) : Except PErr J :=
  match parseSenValue (2 * cs.length + 1) cs with
  | .ok (j, rest) => if (skipSep rest).isEmpty then .ok j else .error .trailing
  | .error e => .error e

def parseSen (s : String) : Except PErr J := parseSenChars s.toList

end SlipVerif.Json
