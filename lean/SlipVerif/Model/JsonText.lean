import SlipVerif.Model.Json
/-
  C18 — JSON text for the model: a writer with a layout parameter (compact or indented, the
  model's picture of `:pretty` / `:depth`) and a recursive-descent parser with fuel.  Floats are
  opaque number tokens; integers have no size limit; strings are escaped the JSON way.

  Core Lean only.
-/
namespace SlipVerif.Json

open J

inductive PErr where
  | fuel        -- ran out of fuel (never on a text the writer produced: Theorems/C18 write_parse_roundtrip)
  | eof
  | badChar
  | badEscape
  | badNumber
  | trailing
  deriving DecidableEq, Repr

def isWs (c : Char) : Bool := c == ' ' || c == '\n' || c == '\t' || c == '\r'

def isDig (c : Char) : Bool := 48 ≤ c.toNat && c.toNat ≤ 57

def isNumChar (c : Char) : Bool :=
  isDig c || c == '-' || c == '+' || c == '.' || c == 'e' || c == 'E'

/-! ### integers -/

def digitChar (n : Nat) : Char := Char.ofNat (48 + n % 10)

def natDigits (n : Nat) : List Char :=
  if n < 10 then [digitChar n] else natDigits (n / 10) ++ [digitChar n]
decreasing_by omega

def intChars : Int → List Char
  | .ofNat n => natDigits n
  | .negSucc n => '-' :: natDigits (n + 1)

def digitVal (c : Char) : Nat := c.toNat - 48

def natOfDigits (cs : List Char) : Nat := cs.foldl (fun a c => a * 10 + digitVal c) 0

/-! ### float tokens -/

def isFloMark (c : Char) : Bool := c == '.' || c == 'e' || c == 'E'

/-- a number token that is not an integer literal: digits/sign/point/exponent characters only,
    starts with a digit or a minus sign, contains a point or an exponent mark -/
def validFlo (tok : List Char) : Bool :=
  tok.all isNumChar && tok.any isFloMark &&
  (match tok with
   | c :: _ => isDig c || c == '-'
   | [] => false)

/-- classify a maximal run of number characters -/
def classify (tok : List Char) : Except PErr J :=
  match tok with
  | [] => .error .badNumber
  | c :: ds =>
    if c == '-' then
      (if !ds.isEmpty && ds.all isDig then .ok (int (-(natOfDigits ds : Int)))
       else if validFlo tok then .ok (flo (String.ofList tok)) else .error .badNumber)
    else
      (if tok.all isDig then .ok (int (natOfDigits tok))
       else if validFlo tok then .ok (flo (String.ofList tok)) else .error .badNumber)

/-! ### strings -/

def hexDigit (n : Nat) : Char :=
  if n % 16 < 10 then Char.ofNat (48 + n % 16) else Char.ofNat (87 + n % 16)

def hexVal (c : Char) : Option Nat :=
  if 48 ≤ c.toNat && c.toNat ≤ 57 then some (c.toNat - 48)
  else if 97 ≤ c.toNat && c.toNat ≤ 102 then some (c.toNat - 87)
  else if 65 ≤ c.toNat && c.toNat ≤ 70 then some (c.toNat - 55)
  else none

def hex4 (n : Nat) : List Char :=
  [hexDigit (n / 4096), hexDigit (n / 256), hexDigit (n / 16), hexDigit n]

def escChar (c : Char) : List Char :=
  if c == '"' then ['\\', '"']
  else if c == '\\' then ['\\', '\\']
  else if c == '\n' then ['\\', 'n']
  else if c == '\t' then ['\\', 't']
  else if c == '\r' then ['\\', 'r']
  else if c.toNat < 32 then '\\' :: 'u' :: hex4 c.toNat
  else [c]

def writeStr (s : String) : List Char := '"' :: (s.toList.flatMap escChar ++ ['"'])

def unesc (e : Char) : Option Char :=
  if e == '"' then some '"'
  else if e == '\\' then some '\\'
  else if e == '/' then some '/'
  else if e == 'n' then some '\n'
  else if e == 't' then some '\t'
  else if e == 'r' then some '\r'
  else if e == 'b' then some (Char.ofNat 8)
  else if e == 'f' then some (Char.ofNat 12)
  else none

/-- reader state inside a string body: plain, after a backslash, inside `\uXXXX` with `k` digits
    read and their value so far -/
inductive SState where
  | norm
  | esc
  | hex (k : Nat) (acc : Nat)

def consChar (c : Char) (r : Except PErr (List Char × List Char)) : Except PErr (List Char × List Char) :=
  match r with
  | .ok (s, rest) => .ok (c :: s, rest)
  | .error e => .error e

/-- one character at a time: the characters of a string body up to the closing quote (the
    opening quote is consumed), and what follows the closing quote -/
def readStrS : SState → List Char → Except PErr (List Char × List Char)
  | _, [] => .error .eof
  | .norm, c :: rest =>
    if c == '"' then .ok ([], rest)
    else if c == '\\' then readStrS .esc rest
    else consChar c (readStrS .norm rest)
  | .esc, e :: rest =>
    if e == 'u' then readStrS (.hex 0 0) rest
    else match unesc e with
      | some ch => consChar ch (readStrS .norm rest)
      | none => .error .badEscape
  | .hex k acc, h :: rest =>
    match hexVal h with
    | none => .error .badEscape
    | some x =>
      let n := acc * 16 + x
      if k = 3 then
        (if n < 0xd800 ∨ 0xdfff < n then consChar (Char.ofNat n) (readStrS .norm rest)
         else .error .badEscape)
      else readStrS (.hex (k + 1) n) rest

def readStr (cs : List Char) : Except PErr (List Char × List Char) := readStrS .norm cs

/-! ### writer -/

/-- white space the writer inserts: `nl d` before an item at depth `d` and before a closing
    bracket, `colon` after the colon of a member -/
structure Layout where
  nl : Nat → List Char
  colon : List Char

def Layout.compact : Layout := { nl := fun _ => [], colon := [] }

/-- one item per line, `n` spaces per level -/
def Layout.indent (n : Nat) : Layout :=
  { nl := fun d => '\n' :: List.replicate (n * d) ' ', colon := [' '] }

mutual
def writeV (lay : Layout) (d : Nat) : J → List Char
  | null => ['n', 'u', 'l', 'l']
  | .bool true => ['t', 'r', 'u', 'e']
  | .bool false => ['f', 'a', 'l', 's', 'e']
  | int i => intChars i
  | flo t => t.toList
  | str s => writeStr s
  | .time t => t.toList         -- opaque; not part of the text round trip (`TextOk` excludes it)
  | arr [] => ['[', ']']
  | arr (x :: xs) => '[' :: (lay.nl (d + 1) ++ (writeV lay (d + 1) x ++ writeRestL lay d xs))
  | obj [] => ['{', '}']
  | obj ((k, v) :: kvs) =>
      '{' :: (lay.nl (d + 1) ++ (writeStr k ++ (':' :: (lay.colon ++ (writeV lay (d + 1) v ++ writeRestM lay d kvs)))))
def writeRestL (lay : Layout) (d : Nat) : List J → List Char
  | [] => lay.nl d ++ [']']
  | x :: xs => ',' :: (lay.nl (d + 1) ++ (writeV lay (d + 1) x ++ writeRestL lay d xs))
def writeRestM (lay : Layout) (d : Nat) : Members → List Char
  | [] => lay.nl d ++ ['}']
  | (k, v) :: kvs =>
      ',' :: (lay.nl (d + 1) ++ (writeStr k ++ (':' :: (lay.colon ++ (writeV lay (d + 1) v ++ writeRestM lay d kvs)))))
end

def write (lay : Layout) (j : J) : String := String.ofList (writeV lay 0 j)

/-! ### parser -/

def skipWs : List Char → List Char
  | [] => []
  | c :: rest => if isWs c then skipWs rest else c :: rest

def stripPrefix : List Char → List Char → Option (List Char)
  | [], cs => some cs
  | _ :: _, [] => none
  | p :: ps, c :: cs => if p == c then stripPrefix ps cs else none

def spanNum : List Char → List Char × List Char
  | [] => ([], [])
  | c :: rest =>
    if isNumChar c then
      let (tok, r) := spanNum rest
      (c :: tok, r)
    else ([], c :: rest)

mutual
def parseValue : Nat → List Char → Except PErr (J × List Char)
  | 0, _ => .error .fuel
  | fuel + 1, cs =>
    match skipWs cs with
    | [] => .error .eof
    | c :: rest =>
      if c == 'n' then
        match stripPrefix ['u', 'l', 'l'] rest with
        | some r => .ok (null, r)
        | none => .error .badChar
      else if c == 't' then
        match stripPrefix ['r', 'u', 'e'] rest with
        | some r => .ok (J.bool true, r)
        | none => .error .badChar
      else if c == 'f' then
        match stripPrefix ['a', 'l', 's', 'e'] rest with
        | some r => .ok (J.bool false, r)
        | none => .error .badChar
      else if c == '"' then do
        let (s, r) ← readStr rest
        .ok (str (String.ofList s), r)
      else if c == '[' then
        match skipWs rest with
        | ']' :: r => .ok (arr [], r)
        | r => do
            let (xs, r') ← parseElems fuel r
            .ok (arr xs, r')
      else if c == '{' then
        match skipWs rest with
        | '}' :: r => .ok (obj [], r)
        | r => do
            let (kvs, r') ← parseMembers fuel r
            .ok (obj (mkMembers kvs), r')
      else if isNumChar c then
        let (tok, r) := spanNum (c :: rest)
        match classify tok with
        | .ok j => .ok (j, r)
        | .error e => .error e
      else .error .badChar
def parseElems : Nat → List Char → Except PErr (List J × List Char)
  | 0, _ => .error .fuel
  | fuel + 1, cs => do
    let (x, r) ← parseValue fuel cs
    match skipWs r with
    | ',' :: r2 => do
        let (xs, r3) ← parseElems fuel r2
        .ok (x :: xs, r3)
    | ']' :: r2 => .ok ([x], r2)
    | _ => .error .badChar
def parseMembers : Nat → List Char → Except PErr (Members × List Char)
  | 0, _ => .error .fuel
  | fuel + 1, cs =>
    match skipWs cs with
    | '"' :: r0 => do
      let (k, r1) ← readStr r0
      match skipWs r1 with
      | ':' :: r2 => do
        let (v, r3) ← parseValue fuel r2
        match skipWs r3 with
        | ',' :: r4 => do
            let (kvs, r5) ← parseMembers fuel r4
            .ok ((String.ofList k, v) :: kvs, r5)
        | '}' :: r4 => .ok ([(String.ofList k, v)], r4)
        | _ => .error .badChar
      | _ => .error .badChar
    | _ => .error .badChar
end

/-- parse a whole text: one value, then only white space -/
def parseChars (cs : List Char) : Except PErr J :=
  match parseValue (cs.length + 1) cs with
  | .ok (j, rest) => if (skipWs rest).isEmpty then .ok j else .error .trailing
  | .error e => .error e

def parse (s : String) : Except PErr J := parseChars s.toList

/-! ### several documents in one text (`json-parse`, `each-bag`, streams) -/

/-- documents one after the other, white space between them is optional where the syntax allows
    it; `n` bounds the number of documents (every document takes at least one character) -/
def parseManyAux : Nat → List Char → Except PErr (List J)
  | 0, _ => .error .fuel
  | n + 1, cs =>
    match skipWs cs with
    | [] => .ok []
    | c :: rest =>
      match parseValue (rest.length + 2) (c :: rest) with
      | .ok (j, r) =>
        match parseManyAux n r with
        | .ok js => .ok (j :: js)
        | .error e => .error e
      | .error e => .error e

def parseMany (s : String) : Except PErr (List J) := parseManyAux (s.length + 1) s.toList

end SlipVerif.Json
