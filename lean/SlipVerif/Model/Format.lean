import SlipVerif.Model.FormatNum
/-! C15 — `format`: directive parser and interpreter over an argument cursor (core Lean only).

`parse` turns a control string into a tree of items (literal bytes, simple directives, and the
three block constructs ~( ~) / ~[ ~; ~] / ~{ ~}); `runItems` interprets the tree over the state
(argument list, cursor, output so far). `format` is the entry the driver calls.

The reference is the documented behaviour (slip's doc string of `format`, Common Lisp where the
doc string is silent): `~^` stops exactly when no arguments remain; `~&` and `~T` look at the
whole output produced so far; rejected inputs are explicit errors. -/
namespace SlipVerif.Format

/-! ## arguments and the simple printer -/

inductive Arg where
  | nil
  | int (n : Int)
  | str (s : Txt)
  | sym (name : Txt)      -- printed name (lower case), keywords carry their colon
  | chr (c : Nat)
  | cons (hd tl : Arg)
  deriving Repr, DecidableEq

/-- the elements of a proper list -/
def Arg.toList? : Arg → Option (List Arg)
  | .nil => some []
  | .cons h t => (Arg.toList? t).map (h :: ·)
  | _ => none

def Arg.ofList : List Arg → Arg
  | [] => .nil
  | a :: as => .cons a (Arg.ofList as)

def wNil : Txt := [110, 105, 108]

/-- names of the non-graphic characters the model knows (Common Lisp standard / semi-standard) -/
def charName? (c : Nat) : Option Txt :=
  if c = 32 then some [83, 112, 97, 99, 101]                    -- Space
  else if c = 10 then some [78, 101, 119, 108, 105, 110, 101]   -- Newline
  else if c = 9 then some [84, 97, 98]                          -- Tab
  else if c = 12 then some [80, 97, 103, 101]                   -- Page
  else if c = 13 then some [82, 101, 116, 117, 114, 110]        -- Return
  else if c = 8 then some [66, 97, 99, 107, 115, 112, 97, 99, 101] -- Backspace
  else if c = 127 then some [82, 117, 98, 111, 117, 116]        -- Rubout
  else none

/-- the spelled form of a character: its name; `u00hh` for the other control characters below U+0020
    (slip's naming); else the character itself (UTF-8). Only scalar values are characters. -/
def charSpelled (c : Nat) : Except Err Txt :=
  match charName? c with
  | some n => .ok n
  | none =>
    if c < 32 then .ok [117, 48, 48, digitChar (c / 16), digitChar (c % 16)]
    else if isScalar c then .ok (utf8Enc c) else .error .unsupported

/-- the character itself, as text -/
def charText (c : Nat) : Except Err Txt := if isScalar c then .ok (utf8Enc c) else .error .unsupported

/-- an integer under the printer variables of the call -/
def printInt (T : EnglishTables) (n : Int) : Txt := showIntEnv T.printBase T.printRadix n

def escapeStr : Txt → Txt
  | [] => []
  | c :: cs => if c = 34 ∨ c = 92 then 92 :: c :: escapeStr cs else c :: escapeStr cs

/-- atoms: princ (`esc = false`) / prin1 (`esc = true`) -/
def printAtom (T : EnglishTables) (esc : Bool) : Arg → Except Err Txt
  | .nil => .ok wNil
  | .int n => .ok (printInt T n)
  | .str s => .ok (if esc then 34 :: escapeStr s ++ [34] else s)
  | .sym n => .ok n
  | .chr c => if esc then (charSpelled c).map (fun t => 35 :: 92 :: t) else charText c
  | .cons _ _ => .error .unsupported

/-- princ / prin1 of any argument. `inList` = we are printing the tail of a list. -/
def printArg (T : EnglishTables) (esc : Bool) : Bool → Arg → Except Err Txt
  | false, .cons h t => do
      let a ← printArg T esc false h
      let b ← printArg T esc true t
      pure (40 :: a ++ b)
  | false, x => printAtom T esc x
  | true, .nil => .ok [41]
  | true, .cons h t => do
      let a ← printArg T esc false h
      let b ← printArg T esc true t
      pure (32 :: a ++ b)
  | true, x => do
      let a ← printAtom T esc x
      pure ([32, 46, 32] ++ a ++ [41])

def princ (T : EnglishTables) (a : Arg) : Except Err Txt := printArg T false false a
def prin1 (T : EnglishTables) (a : Arg) : Except Err Txt := printArg T true false a

/-- what ~D ~B ~O ~X ~nR print for an argument that is no integer: like ~A with `*print-base*` 10 and
    `*print-radix*` nil (Common Lisp 22.3.2.2) -/
def princDecimal (T : EnglishTables) (a : Arg) : Except Err Txt :=
  princ { T with printBase := 10, printRadix := false } a

/-! ## control string syntax -/

inductive Param where
  | none | num (n : Int) | chr (c : Nat) | v | hash
  deriving Repr, DecidableEq

inductive Kind where
  | a | s | d | b | o | x | r | c | pct | amp | tilde | page | t | star | p | hat | nl
  deriving Repr, DecidableEq

inductive Item where
  | nop                                                            -- ~newline (writes nothing)
  | lit (c : Nat)
  | simple (k : Kind) (ps : List Param) (colon atm : Bool)
  | recur (atm : Bool)                                             -- ~? ~@?
  | caseConv (colon atm : Bool) (body : List Item)                 -- ~( … ~)
  | cond (ps : List Param) (colon atm : Bool) (clauses : List (List Item)) (hasDflt : Bool) (dflt : List Item)
  | iter (ps : List Param) (colon atm : Bool) (body : List Item) (atLeastOnce : Bool)

/-- how a sequence of items ended -/
inductive Closer where
  | eof
  | paren            -- ~)
  | bracket          -- ~]
  | brace (colon : Bool)   -- ~} ~:}
  | semi (colon : Bool)    -- ~; ~:;
  deriving Repr, DecidableEq

def isDigit (c : Nat) : Bool := 48 ≤ c && c ≤ 57

def takeDigits : Txt → Txt × Txt
  | [] => ([], [])
  | c :: cs => if isDigit c then let (d, r) := takeDigits cs; (c :: d, r) else ([], c :: cs)

def natOfDigits (ds : Txt) : Nat := ds.foldl (fun acc c => acc * 10 + (c - 48)) 0

/-- one prefix parameter, if one starts here -/
def parseParam : Txt → Except Err (Option Param × Txt)
  | 39 :: c :: rest => .ok (some (.chr c), rest)            -- 'c
  | [39] => .error .syntax
  | 118 :: rest => .ok (some .v, rest)                       -- v
  | 86 :: rest => .ok (some .v, rest)                        -- V
  | 35 :: rest => .ok (some .hash, rest)                     -- #
  | 45 :: rest =>                                            -- -ddd
    let (d, r) := takeDigits rest
    if d = [] then .error .syntax else .ok (some (.num (-(natOfDigits d : Int))), r)
  | 43 :: rest =>                                            -- +ddd
    let (d, r) := takeDigits rest
    if d = [] then .error .syntax else .ok (some (.num (natOfDigits d : Int)), r)
  | cs =>
    let (d, r) := takeDigits cs
    if d = [] then .ok (none, cs) else .ok (some (.num (natOfDigits d : Int)), r)

/-- comma separated prefix parameters; an omitted one is `Param.none` -/
def parseParams : Nat → Txt → Except Err (List Param × Txt)
  | 0, _ => .error .fuel
  | f + 1, cs => do
    let (p, r) ← parseParam cs
    match r with
    | 44 :: r' => do
      let (ps, r'') ← parseParams f r'
      pure ((p.getD .none) :: ps, r'')
    | _ => match p with
      | some q => pure ([q], r)
      | none => pure ([], r)

/-- `:` and `@` in any order, each at most once -/
def parseMods : Bool → Bool → Txt → Except Err (Bool × Bool × Txt)
  | colon, atm, 58 :: rest => if colon then .error .syntax else parseMods true atm rest
  | colon, atm, 64 :: rest => if atm then .error .syntax else parseMods colon true rest
  | colon, atm, rest => .ok (colon, atm, rest)

def lowerCh (c : Nat) : Nat := if 65 ≤ c ∧ c ≤ 90 then c + 32 else c

def kindOf? (c : Nat) : Option Kind :=
  match lowerCh c with
  | 97 => some .a | 115 => some .s | 100 => some .d | 98 => some .b | 111 => some .o
  | 120 => some .x | 114 => some .r | 99 => some .c | 37 => some .pct | 38 => some .amp
  | 126 => some .tilde | 124 => some .page | 116 => some .t | 42 => some .star
  | 112 => some .p | 94 => some .hat | 10 => some .nl
  | _ => none

mutual
/-- items up to the next closing directive (or the end) -/
def parseSeq : Nat → Txt → Except Err (List Item × Closer × Txt)
  | 0, _ => .error .fuel
  | _ + 1, [] => .ok ([], .eof, [])
  | f + 1, c :: cs =>
    if c ≠ 126 then do
      let (is, cl, r) ← parseSeq f cs
      pure (.lit c :: is, cl, r)
    else do
      let (ps, r0) ← parseParams (cs.length + 1) cs
      let (colon, atm, r1) ← parseMods false false r0
      match r1 with
      | [] => .error .syntax
      | ch :: rest =>
        if ch = 41 then (if ps ≠ [] ∨ colon ∨ atm then .error .syntax else .ok ([], .paren, rest))
        else if ch = 93 then (if ps ≠ [] ∨ colon ∨ atm then .error .syntax else .ok ([], .bracket, rest))
        else if ch = 125 then (if ps ≠ [] ∨ atm then .error .syntax else .ok ([], .brace colon, rest))
        else if ch = 59 then (if ps ≠ [] ∨ atm then .error .syntax else .ok ([], .semi colon, rest))
        else if ch = 40 then do
          if ps ≠ [] then .error .syntax
          let (body, cl, r2) ← parseSeq f rest
          if cl ≠ .paren then .error .syntax
          let (is, cl2, r3) ← parseSeq f r2
          pure (.caseConv colon atm body :: is, cl2, r3)
        else if ch = 123 then do
          let (body, cl, r2) ← parseSeq f rest
          match cl with
          | .brace once => do
            let (is, cl2, r3) ← parseSeq f r2
            pure (.iter ps colon atm body once :: is, cl2, r3)
          | _ => .error .syntax
        else if ch = 91 then do
          let (clauses, hasD, dflt, r2) ← parseClauses f rest
          let (is, cl2, r3) ← parseSeq f r2
          pure (.cond ps colon atm clauses hasD dflt :: is, cl2, r3)
        else if ch = 63 then do
          if ps ≠ [] ∨ colon then .error .syntax
          let (is, cl, r2) ← parseSeq f rest
          pure (.recur atm :: is, cl, r2)
        else if ch = 10 then
          -- ~newline: the newline and the blanks after it are ignored; `:` keeps the blanks, `@` keeps the newline
          if ps ≠ [] ∨ (colon ∧ atm) then .error .syntax
          else do
            let rest' := if colon then rest else rest.dropWhile (fun c => c = 32 ∨ c = 9)
            let (is, cl, r2) ← parseSeq f rest'
            pure (if atm then .nop :: .lit 10 :: is else .nop :: is, cl, r2)
        else match kindOf? ch with
          | none => .error .syntax
          | some k => do
            let (is, cl, r2) ← parseSeq f rest
            pure (.simple k ps colon atm :: is, cl, r2)

/-- the clauses of a conditional up to ~] ; `~:;` announces the default clause, which must be last -/
def parseClauses : Nat → Txt → Except Err (List (List Item) × Bool × List Item × Txt)
  | 0, _ => .error .fuel
  | f + 1, cs => do
    let (is, cl, r) ← parseSeq f cs
    match cl with
    | .bracket => pure ([is], false, [], r)
    | .semi false => do
      let (more, hasD, d, r2) ← parseClauses f r
      pure (is :: more, hasD, d, r2)
    | .semi true => do
      let (d, cl2, r2) ← parseSeq f r
      if cl2 ≠ .bracket then .error .syntax
      pure ([is], true, d, r2)
    | _ => .error .syntax
end

def parse (ctrl : Txt) : Except Err (List Item) := do
  let (is, cl, _) ← parseSeq (2 * ctrl.length + 2) ctrl
  if cl ≠ .eof then .error .syntax
  pure is

/-! ## interpreter -/

structure St where
  args : List Arg
  pos : Nat
  out : Txt
  deriving Repr

inductive Flow where
  | cont | stop
  deriving Repr, DecidableEq

def St.remaining (st : St) : Nat := st.args.length - st.pos

def St.emit (st : St) (t : Txt) : St := { st with out := st.out ++ t }

/-- the next argument, advancing the cursor -/
def St.next (st : St) : Except Err (Arg × St) :=
  match st.args[st.pos]? with
  | some a => .ok (a, { st with pos := st.pos + 1 })
  | none => .error .args

/-- resolve the prefix parameters: `v` takes the next argument, `#` the number of remaining ones -/
inductive PVal where
  | none | num (n : Int) | chr (c : Nat)
  deriving Repr, DecidableEq

def resolveParams : List Param → St → Except Err (List PVal × St)
  | [], st => .ok ([], st)
  | p :: ps, st =>
    match p with
    | .none => do let (vs, st') ← resolveParams ps st; pure (.none :: vs, st')
    | .num n => do let (vs, st') ← resolveParams ps st; pure (.num n :: vs, st')
    | .chr c => do let (vs, st') ← resolveParams ps st; pure (.chr c :: vs, st')
    | .hash => do let (vs, st') ← resolveParams ps st; pure (.num st.remaining :: vs, st')
    | .v => do
      let (a, st1) ← st.next
      let pv ← match a with
        | .nil => pure PVal.none
        | .int n => pure (PVal.num n)
        | .chr c => pure (PVal.chr c)
        | _ => .error .type
      let (vs, st') ← resolveParams ps st1
      pure (pv :: vs, st')

/-- a non-negative integer parameter (or its default) -/
def natParam (vs : List PVal) (i : Nat) (dflt : Nat) : Except Err Nat :=
  match vs[i]? with
  | Option.none => .ok dflt
  | some .none => .ok dflt
  | some (.num n) => if n < 0 then .error .range else .ok n.toNat
  | some (.chr _) => .error .type

def chrParam (vs : List PVal) (i : Nat) (dflt : Nat) : Except Err Nat :=
  match vs[i]? with
  | Option.none => .ok dflt
  | some .none => .ok dflt
  | some (.chr c) => .ok c
  | some (.num _) => .error .type

/-- is the `i`-th parameter present (not omitted)? -/
def hasParam (vs : List PVal) (i : Nat) : Bool :=
  match vs[i]? with
  | some .none => false
  | some _ => true
  | Option.none => false

/-- ~mincol,colinc,minpad,padcharA : `minpad` copies, then `colinc` at a time up to `mincol`;
    colinc must be at least 1 (an increment of 0 is outside the directive's domain whether or not
    padding is needed — the code's test `colinc < 1`, tied in Theorems/GenC15Code) -/
def padAS (mincol colinc minpad pad : Nat) (atm : Bool) (s : Txt) : Except Err Txt :=
  let base := s.length + minpad
  if colinc = 0 then .error .range else
  let k := if base < mincol then (mincol - base + colinc - 1) / colinc else 0
  let p := List.replicate (minpad + k * colinc) pad
  .ok (if atm then p ++ s else s ++ p)

/-- the column of the output so far (bytes since the last newline, return or form feed) -/
def isLineBreak (c : Nat) : Bool := c = 10 || c = 13 || c = 12

def column (t : Txt) : Nat := (t.reverse.takeWhile (fun c => !isLineBreak c)).length

def endsWithNewline (t : Txt) : Bool := t.getLast? = some 10

/-- ~colnum,colincT as slip documents it (colinc is the width of a column, colnum counts columns):
    move to column `colnum*colinc` when not beyond it, otherwise to the next multiple of `colinc`.
    ~colrel,colinc@T: `colrel` spaces, then up to a multiple of `colinc`. -/
def tabSpaces (atm : Bool) (colnum colinc : Nat) (cur : Nat) : Nat :=
  if atm then
    let c := cur + colnum
    if colinc = 0 then colnum else colnum + ((colinc - c % colinc) % colinc)
  else
    let target := colnum * colinc
    if cur ≤ target then target - cur
    else if colinc = 0 then 0 else colinc - cur % colinc

def intFmtOf (vs : List PVal) (off : Nat) (colon atm : Bool) : Except Err IntFmt := do
  let mincol ← natParam vs off 0
  let pad ← chrParam vs (off + 1) 32
  let comma ← chrParam vs (off + 2) 44
  let interval ← natParam vs (off + 3) 3
  if interval = 0 then .error .range
  pure { mincol, pad, comma, interval, colon, atm }

/-- ~D ~B ~O ~X ~nR on any argument: integers by `renderInt`, everything else like ~A (left padded) -/
def runIntDir (T : EnglishTables) (base : Nat) (vs : List PVal) (off : Nat) (colon atm : Bool) (st : St) : Except Err St := do
  let f ← intFmtOf vs off colon atm
  let (a, st1) ← st.next
  match a with
  | .int n => pure (st1.emit (renderInt base f n))
  | x => do
    let t ← princDecimal T x
    pure (st1.emit (padLeft f.mincol f.pad t))

def repeatDir (vs : List PVal) (c : Nat) (st : St) : Except Err St := do
  let n ← natParam vs 0 1
  pure (st.emit (List.replicate n c))

/-- the simple (non-block) directives; `.hat` and `.nl` are handled by the caller -/
def runSimple (T : EnglishTables) (k : Kind) (vs : List PVal) (colon atm : Bool) (st : St) : Except Err St :=
  match k with
  | .a | .s => do
    let mincol ← natParam vs 0 0
    let colinc ← natParam vs 1 1
    let minpad ← natParam vs 2 0
    let pad ← chrParam vs 3 32
    let (a, st1) ← st.next
    let t ← if colon ∧ a = .nil then pure [40, 41] else (if k = .a then princ T a else prin1 T a)
    let t' ← padAS mincol colinc minpad pad atm t
    pure (st1.emit t')
  | .d => runIntDir T 10 vs 0 colon atm st
  | .b => runIntDir T 2 vs 0 colon atm st
  | .o => runIntDir T 8 vs 0 colon atm st
  | .x => runIntDir T 16 vs 0 colon atm st
  | .r =>
    if hasParam vs 0 then do
      let radix ← natParam vs 0 10
      if radix < 2 ∨ 36 < radix then .error .range
      runIntDir T radix vs 1 colon atm st
    else do
      let (a, st1) ← st.next
      match a with
      | .int n => do
        let t ← match colon, atm with
          | false, false => cardinal T n
          | true, false => ordinal T n
          | false, true => roman Gen.FormatTables.romanNumerals n
          | true, true => roman Gen.FormatTables.oldRomanNumerals n
        pure (st1.emit t)
      | _ => .error .type
  | .c => do
    let (a, st1) ← st.next
    match a with
    | .chr c => do
      let t ← match colon, atm with
        | false, false => charText c
        | true, _ => charSpelled c
        | false, true => (charSpelled c).map (fun t => 35 :: 92 :: t)
      pure (st1.emit t)
    | _ => .error .type
  | .pct => if colon ∨ atm then .error .syntax else repeatDir vs 10 st
  | .tilde => if colon ∨ atm then .error .syntax else repeatDir vs 126 st
  | .page => if colon ∨ atm then .error .syntax else repeatDir vs 12 st
  | .amp => do
    if colon ∨ atm then .error .syntax
    let n ← natParam vs 0 1
    if n = 0 then pure st
    else if endsWithNewline st.out then pure (st.emit (List.replicate (n - 1) 10))
    else pure (st.emit (List.replicate n 10))
  | .t => do
    if colon then .error .unsupported
    let colnum ← natParam vs 0 1
    let colinc ← natParam vs 1 1
    pure (st.emit (List.replicate (tabSpaces atm colnum colinc (column st.out)) 32))
  | .star => do
    if colon ∧ atm then .error .syntax
    let n ← natParam vs 0 (if atm then 0 else 1)
    if atm then (if n ≤ st.args.length then pure { st with pos := n } else .error .args)
    else if colon then (if n ≤ st.pos then pure { st with pos := st.pos - n } else .error .args)
    else (if st.pos + n ≤ st.args.length then pure { st with pos := st.pos + n } else .error .args)
  | .p => do
    let st0 ← if colon then (if 1 ≤ st.pos then pure { st with pos := st.pos - 1 } else .error .args) else pure st
    let (a, st1) ← st0.next
    let one := (a = .int 1)
    pure (st1.emit (if atm then (if one then [121] else [105, 101, 115]) else (if one then [] else [115])))
  | .hat => .error .unsupported
  | .nl => .error .unsupported

/-- ~[ with an integer selector: clause `n`, else the default clause, else nothing -/
def selectClause (clauses : List (List Item)) (hasDflt : Bool) (dflt : List Item) (n : Int) : List Item :=
  if 0 ≤ n then
    match clauses[n.toNat]? with
    | some c => c
    | none => if hasDflt then dflt else []
  else if hasDflt then dflt else []

mutual
def runItems (T : EnglishTables) : Nat → List Item → St → Except Err (St × Flow)
  | 0, _, _ => .error .fuel
  | _ + 1, [], st => .ok (st, .cont)
  | f + 1, it :: rest, st => do
    let (st1, fl) ← runItem T f it st
    match fl with
    | .stop => pure (st1, .stop)
    | .cont => runItems T f rest st1

def runItem (T : EnglishTables) : Nat → Item → St → Except Err (St × Flow)
  | 0, _, _ => .error .fuel
  | _ + 1, .nop, st => .ok (st, .cont)
  | _ + 1, .lit c, st => .ok (st.emit [c], .cont)
  | _ + 1, .simple k ps colon atm, st => do
    let (vs, st1) ← resolveParams ps st
    if k = .hat then
      if vs ≠ [] ∨ colon ∨ atm then .error .unsupported
      else if st1.remaining = 0 then pure (st1, .stop) else pure (st1, .cont)
    else do
      let st2 ← runSimple T k vs colon atm st1
      pure (st2, .cont)
  | f + 1, .recur atm, st => do
    let (a, st1) ← st.next
    match a with
    | .str ctrl => do
      let items ← parse ctrl
      if atm then do
        let (st2, _) ← runItems T f items st1
        pure (st2, .cont)
      else do
        let (l, st2) ← st1.next
        match l.toList? with
        | none => .error .type
        | some sub => do
          let (st3, _) ← runItems T f items { args := sub, pos := 0, out := st2.out }
          pure ({ st2 with out := st3.out }, .cont)
    | _ => .error .type
  | f + 1, .caseConv colon atm body, st => do
    let (st1, fl) ← runItems T f body st
    let produced := st1.out.drop st.out.length
    pure ({ st1 with out := st.out ++ convCase (caseMode colon atm) produced }, fl)
  | f + 1, .cond ps colon atm clauses hasD dflt, st => do
    let (vs, st1) ← resolveParams ps st
    if colon ∧ atm then .error .syntax
    else if colon then
      match clauses, hasD with
      | [alt, con], false => do
        let (a, st2) ← st1.next
        runItems T f (if a = .nil then alt else con) st2
      | _, _ => .error .syntax
    else if atm then
      match clauses, hasD with
      | [con], false => do
        let (a, st2) ← st1.next
        if a = .nil then pure (st2, .cont) else runItems T f con st1
      | _, _ => .error .syntax
    else
      match vs with
      | [] => do
        let (a, st2) ← st1.next
        match a with
        | .int n => runItems T f (selectClause clauses hasD dflt n) st2
        | _ => .error .type
      | [.num n] => runItems T f (selectClause clauses hasD dflt n) st1
      | [.none] => do
        let (a, st2) ← st1.next
        match a with
        | .int n => runItems T f (selectClause clauses hasD dflt n) st2
        | _ => .error .type
      | _ => .error .syntax
  | f + 1, .iter ps colon atm body once, st => do
    let (vs, st1) ← resolveParams ps st
    let hasMax := hasParam vs 0
    let max ← natParam vs 0 0
    if body = [] then .error .unsupported
    else match colon, atm with
      | false, false => do
        let (l, st2) ← st1.next
        match l.toList? with
        | none => .error .type
        | some sub => do
          let inner ← iterLoop T f body hasMax max once { args := sub, pos := 0, out := st2.out }
          pure ({ st2 with out := inner.out }, .cont)
      | false, true => do
        let st2 ← iterLoop T f body hasMax max once st1
        pure (st2, .cont)
      | true, false => do
        let (l, st2) ← st1.next
        match l.toList? with
        | none => .error .type
        | some subs => do
          let out ← iterLists T f body hasMax max once subs st2.out
          pure ({ st2 with out := out }, .cont)
      | true, true => do
        let subs := st1.args.drop st1.pos
        let n := if hasMax then min max subs.length else subs.length
        let out ← iterLists T f body hasMax max once subs st1.out
        pure ({ st1 with pos := st1.pos + n, out := out }, .cont)

/-- ~{ and ~@{ : run the body while arguments remain (at most `max` times); `once` = ~:} -/
def iterLoop (T : EnglishTables) : Nat → List Item → Bool → Nat → Bool → St → Except Err St
  | 0, _, _, _, _, _ => .error .fuel
  | f + 1, body, hasMax, max, once, st =>
    if hasMax ∧ max = 0 then .ok st
    else if st.remaining = 0 ∧ ¬ once then .ok st
    else do
      let (st1, fl) ← runItems T f body st
      match fl with
      | .stop => pure st1
      | .cont => iterLoop T f body hasMax (max - 1) false st1

/-- ~:{ and ~:@{ : one run of the body per sublist (at most `max`); `~^` ends only the current run -/
def iterLists (T : EnglishTables) : Nat → List Item → Bool → Nat → Bool → List Arg → Txt → Except Err Txt
  | 0, _, _, _, _, _, _ => .error .fuel
  | f + 1, body, hasMax, max, once, subs, out =>
    if hasMax ∧ max = 0 then .ok out
    else match subs with
      | [] =>
        if once then do
          let (st1, _) ← runItems T f body { args := [], pos := 0, out := out }
          pure st1.out
        else .ok out
      | s :: rest =>
        match s.toList? with
        | none => .error .type
        | some sub => do
          let (st1, _) ← runItems T f body { args := sub, pos := 0, out := out }
          iterLists T f body hasMax (max - 1) false rest st1.out
end

def defaultFuel : Nat := 100000

/-- the text `(format dest control args…)` produces -/
def formatText (ctrl : Txt) (args : List Arg) : Except Err Txt := do
  let items ← parse ctrl
  let (st, _) ← runItems genTables defaultFuel items { args := args, pos := 0, out := [] }
  pure st.out

/-- the same under `*print-base*` = base, `*print-radix*` = radix (2 ≤ base ≤ 36, as slip enforces when
    the variable is bound) -/
def formatTextEnv (base : Nat) (radix : Bool) (ctrl : Txt) (args : List Arg) : Except Err Txt := do
  if base < 2 ∨ 36 < base then .error .range
  let items ← parse ctrl
  let (st, _) ← runItems { genTables with printBase := base, printRadix := radix } defaultFuel items
    { args := args, pos := 0, out := [] }
  pure st.out

/-- destinations: `nil` returns the text; a stream (its content so far) receives it, the value is nil -/
inductive Dest where
  | nil
  | stream (content : Txt)
  deriving Repr

structure Result where
  value : Option Txt     -- the returned string (`none` = nil)
  stream : Option Txt    -- the stream's content afterwards
  deriving Repr

def format (dest : Dest) (ctrl : Txt) (args : List Arg) : Except Err Result := do
  let t ← formatText ctrl args
  match dest with
  | .nil => pure { value := some t, stream := none }
  | .stream c => pure { value := none, stream := some (c ++ t) }

end SlipVerif.Format
