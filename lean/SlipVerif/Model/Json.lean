/-
  C18 — JSON data in bags: the reference JSON-path model.

  `J` is a JSON document as a bag holds it (ojg's `any`-tree): null, booleans, integers of any
  size, floats as opaque tokens (never computed on), strings, arrays, objects as *ordered* member
  lists (lookup = first member with the key; the writers/parsers keep keys unique).

  Paths are lists of steps (child key, index incl. negative, wildcard, recursive descent).  The
  operations are the ones `bag-get`/`:get-all`/`bag-has`/`bag-set`/`bag-remove`/`bag-walk` perform
  through ojg's JSONPath engine, written as small total functions.  `set` follows ojg's documented
  contract ("set all matching child node values; if the path to the child does not exist array and
  map elements are added; an error is returned if it is not possible").

  Core Lean only (this file is linked into the `slipmodel` driver).
-/
namespace SlipVerif.Json

inductive J where
  | null
  | bool (b : Bool)
  | int (i : Int)
  | flo (tok : String)          -- a float as an opaque token
  | str (s : String)
  | time (tok : String)         -- a time value (a bag holds one after a time converter fired, or
                                -- after a Lisp time was stored): an opaque token
  | arr (xs : List J)
  | obj (kvs : List (String × J))
  deriving Repr, Inhabited

abbrev Members := List (String × J)

inductive Step where
  | key (k : String)
  | idx (i : Int)
  | wild
  | desc
  deriving DecidableEq, Repr, Inhabited

abbrev Path := List Step

inductive Err where
  | emptyPath     -- set/remove need at least one step below the root
  | mismatch      -- a definite step meets a node of the wrong kind (key on a non-object, index on a non-array)
  | scalar        -- the path continues below a scalar or null child
  | range         -- array index out of bounds
  | cannotCreate  -- a missing child cannot be created (negative index, wildcard or descent follows)
  | badLast       -- set/remove path ends with a descent (remove: also a descent right before the last step)
  deriving DecidableEq, Repr

namespace J

def isContainer : J → Bool
  | arr _ => true
  | obj _ => true
  | _ => false

/-! ### structural equality (no `deriving DecidableEq` for nested inductives) -/

mutual
def beq : J → J → Bool
  | null, null => true
  | bool a, bool b => a == b
  | int a, int b => a == b
  | flo a, flo b => a == b
  | str a, str b => a == b
  | time a, time b => a == b
  | arr a, arr b => beqL a b
  | obj a, obj b => beqM a b
  | _, _ => false
def beqL : List J → List J → Bool
  | [], [] => true
  | x :: xs, y :: ys => beq x y && beqL xs ys
  | _, _ => false
def beqM : Members → Members → Bool
  | [], [] => true
  | (k, x) :: xs, (l, y) :: ys => k == l && beq x y && beqM xs ys
  | _, _ => false
end

/-! ### size / depth (used for parser fuel and evidence) -/

mutual
def size : J → Nat
  | arr xs => 1 + sizeL xs
  | obj kvs => 1 + sizeM kvs
  | _ => 1
def sizeL : List J → Nat
  | [] => 0
  | x :: xs => size x + sizeL xs
def sizeM : Members → Nat
  | [] => 0
  | (_, v) :: kvs => size v + sizeM kvs
end

end J

open J

/-! ### objects as association lists -/

def lookup (k : String) : Members → Option J
  | [] => none
  | (k', v) :: rest => if k' = k then some v else lookup k rest

/-- replace the first member with key `k`, or append a new member -/
def upsert (k : String) (v : J) : Members → Members
  | [] => [(k, v)]
  | (k', v') :: rest => if k' = k then (k, v) :: rest else (k', v') :: upsert k v rest

/-- remove every member with key `k` -/
def erase (k : String) : Members → Members
  | [] => []
  | (k', v') :: rest => if k' = k then erase k rest else (k', v') :: erase k rest

def keys (m : Members) : List String := m.map (·.1)

def distinctKeys : List String → Bool
  | [] => true
  | k :: ks => !ks.contains k && distinctKeys ks

/-- build an object from parsed members: a later duplicate key replaces the earlier value -/
def mkMembers (kvs : Members) : Members := kvs.foldl (fun acc kv => upsert kv.1 kv.2 acc) []

/-! ### array indices: `i ≥ 0` counts from the front, `i < 0` from the back -/

def resolve (i : Int) (n : Nat) : Option Nat :=
  if 0 ≤ i then (if i.toNat < n then some i.toNat else none)
  else (if (-i).toNat ≤ n then some (n - (-i).toNat) else none)

/-! ### selection -/

def children : J → List J
  | arr xs => xs
  | obj kvs => kvs.map (·.2)
  | _ => []

mutual
/-- the node itself and all its descendants, parents before children -/
def descendants : J → List J
  | arr xs => arr xs :: descL xs
  | obj kvs => obj kvs :: descM kvs
  | j => [j]
def descL : List J → List J
  | [] => []
  | x :: xs => descendants x ++ descL xs
def descM : Members → List J
  | [] => []
  | (_, v) :: kvs => descendants v ++ descM kvs
end

/-- the nodes one step selects below a node. A descent selects a container and everything below
    it (scalar leaves included); applied to a scalar it selects nothing (ojg). -/
def stepAll : Step → J → List J
  | .key k, obj kvs => (lookup k kvs).toList
  | .idx i, arr xs =>
      match resolve i xs.length with
      | some n => xs[n]?.toList
      | none => []
  | .wild, j => children j
  | .desc, j => if j.isContainer then descendants j else []
  | _, _ => []

/-- every node the path selects (`:get-all`) -/
def getAll : Path → J → List J
  | [], j => [j]
  | s :: rest, j => (stepAll s j).flatMap (getAll rest)

/-- the first node the path selects (`bag-get`; for a definite path the only one) -/
def get : Path → J → Option J
  | [], j => some j
  | s :: rest, j => (stepAll s j).findSome? (get rest)

/-- does the path select anything (`bag-has`) -/
def has : Path → J → Bool
  | [], _ => true
  | s :: rest, j => (stepAll s j).any (has rest)

/-! ### walk: visit every selected node with an accumulator, as a traversal of its own -/

mutual
def foldDesc {σ : Type} (g : σ → J → σ) : σ → J → σ
  | s, arr xs => foldDescL g (g s (arr xs)) xs
  | s, obj kvs => foldDescM g (g s (obj kvs)) kvs
  | s, j => g s j
def foldDescL {σ : Type} (g : σ → J → σ) : σ → List J → σ
  | s, [] => s
  | s, x :: xs => foldDescL g (foldDesc g s x) xs
def foldDescM {σ : Type} (g : σ → J → σ) : σ → Members → σ
  | s, [] => s
  | s, (_, v) :: kvs => foldDescM g (foldDesc g s v) kvs
end

def walk {σ : Type} (f : σ → J → σ) : Path → σ → J → σ
  | [], s, j => f s j
  | .key k :: rest, s, obj kvs =>
      match lookup k kvs with
      | some c => walk f rest s c
      | none => s
  | .idx i :: rest, s, arr xs =>
      match resolve i xs.length with
      | some n => match xs[n]? with
          | some c => walk f rest s c
          | none => s
      | none => s
  | .wild :: rest, s, arr xs => xs.foldl (fun s c => walk f rest s c) s
  | .wild :: rest, s, obj kvs => kvs.foldl (fun s kv => walk f rest s kv.2) s
  | .desc :: rest, s, j => if j.isContainer then foldDesc (fun s c => walk f rest s c) s j else s
  | _ :: _, s, _ => s

/-! ### scan: every node with the definite path that leads to it (`bag-scan`, `:scan`) -/

mutual
/-- the node itself, then its children in order, each with its path from the node -/
def scan : J → List (Path × J)
  | arr xs => ([], arr xs) :: scanL 0 xs
  | obj kvs => ([], obj kvs) :: scanM kvs
  | j => [([], j)]
def scanL : Nat → List J → List (Path × J)
  | _, [] => []
  | i, x :: xs => (scan x).map (fun pv => (Step.idx i :: pv.1, pv.2)) ++ scanL (i + 1) xs
def scanM : Members → List (Path × J)
  | [] => []
  | (k, v) :: kvs => (scan v).map (fun pv => (Step.key k :: pv.1, pv.2)) ++ scanM kvs
end

/-- `:leaves-only`: containers (empty ones included) are not reported -/
def scanLeaves (j : J) : List (Path × J) := (scan j).filter (fun pv => !pv.2.isContainer)

/-! ### set -/

/-- the container ojg adds for a missing child, decided by the step that follows -/
def mkFor : Step → Except Err J
  | .key _ => .ok (obj [])
  | .idx n => if 0 ≤ n then .ok (arr (List.replicate (n.toNat + 1) null)) else .error .cannotCreate
  | .wild => .error .cannotCreate
  | .desc => .error .cannotCreate

mutual
/-- apply `f` to every container of the tree, children before parents -/
def mapPost (f : J → Except Err J) : J → Except Err J
  | arr xs => do let xs' ← mapPostL f xs; f (arr xs')
  | obj kvs => do let kvs' ← mapPostM f kvs; f (obj kvs')
  | j => .ok j
def mapPostL (f : J → Except Err J) : List J → Except Err (List J)
  | [] => .ok []
  | x :: xs => do let x' ← mapPost f x; let xs' ← mapPostL f xs; .ok (x' :: xs')
def mapPostM (f : J → Except Err J) : Members → Except Err Members
  | [] => .ok []
  | (k, v) :: kvs => do let v' ← mapPost f v; let kvs' ← mapPostM f kvs; .ok ((k, v') :: kvs')
end

/-- the last step of a set. `multi` = a wildcard or descent came before (nodes of the wrong kind
    are then skipped instead of rejected). -/
def setLast (v : J) (multi : Bool) : Step → J → Except Err J
  | .key k, obj kvs => .ok (obj (upsert k v kvs))
  | .idx i, arr xs =>
      match resolve i xs.length with
      | some n => .ok (arr (xs.set n v))
      | none => .error .range
  | .wild, arr xs => .ok (arr (xs.map (fun _ => v)))
  | .wild, obj kvs => .ok (obj (kvs.map (fun kv => (kv.1, v))))
  | .wild, j => .ok j
  | .desc, _ => .error .badLast
  | _, j => if multi then .ok j else .error .mismatch

/-- continue below child `c`: only containers can be followed -/
def follow (f : J → Except Err J) (c : J) : Except Err J :=
  if c.isContainer then f c else .error .scalar

/-- below a wildcard: containers are followed, scalars skipped -/
def followAll (f : J → Except Err J) (c : J) : Except Err J :=
  if c.isContainer then f c else .ok c

def setAt (v : J) : Bool → Path → J → Except Err J
  | _, [], _ => .error .emptyPath
  | m, [s], j => setLast v m s j
  | m, .key k :: next :: rest, obj kvs =>
      match lookup k kvs with
      | some c => do
          let c' ← follow (setAt v m (next :: rest)) c
          .ok (obj (upsert k c' kvs))
      | none => do
          let c ← mkFor next
          let c' ← setAt v m (next :: rest) c
          .ok (obj (upsert k c' kvs))
  | m, .idx i :: next :: rest, arr xs =>
      match resolve i xs.length with
      | some n =>
          match xs[n]? with
          | some c => do
              let c' ← follow (setAt v m (next :: rest)) c
              .ok (arr (xs.set n c'))
          | none => .error .range
      | none => .error .range
  | _, .wild :: next :: rest, arr xs => do
      let xs' ← xs.mapM (followAll (setAt v true (next :: rest)))
      .ok (arr xs')
  | _, .wild :: next :: rest, obj kvs => do
      let kvs' ← kvs.mapM (fun kv => do
        let c' ← followAll (setAt v true (next :: rest)) kv.2
        .ok (kv.1, c'))
      .ok (obj kvs')
  | _, .wild :: _ :: _, j => .ok j
  | _, .desc :: next :: rest, j => mapPost (setAt v true (next :: rest)) j
  | m, _ :: _ :: _, j => if m then .ok j else .error .mismatch

/-- `bag-set` with a path: a path ending in a descent is rejected before anything is touched -/
def set (v : J) (p : Path) (j : J) : Except Err J :=
  if p.getLast? = some .desc then .error .badLast else setAt v false p j

/-! ### remove -/

mutual
def mapPostP (f : J → J) : J → J
  | arr xs => f (arr (mapPostPL f xs))
  | obj kvs => f (obj (mapPostPM f kvs))
  | j => f j
def mapPostPL (f : J → J) : List J → List J
  | [] => []
  | x :: xs => mapPostP f x :: mapPostPL f xs
def mapPostPM (f : J → J) : Members → Members
  | [] => []
  | (k, v) :: kvs => (k, mapPostP f v) :: mapPostPM f kvs
end

/-- apply `f` at every node the path selects -/
def modifyAt (f : J → J) : Path → J → J
  | [], j => f j
  | .key k :: rest, obj kvs =>
      match lookup k kvs with
      | some c => obj (upsert k (modifyAt f rest c) kvs)
      | none => obj kvs
  | .idx i :: rest, arr xs =>
      match resolve i xs.length with
      | some n => match xs[n]? with
          | some c => arr (xs.set n (modifyAt f rest c))
          | none => arr xs
      | none => arr xs
  | .wild :: rest, arr xs => arr (xs.map (modifyAt f rest))
  | .wild :: rest, obj kvs => obj (kvs.map (fun kv => (kv.1, modifyAt f rest kv.2)))
  | .desc :: rest, j => if j.isContainer then mapPostP (modifyAt f rest) j else j
  | _ :: _, j => j

/-- delete the children the last step selects -/
def removeStep : Step → J → J
  | .key k, obj kvs => obj (erase k kvs)
  | .idx i, arr xs =>
      match resolve i xs.length with
      | some n => arr (xs.eraseIdx n)
      | none => arr xs
  | .wild, arr _ => arr []
  | .wild, obj _ => obj []
  | _, j => j

/-- split a non-empty path into everything but the last step, and the last step -/
def splitLast : Path → Option (Path × Step)
  | [] => none
  | [s] => some ([], s)
  | s :: t :: rest => (splitLast (t :: rest)).map (fun pl => (s :: pl.1, pl.2))

/-- `bag-remove` with a path -/
def remove (p : Path) (j : J) : Except Err J :=
  match splitLast p with
  | none => .error .emptyPath
  | some (pre, last) =>
      if last = .desc then .error .badLast
      else if pre.getLast? = some .desc then .error .badLast
      else .ok (modifyAt (removeStep last) pre j)

end SlipVerif.Json
