import SlipVerif.Model.ListHeap
import SlipVerif.Model.Num
import SlipVerif.Driver.ListHeap
import SlipVerif.Driver.Num
import SlipVerif.Driver.Util
