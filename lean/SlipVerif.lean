import SlipVerif.Model.LoadForm
import SlipVerif.Model.Num
import SlipVerif.Driver.LoadForm
import SlipVerif.Driver.Num
import SlipVerif.Driver.Util
