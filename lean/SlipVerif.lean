import SlipVerif.Model.Num
import SlipVerif.Model.Reader
import SlipVerif.Model.ReaderGen
import SlipVerif.Driver.Num
import SlipVerif.Driver.Reader
import SlipVerif.Driver.Util
