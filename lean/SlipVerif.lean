import SlipVerif.Model.Json
import SlipVerif.Model.JsonLisp
import SlipVerif.Model.JsonText
import SlipVerif.Model.Num
import SlipVerif.Driver.Json
import SlipVerif.Driver.Num
import SlipVerif.Driver.Util
