import SlipVerif.Model.Num
import SlipVerif.Driver.Num
import SlipVerif.Driver.Util
