import SlipVerif.Model.Num
import SlipVerif.Model.Seq
import SlipVerif.Driver.Num
import SlipVerif.Driver.Seq
import SlipVerif.Driver.Util
