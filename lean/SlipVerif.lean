import SlipVerif.Model.History
import SlipVerif.Model.Num
import SlipVerif.Driver.History
import SlipVerif.Driver.Num
import SlipVerif.Driver.Util
