import SlipVerif.Model.Num
import SlipVerif.Model.Totality
import SlipVerif.Driver.Num
import SlipVerif.Driver.Totality
import SlipVerif.Driver.Util
