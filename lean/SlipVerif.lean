import SlipVerif.Model.Clos
import SlipVerif.Model.Num
import SlipVerif.Driver.Clos
import SlipVerif.Driver.Num
import SlipVerif.Driver.Util
