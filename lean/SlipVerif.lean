import SlipVerif.Model.Conc
import SlipVerif.Model.Num
import SlipVerif.Driver.Conc
import SlipVerif.Driver.Num
import SlipVerif.Driver.Util
