import SlipVerif.Model.Eval
import SlipVerif.Model.Num
import SlipVerif.Driver.Eval
import SlipVerif.Driver.Num
import SlipVerif.Driver.Util
