import SlipVerif.Model.Num
import SlipVerif.Model.Printer
import SlipVerif.Model.PrinterPretty
import SlipVerif.Model.Wire6
import SlipVerif.Driver.Num
import SlipVerif.Driver.Printer
import SlipVerif.Driver.Util
