import SlipVerif.Model.Format
import SlipVerif.Model.FormatNum
import SlipVerif.Model.Num
import SlipVerif.Driver.Format
import SlipVerif.Driver.Num
import SlipVerif.Driver.Util
