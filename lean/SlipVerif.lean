import SlipVerif.Model.Num
import SlipVerif.Model.Pkg
import SlipVerif.Driver.Num
import SlipVerif.Driver.Pkg
import SlipVerif.Driver.Util
