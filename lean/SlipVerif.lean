import SlipVerif.Model.Flavors
import SlipVerif.Model.Num
import SlipVerif.Driver.Flavors
import SlipVerif.Driver.Num
import SlipVerif.Driver.Util
