import SlipVerif.Model.Equality
import SlipVerif.Model.HashTable
import SlipVerif.Model.Num
import SlipVerif.Model.Types
import SlipVerif.Driver.Equality
import SlipVerif.Driver.Num
import SlipVerif.Driver.Types
import SlipVerif.Driver.Util
