import SlipVerif.Model.Compile
import SlipVerif.Model.Num
import SlipVerif.Driver.Compile
import SlipVerif.Driver.Num
import SlipVerif.Driver.Util
