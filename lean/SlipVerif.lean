import SlipVerif.Model.Dispatch
import SlipVerif.Model.Num
import SlipVerif.Driver.Dispatch
import SlipVerif.Driver.Num
import SlipVerif.Driver.Util
