import SlipVerif.Model.Lambda
import SlipVerif.Model.Num
import SlipVerif.Driver.Lambda
import SlipVerif.Driver.Num
import SlipVerif.Driver.Util
