import SlipVerif.Model.SliceProg
import SlipVerif.Model.ListHeap
open SlipVerif.SliceProg
open SlipVerif.ListHeap (vButlast vNthcdr vLast)

namespace SlipVerif.SliceProg
def wp : Stmt → (St → Prop) → St → Prop
  | .seq a b, Q, s => wp a (fun s1 => if s1.halt.isSome then Q s1 else wp b Q s1) s
  | .ite c t e, Q, s => (evalB s c = true → wp t Q s) ∧ (evalB s c = false → wp e Q s)
  | .skip, Q, s => Q s
  | .assignI k e, Q, s => Q (exec (.assignI k e) s)
  | .assignO k e, Q, s => Q (exec (.assignO k e) s)
  | .copy d e, Q, s => Q (exec (.copy d e) s)
  | .setIdx v i e, Q, s => Q (exec (.setIdx v i e) s)
  | .swap v i j, Q, s => Q (exec (.swap v i j) s)
  | .forDown k i b, Q, s => Q (exec (.forDown k i b) s)
  | .forArgs a d b, Q, s => Q (exec (.forArgs a d b) s)
  | .ret e, Q, s => Q (exec (.ret e) s)
  | .setPlace e, Q, s => Q (exec (.setPlace e) s)
  | .panic, Q, s => Q (exec .panic s)

theorem wp_sound : ∀ (p : Stmt) (Q : St → Prop) (s : St), wp p Q s → Q (exec p s) := by
  intro p
  induction p with
  | seq a b iha ihb =>
    intro Q s h
    simp only [wp] at h
    have h1 := iha _ s h
    simp only [exec]
    split
    · rename_i hh; simp only [hh, if_true] at h1; exact h1
    · rename_i hh; simp only [hh] at h1; exact ihb _ _ h1
  | ite c t e iht ihe =>
    intro Q s h
    simp only [wp] at h
    simp only [exec]
    split
    · rename_i hc; exact iht _ _ (h.1 hc)
    · rename_i hc; exact ihe _ _ (h.2 (by simpa using hc))
  | _ => intro Q s h; simpa [wp] using h
end SlipVerif.SliceProg

-- ovars: 0 = result, 1 = list ; ivars: 0 = n, 1 = size ; ovar 2 = rlist
def butlastP : Stmt :=
  .seq (.assignO 1 (.arg 0))
  (.seq (.ite (.isNil 1) .skip
    (.ite (.isList 1)
      (.seq (.assignI 0 (.const 1))
      (.seq (.ite (.lt (.const 1) .argc)
              (.ite (.isIntArg 1) (.assignI 0 (.intArg 1)) .panic) .skip)
      (.ite (.lt (.const 0) (.len 1))
         (.seq (.ite (.isTail 1 (.sub (.len 1) (.const 1))) (.assignI 0 (.add (.ivar 0) (.const 1))) .skip)
          (.ite (.and (.le (.const 0) (.ivar 0)) (.lt (.ivar 0) (.len 1)))
            (.seq (.assignI 1 (.sub (.len 1) (.ivar 0)))
            (.seq (.assignO 2 (.make (.ivar 1)))
            (.seq (.copy 2 (.slice 1 none (some (.ivar 1))))
                  (.assignO 0 (.ovar 2)))))
            .skip))
         .skip)))
      .panic))
  (.ret (.ovar 0)))

def outcome (s : St) : Outcome := ⟨s.halt, s.place, s.wrote⟩

theorem run_eq (p : Stmt) (args : List Obj) : run p args = outcome (exec p (init args)) := rfl

theorem butlast_ok (xs : List Val) (n : Nat) (asNil : Bool) (h : asNil = true → xs = []) :
    ∃ r, run butlastP [listArg 0 xs asNil, .int n] = ⟨some (.ret r), none, []⟩ ∧ r.vals = vButlast n xs ∧ r.isFresh = true := by
  rw [run_eq]
  apply wp_sound butlastP (fun s => ∃ r, outcome s = ⟨some (.ret r), none, []⟩ ∧ r.vals = vButlast n xs ∧ r.isFresh = true)
  cases asNil
  · simp [butlastP, wp, exec, init, listArg, evalB, evalI, evalO, upd, Obj.vals, Obj.asSl]
    trace_state
    sorry
  · simp [butlastP, wp, exec, init, listArg, evalB, evalI, evalO, upd]
    trace_state
    sorry
