import SlipVerif.Model.SliceProg
import SlipVerif.Model.ListHeap
open SlipVerif.SliceProg
open SlipVerif.ListHeap (vButlast vNthcdr vLast)

-- ovars: 0 = result, 1 = list ; ivars: 0 = n, 1 = size ; ovar 2 = rlist
def butlastP : Stmt :=
  .seq (.assignO 1 (.arg 0))
  (.seq (.ite (.isNil 1) .skip
    (.ite (.isList 1)
      (.seq (.assignI 0 (.const 1))
      (.seq (.ite (.lt (.const 1) .argc)
              (.ite (.isIntArg 1) (.assignI 0 (.intArg 1)) .panic) .skip)
      (.ite (.lt (.const 0) (.len 1))
         (.seq (.ite (.isTail 1 (.sub (.len 1) (.const 1))) (.assignI 0 (.add (.ivar 0) (.const 1))) .skip)
          (.ite (.and (.le (.const 0) (.ivar 0)) (.lt (.ivar 0) (.len 1)))
            (.seq (.assignI 1 (.sub (.len 1) (.ivar 0)))
            (.seq (.assignO 2 (.make (.ivar 1)))
            (.seq (.copy 2 (.slice 1 none (some (.ivar 1))))
                  (.assignO 0 (.ovar 2)))))
            .skip))
         .skip)))
      .panic))
  (.ret (.ovar 0)))

theorem butlast_ok (xs : List Val) (n : Nat) (asNil : Bool) (h : asNil = true → xs = []) :
    ∃ r, run butlastP [listArg 0 xs asNil, .int n] = ⟨some (.ret r), none, []⟩ ∧ r.vals = vButlast n xs ∧ r.isFresh = true := by
  cases asNil
  · simp [butlastP, run, exec, init, listArg, evalB, evalI, evalO, upd, Obj.vals, Obj.asSl]
    trace_state; sorry
  · simp [butlastP, run, exec, init, listArg, evalB, evalI, evalO, upd]
    trace_state; sorry
