import SlipVerif.Model.Num
import SlipVerif.Gen.NumImpl
import SlipVerif.Lemmas.Num
import SlipVerif.Theorems.C05Impl
import Mathlib.Tactic.Linarith
import Mathlib.Tactic.Ring
import Mathlib.Tactic.FieldSimp
import Mathlib.Data.Rat.Floor

namespace SlipVerif.Num
namespace Impl


theorem floor_unique (x : Rat) (q : Int) (h1 : (q : Rat) ≤ x) (h2 : x < (q : Rat) + 1) : x.floor = q := by
  have a : q ≤ x.floor := Rat.le_floor_iff.mpr h1
  have b : x.floor < q + 1 := by
    have := Rat.floor_le x
    have h3 : ((x.floor : Int) : Rat) < ((q + 1 : Int) : Rat) := by push_cast; linarith
    exact_mod_cast h3
  omega

theorem ceil_unique (x : Rat) (q : Int) (h1 : (q : Rat) - 1 < x) (h2 : x ≤ (q : Rat)) : ceil x = q := by
  unfold ceil
  have := floor_unique (-x) (-q) (by push_cast; linarith) (by push_cast; linarith)
  omega

theorem roundI_unique (x : Rat) (q : Int) (h1 : (q : Rat) - 1/2 ≤ x) (h2 : x ≤ (q : Rat) + 1/2)
    (h3 : (x = (q : Rat) - 1/2 ∨ x = (q : Rat) + 1/2) → q % 2 = 0) : roundI x = q := by
  unfold roundI
  simp only
  rcases lt_or_ge x (q : Rat) with hlt | hge
  · -- floor x = q - 1
    have hf : x.floor = q - 1 := floor_unique x (q - 1) (by push_cast; linarith) (by push_cast; linarith)
    rw [hf]; push_cast
    by_cases c1 : x - ((q : Rat) - 1) < 1 / 2
    · exfalso; linarith
    · rw [if_neg c1]
      by_cases c2 : 1 / 2 < x - ((q : Rat) - 1)
      · rw [if_pos c2]; ring
      · rw [if_neg c2]
        have : x = (q : Rat) - 1/2 := by linarith
        have := h3 (Or.inl this)
        have c3 : ¬ ((q - 1) % 2 = 0) := by omega
        rw [if_neg c3]; ring
  · have hf : x.floor = q := floor_unique x q hge (by linarith)
    rw [hf]
    by_cases c1 : x - (q : Rat) < 1 / 2
    · rw [if_pos c1]
    · rw [if_neg c1]
      have : x = (q : Rat) + 1/2 := by linarith
      have he := h3 (Or.inr this)
      have c2 : ¬ (1 / 2 < x - (q : Rat)) := by linarith
      rw [if_neg c2, if_pos he]

/-- an integer quotient/remainder pair that satisfies the division identity, and whose quotient the
    rounding function selects, is the result of the spec's division -/
theorem divBy_of_identity (rnd : Rat → Int) (a b q r : Int) (hb : b ≠ 0) (hid : a = q * b + r)
    (hq : rnd ((a : Rat) / (b : Rat)) = q) : divBy rnd (a : Rat) (b : Rat) = .ok (q, (r : Rat)) := by
  unfold divBy
  have hb' : (b : Rat) ≠ 0 := by exact_mod_cast hb
  rw [if_neg hb']
  simp only [hq]
  congr 2
  have : (r : Rat) = (a : Rat) - (q : Rat) * (b : Rat) := by
    have : r = a - q * b := by linarith
    rw [this]; push_cast; ring
  rw [this]


theorem quot_decomp (a b q r : Int) (hb : b ≠ 0) (hid : a = q * b + r) :
    (a : Rat) / (b : Rat) = (q : Rat) + (r : Rat) / (b : Rat) := by
  have hb' : (b : Rat) ≠ 0 := by exact_mod_cast hb
  rw [hid]; push_cast; field_simp

/-- `lo < r/b < hi`-style bounds from integer bounds, for both signs of the divisor -/
theorem frac_nonneg_lt_one (r b : Int) (h : (0 < b ∧ 0 ≤ r ∧ r < b) ∨ (b < 0 ∧ b < r ∧ r ≤ 0)) :
    0 ≤ (r : Rat) / (b : Rat) ∧ (r : Rat) / (b : Rat) < 1 := by
  rcases h with ⟨hb, h1, h2⟩ | ⟨hb, h1, h2⟩
  · have hb' : (0 : Rat) < b := by exact_mod_cast hb
    have h1' : (0 : Rat) ≤ r := by exact_mod_cast h1
    have h2' : (r : Rat) < b := by exact_mod_cast h2
    exact ⟨div_nonneg h1' (le_of_lt hb'), (div_lt_one hb').mpr h2'⟩
  · have hb' : (0 : Rat) < -(b : Rat) := by have : (b : Rat) < 0 := by exact_mod_cast hb
                                          linarith
    have h1' : (0 : Rat) ≤ -(r : Rat) := by have : (r : Rat) ≤ 0 := by exact_mod_cast h2
                                          linarith
    have h2' : -(r : Rat) < -(b : Rat) := by have : (b : Rat) < r := by exact_mod_cast h1
                                            linarith
    rw [← neg_div_neg_eq]
    exact ⟨div_nonneg h1' (le_of_lt hb'), (div_lt_one hb').mpr h2'⟩

theorem frac_neg_gt_neg_one (r b : Int) (h : (0 < b ∧ -b < r ∧ r ≤ 0) ∨ (b < 0 ∧ 0 ≤ r ∧ r < -b)) :
    -1 < (r : Rat) / (b : Rat) ∧ (r : Rat) / (b : Rat) ≤ 0 := by
  have := frac_nonneg_lt_one (-r) b (by omega)
  push_cast at this
  rw [neg_div] at this
  constructor <;> linarith [this.1, this.2]

theorem frac_abs_le_half (r b : Int) (hb : b ≠ 0) (h : 2 * r.natAbs ≤ b.natAbs) :
    -(1/2 : Rat) ≤ (r : Rat) / (b : Rat) ∧ (r : Rat) / (b : Rat) ≤ 1/2 ∧
    (((r : Rat) / (b : Rat) = 1/2 ∨ (r : Rat) / (b : Rat) = -(1/2)) → 2 * r.natAbs = b.natAbs) := by
  rcases lt_or_gt_of_ne hb with hneg | hpos
  · have hb' : (0 : Rat) < -(b : Rat) := by have : (b : Rat) < 0 := by exact_mod_cast hneg
                                          linarith
    have h1 : (2 : Rat) * (-(r : Rat)) ≤ -(b : Rat) := by
      have : 2 * (-r) ≤ -b := by omega
      exact_mod_cast this
    have h2 : -(-(b : Rat)) ≤ (2 : Rat) * (-(r : Rat)) := by
      have : -(-b) ≤ 2 * (-r) := by omega
      exact_mod_cast this
    rw [← neg_div_neg_eq]
    refine ⟨?_, ?_, ?_⟩
    · rw [le_div_iff₀ hb']; linarith
    · rw [div_le_iff₀ hb']; linarith
    · rintro (e | e)
      · rw [div_eq_iff (ne_of_gt hb')] at e
        have : (2 : Rat) * (-(r : Rat)) = -(b : Rat) := by linarith
        have : 2 * (-r) = -b := by exact_mod_cast this
        omega
      · rw [div_eq_iff (ne_of_gt hb')] at e
        have : (2 : Rat) * (-(r : Rat)) = -(-(b : Rat)) := by linarith
        have : 2 * (-r) = -(-b) := by exact_mod_cast this
        omega
  · have hb' : (0 : Rat) < (b : Rat) := by exact_mod_cast hpos
    have h1 : (2 : Rat) * (r : Rat) ≤ (b : Rat) := by
      have : 2 * r ≤ b := by omega
      exact_mod_cast this
    have h2 : -(b : Rat) ≤ (2 : Rat) * (r : Rat) := by
      have : -b ≤ 2 * r := by omega
      exact_mod_cast this
    refine ⟨?_, ?_, ?_⟩
    · rw [le_div_iff₀ hb']; linarith
    · rw [div_le_iff₀ hb']; linarith
    · rintro (e | e)
      · rw [div_eq_iff (ne_of_gt hb')] at e
        have : (2 : Rat) * (r : Rat) = (b : Rat) := by linarith
        have : 2 * r = b := by exact_mod_cast this
        omega
      · rw [div_eq_iff (ne_of_gt hb')] at e
        have : (2 : Rat) * (r : Rat) = -(b : Rat) := by linarith
        have : 2 * r = -b := by exact_mod_cast this
        omega

/-- Impl = Spec: the fixnum branch of ceiling computes the spec's quotient and remainder -/
theorem ceilFixGo_eq_spec (a b : Int) (hb : b ≠ 0) :
    ceilDiv (a : Rat) (b : Rat) = .ok ((ceilFixGo a b).1, (((ceilFixGo a b).2 : Int) : Rat)) := by
  obtain ⟨hid, h1, h2⟩ := ceilFixGo_spec a b hb
  apply divBy_of_identity _ a b _ _ hb hid
  rw [quot_decomp a b _ _ hb hid]
  have := frac_neg_gt_neg_one (ceilFixGo a b).2 b (by
    rcases lt_or_gt_of_ne hb with h | h
    · right; exact ⟨h, h2 h⟩
    · left; exact ⟨h, h1 h⟩)
  apply ceil_unique <;> linarith [this.1, this.2]

end Impl
end SlipVerif.Num
