import SlipVerif.Model.Num
import SlipVerif.Gen.NumImpl
import SlipVerif.Lemmas.Num
import SlipVerif.Theorems.C05Impl
import Mathlib.Tactic.Linarith
import Mathlib.Tactic.Ring

namespace SlipVerif.Num
open Impl
namespace G
open SlipVerif.Gen

theorem gen_addFixnums_eq (x y : Int) : NumImpl.addFixnums x y = Impl.addFixnums x y := by
  unfold NumImpl.addFixnums Impl.addFixnums addOk
  by_cases h1 : x < addFix x y <;> by_cases h2 : 0 < y <;> simp [h1, h2]

theorem gen_subFixnums_eq (x y : Int) : NumImpl.subFixnums x y = Impl.subFixnums x y := by
  unfold NumImpl.subFixnums Impl.subFixnums subOk
  by_cases h1 : subFix x y < x <;> by_cases h2 : 0 < y <;> simp [h1, h2]

theorem gen_mulFixnums_eq (x y : Int) : NumImpl.mulFixnums x y = Impl.mulFixnums x y := by
  unfold NumImpl.mulFixnums Impl.mulFixnums mulOk minFix
  by_cases h : (x != 0 && (quoFix (mulFix x y) x != y || x == -1 && y == -9223372036854775808)) = true
  · rw [if_pos h]; simp [h]
  · rw [if_neg h]; simp at h; simp [h]

theorem gen_negFixnum_eq (x : Int) : NumImpl.negFixnum x = Impl.negFixnum x := by
  unfold NumImpl.negFixnum Impl.negFixnum minFix
  by_cases h : x = -9223372036854775808 <;> simp [h]

end G
end SlipVerif.Num
