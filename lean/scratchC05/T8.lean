import Mathlib.Tactic.Linarith
import Mathlib.Tactic.Ring

example (n : Int) (m : Nat) : n >>> m = n / 2^m := by exact?
example (K : Int) (h : 0 < K) : (-1 : Int) / K = -1 := by exact?
example (a b c : Int) (h : 0 ≤ b) : a / b / c = a / (b * c) := by exact?
example (n P : Int) (h : 0 ≤ n) (hp : n < P) : n / P = 0 := by exact?
example (n P : Int) (h : n < 0) (hp : 0 < P) : n / P < 0 := by exact?
example (n P : Int) (hp : 0 < P) : n / P * P ≤ n := by exact?
example (n P : Int) (hp : 0 < P) : n < (n / P + 1) * P := by exact?
