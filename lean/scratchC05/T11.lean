import SlipVerif.Model.Num
import Mathlib.Tactic.Linarith
import Mathlib.Data.Nat.Log
import Mathlib.Data.Int.Bitwise
open SlipVerif.Num
example (n : Nat) (h : n ≠ 0) : 2 ^ Nat.log2 n ≤ n := by exact?
example (n : Nat) : n < 2 ^ (Nat.log2 n + 1) := by exact?
example (m i : Nat) : m.testBit i = decide (m / 2 ^ i % 2 = 1) := by exact?
example (n : Nat) (h : n ≠ 0) : popCount n = n % 2 + popCount (n / 2) := by rw [popCount]; simp [h]
