import SlipVerif.Theorems.GenC05
namespace SlipVerif.Num
namespace GenC05
open Impl SlipVerif.Gen

theorem negFix_exact (a : Int) (ha : inRange a) (ham : a ≠ minFix) : negFix a = -a := by
  unfold negFix wrap64; unfold inRange at ha; unfold minFix at ham; omega

theorem gen_roundFix_eq (a b : Int) (h : DivOperands a b) : NumImpl.roundFix a b = roundFixGo a b := by
  obtain ⟨ha, hb, hb0, ham, hbm⟩ := h
  obtain ⟨h1, h2, h3, e, _⟩ := div_prelude a b ha hb hb0 (fun h => ham h.1)
  have hna := negFix_exact a ha ham
  have hnb := negFix_exact b hb hbm
  unfold NumImpl.roundFix roundFixGo
  simp only [h1, h2, h3, e]
  by_cases hr0 : Int.tmod a b = 0
  · simp [hr0]
  · have hr0' : (Int.tmod a b == 0) = false := by simp [hr0]
    simp only [hr0', hr0, if_false, Bool.false_eq_true]
    -- the magnitudes
    have key : ∀ (A B : Int), inRange A → inRange B → 0 ≤ A → 0 < B →
        ∃ q r : Int, quoFix A B = q ∧ mulFix q B = q * B ∧ subFix A (q * B) = r ∧ q = Int.tdiv A B ∧
          A - q * B = r ∧ 0 ≤ r ∧ r < B ∧ 0 ≤ q ∧ q ≤ A ∧ (r ≠ 0 → 2 * q ≤ A) ∧ remFix q 2 = q % 2 := by
      intro A B hA hB hA0 hB0
      obtain ⟨k1, k2, k3, k4, k5, k6, k7, k8, k9, k10, _⟩ := div_prelude A B hA hB (by omega) (by unfold minFix; omega)
      refine ⟨Int.tdiv A B, Int.tmod A B, k1, k2, k3, rfl, k4, k6 hA0, by have := k6 hA0; omega, k10 hA0 hB0, by have := k10 hA0 hB0; omega, ?_, ?_⟩
      · intro hr; have := k9 hr; have := k10 hA0 hB0; omega
      · unfold remFix; exact Int.tmod_eq_emod_of_nonneg (k10 hA0 hB0)
    unfold roundMag
    unfold inRange at ha hb
    unfold minFix at ham hbm
    rcases lt_or_ge a 0 with c1 | c1 <;> rcases lt_or_gt_of_ne hb0 with c2 | c2
    · obtain ⟨q, r, k1, k2, k3, k4, k5, k6, k7, k8, k9, k10, k11⟩ := key (-a) (-b) (by unfold inRange; omega) (by unfold inRange; omega) (by omega) (by omega)
      have d1 : decide (a < 0) = true := by simp [c1]
      have d2 : decide (b < 0) = true := by simp [c2]
      simp only [d1, d2, if_true, Bool.not_true, Bool.not_false, Bool.false_eq_true, if_false]
      simp only [c1, c2, hna, hnb, if_true, k1, k2, k3, ← k4, k5, k11, ne_eq, eq_iff_iff, iff_false, false_iff, iff_true, true_iff, iff_self, not_true_eq_false, not_false_eq_true, if_false]
      have hrest : subFix (-b) r = (-b) - r := by unfold subFix wrap64; omega
      simp only [hrest]
      by_cases cc : (-b) - r < r ∨ ((-b) - r = r ∧ q % 2 ≠ 0)
      · have cc' : (decide ((-b) - r < r) || ((-b) - r == r && q % 2 != 0)) = true := by
          rcases cc with c | ⟨c, c'⟩ <;> simp [c]
          exact c'
        simp only [cc', cc, if_true]
          <;> (try unfold addFix) <;> (try unfold subFix) <;> (try unfold negFix) <;> (try unfold wrap64) <;> (first | rfl | (congr 1 <;> omega))
      · have cc' : (decide ((-b) - r < r) || ((-b) - r == r && q % 2 != 0)) = false := by
          have n1 : ¬ ((-b) - r < r) := fun h => cc (Or.inl h)
          have n2 : (-b) - r = r → q % 2 = 0 := fun h => by
            by_contra h'; exact cc (Or.inr ⟨h, h'⟩)
          simp [n1]; exact n2
        simp only [cc', cc, if_false, Bool.false_eq_true]
          <;> (try unfold addFix) <;> (try unfold subFix) <;> (try unfold negFix) <;> (try unfold wrap64) <;> (first | rfl | (congr 1 <;> omega))
    · obtain ⟨q, r, k1, k2, k3, k4, k5, k6, k7, k8, k9, k10, k11⟩ := key (-a) b (by unfold inRange; omega) (by unfold inRange; omega) (by omega) (by omega)
      have d1 : decide (a < 0) = true := by simp [c1]
      have d2 : decide (b < 0) = false := by simp; omega
      have c2' : ¬ b < 0 := by omega
      simp only [d1, d2, if_true, Bool.not_true, Bool.not_false, Bool.false_eq_true, if_false]
      simp only [c1, c2', hna, hnb, if_true, k1, k2, k3, ← k4, k5, k11, ne_eq, eq_iff_iff, iff_false, false_iff, iff_true, true_iff, iff_self, not_true_eq_false, not_false_eq_true, if_false]
      have hrest : subFix b r = b - r := by unfold subFix wrap64; omega
      simp only [hrest]
      by_cases cc : b - r < r ∨ (b - r = r ∧ q % 2 ≠ 0)
      · have cc' : (decide (b - r < r) || (b - r == r && q % 2 != 0)) = true := by
          rcases cc with c | ⟨c, c'⟩ <;> simp [c]
          exact c'
        simp only [cc', cc, if_true]
          <;> (try unfold addFix) <;> (try unfold subFix) <;> (try unfold negFix) <;> (try unfold wrap64) <;> (first | rfl | (congr 1 <;> omega))
      · have cc' : (decide (b - r < r) || (b - r == r && q % 2 != 0)) = false := by
          have n1 : ¬ (b - r < r) := fun h => cc (Or.inl h)
          have n2 : b - r = r → q % 2 = 0 := fun h => by
            by_contra h'; exact cc (Or.inr ⟨h, h'⟩)
          simp [n1]; exact n2
        simp only [cc', cc, if_false, Bool.false_eq_true]
          <;> (try unfold addFix) <;> (try unfold subFix) <;> (try unfold negFix) <;> (try unfold wrap64) <;> (first | rfl | (congr 1 <;> omega))
    · obtain ⟨q, r, k1, k2, k3, k4, k5, k6, k7, k8, k9, k10, k11⟩ := key a (-b) (by unfold inRange; omega) (by unfold inRange; omega) (by omega) (by omega)
      have d1 : decide (a < 0) = false := by simp; omega
      have c1' : ¬ a < 0 := by omega
      have d2 : decide (b < 0) = true := by simp [c2]
      simp only [d1, d2, if_true, Bool.not_true, Bool.not_false, Bool.false_eq_true, if_false]
      simp only [c1', c2, hna, hnb, if_true, k1, k2, k3, ← k4, k5, k11, ne_eq, eq_iff_iff, iff_false, false_iff, iff_true, true_iff, iff_self, not_true_eq_false, not_false_eq_true, if_false]
      have hrest : subFix (-b) r = (-b) - r := by unfold subFix wrap64; omega
      simp only [hrest]
      by_cases cc : (-b) - r < r ∨ ((-b) - r = r ∧ q % 2 ≠ 0)
      · have cc' : (decide ((-b) - r < r) || ((-b) - r == r && q % 2 != 0)) = true := by
          rcases cc with c | ⟨c, c'⟩ <;> simp [c]
          exact c'
        simp only [cc', cc, if_true]
          <;> (try unfold addFix) <;> (try unfold subFix) <;> (try unfold negFix) <;> (try unfold wrap64) <;> (first | rfl | (congr 1 <;> omega))
      · have cc' : (decide ((-b) - r < r) || ((-b) - r == r && q % 2 != 0)) = false := by
          have n1 : ¬ ((-b) - r < r) := fun h => cc (Or.inl h)
          have n2 : (-b) - r = r → q % 2 = 0 := fun h => by
            by_contra h'; exact cc (Or.inr ⟨h, h'⟩)
          simp [n1]; exact n2
        simp only [cc', cc, if_false, Bool.false_eq_true]
          <;> (try unfold addFix) <;> (try unfold subFix) <;> (try unfold negFix) <;> (try unfold wrap64) <;> (first | rfl | (congr 1 <;> omega))
    · obtain ⟨q, r, k1, k2, k3, k4, k5, k6, k7, k8, k9, k10, k11⟩ := key a b (by unfold inRange; omega) (by unfold inRange; omega) (by omega) (by omega)
      have d1 : decide (a < 0) = false := by simp; omega
      have c1' : ¬ a < 0 := by omega
      have d2 : decide (b < 0) = false := by simp; omega
      have c2' : ¬ b < 0 := by omega
      have hr : Int.tmod a b = r := by rw [← e, ← k4]; exact k5
      simp only [d1, d2, if_true, Bool.not_true, Bool.not_false, Bool.false_eq_true, if_false]
      simp only [c1', c2', hna, hnb, hr, if_true, k1, k2, k3, ← k4, k5, k11, ne_eq, eq_iff_iff, iff_false, false_iff, iff_true, true_iff, iff_self, not_true_eq_false, not_false_eq_true, if_false]
      have hrest : subFix b r = b - r := by unfold subFix wrap64; omega
      simp only [hrest]
      by_cases cc : b - r < r ∨ (b - r = r ∧ q % 2 ≠ 0)
      · have cc' : (decide (b - r < r) || (b - r == r && q % 2 != 0)) = true := by
          rcases cc with c | ⟨c, c'⟩ <;> simp [c]
          exact c'
        simp only [cc', cc, if_true]
          <;> (try unfold addFix) <;> (try unfold subFix) <;> (try unfold negFix) <;> (try unfold wrap64) <;> (first | rfl | (congr 1 <;> omega))
      · have cc' : (decide (b - r < r) || (b - r == r && q % 2 != 0)) = false := by
          have n1 : ¬ (b - r < r) := fun h => cc (Or.inl h)
          have n2 : b - r = r → q % 2 = 0 := fun h => by
            by_contra h'; exact cc (Or.inr ⟨h, h'⟩)
          simp [n1]; exact n2
        simp only [cc', cc, if_false, Bool.false_eq_true]
          <;> (try unfold addFix) <;> (try unfold subFix) <;> (try unfold negFix) <;> (try unfold wrap64) <;> (first | rfl | (congr 1 <;> omega))

end GenC05
end SlipVerif.Num
