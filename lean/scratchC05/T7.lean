import SlipVerif.Theorems.GenC05
import Mathlib.Data.Nat.Sqrt
namespace SlipVerif.Num
namespace GenC05
open Impl SlipVerif.Gen

example (a : Int) (ha : inRange a) : NumImpl.lognotFix a = .fix (-a - 1) := by
    unfold NumImpl.lognotFix ofU64 notU toU64 wrap64
    unfold inRange at ha
    congr 1
    trace_state
    sorry
example (a : Int) (ha : inRange a) (h0 : 0 ≤ a) : NumImpl.isqrtFix a = some (canonInt (Nat.sqrt a.toNat)) ∧ isqrt a = .ok (Nat.sqrt a.toNat : Int) := by
    have hn : ¬ a < 0 := by omega
    have hle : (Nat.sqrt a.toNat : Int) ≤ a := by
      have := Nat.sqrt_le_self a.toNat
      omega
    have hr : inRange (Nat.sqrt a.toNat : Int) := by unfold inRange at *; omega
    unfold NumImpl.isqrtFix isqrt canonInt
    simp only [hn, decide_false, if_false, Bool.false_eq_true]
    rw [wrap64_id _ hr, if_pos ((inRange_iff_isFix _).mp hr)]
    trace_state
    sorry
end GenC05
end SlipVerif.Num
