import SlipVerif.Model.Num
import SlipVerif.Gen.NumImpl
import SlipVerif.Lemmas.Num
import SlipVerif.Theorems.C05Impl
import Mathlib.Tactic.Linarith
import Mathlib.Tactic.Ring

namespace SlipVerif.Num
namespace Impl
open SlipVerif.Gen

/-- the common prelude `q = tn / d; r = tn - q*d` of the four rounding branches does not wrap -/
theorem div_prelude (a b : Int) (ha : inRange a) (hb : inRange b) (hb0 : b ≠ 0)
    (hab : ¬ (a = minFix ∧ b = -1)) :
    quoFix a b = Int.tdiv a b ∧ mulFix (Int.tdiv a b) b = Int.tdiv a b * b ∧
    subFix a (Int.tdiv a b * b) = Int.tmod a b ∧
    a - Int.tdiv a b * b = Int.tmod a b ∧
    (Int.tmod a b).natAbs < b.natAbs ∧ (0 ≤ a → 0 ≤ Int.tmod a b) ∧ (a ≤ 0 → Int.tmod a b ≤ 0) ∧
    (Int.tdiv a b).natAbs ≤ a.natAbs ∧
    (Int.tmod a b ≠ 0 → 2 * (Int.tdiv a b).natAbs ≤ a.natAbs) ∧
    (0 ≤ a → 0 < b → 0 ≤ Int.tdiv a b) ∧ (a ≤ 0 → b < 0 → 0 ≤ Int.tdiv a b) ∧
    (0 ≤ a → b < 0 → Int.tdiv a b ≤ 0) ∧ (a ≤ 0 → 0 < b → Int.tdiv a b ≤ 0) := by
  obtain ⟨e, habs, hs1, hs2⟩ := tdiv_facts a b hb0
  have hq : (Int.tdiv a b).natAbs = a.natAbs / b.natAbs := Int.natAbs_tdiv a b
  have hbpos : 0 < b.natAbs := Int.natAbs_pos.mpr hb0
  have hqle : (Int.tdiv a b).natAbs ≤ a.natAbs := by rw [hq]; exact Nat.div_le_self _ _
  have hrle : (Int.tmod a b).natAbs ≤ a.natAbs := by rw [Int.natAbs_tmod]; exact Nat.mod_le _ _
  have hqr : inRange (Int.tdiv a b) := by
    by_cases hm : b = -1
    · subst hm
      have : a ≠ minFix := fun h => hab ⟨h, rfl⟩
      unfold inRange minFix at *; simp; omega
    · exact tdiv_inRange a b ha hb0 hm
  have h1 : quoFix a b = Int.tdiv a b := by unfold quoFix; exact wrap64_id _ hqr
  have hprod : Int.tdiv a b * b = a - Int.tmod a b := by linarith
  have hpr : inRange (Int.tdiv a b * b) := by
    rw [hprod]; unfold inRange at *
    rcases le_total 0 a with h | h
    · have := hs1 h; omega
    · have := hs2 h; omega
  have h2 : mulFix (Int.tdiv a b) b = Int.tdiv a b * b := by unfold mulFix; exact wrap64_id _ hpr
  have h3 : subFix a (Int.tdiv a b * b) = Int.tmod a b := by
    unfold subFix; rw [e]; apply wrap64_id
    unfold inRange at *; omega
  have hhalf : Int.tmod a b ≠ 0 → 2 * (Int.tdiv a b).natAbs ≤ a.natAbs := by
    intro hr
    have h2b : 2 ≤ b.natAbs := by omega
    rw [hq]
    have : a.natAbs / b.natAbs * b.natAbs ≤ a.natAbs := Nat.div_mul_le_self _ _
    have : a.natAbs / b.natAbs * 2 ≤ a.natAbs / b.natAbs * b.natAbs := Nat.mul_le_mul_left _ h2b
    omega
  refine ⟨h1, h2, h3, e, habs, hs1, hs2, hqle, hhalf, ?_, ?_, ?_, ?_⟩
  · intro h1 h2; exact Int.tdiv_nonneg h1 (le_of_lt h2)
  · intro h1 h2
    have := Int.tdiv_nonneg (a := -a) (b := -b) (by omega) (by omega)
    simpa using this
  · intro h1 h2
    have := Int.tdiv_nonneg (a := a) (b := -b) h1 (by omega)
    simp at this; omega
  · intro h1 h2
    have := Int.tdiv_nonneg (a := -a) (b := b) (by omega) (by omega)
    simp at this; omega

theorem gen_floorFix_eq (a b : Int) (ha : inRange a) (hb : inRange b) (hb0 : b ≠ 0)
    (ham : a ≠ minFix) (hbm : b ≠ minFix) : NumImpl.floorFix a b = floorFixGo a b := by
  obtain ⟨h1, h2, h3, e, habs, hs1, hs2, hqle, hhalf, _⟩ := div_prelude a b ha hb hb0 (fun h => ham h.1)
  unfold NumImpl.floorFix floorFixGo
  simp only [h1, h2, h3, e, decide_eq_true_eq]
  generalize Int.tmod a b = r at *
  generalize Int.tdiv a b = q at *
  unfold inRange minFix at *
  by_cases c1 : 0 < b <;> by_cases c2 : r < 0 <;> simp only [c1, c2, if_true, if_false] <;>
    unfold addFix subFix wrap64 <;> congr 1 <;> omega

end Impl
end SlipVerif.Num
