import SlipVerif.Theorems.GenC05
namespace SlipVerif.Num
namespace Impl

theorem ediv_unique (n P q : Int) (hp : 0 < P) (h1 : q * P ≤ n) (h2 : n < (q + 1) * P) : n / P = q := by
  have a1 : n / P * P ≤ n := Int.ediv_mul_le n (ne_of_gt hp)
  have a2 : n < (n / P + 1) * P := Int.lt_ediv_add_one_mul_self n hp
  rcases lt_trichotomy (n / P) q with h | h | h
  · exfalso
    have : (n / P + 1) * P ≤ q * P := Int.mul_le_mul_of_nonneg_right (by omega) (le_of_lt hp)
    omega
  · exact h
  · exfalso
    have : (q + 1) * P ≤ (n / P) * P := Int.mul_le_mul_of_nonneg_right (by omega) (le_of_lt hp)
    omega

theorem shr_eq_div (n : Int) (m : Nat) : n >>> m = n / (2 : Int) ^ m := by
  rw [Int.shiftRight_eq_div_pow]; push_cast; rfl

theorem pow2_pos (m : Nat) : (0 : Int) < (2 : Int) ^ m := by positivity

theorem pow2_mono (i j : Nat) (h : i ≤ j) : (2 : Int) ^ i ≤ (2 : Int) ^ j := by
  exact_mod_cast Nat.pow_le_pow_right (by norm_num) h

/-- an arithmetic right shift of an int64 stays in the int64 range -/
theorem shr_inRange (n : Int) (m : Nat) (hn : inRange n) : inRange (n >>> m) := by
  rw [shr_eq_div]
  have hp := pow2_pos m
  have a1 : n / (2 : Int) ^ m * (2 : Int) ^ m ≤ n := Int.ediv_mul_le n (ne_of_gt hp)
  have a2 : n < (n / (2 : Int) ^ m + 1) * (2 : Int) ^ m := Int.lt_ediv_add_one_mul_self n hp
  unfold inRange at *
  rcases le_or_gt 0 n with h | h
  · have h1 : 0 ≤ n / (2 : Int) ^ m := Int.ediv_nonneg h (le_of_lt hp)
    have h2 : n / (2 : Int) ^ m ≤ n := Int.ediv_le_self _ h
    omega
  · have h1 : n / (2 : Int) ^ m < 0 := Int.ediv_neg_of_neg_of_pos h hp
    have h2 : n ≤ n / (2 : Int) ^ m := by
      by_contra hc
      have : (n / (2 : Int) ^ m + 1) ≤ n := by omega
      have h3 : (n / (2 : Int) ^ m + 1) * (2 : Int) ^ m ≤ (n / (2 : Int) ^ m + 1) * 1 :=
        Int.mul_le_mul_of_nonpos_left (by omega) (by omega)
      omega
    omega

/-- shifting an int64 right by 63 or more leaves only the sign -/
theorem shr_sat (n : Int) (j : Nat) (hj : 63 ≤ j) (hn : inRange n) : n >>> j = n >>> (63 : Nat) := by
  have key : ∀ k : Nat, 63 ≤ k → n >>> k = if n < 0 then -1 else 0 := by
    intro k hk
    rw [shr_eq_div]
    have hp := pow2_pos k
    have hm := pow2_mono 63 k hk
    unfold inRange at hn
    by_cases h : n < 0
    · rw [if_pos h]; apply ediv_unique _ _ _ hp <;> norm_num at hm ⊢ <;> omega
    · rw [if_neg h]; apply ediv_unique _ _ _ hp <;> norm_num at hm ⊢ <;> omega
  rw [key j hj]; exact (key 63 (le_refl _)).symm

end Impl
end SlipVerif.Num
