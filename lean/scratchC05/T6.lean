import SlipVerif.Theorems.GenC05
import Mathlib.Data.Nat.Sqrt
namespace SlipVerif.Num
namespace GenC05
open Impl SlipVerif.Gen

theorem gen_lognot_exact (a : Int) (ha : inRange a) :
    NumImpl.lognotFix a = canonInt (lnot a) ∧ NumImpl.lognotFix a = .fix (-a - 1) := by
  have h : NumImpl.lognotFix a = .fix (-a - 1) := by
    unfold NumImpl.lognotFix ofU64 notU toU64 wrap64
    unfold inRange at ha
    simp only []
    congr 1; omega
  refine ⟨?_, h⟩
  rw [h]; unfold canonInt lnot
  have : isFix (-a - 1) = true := by
    apply (inRange_iff_isFix _).mp; unfold inRange at *; omega
  rw [if_pos this]

theorem gen_zerop_spec (a : Int) : NumImpl.zeropFix a = zerop (a : Rat) := by
  unfold NumImpl.zeropFix zerop
  by_cases h : a = 0 <;> simp [h]

theorem gen_plusp_spec (a : Int) : NumImpl.pluspFix a = plusp (a : Rat) := by
  unfold NumImpl.pluspFix plusp
  by_cases h : 0 < a <;> simp [h]

theorem gen_minusp_spec (a : Int) : NumImpl.minuspFix a = minusp (a : Rat) := by
  unfold NumImpl.minuspFix minusp
  by_cases h : a < 0 <;> simp [h]

theorem tmod_two (a : Int) : Int.tmod a 2 = if 0 ≤ a then a % 2 else -((-a) % 2) := by
  by_cases h : 0 ≤ a
  · rw [if_pos h]; exact Int.tmod_eq_emod_of_nonneg h
  · rw [if_neg h]
    have : Int.tmod (-a) 2 = (-a) % 2 := Int.tmod_eq_emod_of_nonneg (by omega)
    have h2 : Int.tmod a 2 = -Int.tmod (-a) 2 := by rw [Int.neg_tmod]; simp
    rw [h2, this]

theorem gen_evenp_spec (a : Int) : NumImpl.evenpFix a = decide (a % 2 = 0) := by
  unfold NumImpl.evenpFix remFix
  rw [tmod_two]
  by_cases h : 0 ≤ a <;> by_cases h2 : a % 2 = 0 <;> simp [h, h2] <;> try omega

theorem gen_signum_spec (a : Int) : NumImpl.signumFix a = Int.sign a := by
  unfold NumImpl.signumFix
  rcases lt_trichotomy a 0 with h | h | h
  · have : ¬ 0 < a := by omega
    simp [h, this, Int.sign_eq_neg_one_of_neg h]
  · subst h; simp
  · simp [h, Int.sign_eq_one_of_pos h]

theorem gen_isqrt_spec (a : Int) (ha : inRange a) :
    (0 ≤ a → NumImpl.isqrtFix a = some (canonInt (Nat.sqrt a.toNat)) ∧ isqrt a = .ok (Nat.sqrt a.toNat : Int)) ∧
    (a < 0 → NumImpl.isqrtFix a = none ∧ isqrt a = .error .typeErr) := by
  constructor
  · intro h0
    have hn : ¬ a < 0 := by omega
    have hle : (Nat.sqrt a.toNat : Int) ≤ a := by
      have := Nat.sqrt_le_self a.toNat
      omega
    have hr : inRange (Nat.sqrt a.toNat : Int) := by unfold inRange at *; omega
    unfold NumImpl.isqrtFix isqrt canonInt
    simp only [hn, decide_false, if_false, Bool.false_eq_true]
    rw [wrap64_id _ hr, if_pos ((inRange_iff_isFix _).mp hr)]
    exact ⟨rfl, trivial⟩
  · intro h
    unfold NumImpl.isqrtFix isqrt
    simp [h]

end GenC05
end SlipVerif.Num
