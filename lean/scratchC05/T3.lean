import SlipVerif.Model.Num
import SlipVerif.Gen.NumImpl
import SlipVerif.Lemmas.Num
import SlipVerif.Theorems.C05Impl
import Mathlib.Tactic.Linarith
import Mathlib.Tactic.Ring
import Mathlib.Data.Rat.Floor

namespace SlipVerif.Num
namespace Impl
open SlipVerif.Gen

theorem floor_unique (x : Rat) (q : Int) (h1 : (q : Rat) ≤ x) (h2 : x < (q : Rat) + 1) : x.floor = q := by
  have a : q ≤ x.floor := Rat.le_floor_iff.mpr h1
  have b : x.floor < q + 1 := by
    have := Rat.floor_le x
    have h3 : ((x.floor : Int) : Rat) < ((q + 1 : Int) : Rat) := by push_cast; linarith
    exact_mod_cast h3
  omega

theorem ceil_unique (x : Rat) (q : Int) (h1 : (q : Rat) - 1 < x) (h2 : x ≤ (q : Rat)) : ceil x = q := by
  unfold ceil
  have := floor_unique (-x) (-q) (by push_cast; linarith) (by push_cast; linarith)
  omega

theorem roundI_unique (x : Rat) (q : Int) (h1 : (q : Rat) - 1/2 ≤ x) (h2 : x ≤ (q : Rat) + 1/2)
    (h3 : (x = (q : Rat) - 1/2 ∨ x = (q : Rat) + 1/2) → q % 2 = 0) : roundI x = q := by
  unfold roundI
  simp only
  rcases lt_or_ge x (q : Rat) with hlt | hge
  · -- floor x = q - 1
    have hf : x.floor = q - 1 := floor_unique x (q - 1) (by push_cast; linarith) (by push_cast; linarith)
    rw [hf]; push_cast
    by_cases c1 : x - ((q : Rat) - 1) < 1 / 2
    · exfalso; linarith
    · rw [if_neg c1]
      by_cases c2 : 1 / 2 < x - ((q : Rat) - 1)
      · rw [if_pos c2]; ring
      · rw [if_neg c2]
        have : x = (q : Rat) - 1/2 := by linarith
        have := h3 (Or.inl this)
        have c3 : ¬ ((q - 1) % 2 = 0) := by omega
        rw [if_neg c3]; ring
  · have hf : x.floor = q := floor_unique x q hge (by linarith)
    rw [hf]
    by_cases c1 : x - (q : Rat) < 1 / 2
    · rw [if_pos c1]
    · rw [if_neg c1]
      have : x = (q : Rat) + 1/2 := by linarith
      have he := h3 (Or.inr this)
      have c2 : ¬ (1 / 2 < x - (q : Rat)) := by linarith
      rw [if_neg c2, if_pos he]

/-- an integer quotient/remainder pair that satisfies the division identity, and whose quotient the
    rounding function selects, is the result of the spec's division -/
theorem divBy_of_identity (rnd : Rat → Int) (a b q r : Int) (hb : b ≠ 0) (hid : a = q * b + r)
    (hq : rnd ((a : Rat) / (b : Rat)) = q) : divBy rnd (a : Rat) (b : Rat) = .ok (q, (r : Rat)) := by
  unfold divBy
  have hb' : (b : Rat) ≠ 0 := by exact_mod_cast hb
  rw [if_neg hb']
  simp only [hq]
  congr 2
  have : (r : Rat) = (a : Rat) - (q : Rat) * (b : Rat) := by
    have : r = a - q * b := by linarith
    rw [this]; push_cast; ring
  rw [this]

end Impl
end SlipVerif.Num
