#!/bin/bash
# lane.sh <lane> <job>…  ; job = q:<seed> | t:<seed> | m:<patchfile>
lane=$1; shift
export GOFLAGS=-mod=mod GOPROXY=off
export VERIF_WORK=/var/tmp/c14-w$lane
cd /var/tmp/vw-C14
FIX=/var/tmp/c14-fix
OUT=/var/tmp/vw-C14/.work-seeds
for job in "$@"; do
  kind=${job%%:*}; arg=${job#*:}
  case $kind in
  q|t)
    tier=quick; [ $kind = t ] && tier=thorough
    VERIF_REPO=$FIX ./check C14 --tier $tier --seed $arg > $OUT/$kind$arg.out 2>&1; rc=$?
    echo "$kind:$arg exit=$rc violations=$(grep -c '^VIOLATION' $OUT/$kind$arg.out) known=$(grep -c KNOWN-FINDING $OUT/$kind$arg.out)" >> $OUT/results.txt
    ;;
  m)
    wt=/var/tmp/c14-mutL$lane
    [ -d $wt ] || git -C /repo worktree add -q --detach $wt $(git -C $FIX rev-parse HEAD)
    git -C $wt checkout -q -- . ; git -C $wt clean -fdq
    name=$(basename $(dirname $arg))-$(basename $arg .diff)
    if git -C $wt apply $arg; then
      VERIF_REPO=$wt VERIF_C14_DUMP=$OUT/dump-$name.tsv ./check C14 --seed 1 > $OUT/m-$name.out 2>&1; rc=$?
      echo "m:$name exit=$rc violations=$(grep -c '^VIOLATION' $OUT/m-$name.out) genbroken=$(grep -c 'gen-broken\|obligation' $OUT/m-$name.out) sigs=$(cut -f1 $OUT/dump-$name.tsv 2>/dev/null | sort -u | head -3 | tr '\n' ';')" >> $OUT/results.txt
    else
      echo "m:$name PATCH DOES NOT APPLY" >> $OUT/results.txt
    fi
    git -C $wt checkout -q -- . ; git -C $wt clean -fdq
    ;;
  esac
done
echo "lane $lane done" >> $OUT/results.txt
