module verif/harness

go 1.25

require (
	github.com/ohler55/ojg v1.27.0
	github.com/ohler55/slip v0.0.0
)

require (
	golang.org/x/sys v0.35.0 // indirect
	golang.org/x/term v0.34.0 // indirect
	golang.org/x/text v0.28.0 // indirect
)

replace github.com/ohler55/slip => /repo
