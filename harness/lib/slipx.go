// Package lib holds the shared parts of the correspondence harness: running the real slip
// implementation in-process, the PRNG, the model driver pipe, evidence and known findings.
package lib

import (
	"fmt"
	"regexp"
	"strings"

	"github.com/ohler55/slip"
	// pull in every slip package so that all built-ins are defined
	_ "github.com/ohler55/slip/pkg"
)

// Outcome is the canonical observation of one evaluation on the implementation.
type Outcome struct {
	Ok      bool
	Value   slip.Object // when Ok
	Text    string      // printed value (ObjectString) when Ok
	Class   string      // condition class (lower case) when !Ok
	Msg     string      // condition message when !Ok (never compared, only classified)
	GoFault bool        // the condition message carries a Go runtime signature
}

func (o Outcome) String() string {
	if o.Ok {
		return "ok " + o.Text
	}
	return "err " + o.Class
}

var goFaultRe = regexp.MustCompile(`runtime error|interface conversion|hash of unhashable|invalid memory address|index out of range|slice bounds out of range|nil pointer|unhashable type|makeslice|nil map`)

// Protect runs fn, turning slip panics into an Outcome.
func Protect(fn func() slip.Object) (out Outcome) {
	defer func() {
		if r := recover(); r != nil {
			out.Ok = false
			switch tr := r.(type) {
			case *slip.Panic:
				out.Class = strings.ToLower(string(tr.Hierarchy()[0]))
				out.Msg = tr.Message
				if tr.Condition != nil {
					if mv, has := tr.Condition.SlotValue(slip.Symbol("message")); has {
						if ms, ok := mv.(slip.String); ok && out.Msg == "" {
							out.Msg = string(ms)
						}
					}
				}
			case slip.Instance:
				out.Class = strings.ToLower(string(tr.Hierarchy()[0]))
				if mv, has := tr.SlotValue(slip.Symbol("message")); has {
					out.Msg = slip.ObjectString(mv)
				}
			case error:
				out.Class = "go-error"
				out.Msg = tr.Error()
			default:
				out.Class = "go-panic"
				out.Msg = fmt.Sprint(r)
			}
			if goFaultRe.MatchString(out.Msg) {
				out.GoFault = true
			}
		}
	}()
	v := fn()
	out.Ok = true
	out.Value = v
	out.Text = slip.ObjectString(v)
	return
}

// EvalString reads and evaluates every form of src in scope and returns the last value.
func EvalString(scope *slip.Scope, src string) Outcome {
	return Protect(func() slip.Object {
		code := slip.ReadString(src, scope)
		var result slip.Object
		for _, obj := range code {
			result = scope.Eval(obj, 0)
		}
		return result
	})
}

// EvalCompiled reads src, compiles it (Code.Compile) and evaluates it.
func EvalCompiled(scope *slip.Scope, src string) Outcome {
	return Protect(func() slip.Object {
		code := slip.ReadString(src, scope)
		code.Compile()
		return code.Eval(scope, nil)
	})
}

// TypeOf returns the (type-of obj) symbol text, lower case.
func TypeOf(scope *slip.Scope, obj slip.Object) string {
	if obj == nil {
		return "null"
	}
	return strings.ToLower(string(obj.Hierarchy()[0]))
}
