package lib

import (
	"bufio"
	"bytes"
	"encoding/json"
	"fmt"
	"math/big"
	"os"
	"os/exec"
	"path/filepath"
	"sort"
	"strings"
	"time"
)

// ---------------------------------------------------------------------------------------------
// PRNG: splitmix64; every random choice of a run derives from VERIF_SEED through this.

type Rng struct{ s uint64 }

// NewRng seeds a generator. The seed goes through the splitmix finaliser first: the state advances
// by a fixed constant per draw, so without mixing the streams of adjacent seeds would be shifted
// copies of each other.
func NewRng(seed uint64) *Rng {
	z := seed + 0x1234567
	z = (z ^ (z >> 30)) * 0xBF58476D1CE4E5B9
	z = (z ^ (z >> 27)) * 0x94D049BB133111EB
	z ^= z >> 31
	return &Rng{s: z ^ 0xD6E8FEB86659FD93}
}

func (r *Rng) U64() uint64 {
	r.s += 0x9E3779B97F4A7C15
	z := r.s
	z = (z ^ (z >> 30)) * 0xBF58476D1CE4E5B9
	z = (z ^ (z >> 27)) * 0x94D049BB133111EB
	return z ^ (z >> 31)
}
func (r *Rng) Intn(n int) int {
	if n <= 0 {
		return 0
	}
	return int(r.U64() % uint64(n))
}
func (r *Rng) Bool() bool              { return r.U64()&1 == 1 }
func (r *Rng) Chance(p int) bool       { return r.Intn(100) < p }
func (r *Rng) Pick(xs []string) string { return xs[r.Intn(len(xs))] }

// BigBits returns a uniformly random signed integer of up to bits bits.
func (r *Rng) BigBits(bits int) *big.Int {
	n := new(big.Int)
	for i := 0; i < (bits+63)/64; i++ {
		n.Lsh(n, 64)
		n.Or(n, new(big.Int).SetUint64(r.U64()))
	}
	n.Rsh(n, uint((64-bits%64)%64))
	if r.Bool() {
		n.Neg(n)
	}
	return n
}

// ---------------------------------------------------------------------------------------------
// Run context

type Ctx struct {
	Prop      string
	Tier      string // quick | thorough
	Seed      uint64
	Root      string // /verif
	Repo      string
	ModelBin  string
	OutDir    string // .work/run/<id>
	Replay    string // path of a replay file to re-run (optional)
	GenBroken string // generated obligation module that no longer builds (witness search wanted)
	Start     time.Time
	Rng       *Rng
	Ev        *Evidence
	Findings  *Findings
	// results
	Violations []Violation
	KnownHit   map[string]int
}

type Violation struct {
	Signature string
	Replay    map[string]any
	NoInput   bool // no-failing-input-found
}

func (c *Ctx) Thorough() bool { return c.Tier == "thorough" }

// Scale picks a size by tier.
func (c *Ctx) Scale(quick, thorough int) int {
	if c.Thorough() {
		return thorough
	}
	return quick
}

// Report records a disagreement: either a listed known finding (counted) or a violation.
// Only sweep cells may be excused; pass sweep=false for composite cases.
func (c *Ctx) Report(signature string, sweep bool, replay map[string]any) {
	if sweep {
		if f := c.Findings.Match(c.Prop, signature); f != nil {
			c.KnownHit[signature]++
			return
		}
	}
	for _, v := range c.Violations {
		if v.Signature == signature {
			return // one replay per signature
		}
	}
	replay["signature"] = signature
	c.Violations = append(c.Violations, Violation{Signature: signature, Replay: replay})
}

// ReportBroken records a broken obligation / correspondence for which no failing input exists.
func (c *Ctx) ReportBroken(name string, detail map[string]any) {
	detail["kind"] = "no-failing-input-found"
	detail["broken"] = name
	c.Violations = append(c.Violations, Violation{Signature: "broken=" + name, Replay: detail, NoInput: true})
}

// Finish writes replay files, evidence, prints verdict lines and returns the exit code.
func (c *Ctx) Finish() int {
	if c.Replay != "" {
		// replay mode: nothing is written; exit 1 iff the recorded case still fails
		if len(c.Violations) > 0 {
			fmt.Printf("VIOLATION property=%s replay=%s\n", c.Prop, c.Replay)
			return 1
		}
		fmt.Printf("replay of %s: the recorded case no longer fails\n", c.Replay)
		return 0
	}
	// known findings that were hit
	sigs := make([]string, 0, len(c.KnownHit))
	for s := range c.KnownHit {
		sigs = append(sigs, s)
	}
	sort.Strings(sigs)
	hit := []string{}
	for _, s := range sigs {
		f := c.Findings.Match(c.Prop, s)
		fmt.Printf("KNOWN-FINDING: property=%s %s [%s]\n", c.Prop, f.WhatFails, s)
		hit = append(hit, s)
	}
	c.Ev.Coverage["known_findings_hit"] = hit
	notHit := []string{}
	for _, f := range c.Findings.Findings {
		if f.Property == c.Prop && c.KnownHit[f.Signature] == 0 {
			notHit = append(notHit, f.Signature)
		}
	}
	c.Ev.Coverage["known_findings_not_hit"] = notHit
	_ = os.MkdirAll(filepath.Join(c.Root, "replay"), 0o755)
	for i, v := range c.Violations {
		if i >= 25 {
			// every violation is counted in the evidence; only the first 25 get a replay file and line
			break
		}
		v.Replay["property"] = c.Prop
		v.Replay["seed"] = c.Seed
		v.Replay["tier"] = c.Tier
		if _, has := v.Replay["kind"]; !has {
			v.Replay["kind"] = "witness"
		}
		path := filepath.Join(c.Root, "replay", fmt.Sprintf("%s-%d-%d.json", c.Prop, c.Seed, i))
		b, _ := json.MarshalIndent(v.Replay, "", " ")
		_ = os.WriteFile(path, b, 0o644)
		if v.NoInput {
			fmt.Printf("VIOLATION property=%s replay=%s no-failing-input-found\n", c.Prop, path)
		} else {
			fmt.Printf("VIOLATION property=%s replay=%s\n", c.Prop, path)
		}
	}
	c.Ev.Violations = len(c.Violations)
	c.Ev.WallS = time.Since(c.Start).Seconds()
	c.Ev.Write(filepath.Join(c.OutDir, "harness-evidence.json"))
	if len(c.Violations) > 0 {
		return 1
	}
	return 0
}

// ---------------------------------------------------------------------------------------------
// Evidence (the harness part; ./check merges the proof part in)

type Evidence struct {
	PropertyID  string         `json:"property_id"`
	Tier        string         `json:"tier"`
	Seed        int64          `json:"seed"`
	Level       string         `json:"level"`
	Coverage    map[string]any `json:"coverage"`
	Assumptions []string       `json:"assumptions"`
	WallS       float64        `json:"wall_s"`
	Violations  int            `json:"violations"`
	distinct    map[string]bool
	samples     []any
}

func NewEvidence(prop, tier string, seed uint64) *Evidence {
	return &Evidence{PropertyID: prop, Tier: tier, Seed: int64(seed), Level: "proof",
		Coverage: map[string]any{}, Assumptions: []string{}, distinct: map[string]bool{}}
}

// Count increments an integer counter in coverage (histograms use "hist.<name>.<bucket>").
func (e *Evidence) Count(key string, n int) {
	if v, ok := e.Coverage[key].(int); ok {
		e.Coverage[key] = v + n
	} else {
		e.Coverage[key] = n
	}
}

// Hist increments bucket of histogram name.
func (e *Evidence) Hist(name, bucket string) {
	h, ok := e.Coverage["hist_"+name].(map[string]int)
	if !ok {
		h = map[string]int{}
		e.Coverage["hist_"+name] = h
	}
	h[bucket]++
}

// Case records one evaluated case; key identifies it for distinctness; nontrivial by the
// property's rule.
func (e *Evidence) Case(key string, nontrivial bool) {
	e.Count("evaluations", 1)
	if nontrivial && !e.distinct[key] {
		e.distinct[key] = true
	}
}

func (e *Evidence) Sample(s any) {
	if len(e.samples) < 12 {
		e.samples = append(e.samples, s)
	}
}

func (e *Evidence) Write(path string) {
	e.Coverage["distinct_nontrivial"] = len(e.distinct)
	if _, ok := e.Coverage["evaluations"]; !ok {
		e.Coverage["evaluations"] = 0
	}
	e.Coverage["samples"] = e.samples
	b, _ := json.MarshalIndent(e, "", " ")
	_ = os.MkdirAll(filepath.Dir(path), 0o755)
	_ = os.WriteFile(path, b, 0o644)
}

// ---------------------------------------------------------------------------------------------
// Known findings

type Finding struct {
	Property  string `json:"property"`
	Signature string `json:"signature"`
	WhatFails string `json:"what_fails"`
	Replay    string `json:"replay"`
	FirstSeen string `json:"first_seen"`
}

type Findings struct {
	Findings []Finding `json:"findings"`
	Fixed    []string  `json:"fixed"`
}

// LoadFindings reads every /verif/findings/*.json (one file per property; committed, read-only
// at run time).
func LoadFindings(dir string) *Findings {
	all := &Findings{}
	files, _ := filepath.Glob(filepath.Join(dir, "*.json"))
	sort.Strings(files)
	for _, path := range files {
		f := &Findings{}
		b, err := os.ReadFile(path)
		if err == nil {
			if err = json.Unmarshal(b, f); err != nil {
				fmt.Fprintf(os.Stderr, "%s: %v\n", path, err)
				os.Exit(2)
			}
		}
		all.Findings = append(all.Findings, f.Findings...)
		all.Fixed = append(all.Fixed, f.Fixed...)
	}
	return all
}

func (f *Findings) Match(prop, sig string) *Finding {
	for i := range f.Findings {
		if f.Findings[i].Property == prop && f.Findings[i].Signature == sig {
			return &f.Findings[i]
		}
	}
	return nil
}

// Listed reports whether any finding of prop has the given signature prefix (used by composite
// generators to avoid listed constructs).
func (f *Findings) Listed(prop, sigPrefix string) bool {
	for i := range f.Findings {
		if f.Findings[i].Property == prop && strings.HasPrefix(f.Findings[i].Signature, sigPrefix) {
			return true
		}
	}
	return false
}

// ---------------------------------------------------------------------------------------------
// Model driver: one request per line, one reply per line.

// Model runs the lines through the compiled Lean model driver and returns the reply lines.
func (c *Ctx) Model(lines []string) []string {
	if len(lines) == 0 {
		return nil
	}
	var in bytes.Buffer
	for _, l := range lines {
		if strings.ContainsAny(l, "\n\r") {
			fmt.Fprintf(os.Stderr, "harness bug: request line contains a newline: %q\n", l)
			os.Exit(2)
		}
		in.WriteString(l)
		in.WriteByte('\n')
	}
	cmd := exec.Command(c.ModelBin)
	cmd.Stdin = &in
	var out bytes.Buffer
	cmd.Stdout = &out
	cmd.Stderr = os.Stderr
	if err := cmd.Run(); err != nil {
		fmt.Fprintf(os.Stderr, "model driver failed: %v\n", err)
		os.Exit(2)
	}
	var res []string
	sc := bufio.NewScanner(&out)
	sc.Buffer(make([]byte, 1<<20), 1<<28)
	for sc.Scan() {
		res = append(res, sc.Text())
	}
	if len(res) != len(lines) {
		fmt.Fprintf(os.Stderr, "model driver: %d requests, %d replies\n", len(lines), len(res))
		os.Exit(2)
	}
	for i, r := range res {
		if strings.HasPrefix(r, "bad-request") {
			fmt.Fprintf(os.Stderr, "model driver rejected request %q: %s\n", lines[i], r)
			os.Exit(2)
		}
	}
	return res
}

// Hex encodes a string for the line protocol.
func Hex(s string) string {
	if s == "" {
		return "-"
	}
	return fmt.Sprintf("%x", s)
}

// Unhex decodes a line-protocol string.
func Unhex(h string) string {
	if h == "-" {
		return ""
	}
	var b []byte
	_, _ = fmt.Sscanf(h, "%x", &b)
	return string(b)
}

// ReadJSON loads a JSON file into v.
func ReadJSON(path string, v any) error {
	b, err := os.ReadFile(path)
	if err != nil {
		return err
	}
	return json.Unmarshal(b, v)
}
