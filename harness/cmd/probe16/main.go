package main

import (
	"fmt"
	"sort"
	"strings"

	"github.com/ohler55/slip"
	"verif/harness/lib"
)

func main() {
	scope := slip.NewScope()
	var names []string
	cm := map[string]slip.Class{}
	for _, c := range slip.CurrentPackage.AllClasses() {
		names = append(names, c.Name())
		cm[c.Name()] = c
	}
	sort.Strings(names)
	fmt.Println(len(names), "classes in", slip.CurrentPackage.Name)
	for _, n := range names {
		var sup []string
		for _, m := range names {
			if n != m && cm[n].Inherits(cm[m]) {
				sup = append(sup, m)
			}
		}
		fmt.Printf("%s [%s] < %s\n", n, cm[n].Metaclass(), strings.Join(sup, " "))
	}
	pool := []string{"5", "18446744073709551616", "1/2", "1.5s0", "1.5d0", "1.5L0", "#C(1 2)", `"abc"`, "'abc", ":key", `#\a`, "'(1 2)", "'(1 . 2)", "nil", "#(1 2)",
		"(make-array '(2 2))", "(make-hash-table)", "(coerce 5 'octet)", "(coerce 1 'bit)", "(coerce 5 'signed-byte)", "(coerce 5 'unsigned-byte)", "(coerce '(1 2) 'octets)", "#*1010", "(make-string-output-stream)",
		"*package*", "(lambda (x) x)", "#'car", "(find-class 'fixnum)", "(make-condition 'error)", "(make-instance 'vanilla-flavor)", "t", "*standard-output*", "(now)"}
	for _, p := range pool {
		o := lib.EvalString(scope, p)
		if !o.Ok {
			fmt.Println("POOL-ERR", p, o.Class, o.Msg)
			continue
		}
		var h []string
		if o.Value != nil {
			for _, s := range o.Value.Hierarchy() {
				h = append(h, string(s))
			}
		}
		scope.Let(slip.Symbol("x"), o.Value)
		to := lib.EvalString(scope, "(type-of x)")
		var tp []string
		for _, n := range names {
			r := lib.EvalString(scope, "(typep x '"+n+")")
			if r.Ok && r.Value != nil {
				tp = append(tp, n)
			} else if !r.Ok {
				tp = append(tp, "ERR:"+n)
			}
		}
		fmt.Printf("%-32s %T type-of=%s hier=%v typep=%v\n", p, o.Value, to.String(), h, tp)
	}
}
