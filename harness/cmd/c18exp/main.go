package main

import (
	"fmt"
	"os"
	"bufio"

	"github.com/ohler55/slip"
	_ "github.com/ohler55/slip/pkg"
	"verif/harness/lib"
)

func main() {
	s := slip.NewScope()
	sc := bufio.NewScanner(os.Stdin)
	sc.Buffer(make([]byte, 1<<20), 1<<20)
	for sc.Scan() {
		line := sc.Text()
		if line == "" { continue }
		o := lib.EvalString(s, line)
		if o.Ok {
			fmt.Printf("%s\n   => %s\n", line, slip.ObjectString(o.Value))
		} else {
			fmt.Printf("%s\n   => ERR %s %s\n", line, o.Class, o.Msg)
		}
	}
}
